(* C08 — full model, part 2: expressions and statements.  Parser (open recursion over the parser's
   functions, fuel computed from the input), printer with a parenthesisation decision `dec`, the
   implementation's decisions, the known classes.  Definitions only.

   Code mirrored (crates/samlang-parser/src/source_parser.rs, expression_parser):
     parse_expression / parse_match / parse_pattern_to_expression           -> MLevel 0, arms_loop
     parse_if_else_or_higher_precedence / parse_if_else                     -> ifelse
     parse_disjunction .. parse_concat (+ _with_start)                      -> MLevel 1..6, MLoop
     parse_unary_expression                                                 -> MLevel 7
     parse_function_call_or_field_access(_with_start)                       -> MLevel 8, MPost
     parse_expression_from_base                                             -> MFromBase, MChain
     parse_base_expression (+ _single_token): literals, ids, the `(` paths  -> MLevel 9, paren_expr, cover, cover_end
       (`()` lambda; `( id :` annotated lambda; `( id ,` cover grammar lambda/tuple; `( id )` lambda or id;
        `( id <other>` parenthesised expression or tuple through parse_expression_from_base; anything else
        through parse_parenthesized_expression_list_with_start)
     parse_parenthesized_expression_list(_with_start), collect_remaining_and_build_tuple -> paren_list, collect
     parse_block / parse_statement                                          -> block, block_loop, let_stmt
   Printer (crates/samlang-printer/src/source_printer.rs): create_doc_without_preceding_comment and what it
   calls, as token sequences.  A syntax error is `None`.  MAX_STRUCT_SIZE = 16 is modelled; the nesting limit
   (200) is not. *)
From Coq Require Import List Arith Bool NArith ZArith.
Import ListNotations.
From SV Require Import C08.Syntax C08.Model C08.Lit C08.FSyntax C08.FModelTypes.
From SVG Require Import PrecTable.

Inductive mode :=
| MLevel (k : nat)
| MLoop (k : nat) (e : fexpr)
| MPost (e : fexpr)
| MChain (k : nat) (e : fexpr)
| MFromBase (e : fexpr).

Definition erec := mode -> list tok -> presult fexpr.
Definition pexpr := list tok -> presult fexpr.

Definition MAX_STRUCT_SIZE : nat := 16.

(* the tokens that start another match arm *)
Definition starts_pat (t : tok) : bool :=
  match t with TP LBrace | TP LParen | TP Under | TLow _ | TUp _ => true | _ => false end.

(* literal tokens as the lexer can produce them (C06 literal gate, C08/Lit.v): an int literal is in range (or the merged
   -2147483648), a string literal's interior is one the lexer walks over; other literal tokens cannot reach the parser
   and are rejected here *)
Definition int_ok (z : Z) : bool := ((0 <=? z) && (z <=? MAX) || (z =? MIN))%Z.
(* the value of an accepted string literal: its escaped form is a literal interior and unescapes to it *)
Definition str_ok (s : list N) : bool :=
  match walk (escape s) false with
  | Some false => nstr_eqb (unescape (escape s)) s
  | _ => false
  end.
Definition lit_ok (l : lit) : bool :=
  match l with LInt z => int_ok z | LStr s => str_ok s | LBool _ => true end.


Section Expr.
Variable tps : list nat.        (* available_tparams while the member is parsed *)

(* type_parser::parse_optional_annotation / parse_optionally_annotated_id *)
Definition opt_annot (ts : list tok) : presult (option annot) :=
  if hd_is (is_p Colon) ts then
    do r0 <- expect Colon ts;
    do (a, r1) <- parse_annot tps r0;
    Some (Some a, r1)
  else Some (None, ts).

Definition opt_annot_id (ts : list tok) : presult (nat * option annot) :=
  match ts with
  | TLow n :: r => do (a, r') <- opt_annot r; Some ((n, a), r')
  | _ => None
  end.

(* parse_parenthesized_expression_list_with_start, after the `(`; limit = Some 16 for tuples *)
Definition paren_list (pe : pexpr) (limit : option nat) (ts : list tok) : presult (list fexpr) :=
  if hd_is (is_p RParen) ts then
    do r <- expect RParen ts; Some ([], r)
  else
    do (es, r0) <- seplist pe (is_p RParen) (S (length ts)) ts;
    if match limit with Some m => m <? length es | None => false end then None
    else do r <- expect RParen r0; Some (es, r).

(* collect_remaining_and_build_tuple *)
Definition collect (pe : pexpr) (es : list fexpr) (ts : list tok) : presult fexpr :=
  do (more, r0) <- seprest pe (is_p RParen) (S (length ts)) ts;
  if MAX_STRUCT_SIZE <? length (es ++ more) then None
  else
    do r <- expect RParen r0;
    match es ++ more with
    | [_] => None                       (* `(e,)`: there is no one-element tuple *)
    | all => Some (XTuple all, r)
    end.

(* parse_statement *)
Definition let_stmt (pe : pexpr) (ts : list tok) : presult stmt :=
  do r0 <- expect_kw KLet ts;
  do (p, r1) <- parse_pat r0;
  do (a, r2) <- opt_annot r1;
  do r3 <- expect Assign r2;
  do (e, r4) <- pe r3;
  do r5 <- expect Semi r4;
  Some ((Some (p, a), e), r5).

(* the loop of parse_block, after the `{` *)
Fixpoint block_loop (pe : pexpr) (n : nat) (ts : list tok) : presult (list stmt * option fexpr) :=
  match n with
  | O => None
  | S n' =>
      match ts with
      | [] => None
      | TK KLet :: _ =>
          do (s, r) <- let_stmt pe ts;
          do (b, r') <- block_loop pe n' r;
          Some ((s :: fst b, snd b), r')
      | TP RBrace :: r => Some (([], None), r)
      | TP Semi :: r => block_loop pe n' r
      | _ =>
          do (e, r) <- pe ts;
          if hd_is (is_p Semi) r then
            do r0 <- expect Semi r;
            do (b, r') <- block_loop pe n' r0;
            Some (((None, e) :: fst b, snd b), r')
          else
            do r0 <- expect RBrace r;
            Some (([], Some e), r0)
      end
  end.

Definition block (pe : pexpr) (ts : list tok) : presult fexpr :=
  do r0 <- expect LBrace ts;
  do (b, r) <- block_loop pe (S (length r0)) r0;
  Some (XBlock (fst b) (snd b), r).

(* parse_if_else *)
Fixpoint ifelse (pe : pexpr) (n : nat) (ts : list tok) : presult fexpr :=
  match n with
  | O => None
  | S n' =>
      do r0 <- expect_kw KIf ts;
      do (gc, r1) <- (if hd_is (is_kw KLet) r0 then
                        do q0 <- expect_kw KLet r0;
                        do (p, q1) <- parse_pat q0;
                        do q2 <- expect Assign q1;
                        do (c, q3) <- pe q2;
                        Some ((Some p, c), q3)
                      else do (c, q3) <- pe r0; Some ((None, c), q3));
      do (b1, r2) <- block pe r1;
      do r3 <- expect_kw KElse r2;
      do (e2, r4) <- (if hd_is (is_kw KIf) r3 then ifelse pe n' r3 else block pe r3);
      Some (XIf (fst gc) (snd gc) b1 e2, r4)
  end.

(* parse_pattern_to_expression and the `while` around it *)
Fixpoint arms_loop (pe : pexpr) (n : nat) (ts : list tok) : presult (list arm) :=
  match n with
  | O => None
  | S n' =>
      do (p, r1) <- parse_pat ts;
      do r2 <- expect Arrow r1;
      do (b, r3) <- pe r2;
      do r4 <- (if hd_is (is_p RBrace) r3 then Some r3 else expect Comma r3);
      if hd_is starts_pat r4 then
        do (l, r5) <- arms_loop pe n' r4;
        Some ((p, b) :: l, r5)
      else Some ([(p, b)], r4)
  end.

(* the end of the `( id , id , ..` cover: `)` then `->` decides lambda / tuple of identifiers *)
Definition cover_end (pe : pexpr) (ids : list nat) (ts : list tok) : presult fexpr :=
  do r0 <- expect RParen ts;
  if hd_is (is_p Arrow) r0 then
    do r1 <- expect Arrow r0;
    do (b, r2) <- pe r1;
    Some (XLam (map (fun i => (i, None)) ids) b, r2)
  else if MAX_STRUCT_SIZE <? length ids then None      (* since 70138aa the tuple of identifiers is limited as well; the lambda is not *)
  else
    match ids with
    | [_] => None                       (* `(a,)` *)
    | _ => Some (XTuple (map XId ids), r0)
    end.

(* the tail of an annotated lambda: parameters after the first annotated one, `)`, `->`, body *)
Definition lambda_rest (pe : pexpr) (before : list (nat * option annot)) (ts : list tok) : presult fexpr :=
  do (ps, r0) <- seprest opt_annot_id (is_p RParen) (S (length ts)) ts;
  do r1 <- expect RParen r0;
  do r2 <- expect Arrow r1;
  do (b, r3) <- pe r2;
  Some (XLam (before ++ ps) b, r3).

(* the `while peek == Comma` loop of the `( id ,` path; ts starts at the comma *)
Fixpoint cover (rec : erec) (n : nat) (ids : list nat) (ts : list tok) : presult fexpr :=
  match n with
  | O => None
  | S n' =>
      match ts with
      | TP Comma :: r =>
          match r with
          | TLow y :: r1 =>
              if hd_is (is_p Comma) r1 then cover rec n' (ids ++ [y]) r1
              else if hd_is (is_p RParen) r1 then cover_end (rec (MLevel 0)) (ids ++ [y]) r1
              else if hd_is (is_p Colon) r1 then
                do (a, r2) <- opt_annot r1;
                lambda_rest (rec (MLevel 0)) (map (fun i => (i, None)) ids ++ [(y, a)]) r2
              else
                do (e, r2) <- rec (MFromBase (XId y)) r1;
                collect (rec (MLevel 0)) (map XId ids ++ [e]) r2
          | _ =>
              if hd_is (is_p RParen) r then cover_end (rec (MLevel 0)) ids r
              else
                do (e, r2) <- rec (MLevel 0) r;
                collect (rec (MLevel 0)) (map XId ids ++ [e]) r2
          end
      | _ => cover_end (rec (MLevel 0)) ids ts
      end
  end.

(* parse_base_expression after the `(` *)
Definition paren_expr (rec : erec) (ts : list tok) : presult fexpr :=
  if hd_is (is_p RParen) ts then
    do r0 <- expect RParen ts;
    do r1 <- expect Arrow r0;
    do (b, r2) <- rec (MLevel 0) r1;
    Some (XLam [] b, r2)
  else
    match ts with
    | TLow x :: r1 =>
        if hd_is (is_p Colon) r1 then
          do (a, r2) <- opt_annot r1;
          lambda_rest (rec (MLevel 0)) [(x, a)] r2
        else if hd_is (is_p Comma) r1 then cover rec (S (length r1)) [x] r1
        else if hd_is (is_p RParen) r1 then
          do r2 <- expect RParen r1;
          if hd_is (is_p Arrow) r2 then
            do r3 <- expect Arrow r2;
            do (b, r4) <- rec (MLevel 0) r3;
            Some (XLam [(x, None)] b, r4)
          else Some (XId x, r2)
        else
          do (e1, r2) <- rec (MFromBase (XId x)) r1;
          if hd_is (is_p Comma) r2 then collect (rec (MLevel 0)) [e1] r2
          else do r3 <- expect RParen r2; Some (e1, r3)
    | _ =>
        do (es, r1) <- paren_list (rec (MLevel 0)) (Some MAX_STRUCT_SIZE) ts;
        match es with
        | [e] => Some (e, r1)
        | _ => Some (XTuple es, r1)
        end
    end.

Definition base_expr (rec : erec) (ts : list tok) : presult fexpr :=
  match ts with
  | TK KTrue :: r => Some (XLit (LBool true), r)
  | TK KFalse :: r => Some (XLit (LBool false), r)
  | TInt z :: r => if int_ok z then Some (XLit (LInt z), r) else None
  | TStr s :: r => if str_ok (unescape s) then Some (XLit (LStr (unescape s)), r) else None
  | TK KThis :: r => Some (XThis, r)
  | TLow n :: r => Some (XId n, r)
  | TUp n :: r => Some (XCls n, r)
  | TP LParen :: r => paren_expr rec r
  | TP LBrace :: _ => block (rec (MLevel 0)) ts
  | _ => None
  end.

Definition post_step (rec : erec) (e : fexpr) (ts : list tok) : presult fexpr :=
  match ts with
  | TP Dot :: r =>
      match r with
      | TLow f :: r1 => do (tas, r2) <- targs_opt (parse_annot tps) r1; rec (MPost (XField e false f tas)) r2
      | TUp f :: r1 => do (tas, r2) <- targs_opt (parse_annot tps) r1; rec (MPost (XField e true f tas)) r2
      | _ => None
      end
  | TP LParen :: r =>
      do (args, r1) <- paren_list (rec (MLevel 0)) None r;
      rec (MPost (XCall e args)) r1
  | _ => Some (e, ts)
  end.

Definition level0 (rec : erec) (ts : list tok) : presult fexpr :=
  match ts with
  | TK KMatch :: r =>
      do (s, r1) <- rec (MLevel 0) r;
      do r2 <- expect LBrace r1;
      do (arms, r3) <- arms_loop (rec (MLevel 0)) (S (length r2)) r2;
      do r4 <- expect RBrace r3;
      Some (XMatch s arms, r4)
  | TK KIf :: _ => ifelse (rec (MLevel 0)) (S (length ts)) ts
  | _ => rec (MLevel 1) ts
  end.

Definition estep (rec : erec) (m : mode) (ts : list tok) : presult fexpr :=
  match m with
  | MLevel k =>
      if k =? 0 then level0 rec ts
      else if k <=? 6 then
        do (e, r) <- rec (MLevel (S k)) ts;
        rec (MLoop k e) r
      else if k =? 7 then
        match ts with
        | TP Bang :: r => do (e, r') <- rec (MLevel 8) r; Some (XUn Not e, r')
        | TOp Minus :: r => do (e, r') <- rec (MLevel 8) r; Some (XUn Neg e, r')
        | _ => rec (MLevel 8) ts
        end
      else if k =? 8 then
        do (e, r) <- rec (MLevel 9) ts;
        rec (MPost e) r
      else base_expr rec ts
  | MLoop k e =>
      match ts with
      | TOp o :: r =>
          if plevel o =? k then
            do (e2, r') <- rec (MLevel (S k)) r;
            rec (MLoop k (XBin o e e2)) r'
          else Some (e, ts)
      | _ => Some (e, ts)
      end
  | MPost e => post_step rec e ts
  | MChain k e =>
      (* only MChain 6 .. 1 are ever entered (parse_expression_from_base) *)
      if 6 <? k then None
      else
        do (e', r) <- rec (MLoop k e) ts;
        if k <=? 1 then Some (e', r) else rec (MChain (pred k) e') r
  | MFromBase e =>
      do (e', r) <- rec (MPost e) ts;
      rec (MChain 6 e') r
  end.

Fixpoint ego (f : nat) (m : mode) (ts : list tok) : presult fexpr :=
  match f with O => None | S f' => estep (ego f') m ts end.

(* the measure that decreases along every call of estep *)
Definition rank (m : mode) : nat :=
  match m with
  | MLevel k => 2 * (9 - k) + 1
  | MLoop k _ => 2 * (9 - k)
  | MPost _ => 0
  | MChain k _ => 20 + Nat.min k 6
  | MFromBase _ => 30
  end.
Definition mu (m : mode) (ts : list tok) : nat := 40 * length ts + rank m.

(* the parser: fuel taken from the input (FProofsExpr.parse_fuel_sufficient) *)
Definition pmode (m : mode) (ts : list tok) : presult fexpr := ego (S (mu m ts)) m ts.
Definition parse_expression : pexpr := pmode (MLevel 0).
Definition parse_fexpr (ts : list tok) : option fexpr :=
  match parse_expression ts with Some (e, []) => Some e | _ => None end.
End Expr.

(* ------------------------------------------------------------------ printer *)
Definition fwrap (b : bool) (l : list tok) : list tok := if b then TP LParen :: l ++ [TP RParen] else l.
Definition futok (u : uop) : tok := match u with Not => TP Bang | Neg => TOp Minus end.

Definition pr_lit (l : lit) : tok :=
  match l with
  | LInt z => TInt z
  | LStr s => TStr (escape s)
  | LBool true => TK KTrue
  | LBool false => TK KFalse
  end.

Definition pr_param (p : nat * option annot) : list tok :=
  match p with (x, None) => [TLow x] | (x, Some a) => TLow x :: TP Colon :: pr_annot a end.

Definition pr_binder (bd : option (pat * option annot)) : list tok :=
  match bd with
  | None => []
  | Some (p, None) => TK KLet :: pr_pat p ++ [TP Assign]
  | Some (p, Some a) => TK KLet :: pr_pat p ++ TP Colon :: pr_annot a ++ [TP Assign]
  end.

Fixpoint fpr (dec : fexpr -> side -> bool) (e : fexpr) : list tok :=
  match e with
  | XLit l => [pr_lit l]
  | XId n => [TLow n]
  | XThis => [TK KThis]
  | XCls n => [TUp n]
  | XTuple es => TP LParen :: commas (map (fpr dec) es) ++ [TP RParen]
  | XField a up f tas =>
      fwrap (dec e SBase) (fpr dec a) ++ TP Dot :: (if up then TUp f else TLow f) :: pr_targs tas
  | XCall a args => fwrap (dec e SBase) (fpr dec a) ++ TP LParen :: commas (map (fpr dec) args) ++ [TP RParen]
  | XUn u a => futok u :: fwrap (dec e SArg) (fpr dec a)
  | XBin o a b => fwrap (dec e SLeft) (fpr dec a) ++ TOp o :: fwrap (dec e SRight) (fpr dec b)
  | XIf g c b1 e2 =>
      TK KIf :: match g with Some p => TK KLet :: pr_pat p ++ [TP Assign] | None => [] end
        ++ fpr dec c ++ fpr dec b1 ++ TK KElse :: fpr dec e2
  | XMatch s arms =>
      TK KMatch :: fpr dec s ++ TP LBrace
        :: flat_map (fun pb => match pb with (p, b) => pr_pat p ++ TP Arrow :: fpr dec b ++ [TP Comma] end) arms
        ++ [TP RBrace]
  | XLam ps b => TP LParen :: commas (map pr_param ps) ++ TP RParen :: TP Arrow :: fwrap (dec e SBody) (fpr dec b)
  | XBlock ss r =>
      TP LBrace :: flat_map (fun s => match s with (bd, x) => pr_binder bd ++ fpr dec x ++ [TP Semi] end) ss
        ++ match r with Some x => fpr dec x | None => [] end ++ [TP RBrace]
  end.

Definition pr_stmt (dec : fexpr -> side -> bool) (s : stmt) : list tok :=
  match s with (bd, x) => pr_binder bd ++ fpr dec x ++ [TP Semi] end.
Definition pr_arm (dec : fexpr -> side -> bool) (pb : arm) : list tok :=
  match pb with (p, b) => pr_pat p ++ TP Arrow :: fpr dec b ++ [TP Comma] end.

(* ------------------------------------------------------------------ levels, needs, the implementation's decisions *)
Definition flevel (e : fexpr) : nat :=
  match e with
  | XLit _ | XId _ | XThis | XCls _ | XTuple _ | XBlock _ _ => 9
  | XField _ _ _ _ | XCall _ _ => 8
  | XUn _ _ => 7
  | XBin o _ _ => plevel o
  | XIf _ _ _ _ | XMatch _ _ | XLam _ _ => 0
  end.

Definition fctor (e : fexpr) : ector :=
  match e with
  | XLit _ => CLiteral
  | XId _ | XThis => CLocalId
  | XCls _ => CClassId
  | XTuple _ => CTuple
  | XField _ _ _ _ => CFieldAccess
  | XCall _ _ => CCall
  | XUn _ _ => CUnary
  | XBin _ _ _ => CLiteral (* not used *)
  | XIf _ _ _ _ => CIfElse
  | XMatch _ _ => CMatch
  | XLam _ _ => CLambda
  | XBlock _ _ => CBlock
  end.

Definition fprec (e : fexpr) : nat :=
  match e with XBin o _ _ => binary_node_prec o | _ => ctor_prec (fctor e) end.

(* does the printed form end with a field name (then a following `<` opens type arguments)? *)
Fixpoint fends_field (dec : fexpr -> side -> bool) (e : fexpr) : bool :=
  match e with
  | XField _ _ _ tas => match tas with [] => true | _ => false end
  | XBin _ _ b => negb (dec e SRight) && fends_field dec b
  | XUn _ a => negb (dec e SArg) && fends_field dec a
  | XLam _ b => negb (dec e SBody) && fends_field dec b
  | _ => false
  end.

Definition fneed_level (parent : fexpr) (s : side) : bool :=
  match parent, s with
  | XField a _ _ _, SBase | XCall a _, SBase => flevel a <? 8
  | XUn _ a, SArg => flevel a <? 8
  | XBin o a _, SLeft => flevel a <? plevel o
  | XBin o _ b, SRight => flevel b <? S (plevel o)
  | _, _ => false
  end.
Definition fneed_lt (dec : fexpr -> side -> bool) (parent : fexpr) (s : side) : bool :=
  match parent, s with
  | XBin o a _, SLeft => is_lt o && fends_field dec a
  | _, _ => false
  end.
Definition fneed (dec : fexpr -> side -> bool) (parent : fexpr) (s : side) : bool :=
  fneed_level parent s || fneed_lt dec parent s.

Definition fsub_paren (equal_level : bool) (parent child : fexpr) : bool :=
  if equal_level then fprec parent <=? fprec child else fprec parent <? fprec child.

(* source_printer.rs may_end_with_field_name *)
Fixpoint fmay_end (e : fexpr) : bool :=
  match e with
  | XField _ _ _ tas => match tas with [] => true | _ => false end
  | XUn _ a => fmay_end a
  | XBin _ _ b => fmay_end b
  | XLam _ b => fmay_end b
  | _ => false
  end.

Definition fdec_impl (parent : fexpr) (s : side) : bool :=
  match parent, s with
  | XField a _ _ _, SBase | XCall a _, SBase => fsub_paren false parent a
  | XUn _ a, SArg => fsub_paren true parent a
  | XLam _ b, SBody => fsub_paren false parent b
  | XBin o a b, SLeft =>
      if is_lt o && fmay_end a then true
      else if fprec a =? fprec parent then false else fsub_paren true parent a
  | XBin o a b, SRight =>
      if fprec a =? fprec parent then fsub_paren true parent b
      else if (fprec b =? fprec parent) && comm o then false
      else fsub_paren true parent b
  | _, _ => false
  end.

Definition fimpl (e : fexpr) : list tok := fpr fdec_impl e.

(* the reference decisions: exactly the needed parentheses *)
Fixpoint fends_ref (e : fexpr) : bool :=
  match e with
  | XField _ _ _ tas => match tas with [] => true | _ => false end
  | XBin o _ b => negb (flevel b <? S (plevel o)) && fends_ref b
  | XUn _ a => negb (flevel a <? 8) && fends_ref a
  | XLam _ b => fends_ref b
  | _ => false
  end.
Definition fdec_ref (parent : fexpr) (s : side) : bool :=
  fneed_level parent s ||
  match parent, s with
  | XBin o a _, SLeft => is_lt o && fends_ref a
  | _, _ => false
  end.

(* ------------------------------------------------------------------ traversals *)
Definition fsuff_node (dec : fexpr -> side -> bool) (e : fexpr) : bool :=
  forallb (fun s => implb (fneed dec e s) (dec e s)) sides.

Fixpoint fall (P : fexpr -> bool) (e : fexpr) : bool :=
  P e &&
  match e with
  | XLit _ | XId _ | XThis | XCls _ => true
  | XTuple es => forallb (fall P) es
  | XField a _ _ _ | XUn _ a | XLam _ a => fall P a
  | XCall a args => fall P a && forallb (fall P) args
  | XBin _ a b => fall P a && fall P b
  | XIf _ c a b => fall P c && fall P a && fall P b
  | XMatch s arms => fall P s && forallb (fun pb => fall P (snd pb)) arms
  | XBlock ss r => forallb (fun s => fall P (snd s)) ss && match r with Some x => fall P x | None => true end
  end.

Definition fsuff (dec : fexpr -> side -> bool) (e : fexpr) : bool := fall (fsuff_node dec) e.
Definition fsafe (e : fexpr) : bool := fsuff fdec_impl e.

Definition fk1 (e : fexpr) : bool :=
  match e with
  | XBin o a (XBin ob _ _) =>
      negb (fprec a =? binary_node_prec o) && (binary_node_prec ob =? binary_node_prec o) && comm o
      && (plevel ob <=? plevel o)
  | _ => false
  end.
Definition fk3 (e : fexpr) : bool :=
  match e with
  | XBin Concat a b =>
      (match a with XBin oa _ _ => is_muldivmod oa || is_plusminus oa | _ => false end)
      || (match b with XBin ob _ _ => is_muldivmod ob | _ => false end)
  | _ => false
  end.
Definition fknown_node (e : fexpr) : bool := fk1 e || fk3 e.
Definition fknown (e : fexpr) : bool := negb (fall (fun x => negb (fknown_node x)) e).

(* ------------------------------------------------------------------ trees the parser can produce *)
Definition is_xid (e : fexpr) : bool := match e with XId _ => true | _ => false end.
Definition is_block (e : fexpr) : bool := match e with XBlock _ _ => true | _ => false end.
Definition is_if (e : fexpr) : bool := match e with XIf _ _ _ _ => true | _ => false end.

Section Wf.
Variable tps : list nat.
Definition annot_ok (a : annot) : bool := annot_eqb (canon tps a) a.
Definition oannot_ok (a : option annot) : bool := match a with Some x => annot_ok x | None => true end.

Definition fwf_node (e : fexpr) : bool :=
  match e with
  | XLit l => lit_ok l
  | XTuple es => (2 <=? length es) && (length es <=? MAX_STRUCT_SIZE)
  | XField _ _ _ tas => forallb annot_ok tas
  | XIf g _ b1 e2 => match g with Some p => wf_pat p | None => true end && is_block b1 && (is_block e2 || is_if e2)
  | XMatch _ arms => negb (match arms with [] => true | _ => false end) && forallb (fun pb => wf_pat (fst pb)) arms
  | XLam ps _ => forallb (fun p => oannot_ok (snd p)) ps
  | XBlock ss _ =>
      forallb (fun s => match fst s with Some (p, a) => wf_pat p && oannot_ok a | None => true end) ss
  | _ => true
  end.
Definition fwf (e : fexpr) : bool := fall fwf_node e.
End Wf.

Fixpoint fsize (e : fexpr) : nat :=
  match e with
  | XLit _ | XId _ | XThis | XCls _ => 1
  | XTuple es => S (list_sum (map fsize es))
  | XField a _ _ _ | XUn _ a | XLam _ a => S (fsize a)
  | XCall a args => S (fsize a + list_sum (map fsize args))
  | XBin _ a b => S (fsize a + fsize b)
  | XIf _ c a b => S (fsize c + fsize a + fsize b)
  | XMatch s arms => S (fsize s + list_sum (map (fun pb => fsize (snd pb)) arms))
  | XBlock ss r => S (list_sum (map (fun s => fsize (snd s)) ss) + match r with Some x => fsize x | None => 0 end)
  end.
