(* C08 — full model, part 1: list combinators of the parser, type annotations and patterns
   (parser with open recursion + fuel, printer).  Definitions only.

   Code mirrored (crates/samlang-parser/src/source_parser.rs):
     parse_comma_separated_list_with_end_token(_with_start)        -> seplist / seprest
     type_parser::parse_annotation_without_depth_check             -> annot_step
     type_parser::parse_optional_type_arguments                    -> targs_opt
     pattern_parser::parse_matching_pattern_without_depth_check    -> pat_step (single pattern + `|` loop)
     pattern_parser::parse_single_matching_pattern / parse_tuple_pattern
   and (crates/samlang-printer/src/source_printer.rs) annotation_to_doc, optional_targs, id_annot_to_doc,
   matching_pattern_to_document, tuple_pattern_to_document, comma_sep_list - as token sequences (the
   layout engine preserves them: C08_layout_preserves_tokens).
   A syntax error reported by the real parser is `None` here.  The nesting limit (MAX_NESTING_DEPTH = 200)
   is not modelled. *)
From Coq Require Import List Arith Bool NArith ZArith.
Import ListNotations.
From SV Require Import C08.Syntax C08.FSyntax.

Definition presult (A : Type) : Type := option (A * list tok).

Definition is_p (p : punct) (t : tok) : bool := match t with TP q => punct_eqb p q | _ => false end.
Definition is_kw (k : kw) (t : tok) : bool := match t with TK q => kw_eqb k q | _ => false end.
Definition is_gt (t : tok) : bool := match t with TOp Gt => true | _ => false end.
Definition hd_is (f : tok -> bool) (ts : list tok) : bool := match ts with t :: _ => f t | [] => false end.
Definition memb (n : nat) (l : list nat) : bool := existsb (Nat.eqb n) l.

(* assert_and_consume_operator / _keyword: the expected token or a syntax error *)
Definition expect (p : punct) (ts : list tok) : option (list tok) :=
  match ts with TP q :: r => if punct_eqb p q then Some r else None | _ => None end.
Definition expect_kw (k : kw) (ts : list tok) : option (list tok) :=
  match ts with TK q :: r => if kw_eqb k q then Some r else None | _ => None end.
Definition expect_op (o : bop) (ts : list tok) : option (list tok) :=
  match ts with TOp q :: r => if bop_eqb o q then Some r else None | _ => None end.

Notation "'do' ( x , r ) <- e ; k" := (match e with Some (x, r) => k | None => None end)
  (at level 200, x name, r name, e at level 100, k at level 200, only parsing).
Notation "'do' r <- e ; k" := (match e with Some r => k | None => None end)
  (at level 200, r name, e at level 100, k at level 200, only parsing).

(* the `while peek == Comma` loop of parse_comma_separated_list_with_end_token_with_start: a comma directly
   followed by the end token is a trailing comma (consumed, the end token is left) *)
Fixpoint seprest {A} (elem : list tok -> presult A) (endt : tok -> bool) (n : nat) (ts : list tok) : presult (list A) :=
  match n with
  | O => None
  | S n' =>
      match ts with
      | TP Comma :: r =>
          if hd_is endt r then Some ([], r)
          else match elem r with
               | Some (a, r1) =>
                   match seprest elem endt n' r1 with Some (l, r2) => Some (a :: l, r2) | None => None end
               | None => None
               end
      | _ => Some ([], ts)
      end
  end.

Definition seplist {A} (elem : list tok -> presult A) (endt : tok -> bool) (n : nat) (ts : list tok) : presult (list A) :=
  match elem ts with
  | Some (a, r) => match seprest elem endt n r with Some (l, r') => Some (a :: l, r') | None => None end
  | None => None
  end.

(* a parser given as one unfolding `step` of itself: `lgo step f` unfolds it f times; `lparse step` takes the
   fuel from the input (FProofsGen.lparse_fuel: any fuel above the token count gives the same answer) *)
Fixpoint lgo {A} (step : (list tok -> presult A) -> list tok -> presult A) (f : nat) (ts : list tok) : presult A :=
  match f with O => None | S f' => step (lgo step f') ts end.
Definition lparse {A} (step : (list tok -> presult A) -> list tok -> presult A) (ts : list tok) : presult A :=
  lgo step (S (length ts)) ts.

(* comma_sep_list of the printer *)
Fixpoint commas (ls : list (list tok)) : list tok :=
  match ls with
  | [] => []
  | [l] => l
  | l :: ls' => l ++ TP Comma :: commas ls'
  end.

(* ------------------------------------------------------------------ type annotations *)
Definition prim_kw (k : prim) : kw := match k with PUnit => KUnit | PBool => KBool | PInt => KInt end.

Definition arec := list tok -> presult annot.

Definition targs_opt (rec : arec) (ts : list tok) : presult (list annot) :=
  match ts with
  | TOp Lt :: r =>
      do (l, r0) <- seplist rec is_gt (S (length r)) r;
      do r' <- expect_op Gt r0;
      Some (l, r')
  | _ => Some ([], ts)
  end.

Section Annot.
Variable tps : list nat.        (* available_tparams *)

Definition annot_step (rec : arec) (ts : list tok) : presult annot :=
  match ts with
  | TK KUnit :: r => Some (APrim PUnit, r)
  | TK KBool :: r => Some (APrim PBool, r)
  | TK KInt :: r => Some (APrim PInt, r)
  | TUp n :: r =>
      match targs_opt rec r with
      | Some (tas, r') =>
          Some (match tas with [] => if memb n tps then AGen n else AId n [] | _ => AId n tas end, r')
      | None => None
      end
  | TP LParen :: r =>
      if hd_is (is_p RParen) r then
        do r0 <- expect RParen r;
        do r1 <- expect Arrow r0;
        do (ret, r2) <- rec r1;
        Some (AFn [] ret, r2)
      else
        do (ps, r0) <- seplist rec (is_p RParen) (S (length r)) r;
        do r0' <- expect RParen r0;
        do r1 <- expect Arrow r0';
        do (ret, r2) <- rec r1;
        Some (AFn ps ret, r2)
  | _ => None
  end.

Definition annot_go : nat -> list tok -> presult annot := lgo annot_step.
(* the parser: the fuel is computed from the input (FProofsTypes.annot_fuel_sufficient: any larger fuel gives the same answer) *)
Definition parse_annot : list tok -> presult annot := lparse annot_step.

(* what the parser makes of the printed form: the decision Generic / Id is taken again at every name *)
Fixpoint canon (a : annot) : annot :=
  match a with
  | APrim k => APrim k
  | AId n [] | AGen n => if memb n tps then AGen n else AId n []
  | AId n tas => AId n (map canon tas)
  | AFn ps r => AFn (map canon ps) (canon r)
  end.
End Annot.

Fixpoint pr_annot (a : annot) : list tok :=
  match a with
  | APrim k => [TK (prim_kw k)]
  | AId n tas => TUp n :: match tas with [] => [] | _ => TOp Lt :: commas (map pr_annot tas) ++ [TOp Gt] end
  | AGen n => [TUp n]
  | AFn ps r => TP LParen :: commas (map pr_annot ps) ++ TP RParen :: TP Arrow :: pr_annot r
  end.
Definition pr_targs (tas : list annot) : list tok :=
  match tas with [] => [] | _ => TOp Lt :: commas (map pr_annot tas) ++ [TOp Gt] end.

Fixpoint annot_size (a : annot) : nat :=
  match a with
  | APrim _ | AGen _ => 1
  | AId _ tas => S (list_sum (map annot_size tas))
  | AFn ps r => S (list_sum (map annot_size ps) + annot_size r)
  end.

(* fix_annot_with_generic_annot / fix_tparams_with_generic_annot: after the type parameter list is complete,
   the names it introduces are turned into Generic inside the bounds' type arguments - but not below an Id
   that has type arguments of its own *)
Fixpoint fix_annot (tps : list nat) (a : annot) : annot :=
  match a with
  | AId n [] => if memb n tps then AGen n else a
  | AFn ps r => AFn (map (fix_annot tps) ps) (fix_annot tps r)
  | _ => a
  end.

(* ------------------------------------------------------------------ patterns *)
Definition prec := list tok -> presult pat.

Definition tuple_pat (rec : prec) (ts : list tok) : presult (list pat) :=
  match ts with
  | TP LParen :: r =>
      do (ps, r0) <- seplist rec (is_p RParen) (S (length r)) r;
      do r' <- expect RParen r0;
      Some (ps, r')
  | _ => None
  end.

Definition obj_elem (rec : prec) (ts : list tok) : presult (nat * option pat) :=
  match ts with
  | TLow f :: r =>
      if hd_is (is_kw KAs) r then
        do r0 <- expect_kw KAs r;
        do (p, r') <- rec r0;
        Some ((f, Some p), r')
      else Some ((f, None), r)
  | _ => None
  end.

Definition single_pat (rec : prec) (ts : list tok) : presult pat :=
  match ts with
  | TP LParen :: _ => do (ps, r) <- tuple_pat rec ts; Some (PTuple ps, r)
  | TP LBrace :: r =>
      do (fs, r0) <- seplist (obj_elem rec) (is_p RBrace) (S (length r)) r;
      do r' <- expect RBrace r0;
      Some (PObj fs, r')
  | TUp n :: r =>
      if hd_is (is_p LParen) r then do (ps, r') <- tuple_pat rec r; Some (PVar n (Some ps), r')
      else Some (PVar n None, r)
  | TP Under :: r => Some (PWild, r)
  | TLow n :: r => Some (PId n, r)
  | _ => None
  end.

(* the `while peek == Bar` loop *)
Fixpoint bars (rec : prec) (n : nat) (ts : list tok) : presult (list pat) :=
  match n with
  | O => None
  | S n' =>
      match ts with
      | TP Bar :: r =>
          match single_pat rec r with
          | Some (p, r1) => match bars rec n' r1 with Some (l, r2) => Some (p :: l, r2) | None => None end
          | None => None
          end
      | _ => Some ([], ts)
      end
  end.

Definition pat_step (rec : prec) (ts : list tok) : presult pat :=
  do (p, r) <- single_pat rec ts;
  if hd_is (is_p Bar) r then do (l, r') <- bars rec (S (length r)) r; Some (POr (p :: l), r')
  else Some (p, r).

Definition pat_go : nat -> list tok -> presult pat := lgo pat_step.
Definition parse_pat : list tok -> presult pat := lparse pat_step.

Fixpoint bar_sep (ls : list (list tok)) : list tok :=
  match ls with
  | [] => []
  | [l] => l
  | l :: ls' => l ++ TP Bar :: bar_sep ls'
  end.

Fixpoint pr_pat (p : pat) : list tok :=
  match p with
  | PWild => [TP Under]
  | PId n => [TLow n]
  | PTuple ps => TP LParen :: commas (map pr_pat ps) ++ [TP RParen]
  | PObj fs =>
      TP LBrace :: commas (map (fun fp => match fp with
                                          | (f, None) => [TLow f]
                                          | (f, Some p) => TLow f :: TK KAs :: pr_pat p
                                          end) fs) ++ [TP RBrace]
  | PVar n None => [TUp n]
  | PVar n (Some ps) => TUp n :: TP LParen :: commas (map pr_pat ps) ++ [TP RParen]
  | POr ps => bar_sep (map pr_pat ps)
  end.

Fixpoint pat_size (p : pat) : nat :=
  match p with
  | PWild | PId _ => 1
  | PTuple ps | POr ps => S (list_sum (map pat_size ps))
  | PObj fs => S (list_sum (map (fun fp => match snd fp with Some p => S (pat_size p) | None => 1 end) fs))
  | PVar _ None => 1
  | PVar _ (Some ps) => S (list_sum (map pat_size ps))
  end.

Definition is_por (p : pat) : bool := match p with POr _ => true | _ => false end.

(* the patterns the parser can produce: lists are non-empty, an or-pattern has at least two
   alternatives none of which is an or-pattern *)
Fixpoint wf_pat (p : pat) : bool :=
  match p with
  | PWild | PId _ => true
  | PTuple ps => negb (match ps with [] => true | _ => false end) && forallb wf_pat ps
  | PObj fs => negb (match fs with [] => true | _ => false end)
               && forallb (fun fp => match snd fp with Some p => wf_pat p | None => true end) fs
  | PVar _ None => true
  | PVar _ (Some ps) => negb (match ps with [] => true | _ => false end) && forallb wf_pat ps
  | POr ps => (2 <=? length ps) && forallb (fun q => negb (is_por q) && wf_pat q) ps
  end.
