(* C08 — full model, proofs part 5: declarations and modules.  The formatted module is read back as
   the module with its import lines organised (merged per module, sorted) and the same toplevels;
   organising the imports does not change what any name resolves to unless a name is imported from two
   different modules (K7). *)
From Coq Require Import List Arith Bool Lia ZArith NArith.
Import ListNotations.
From SV Require Import C08.Syntax C08.Model C08.ProofsMono C08.Lit C08.FSyntax C08.FModelTypes C08.FModelExpr C08.FModelDecl
  C08.FProofsGen C08.FProofsTypes C08.FProofsExprFuel C08.FProofsExpr C08.FProofsImpl.

(* ------------------------------------------------------------------ boolean equalities *)
Lemma annot_eqb_true a b : annot_eqb a b = true -> a = b.
Proof. apply (annot_eqb_eq (annot_size a)). apply le_n. Qed.

Lemma pair_eqb_eq {A B} (ea : A -> A -> bool) (eb : B -> B -> bool) :
  (forall x y, ea x y = true -> x = y) -> (forall x y, eb x y = true -> x = y) ->
  forall p q, pair_eqb ea eb p q = true -> p = q.
Proof.
  intros Ha Hb [a b] [c d] H. unfold pair_eqb in H. cbn in H. apply andb_prop in H. destruct H as [H1 H2].
  rewrite (Ha _ _ H1), (Hb _ _ H2). reflexivity.
Qed.

Lemma opt_eqb_eq {A} (ea : A -> A -> bool) : (forall x y, ea x y = true -> x = y) ->
  forall p q, opt_eqb ea p q = true -> p = q.
Proof. intros Ha [a|] [b|] H; try discriminate; [rewrite (Ha _ _ H)|]; reflexivity. Qed.

Lemma list_eqb_true {A} (ea : A -> A -> bool) : (forall x y, ea x y = true -> x = y) ->
  forall p q, list_eqb ea p q = true -> p = q.
Proof. intros Ha p q H. apply (list_eqb_eq ea); [|exact H]. intros x y _. apply Ha. Qed.

Lemma nat_eqb_true x y : Nat.eqb x y = true -> x = y.
Proof. apply Nat.eqb_eq. Qed.

Lemma tparam_eqb_true a b : tparam_eqb a b = true -> a = b.
Proof.
  unfold tparam_eqb. apply pair_eqb_eq; [exact nat_eqb_true|]. apply opt_eqb_eq.
  apply pair_eqb_eq; [exact nat_eqb_true|]. apply list_eqb_true. exact annot_eqb_true.
Qed.

Lemma tparams_ok_eq avail tps : tparams_ok avail tps = true ->
  map (canon_tparam avail (avail ++ map fst tps)) tps = tps.
Proof. unfold tparams_ok. apply list_eqb_true. exact tparam_eqb_true. Qed.

(* ------------------------------------------------------------------ pieces *)
Lemma targs_opt_canon avail tas ts : (tas = [] -> not_lt ts) ->
  targs_opt (parse_annot avail) (pr_targs tas ++ ts) = Some (map (canon avail) tas, ts).
Proof.
  intros Hnl. destruct tas as [|t more].
  - cbn [pr_targs app map]. specialize (Hnl eq_refl). unfold targs_opt.
    destruct ts as [|[q|p|x|x|z|s|o] ts']; try reflexivity. destruct o; try reflexivity. destruct Hnl.
  - unfold pr_targs. cbn [app targs_opt]. rewrite <- app_assoc. cbn [app].
    rewrite (seplist_rt (parse_annot avail) is_gt pr_annot (canon avail) not_lt t more _ (TOp Gt) ts).
    + rewrite expect_op_same. reflexivity.
    + rewrite app_length, commas_cons, app_length. pose proof (tails_length pr_annot more). cbn [length]. lia.
    + discriminate.
    + exact I.
    + intros l. exact I.
    + intros y Hy. destruct (pr_annot_head y) as (t0 & l0 & E & H1 & _). exists t0, l0. split; assumption.
    + intros y tail Hy Hf. apply annot_roundtrip'. exact Hf.
Qed.

Lemma annots_ok_map avail l : annots_ok avail l = true -> map (canon avail) l = l.
Proof.
  intros H. transitivity (map (fun x : annot => x) l); [|apply map_id]. apply map_ext_in.
  intros a Ha. apply annot_eqb_true. exact (forallb_In _ _ _ H Ha).
Qed.

Lemma annot_ok_eq avail a : annot_ok avail a = true -> canon avail a = a.
Proof. apply annot_eqb_true. Qed.

(* tails after a declaration piece *)
Definition no_lt_colon (ts : list tok) : Prop :=
  match ts with TOp Lt :: _ | TP Colon :: _ => False | _ => True end.
Lemma no_lt_colon_not_lt ts : no_lt_colon ts -> not_lt ts.
Proof. destruct ts as [|[q|p|x|x|z|s|o] ts']; cbn; try tauto; destruct o; tauto. Qed.

Definition tparam_tail (ts : list tok) : Prop := match ts with TP Comma :: _ | TOp Gt :: _ => True | _ => False end.

Lemma tparam_elem_rt avail tp tail : tparam_tail tail ->
  tparam_elem avail (pr_tparam tp ++ tail) = Some ((fst tp, match snd tp with Some (b, tas) => Some (b, map (canon avail) tas) | None => None end), tail).
Proof.
  intros Ht. destruct tp as [n [[b tas]|]]; unfold tparam_elem; cbn [pr_tparam app upper_id hd_is is_p punct_eqb fst snd].
  - rewrite expect_same. cbn [upper_id]. rewrite targs_opt_canon; [reflexivity|].
    intros _. destruct tail as [|[q|p|x|x|z|s|o] tl]; try exact I; try destruct Ht. destruct o; try exact I; destruct Ht.
  - destruct tail as [|[q|p|x|x|z|s|o] tl]; try destruct Ht; try reflexivity. destruct p; try destruct Ht; reflexivity.
Qed.

Definition canon_bound (avail : list nat) (o : option (nat * list annot)) : option (nat * list annot) :=
  match o with Some (b, tas) => Some (b, map (canon avail) tas) | None => None end.

Lemma map_fst_snd {A B} (h : B -> B) (l : list (A * B)) : map fst (map (fun x => (fst x, h (snd x))) l) = map fst l.
Proof. rewrite map_map. apply map_ext. intros [a b]. reflexivity. Qed.

Lemma tparams_opt_rt avail tps tail : tparams_ok avail tps = true -> not_lt tail ->
  tparams_opt avail (pr_tparams tps ++ tail) = Some ((tps, avail ++ map fst tps), tail).
Proof.
  intros Hok Hnl. unfold tparams_opt. destruct tps as [|tp more].
  - cbn [pr_tparams app map]. rewrite app_nil_r.
    destruct tail as [|[q|p|x|x|z|s|o] tl]; try reflexivity. destruct o; try reflexivity. destruct Hnl.
  - unfold pr_tparams. cbn [app hd_is is_lt_tok]. rewrite expect_op_same. rewrite <- app_assoc. cbn [app].
    rewrite (seplist_rt (tparam_elem avail) is_gt pr_tparam (fun tp => (fst tp, canon_bound avail (snd tp)))
               tparam_tail tp more _ (TOp Gt) tail).
    + rewrite expect_op_same. unfold tparam in *. rewrite (map_fst_snd (canon_bound avail) (tp :: more)). rewrite map_map.
      assert (Hm : map (fun x : nat * option (nat * list annot) => fix_tparam (avail ++ map fst (tp :: more)) (fst x, canon_bound avail (snd x))) (tp :: more)
                   = tp :: more).
      { transitivity (map (canon_tparam avail (avail ++ map fst (tp :: more))) (tp :: more)); [|exact (tparams_ok_eq avail (tp :: more) Hok)].
        apply map_ext. intros [n [[b tas]|]]; unfold fix_tparam, canon_tparam, canon_bound; cbn [fst snd].
        - rewrite map_map. reflexivity.
        - reflexivity. }
      apply f_equal. apply (f_equal (fun z => (z, avail ++ map fst (tp :: more), tail))). exact Hm.
    + rewrite app_length, commas_cons, app_length. pose proof (tails_length pr_tparam more). cbn [length]. lia.
    + discriminate.
    + exact I.
    + intros l. exact I.
    + intros [n [[b tas]|]] Hy; eexists _, _; split; reflexivity.
    + intros y tl Hy Hf. apply tparam_elem_rt. exact Hf.
Qed.

(* ---- supertypes *)
Definition super_tail (ts : list tok) : Prop := match ts with TP Comma :: _ | TP LBrace :: _ => True | _ => False end.
Lemma super_tail_not_lt ts : super_tail ts -> not_lt ts.
Proof. destruct ts as [|[q|p|x|x|z|s|o] tl]; cbn; try tauto. Qed.

Lemma super_elem_rt avail s tail : annots_ok avail (snd s) = true -> super_tail tail ->
  super_elem avail (pr_super s ++ tail) = Some (s, tail).
Proof.
  intros Hok Ht. destruct s as [n tas]. unfold super_elem, pr_super. cbn [fst snd app upper_id].
  rewrite targs_opt_canon; [|intros _; apply super_tail_not_lt; exact Ht]. rewrite (annots_ok_map avail tas Hok). reflexivity.
Qed.

Lemma supers_rest_rt avail : forall sup n tail, supers_ok avail sup = true -> length sup < n ->
  supers_rest avail n (tails pr_super sup ++ TP LBrace :: tail) = Some (sup, TP LBrace :: tail).
Proof.
  induction sup as [|s more IH]; intros n tail Hok Hn; (destruct n as [|n]; [cbn in Hn; lia|]).
  - reflexivity.
  - cbn [supers_ok forallb] in Hok. apply andb_prop in Hok. destruct Hok as [Hs Hmore].
    cbn [tails flat_map app supers_rest hd_is is_p punct_eqb]. rewrite expect_same. fold (tails pr_super more). rewrite <- app_assoc.
    rewrite super_elem_rt; [|exact Hs|destruct more; exact I].
    rewrite (IH n tail Hmore); [reflexivity|cbn in Hn; lia].
Qed.

Lemma supers_opt_rt avail sup tail : supers_ok avail sup = true ->
  supers_opt avail (pr_supers sup ++ TP LBrace :: tail) = Some (sup, TP LBrace :: tail).
Proof.
  intros Hok. unfold supers_opt. destruct sup as [|s more]; [reflexivity|].
  unfold pr_supers. cbn [app hd_is is_p punct_eqb]. rewrite expect_same. rewrite commas_cons, <- app_assoc.
  cbn [supers_ok forallb] in Hok. apply andb_prop in Hok. destruct Hok as [Hs Hmore].
  rewrite super_elem_rt; [|exact Hs|destruct more; exact I].
  rewrite (supers_rest_rt avail more _ tail Hmore); [reflexivity|].
  rewrite app_length. pose proof (tails_length pr_super more). lia.
Qed.

(* ---- members *)
Lemma annotated_id_rt avail p tail : annot_ok avail (snd p) = true -> not_lt tail ->
  annotated_id avail (pr_mparam p ++ tail) = Some (p, tail).
Proof.
  intros Hok Hnl. destruct p as [x a]. unfold annotated_id, pr_mparam. cbn [fst snd app lower_id]. rewrite expect_same.
  rewrite annot_roundtrip' by exact Hnl. rewrite (annot_ok_eq avail a Hok). reflexivity.
Qed.

Definition member_tail (ts : list tok) : Prop :=
  match ts with TK KFunction :: _ | TK KMethod :: _ | TK KPrivate :: _ | TP RBrace :: _ | TP Assign :: _ => True | _ => False end.
Lemma member_tail_not_lt ts : member_tail ts -> not_lt ts.
Proof. destruct ts as [|[q|p|x|x|z|s|o] tl]; cbn; try tauto. Qed.

Lemma member_sig_rt pub meth avail0 name tps params ret tail :
  tparams_ok avail0 tps = true ->
  forallb (fun p => annot_ok (avail0 ++ map fst tps) (snd p)) params = true -> annot_ok (avail0 ++ map fst tps) ret = true ->
  member_tail tail ->
  member_sig pub meth avail0
    (pr_tparams tps ++ TLow name :: TP LParen :: commas (map pr_mparam params) ++ TP RParen :: TP Colon :: pr_annot ret ++ tail)
  = Some (({| m_public := pub; m_method := meth; m_name := name; m_tparams := tps; m_params := params; m_ret := ret |},
           avail0 ++ map fst tps), tail).
Proof.
  intros Htp Hps Hret Ht. unfold member_sig. rewrite tparams_opt_rt; [|exact Htp|exact I]. cbn [lower_id fst snd]. rewrite expect_same.
  assert (Hparams : (if hd_is (is_p RParen) (commas (map pr_mparam params) ++ TP RParen :: TP Colon :: pr_annot ret ++ tail)
                     then Some ([], commas (map pr_mparam params) ++ TP RParen :: TP Colon :: pr_annot ret ++ tail)
                     else seplist (annotated_id (avail0 ++ map fst tps)) (is_p RParen)
                            (S (length (commas (map pr_mparam params) ++ TP RParen :: TP Colon :: pr_annot ret ++ tail)))
                            (commas (map pr_mparam params) ++ TP RParen :: TP Colon :: pr_annot ret ++ tail))
                    = Some (params, TP RParen :: TP Colon :: pr_annot ret ++ tail)).
  { destruct params as [|p more]; [reflexivity|].
    assert (Hh : hd_is (is_p RParen) (commas (map pr_mparam (p :: more)) ++ TP RParen :: TP Colon :: pr_annot ret ++ tail) = false).
    { rewrite commas_cons. destruct p. reflexivity. }
    rewrite Hh.
    rewrite (seplist_rt (annotated_id (avail0 ++ map fst tps)) (is_p RParen) pr_mparam (fun x => x) param_tail p more _ (TP RParen)
               (TP Colon :: pr_annot ret ++ tail)).
    - rewrite map_id. reflexivity.
    - rewrite app_length, commas_cons, app_length. pose proof (tails_length pr_mparam more). cbn [length]. lia.
    - discriminate.
    - exact I.
    - intros l. exact I.
    - intros [y a] Hy. eexists _, _. split; reflexivity.
    - intros y tl Hy Hf. apply annotated_id_rt; [exact (forallb_In _ _ _ Hps Hy)|].
      destruct tl as [|[q|pp|x|x|z|s|o] tl']; try exact I; try destruct Hf. }
  rewrite Hparams. rewrite !expect_same. rewrite annot_roundtrip' by (apply member_tail_not_lt; exact Ht).
  rewrite (annot_ok_eq _ ret Hret). reflexivity.
Qed.

Lemma member_decl_rt allow class_avail m tail : member_ok class_avail m = true -> (m_public m = false -> allow = true) ->
  member_tail tail ->
  member_decl allow class_avail (pr_member_decl m ++ tail) = Some ((m, member_avail class_avail m), tail).
Proof.
  intros Hok Hpriv Ht. unfold member_ok in Hok. rewrite !andb_true_iff in Hok. destruct Hok as [[Htp Hps] Hret].
  destruct m as [pub meth name tps params ret]. unfold member_avail in *. cbn [m_public m_method m_name m_tparams m_params m_ret] in *.
  unfold member_decl, pr_member_decl. cbn [m_public m_method m_name m_tparams m_params m_ret].
  repeat (rewrite <- app_assoc; cbn [app]).
  pose proof (member_sig_rt pub meth (if meth then class_avail else []) name tps params ret tail Htp Hps Hret Ht) as Hsig.
  destruct pub; [|rewrite (Hpriv eq_refl)]; destruct meth; cbn [app hd_is is_kw kw_eqb]; rewrite ?expect_kw_same; exact Hsig.
Qed.

Lemma fpr_tail_rt dec avail body tail : fsuff dec body = true -> fwf avail body = true -> member_tail tail ->
  parse_expression avail (fpr dec body ++ tail) = Some (body, tail).
Proof.
  intros Hs Hw Ht. destruct (all_ALP avail dec (fsize body) body (le_n _) Hs Hw) as (HA & _ & _).
  pose proof (HA 0 false tail ltac:(lia) ltac:(lia)) as H. cbn [fwrap] in H. unfold parse_expression. apply H.
  - destruct tail as [|[q|p|x|x|z|s|o] tl]; try exact I; try destruct Ht. destruct p; try exact I; destruct Ht.
  - intros _. apply member_tail_not_lt. exact Ht.
Qed.

Lemma member_def_rt dec class_avail mb tail :
  member_ok class_avail (fst mb) = true -> fwf (member_avail class_avail (fst mb)) (snd mb) = true -> fsuff dec (snd mb) = true ->
  member_tail tail ->
  member_def class_avail (pr_member_def dec mb ++ tail) = Some (mb, tail).
Proof.
  intros Hok Hw Hs Ht. destruct mb as [m body]. cbn [fst snd] in *. unfold member_def, pr_member_def. cbn [fst snd].
  rewrite <- app_assoc. cbn [app]. rewrite member_decl_rt; [|exact Hok|intros _; reflexivity|exact I].
  cbn [fst snd]. rewrite expect_same. rewrite fpr_tail_rt; [reflexivity|exact Hs|exact Hw|exact Ht].
Qed.

Lemma members_loop_rt {A} (elem : list tok -> presult A) (pr : A -> list tok) : forall ms n tail,
  length ms < n ->
  (forall m tl, In m ms -> member_tail tl -> elem (pr m ++ tl) = Some (m, tl)) ->
  (forall m, In m ms -> exists t l, pr m = t :: l /\ starts_member t = true) ->
  members_loop elem n (flat_map pr ms ++ TP RBrace :: tail) = Some (ms, TP RBrace :: tail).
Proof.
  induction ms as [|m more IH]; intros n tail Hn Hel Hst; (destruct n as [|n]; [cbn in Hn; lia|]).
  - reflexivity.
  - cbn [flat_map members_loop]. rewrite <- app_assoc.
    destruct (Hst m (or_introl eq_refl)) as (t & l & E & Hs).
    assert (Hh : hd_is starts_member (pr m ++ flat_map pr more ++ TP RBrace :: tail) = true) by (rewrite E; exact Hs).
    rewrite Hh. rewrite Hel; [|left; reflexivity|].
    + rewrite (IH n tail); [reflexivity|cbn in Hn; lia| |].
      * intros m' tl Hm'. apply Hel. right. exact Hm'.
      * intros m' Hm'. apply Hst. right. exact Hm'.
    + destruct more as [|m2 more']; [exact I|]. cbn [flat_map]. destruct (Hst m2 (or_intror (or_introl eq_refl))) as (t2 & l2 & E2 & Hs2).
      rewrite E2. cbn [app]. destruct t2 as [q|p|x|x|z|s|o]; try discriminate. destruct q; try discriminate; exact I.
Qed.

Lemma pr_member_decl_starts m : exists t l, pr_member_decl m = t :: l /\ starts_member t = true.
Proof.
  destruct m as [pub meth name tps params ret]. unfold pr_member_decl. cbn [m_public m_method].
  destruct pub, meth; eexists _, _; split; reflexivity.
Qed.

(* ---- type definitions *)
Lemma field_def_rt avail f tail : annot_ok avail (snd f) = true -> param_tail tail ->
  field_def avail (FModelDecl.pr_field f ++ tail) = Some (f, tail).
Proof.
  intros Hok Ht. destruct f as [[pub x] a]. cbn [fst snd] in *. unfold field_def, FModelDecl.pr_field. cbn [fst snd].
  assert (Hnl : not_lt tail) by (destruct tail as [|[q|p|y|y|z|s|o] tl]; try exact I; destruct Ht).
  destruct pub; cbn [app hd_is is_kw kw_eqb]; rewrite ?expect_kw_same; cbn [lower_id]; rewrite expect_same;
    rewrite annot_roundtrip' by exact Hnl; rewrite (annot_ok_eq avail a Hok); reflexivity.
Qed.

Lemma variant_def_rt avail v tail : annots_ok avail (snd v) = true -> param_tail tail ->
  variant_def avail (pr_variant v ++ tail) = Some (v, tail).
Proof.
  intros Hok Ht. destruct v as [n tys]. cbn [fst snd] in *. unfold variant_def, pr_variant. cbn [fst snd].
  destruct tys as [|t more].
  - cbn [app upper_id]. destruct tail as [|[q|p|y|y|z|s|o] tl]; try destruct Ht; try reflexivity. destruct p; try destruct Ht; reflexivity.
  - cbn [app upper_id hd_is is_p punct_eqb]. rewrite expect_same. rewrite <- app_assoc. cbn [app].
    rewrite (seplist_rt (parse_annot avail) (is_p RParen) pr_annot (canon avail) not_lt t more _ (TP RParen) tail).
    + rewrite expect_same. rewrite (annots_ok_map avail (t :: more) Hok). reflexivity.
    + rewrite app_length, commas_cons, app_length. pose proof (tails_length pr_annot more). cbn [length]. lia.
    + discriminate.
    + exact I.
    + intros l. exact I.
    + intros y Hy. destruct (pr_annot_head y) as (t0 & l0 & E & _ & H1). exists t0, l0. split; assumption.
    + intros y tl Hy Hf. apply annot_roundtrip'. exact Hf.
Qed.

Lemma typedef_inner_rt avail td tail : typedef_ok avail td = true -> td <> TDNone ->
  typedef_inner avail (pr_typedef td ++ tail) = Some (td, tail).
Proof.
  intros Hok Hne. destruct td as [|fs|vs]; [congruence| |]; unfold typedef_inner, pr_typedef; cbn [app]; rewrite expect_same;
    cbn [typedef_ok] in Hok; rewrite !andb_true_iff in Hok.
  - destruct Hok as [[Hn Hlen] Hall]. destruct fs as [|f more]; [discriminate Hn|]. rewrite <- app_assoc. cbn [app].
    assert (Hh : hd_is is_up (commas (map FModelDecl.pr_field (f :: more)) ++ TP RParen :: tail) = false).
    { rewrite commas_cons. destruct f as [[[] x] a]; reflexivity. }
    rewrite Hh.
    rewrite (seplist_rt (field_def avail) (is_p RParen) FModelDecl.pr_field (fun x => x) param_tail f more _ (TP RParen) tail).
    + rewrite map_id. apply Nat.leb_le in Hlen. destruct (Nat.ltb_spec MAX_STRUCT_SIZE (length (f :: more))); [lia|].
      rewrite expect_same. reflexivity.
    + rewrite app_length, commas_cons, app_length. pose proof (tails_length FModelDecl.pr_field more). cbn [length]. lia.
    + discriminate.
    + exact I.
    + intros l. exact I.
    + intros [[[] x] a] Hy; eexists _, _; split; reflexivity.
    + intros y tl Hy Hf. apply field_def_rt; [exact (forallb_In _ _ _ Hall Hy)|exact Hf].
  - destruct Hok as [Hn Hall]. destruct vs as [|v more]; [discriminate Hn|]. rewrite <- app_assoc. cbn [app].
    assert (Hh : hd_is is_up (commas (map pr_variant (v :: more)) ++ TP RParen :: tail) = true).
    { rewrite commas_cons. destruct v as [n [|t tys]]; reflexivity. }
    rewrite Hh.
    rewrite (seplist_rt (variant_def avail) (is_p RParen) pr_variant (fun x => x) param_tail v more _ (TP RParen) tail).
    + rewrite map_id, expect_same. reflexivity.
    + rewrite app_length, commas_cons, app_length. pose proof (tails_length pr_variant more). cbn [length]. lia.
    + discriminate.
    + exact I.
    + intros l. exact I.
    + intros [n [|t tys]] Hy; eexists _, _; split; reflexivity.
    + intros y tl Hy Hf. apply variant_def_rt; [exact (forallb_In _ _ _ Hall Hy)|exact Hf].
Qed.

Lemma flat_map_length_ge {A} (f : A -> list tok) l : (forall x, 1 <= length (f x)) -> length l <= length (flat_map f l).
Proof.
  intros H. induction l as [|x l IH]; cbn [flat_map length]; [lia|]. rewrite app_length. specialize (H x). lia.
Qed.

(* ---- toplevels *)
Section Top.
Variable dec : fexpr -> side -> bool.

Definition top_suff (t : toplevel) : bool := forallb (fsuff dec) (toplevel_bodies t).

Lemma class_rest_rt priv name tps td sup ms tail :
  toplevel_ok (TClass priv name tps td sup ms) = true -> top_suff (TClass priv name tps td sup ms) = true ->
  class_rest priv (TUp name :: pr_tparams tps ++ pr_typedef td ++ pr_supers sup ++ TP LBrace :: flat_map (pr_member_def dec) ms ++ TP RBrace :: tail)
  = Some (TClass priv name tps td sup ms, tail).
Proof.
  intros Hok Hsuff. cbn [toplevel_ok] in Hok. rewrite !andb_true_iff in Hok. destruct Hok as [[[Htp Htd] Hsup] Hms].
  unfold class_rest. cbn [upper_id].
  assert (Hnl : not_lt (pr_typedef td ++ pr_supers sup ++ TP LBrace :: flat_map (pr_member_def dec) ms ++ TP RBrace :: tail)).
  { destruct td; [destruct sup|..]; exact I. }
  rewrite tparams_opt_rt; [|exact Htp|exact Hnl]. cbn [fst snd app].
  assert (Htdp : (if hd_is (is_p LBrace) (pr_typedef td ++ pr_supers sup ++ TP LBrace :: flat_map (pr_member_def dec) ms ++ TP RBrace :: tail)
                     || hd_is (is_p Colon) (pr_typedef td ++ pr_supers sup ++ TP LBrace :: flat_map (pr_member_def dec) ms ++ TP RBrace :: tail)
                  then Some (TDNone, pr_typedef td ++ pr_supers sup ++ TP LBrace :: flat_map (pr_member_def dec) ms ++ TP RBrace :: tail)
                  else typedef_inner (map fst tps) (pr_typedef td ++ pr_supers sup ++ TP LBrace :: flat_map (pr_member_def dec) ms ++ TP RBrace :: tail))
                 = Some (td, pr_supers sup ++ TP LBrace :: flat_map (pr_member_def dec) ms ++ TP RBrace :: tail)).
  { destruct td as [|fs|vs].
    - cbn [pr_typedef app]. destruct sup; reflexivity.
    - assert (Hh : forall l, hd_is (is_p LBrace) (pr_typedef (TDStruct fs) ++ l) || hd_is (is_p Colon) (pr_typedef (TDStruct fs) ++ l) = false) by reflexivity.
      rewrite Hh. apply typedef_inner_rt; [exact Htd|discriminate].
    - assert (Hh : forall l, hd_is (is_p LBrace) (pr_typedef (TDEnum vs) ++ l) || hd_is (is_p Colon) (pr_typedef (TDEnum vs) ++ l) = false) by reflexivity.
      rewrite Hh. apply typedef_inner_rt; [exact Htd|discriminate]. }
  rewrite Htdp. rewrite supers_opt_rt by exact Hsup. rewrite expect_same.
  rewrite (members_loop_rt (member_def (map fst tps)) (pr_member_def dec) ms).
  - rewrite expect_same. reflexivity.
  - rewrite app_length. assert (length ms <= length (flat_map (pr_member_def dec) ms)).
    { apply flat_map_length_ge. intros m. destruct (pr_member_decl_starts (fst m)) as (t & l & E & _).
      unfold pr_member_def. rewrite E. cbn [app length]. lia. }
    cbn [length]. lia.
  - intros mb tl Hmb Htl. pose proof (forallb_In _ _ _ Hms Hmb) as H. cbn beta in H. apply andb_prop in H. destruct H as [H1 H2].
    apply member_def_rt; [exact H1|exact H2| |exact Htl].
    unfold top_suff in Hsuff. cbn [toplevel_bodies] in Hsuff. apply (forallb_In _ _ _ Hsuff). apply in_map. exact Hmb.
  - intros mb Hmb. destruct (pr_member_decl_starts (fst mb)) as (t & l & E & Hst). unfold pr_member_def. rewrite E.
    eexists _, _. split; [reflexivity|exact Hst].
Qed.

Lemma interface_rest_rt priv name tps sup ms tail :
  toplevel_ok (TInterface priv name tps sup ms) = true ->
  interface_rest priv (TUp name :: pr_tparams tps ++ pr_supers sup ++ TP LBrace :: flat_map pr_member_decl ms ++ TP RBrace :: tail)
  = Some (TInterface priv name tps sup ms, tail).
Proof.
  intros Hok. cbn [toplevel_ok] in Hok. rewrite !andb_true_iff in Hok. destruct Hok as [[Htp Hsup] Hms].
  unfold interface_rest. cbn [upper_id].
  assert (Hnl : not_lt (pr_supers sup ++ TP LBrace :: flat_map pr_member_decl ms ++ TP RBrace :: tail)) by (destruct sup; exact I).
  rewrite tparams_opt_rt; [|exact Htp|exact Hnl]. cbn [fst snd app].
  rewrite supers_opt_rt by exact Hsup. rewrite expect_same.
  rewrite (members_loop_rt (fun ts' => match member_decl false (map fst tps) ts' with Some (ma, r) => Some (fst ma, r) | None => None end)
             pr_member_decl ms).
  - rewrite expect_same. reflexivity.
  - rewrite app_length. assert (length ms <= length (flat_map pr_member_decl ms)).
    { apply flat_map_length_ge. intros m. destruct (pr_member_decl_starts m) as (t & l & E & _). rewrite E. cbn [length]. lia. }
    cbn [length]. lia.
  - intros m tl Hm Htl. pose proof (forallb_In _ _ _ Hms Hm) as H. cbn beta in H. apply andb_prop in H. destruct H as [H1 H2].
    rewrite member_decl_rt; [reflexivity|exact H2|intros Hp; rewrite Hp in H1; discriminate|exact Htl].
  - intros m Hm. apply pr_member_decl_starts.
Qed.

Definition top_tail (ts : list tok) : Prop :=
  match ts with [] => True | t :: _ => starts_toplevel t = true end.

Lemma toplevel_one_rt t tail : toplevel_ok t = true -> top_suff t = true ->
  toplevel_one (pr_toplevel dec t ++ tail) = Some (t, tail).
Proof.
  intros Hok Hs. unfold toplevel_one. destruct t as [priv name tps sup ms|priv name tps td sup ms]; cbn [pr_toplevel].
  - repeat (rewrite <- app_assoc; cbn [app]).
    destruct priv; cbn [app hd_is is_kw kw_eqb]; rewrite ?expect_kw_same; cbn [hd_is is_kw kw_eqb]; rewrite ?expect_kw_same;
      apply interface_rest_rt; exact Hok.
  - repeat (rewrite <- app_assoc; cbn [app]).
    destruct priv; cbn [app hd_is is_kw kw_eqb]; rewrite ?expect_kw_same; cbn [hd_is is_kw kw_eqb]; rewrite ?expect_kw_same;
      apply class_rest_rt; assumption.
Qed.

Lemma pr_toplevel_starts t : exists x l, pr_toplevel dec t = x :: l /\ starts_toplevel x = true.
Proof. destruct t as [[] name tps sup ms|[] name tps td sup ms]; eexists _, _; split; reflexivity. Qed.

Lemma toplevels_loop_rt : forall tops n, length tops < n ->
  forallb toplevel_ok tops = true -> forallb top_suff tops = true ->
  toplevels_loop n (flat_map (pr_toplevel dec) tops) = Some tops.
Proof.
  induction tops as [|t more IH]; intros n Hn Hok Hs; (destruct n as [|n]; [cbn in Hn; lia|]).
  - reflexivity.
  - cbn [forallb] in Hok, Hs. apply andb_prop in Hok, Hs. destruct Hok as [Hok1 Hok2], Hs as [Hs1 Hs2].
    cbn [flat_map toplevels_loop]. destruct (pr_toplevel_starts t) as (x & l & E & Hx).
    assert (Hm : pr_toplevel dec t ++ flat_map (pr_toplevel dec) more = x :: l ++ flat_map (pr_toplevel dec) more) by (rewrite E; reflexivity).
    rewrite Hm. cbn [hd_is]. rewrite Hx. rewrite <- Hm. rewrite toplevel_one_rt by assumption.
    rewrite (IH n); [reflexivity|cbn in Hn; lia|exact Hok2|exact Hs2].
Qed.
End Top.

(* ------------------------------------------------------------------ imports *)
Definition dtails (ps : list (bool * nat)) : list tok := flat_map (fun p => [TP Dot; pr_part p]) ps.
Lemma dots_cons p ps : dots (p :: ps) = pr_part p :: dtails ps.
Proof.
  revert p. induction ps as [|q qs IH]; intros p; [reflexivity|].
  change (dots (p :: q :: qs)) with (pr_part p :: TP Dot :: dots (q :: qs)). rewrite IH. reflexivity.
Qed.

Lemma ident_rt p r : ident (pr_part p :: r) = Some (p, r).
Proof. destruct p as [[] n]; reflexivity. Qed.

Lemma mod_parts_rt : forall ps n tail, length ps < n -> hd_is (is_p Dot) tail = false ->
  mod_parts n (dtails ps ++ tail) = Some (ps, tail).
Proof.
  induction ps as [|p more IH]; intros n tail Hn Hd; (destruct n as [|n]; [cbn in Hn; lia|]).
  - cbn [dtails flat_map app mod_parts]. rewrite Hd. reflexivity.
  - cbn [dtails flat_map app mod_parts hd_is is_p punct_eqb]. rewrite expect_same, ident_rt. fold (dtails more).
    rewrite (IH n tail); [reflexivity|cbn in Hn; lia|exact Hd].
Qed.

Lemma dtails_length ps : length ps <= length (dtails ps).
Proof. induction ps as [|p ps IH]; cbn [dtails flat_map length app]; [lia|]. fold (dtails ps). lia. Qed.

Lemma import_one_rt i tail : import_ok i = true -> import_one (pr_import i ++ tail) = Some (i, tail).
Proof.
  intros Hok. destruct i as [ms parts]. unfold import_ok in Hok. cbn [fst snd] in Hok. apply andb_prop in Hok. destruct Hok as [Hms Hparts].
  destruct ms as [|m ms]; [discriminate|]. destruct parts as [|p parts]; [discriminate|].
  unfold import_one, pr_import. cbn [fst snd app]. rewrite expect_kw_same, expect_same. rewrite <- app_assoc. cbn [app].
  rewrite (seplist_rt upper_id (is_p RBrace) (fun n => [TUp n]) (fun x => x) (fun _ => True) m ms _ (TP RBrace)
             (TK KFrom :: (dots (p :: parts) ++ [TP Semi]) ++ tail)).
  - rewrite map_id. rewrite expect_same, expect_kw_same. rewrite dots_cons. cbn [app]. rewrite ident_rt.
    rewrite <- app_assoc. cbn [app].
    rewrite mod_parts_rt; [|rewrite app_length; pose proof (dtails_length parts); lia|reflexivity].
    cbn [hd_is is_p punct_eqb]. rewrite expect_same. reflexivity.
  - rewrite app_length, commas_cons, app_length. pose proof (tails_length (fun n : nat => [TUp n]) ms). cbn [length]. lia.
  - discriminate.
  - exact I.
  - intros l. exact I.
  - intros y Hy. eexists _, _. split; reflexivity.
  - intros y tl Hy _. reflexivity.
Qed.

Lemma imports_loop_rt : forall imps n tail, length imps < n -> forallb import_ok imps = true ->
  hd_is (is_kw KImport) tail = false ->
  imports_loop n (flat_map pr_import imps ++ tail) = Some (imps, tail).
Proof.
  induction imps as [|i more IH]; intros n tail Hn Hok Ht; (destruct n as [|n]; [cbn in Hn; lia|]).
  - cbn [flat_map app imports_loop]. rewrite Ht. reflexivity.
  - cbn [forallb] in Hok. apply andb_prop in Hok. destruct Hok as [Hi Hmore].
    cbn [flat_map imports_loop]. rewrite <- app_assoc.
    assert (Hh : hd_is (is_kw KImport) (pr_import i ++ flat_map pr_import more ++ tail) = true) by reflexivity.
    rewrite Hh. rewrite import_one_rt by exact Hi. rewrite (IH n tail); [reflexivity|cbn in Hn; lia|exact Hmore|exact Ht].
Qed.

Section Module.
Variable dec : fexpr -> side -> bool.

(* printing the import lines as they are *)
Definition pr_module_raw (m : module) : list tok := flat_map pr_import (fst m) ++ flat_map (pr_toplevel dec) (snd m).

Lemma parse_module_raw_rt m : module_ok m = true -> module_suff dec m = true ->
  parse_module (pr_module_raw m) = Some m.
Proof.
  intros Hok Hs. destruct m as [imps tops]. unfold module_ok in Hok. cbn [fst snd] in Hok. apply andb_prop in Hok. destruct Hok as [Hi Ht].
  unfold parse_module, pr_module_raw. cbn [fst snd].
  assert (Hlen : length imps <= length (flat_map pr_import imps)).
  { apply flat_map_length_ge. intros i. unfold pr_import. cbn [length]. lia. }
  rewrite imports_loop_rt; [|rewrite app_length; lia|exact Hi|].
  - rewrite toplevels_loop_rt; [reflexivity| |exact Ht|].
    + pose proof (flat_map_length_ge (pr_toplevel dec) tops) as H. apply Nat.lt_succ_r. apply H.
      intros t. destruct (pr_toplevel_starts dec t) as (x & l & E & _). rewrite E. cbn [length]. lia.
    + unfold module_suff in Hs. cbn [snd] in Hs. clear -Hs. induction tops as [|t more IH]; [reflexivity|].
      cbn [flat_map forallb] in *. rewrite forallb_app in Hs. apply andb_prop in Hs. destruct Hs as [H1 H2].
      unfold top_suff at 1. rewrite H1. exact (IH H2).
  - destruct tops as [|t more]; [reflexivity|]. cbn [flat_map]. destruct (pr_toplevel_starts dec t) as (x & l & E & Hx). rewrite E.
    cbn [app hd_is]. destruct x as [q|p|y|y|z|s|o]; try reflexivity. destruct q; try discriminate; reflexivity.
Qed.
End Module.

(* ------------------------------------------------------------------ the import organisation *)
Lemma insert_by_in {A} (leb : A -> A -> bool) x l y : In y (insert_by leb x l) <-> y = x \/ In y l.
Proof.
  induction l as [|z l IH]; cbn [insert_by In]; [intuition|].
  destruct (leb z x); cbn [In]; rewrite ?IH; intuition.
Qed.

Lemma fold_insert_in {A} (leb : A -> A -> bool) l : forall acc y,
  In y (fold_left (fun a x => insert_by leb x a) l acc) <-> In y l \/ In y acc.
Proof.
  induction l as [|x l IH]; intros acc y; cbn [fold_left In]; [intuition|].
  rewrite IH, insert_by_in. intuition.
Qed.

Lemma sort_by_in {A} (leb : A -> A -> bool) l y : In y (sort_by leb l) <-> In y l.
Proof. unfold sort_by. rewrite fold_insert_in. cbn [In]. intuition. Qed.

Lemma forallb_sort_by {A} (leb : A -> A -> bool) (P : A -> bool) l : forallb P (sort_by leb l) = forallb P l.
Proof.
  destruct (forallb P l) eqn:E.
  - apply forallb_forall. intros y Hy. apply sort_by_in in Hy. exact (forallb_In _ _ _ E Hy).
  - destruct (forallb P (sort_by leb l)) eqn:E2; [|reflexivity]. rewrite <- E. symmetry. apply forallb_forall.
    intros y Hy. apply (forallb_In _ _ _ E2). apply sort_by_in. exact Hy.
Qed.

Lemma memb_in n l : memb n l = true <-> In n l.
Proof.
  unfold memb. rewrite existsb_exists. split.
  - intros (x & Hx & E). apply Nat.eqb_eq in E. subst. exact Hx.
  - intros H. exists n. split; [exact H|apply Nat.eqb_refl].
Qed.

Lemma memb_sort n l : memb n (sort_by Nat.leb l) = memb n l.
Proof.
  destruct (memb n l) eqn:E.
  - apply memb_in. apply (proj2 (sort_by_in Nat.leb l n)). apply memb_in. exact E.
  - destruct (memb n (sort_by Nat.leb l)) eqn:E2; [|reflexivity]. rewrite <- E. symmetry. apply memb_in.
    apply (proj1 (sort_by_in Nat.leb l n)). apply memb_in. exact E2.
Qed.

Lemma sort_by_nonnil {A} (leb : A -> A -> bool) l : l <> [] -> sort_by leb l <> [].
Proof.
  destruct l as [|x l]; [congruence|]. intros _ H.
  assert (Hin : In x (sort_by leb (x :: l))) by (apply sort_by_in; left; reflexivity). rewrite H in Hin. destruct Hin.
Qed.

(* name n is imported from module m *)
Definition owns (imps : list import) (n : nat) (m : modname) : Prop := exists ms, In (ms, m) imps /\ In n ms.

Lemma modname_eqb_true a b : modname_eqb a b = true -> a = b.
Proof.
  unfold modname_eqb. apply list_eqb_true. apply pair_eqb_eq; [|exact nat_eqb_true].
  intros [] []; cbn; congruence.
Qed.
Lemma modname_eqb_refl a : modname_eqb a a = true.
Proof.
  unfold modname_eqb. induction a as [|[b n] a IH]; [reflexivity|]. cbn [list_eqb]. unfold pair_eqb at 1. cbn [fst snd].
  rewrite Nat.eqb_refl. destruct b; cbn; exact IH.
Qed.

Lemma owns_add i acc n m : owns (add_import i acc) n m <-> owns acc n m \/ (In n (fst i) /\ m = snd i).
Proof.
  unfold owns. induction acc as [|[ms m0] acc IH]; cbn [add_import].
  - split.
    + intros (ms & [E|[]] & Hn). subst i. right. split; [exact Hn|reflexivity].
    + intros [(ms & [] & _)|[Hn ->]]. exists (fst i). split; [left; destruct i; reflexivity|exact Hn].
  - destruct (modname_eqb m0 (snd i)) eqn:E.
    + apply modname_eqb_true in E. subst m0. split.
      * intros (ms' & [E|Hin] & Hn).
        -- inversion E; subst. apply in_app_or in Hn. destruct Hn as [Hn|Hn].
           ++ left. eexists. split; [left; reflexivity|exact Hn].
           ++ right. split; [exact Hn|reflexivity].
        -- left. exists ms'. split; [right; exact Hin|exact Hn].
      * intros [(ms' & [E|Hin] & Hn)|[Hn ->]].
        -- inversion E; subst. eexists. split; [left; reflexivity|apply in_or_app; left; exact Hn].
        -- exists ms'. split; [right; exact Hin|exact Hn].
        -- exists (ms ++ fst i). split; [left; reflexivity|apply in_or_app; right; exact Hn].
    + split.
      * intros (ms' & [E'|Hin] & Hn).
        -- inversion E'; subst. left. eexists. split; [left; reflexivity|exact Hn].
        -- destruct (proj1 IH (ex_intro _ ms' (conj Hin Hn))) as [(ms2 & H2 & Hn2)|H2].
           ++ left. exists ms2. split; [right; exact H2|exact Hn2].
           ++ right. exact H2.
      * intros [(ms' & [E'|Hin] & Hn)|H2].
        -- inversion E'; subst. eexists. split; [left; reflexivity|exact Hn].
        -- destruct (proj2 IH (or_introl (ex_intro _ ms' (conj Hin Hn)))) as (ms2 & H2 & Hn2). exists ms2. split; [right; exact H2|exact Hn2].
        -- destruct (proj2 IH (or_intror H2)) as (ms2 & H3 & Hn2). exists ms2. split; [right; exact H3|exact Hn2].
Qed.

Lemma owns_merge_gen imps : forall acc n m,
  owns (fold_left (fun a i => add_import i a) imps acc) n m <-> owns acc n m \/ owns imps n m.
Proof.
  induction imps as [|i imps IH]; intros acc n m; cbn [fold_left].
  - split; [intros H; left; exact H|intros [H|(ms & [] & _)]; exact H].
  - rewrite IH, owns_add. unfold owns at 3 4. split.
    + intros [[H|[Hn ->]]|(ms & Hin & Hn)].
      * left. exact H.
      * right. exists (fst i). split; [left; destruct i; reflexivity|exact Hn].
      * right. exists ms. split; [right; exact Hin|exact Hn].
    + intros [H|(ms & [E|Hin] & Hn)].
      * left. left. exact H.
      * subst i. left. right. split; [exact Hn|reflexivity].
      * right. exists ms. split; [exact Hin|exact Hn].
Qed.

Lemma owns_organise imps n m : owns (organise imps) n m <-> owns imps n m.
Proof.
  unfold organise, owns at 1. split.
  - intros (ms & Hin & Hn). apply in_map_iff in Hin. destruct Hin as ([ms0 m0] & E & Hin). cbn [fst snd] in E. inversion E; subst.
    apply sort_by_in in Hin. apply sort_by_in in Hn.
    assert (Ho : owns (merge_imports imps) n m) by (exists ms0; split; assumption).
    unfold merge_imports in Ho. apply owns_merge_gen in Ho. destruct Ho as [(x & [] & _)|Ho]. exact Ho.
  - intros Ho. assert (Ho' : owns (merge_imports imps) n m) by (unfold merge_imports; apply owns_merge_gen; right; exact Ho).
    destruct Ho' as (ms0 & Hin & Hn). exists (sort_by Nat.leb ms0). split.
    + apply in_map_iff. exists (ms0, m). split; [reflexivity|]. apply sort_by_in. exact Hin.
    + apply sort_by_in. exact Hn.
Qed.

Lemma resolve_some imps n m : resolve imps n = Some m -> owns imps n m.
Proof.
  induction imps as [|[ms m0] rest IH]; cbn [resolve]; [discriminate|].
  destruct (resolve rest n) as [m'|] eqn:E.
  - intros H. inversion H; subst. destruct (IH eq_refl) as (ms' & Hin & Hn). exists ms'. split; [right; exact Hin|exact Hn].
  - destruct (memb n ms) eqn:Em; [|discriminate]. intros H. inversion H; subst. exists ms. split; [left; reflexivity|apply memb_in; exact Em].
Qed.

Lemma resolve_none imps n : resolve imps n = None -> forall m, ~ owns imps n m.
Proof.
  induction imps as [|[ms m0] rest IH]; cbn [resolve]; intros H m (ms' & Hin & Hn); [destruct Hin|].
  destruct (resolve rest n) as [m'|] eqn:E; [discriminate|]. destruct (memb n ms) eqn:Em; [discriminate|].
  destruct Hin as [E'|Hin].
  - inversion E'; subst. apply memb_in in Hn. congruence.
  - apply (IH eq_refl m). exists ms'. split; assumption.
Qed.

Definition functional (imps : list import) : Prop := forall n m1 m2, owns imps n m1 -> owns imps n m2 -> m1 = m2.

Lemma no_conflict_functional imps : import_conflict imps = false -> functional imps.
Proof.
  induction imps as [|[ms m0] rest IH]; intros Hc n m1 m2 (ms1 & H1 & Hn1) (ms2 & H2 & Hn2); [destruct H1|].
  cbn [import_conflict] in Hc. apply orb_false_elim in Hc. destruct Hc as [Hex Hrest].
  assert (Hown : forall m, owns rest n m -> In n ms -> m = m0).
  { intros m Ho Hin. destruct (resolve rest n) as [m'|] eqn:E.
    - pose proof (resolve_some _ _ _ E) as Ho'. rewrite (IH Hrest n m m' Ho Ho').
      destruct (modname_eqb m0 m') eqn:Eq; [symmetry; apply modname_eqb_true; exact Eq|].
      exfalso. assert (Hx : existsb (fun n0 => match resolve rest n0 with Some m'0 => negb (modname_eqb m0 m'0) | None => false end) ms = true).
      { apply existsb_exists. exists n. split; [exact Hin|]. rewrite E, Eq. reflexivity. }
      congruence.
    - exfalso. exact (resolve_none _ _ E m Ho). }
  destruct H1 as [E1|H1], H2 as [E2|H2].
  - congruence.
  - inversion E1; subst. symmetry. apply Hown; [exists ms2; split; assumption|exact Hn1].
  - inversion E2; subst. apply Hown; [exists ms1; split; assumption|exact Hn2].
  - apply (IH Hrest n); [exists ms1|exists ms2]; split; assumption.
Qed.

(* organising the imports does not change what a name resolves to - unless a name is imported from two modules *)
Theorem resolve_organise imps : import_conflict imps = false -> forall n, resolve (organise imps) n = resolve imps n.
Proof.
  intros Hc n. pose proof (no_conflict_functional imps Hc) as Hf.
  destruct (resolve (organise imps) n) as [m1|] eqn:E1; destruct (resolve imps n) as [m2|] eqn:E2; try reflexivity.
  - apply resolve_some in E1, E2. apply (proj1 (owns_organise _ _ _)) in E1. rewrite (Hf n m1 m2 E1 E2). reflexivity.
  - apply resolve_some in E1. apply (proj1 (owns_organise _ _ _)) in E1. exfalso. exact (resolve_none _ _ E2 m1 E1).
  - apply resolve_some in E2. apply (proj2 (owns_organise _ _ _)) in E2. exfalso. exact (resolve_none _ _ E1 m2 E2).
Qed.

Lemma add_import_ok i acc : import_ok i = true -> forallb import_ok acc = true -> forallb import_ok (add_import i acc) = true.
Proof.
  intros Hi. induction acc as [|[ms m] acc IH]; cbn [add_import forallb]; intros H; [rewrite Hi; reflexivity|].
  apply andb_prop in H. destruct H as [H1 H2]. destruct (modname_eqb m (snd i)); cbn [forallb].
  - rewrite H2, andb_true_r. unfold import_ok in *. cbn [fst snd] in *. apply andb_prop in H1. destruct H1 as [Ha Hb].
    rewrite Hb, andb_true_r. destruct ms; [discriminate|reflexivity].
  - rewrite H1, (IH H2). reflexivity.
Qed.

Lemma organise_ok imps : forallb import_ok imps = true -> forallb import_ok (organise imps) = true.
Proof.
  intros H. unfold organise. rewrite forallb_forall. intros x Hx. apply in_map_iff in Hx. destruct Hx as ([ms m] & E & Hin). subst x.
  apply sort_by_in in Hin.
  assert (Hm : forallb import_ok (merge_imports imps) = true).
  { unfold merge_imports. assert (G : forall l acc, forallb import_ok l = true -> forallb import_ok acc = true ->
        forallb import_ok (fold_left (fun a i => add_import i a) l acc) = true).
    { induction l as [|i l IHl]; intros acc Hl Hacc; cbn [fold_left]; [exact Hacc|].
      cbn [forallb] in Hl. apply andb_prop in Hl. apply IHl; [exact (proj2 Hl)|apply add_import_ok; [exact (proj1 Hl)|exact Hacc]]. }
    apply G; [exact H|reflexivity]. }
  pose proof (forallb_In _ _ _ Hm Hin) as Hok. unfold import_ok in *. cbn [fst snd] in *. apply andb_prop in Hok. destruct Hok as [Ha Hb].
  rewrite Hb, andb_true_r. destruct ms as [|a ms']; [discriminate|].
  destruct (sort_by Nat.leb (a :: ms')) eqn:Es; [|reflexivity]. exfalso. apply (sort_by_nonnil Nat.leb (a :: ms')); [discriminate|exact Es].
Qed.

(* ------------------------------------------------------------------ the module round trip *)
Theorem module_roundtrip dec m : module_ok m = true -> module_suff dec m = true ->
  parse_module (pr_module dec m) = Some (organise (fst m), snd m).
Proof.
  intros Hok Hs. apply (parse_module_raw_rt dec (organise (fst m), snd m)).
  - unfold module_ok in *. cbn [fst snd]. apply andb_prop in Hok. destruct Hok as [H1 H2]. rewrite (organise_ok _ H1), H2. reflexivity.
  - exact Hs.
Qed.

Lemma existsb_false_forallb {A} (f g : A -> bool) l : (forall x, f x = negb (g x)) -> existsb g l = false -> forallb f l = true.
Proof.
  intros H. induction l as [|x l IH]; cbn [existsb forallb]; [reflexivity|]. intros E. apply orb_false_elim in E.
  rewrite H, (proj1 E). cbn. apply IH. exact (proj2 E).
Qed.

Theorem module_roundtrip_outside_known m : module_ok m = true -> module_known m = false ->
  parse_module (fimpl_module m) = Some (organise (fst m), snd m).
Proof.
  intros Hok Hk. apply module_roundtrip; [exact Hok|]. unfold module_suff, module_known in *.
  apply (existsb_false_forallb _ fknown); [|exact Hk]. intros x. apply fsafe_known.
Qed.

(* the whole statement: the module read back has the same toplevels, imports the same names from the same modules,
   and resolves every name to the same module - outside Known_C08 and without an import conflict (K7) *)
Theorem module_denotation_preserved m : module_ok m = true -> module_known m = false -> import_conflict (fst m) = false ->
  exists m', parse_module (fimpl_module m) = Some m' /\ snd m' = snd m
             /\ (forall n md, owns (fst m') n md <-> owns (fst m) n md)
             /\ (forall n, resolve (fst m') n = resolve (fst m) n).
Proof.
  intros Hok Hk Hc. exists (organise (fst m), snd m). split; [apply module_roundtrip_outside_known; assumption|].
  split; [reflexivity|]. split; [intros n md; apply owns_organise|apply resolve_organise; exact Hc].
Qed.

(* K7: with a name imported from two modules the module read back resolves it to the other one *)
Definition k7_module : module := ([([10], [(false, 12)]); ([10], [(false, 11)])], []).
Lemma K7_witness : module_ok k7_module = true /\ module_known k7_module = false /\ import_conflict (fst k7_module) = true /\
  parse_module (fimpl_module k7_module) = Some ([([10], [(false, 11)]); ([10], [(false, 12)])], []) /\
  resolve (fst k7_module) 10 = Some [(false, 11)] /\ resolve [([10], [(false, 11)]); ([10], [(false, 12)])] 10 = Some [(false, 12)].
Proof. repeat split; vm_compute; reflexivity. Qed.

Theorem module_denotation_refuted : exists m, module_ok m = true /\ module_known m = false /\
  forall m', parse_module (fimpl_module m) = Some m' -> exists n, resolve (fst m') n <> resolve (fst m) n.
Proof.
  exists k7_module. destruct K7_witness as (H1 & H2 & _ & Hp & Hr1 & Hr2). split; [exact H1|]. split; [exact H2|].
  intros m' H. rewrite Hp in H. inversion H; subst. exists 10. cbn [fst]. rewrite Hr2. change (fst k7_module) with (fst k7_module). rewrite Hr1. discriminate.
Qed.
