(* C08 — full model, proofs part 3: print/parse round trip of expressions and statements for every
   printer that puts at least the parentheses the grammar needs (then: the implementation's printer
   outside the known classes, FProofsImpl.v). *)
From Coq Require Import List Arith Bool Lia ZArith NArith.
Import ListNotations.
From SV Require Import C08.Syntax C08.Model C08.ProofsMono C08.Lit C08.FSyntax C08.FModelTypes C08.FModelExpr
  C08.FProofsGen C08.FProofsTypes C08.FProofsExprFuel.

Definition ffollow_ok (k : nat) (ts : list tok) : Prop :=
  match ts with
  | TOp o :: _ => plevel o < k
  | TP Dot :: _ | TP LParen :: _ => 9 <= k
  | TP Arrow :: _ => False
  | _ => True
  end.

Lemma ffollow_ok_mono k k' ts : k <= k' -> ffollow_ok k ts -> ffollow_ok k' ts.
Proof. destruct ts as [|[q|p|x|x|z|s|o] ts']; cbn; auto; try (intros; lia). destruct p; auto; intros; lia. Qed.

(* the level at which a token can start an expression *)
Definition fhd_level (t : tok) : nat :=
  match t with
  | TK KTrue | TK KFalse | TK KThis | TInt _ | TStr _ | TLow _ | TUp _ | TP LParen | TP LBrace => 9
  | TP Bang | TOp Minus => 7
  | _ => 0
  end.
(* the tokens an expression can start with *)
Definition estart (t : tok) : bool :=
  match t with
  | TK KTrue | TK KFalse | TK KThis | TK KIf | TK KMatch | TInt _ | TStr _ | TLow _ | TUp _
  | TP LParen | TP LBrace | TP Bang | TOp Minus => true
  | _ => false
  end.

(* ------------------------------------------------------------------ the shape of printed expressions *)
Section Heads.
Variable dec : fexpr -> side -> bool.

Lemma fsuff_node_side e s : fsuff_node dec e = true -> fneed dec e s = true -> dec e s = true.
Proof.
  unfold fsuff_node. rewrite forallb_forall. intros H Hn.
  assert (Hin : In s sides) by (destruct s; cbn; tauto).
  specialize (H s Hin). rewrite Hn in H. exact H.
Qed.

Lemma fneed_level_need e s : fneed_level e s = true -> fneed dec e s = true.
Proof. intros H. unfold fneed. rewrite H. reflexivity. Qed.

Lemma fsuff_node_of e : fsuff dec e = true -> fsuff_node dec e = true.
Proof. unfold fsuff. destruct e; cbn [fall]; rewrite ?andb_true_iff; tauto. Qed.

Lemma flevel_bound e : flevel e <= 9.
Proof. destruct e; cbn; try lia. pose proof (plevel_bounds o). lia. Qed.

Lemma pr_lit_head l : fhd_level (pr_lit l) = 9 /\ estart (pr_lit l) = true.
Proof. destruct l as [z|s|[]]; split; reflexivity. Qed.

(* first token of a printed expression *)
Lemma fpr_head : forall c, fsuff dec c = true ->
  exists t rest, fpr dec c = t :: rest /\ flevel c <= fhd_level t /\ estart t = true.
Proof.
  induction c as [l|n| |n|es|a IHa up f tas|a IHa args|u a IHa|o a IHa b IHb|g c IHc b1 IHb1 e2 IHe2|s IHs arms|ps b IHb|ss r];
    intros Hs; pose proof (fsuff_node_of _ Hs) as Hn; cbn [fpr flevel].
  - destruct (pr_lit_head l) as [H1 H2]. eexists _, _; split; [reflexivity|]. rewrite H1. split; [lia|exact H2].
  - eexists _, _; split; [reflexivity|]. split; [cbn; lia|reflexivity].
  - eexists _, _; split; [reflexivity|]. split; [cbn; lia|reflexivity].
  - eexists _, _; split; [reflexivity|]. split; [cbn; lia|reflexivity].
  - eexists _, _; split; [reflexivity|]. split; [cbn; lia|reflexivity].
  - destruct (dec (XField a up f tas) SBase) eqn:Ed; cbn [fwrap app].
    + eexists _, _; split; [reflexivity|]. split; [cbn; lia|reflexivity].
    + cbn [fsuff fall] in Hs. rewrite andb_true_iff in Hs. destruct (IHa (proj2 Hs)) as (t & rest & E & Hl & He).
      rewrite E. cbn [app]. eexists _, _; split; [reflexivity|]. split; [|exact He].
      destruct (Nat.ltb_spec (flevel a) 8) as [Hlt|]; [|lia].
      rewrite (fsuff_node_side _ SBase Hn) in Ed; [discriminate|]. apply fneed_level_need. cbn [fneed_level].
      apply Nat.ltb_lt. exact Hlt.
  - destruct (dec (XCall a args) SBase) eqn:Ed; cbn [fwrap app].
    + eexists _, _; split; [reflexivity|]. split; [cbn; lia|reflexivity].
    + cbn [fsuff fall] in Hs. rewrite !andb_true_iff in Hs. destruct (IHa (proj1 (proj2 Hs))) as (t & rest & E & Hl & He).
      rewrite E. cbn [app]. eexists _, _; split; [reflexivity|]. split; [|exact He].
      destruct (Nat.ltb_spec (flevel a) 8) as [Hlt|]; [|lia].
      rewrite (fsuff_node_side _ SBase Hn) in Ed; [discriminate|]. apply fneed_level_need. cbn [fneed_level].
      apply Nat.ltb_lt. exact Hlt.
  - destruct u; eexists _, _; (split; [reflexivity|]); split; try reflexivity; cbn; lia.
  - pose proof (plevel_bounds o). destruct (dec (XBin o a b) SLeft) eqn:Ed; cbn [fwrap app].
    + eexists _, _; split; [reflexivity|]. split; [cbn; lia|reflexivity].
    + cbn [fsuff fall] in Hs. rewrite !andb_true_iff in Hs. destruct (IHa (proj1 (proj2 Hs))) as (t & rest & E & Hl & He).
      rewrite E. cbn [app]. eexists _, _; split; [reflexivity|]. split; [|exact He].
      destruct (Nat.ltb_spec (flevel a) (plevel o)) as [Hlt|]; [|lia].
      rewrite (fsuff_node_side _ SLeft Hn) in Ed; [discriminate|]. apply fneed_level_need. cbn [fneed_level].
      apply Nat.ltb_lt. exact Hlt.
  - eexists _, _; split; [reflexivity|]. split; [cbn; lia|reflexivity].
  - eexists _, _; split; [reflexivity|]. split; [cbn; lia|reflexivity].
  - eexists _, _; split; [reflexivity|]. split; [cbn; lia|reflexivity].
  - eexists _, _; split; [reflexivity|]. split; [cbn; lia|reflexivity].
Qed.

Definition not_sep (t : tok) : Prop := t <> TP RParen /\ t <> TP Comma /\ t <> TP Colon.

(* a printed expression that starts with an identifier is that identifier alone, or goes on with
   something that is neither `)` nor `,` nor `:` *)
Lemma fpr_head_id : forall c x rest, fpr dec c = TLow x :: rest ->
  (c = XId x /\ rest = []) \/ (exists t rest', rest = t :: rest' /\ not_sep t).
Proof.
  induction c as [l|n| |n|es|a IHa up f tas|a IHa args|u a IHa|o a IHa b IHb|g c IHc b1 IHb1 e2 IHe2|s IHs arms|ps b IHb|ss r];
    intros x rest E; cbn [fpr] in E; try discriminate.
  - destruct l as [z|s|[]]; discriminate.
  - inversion E; subst. left. split; reflexivity.
  - destruct (dec (XField a up f tas) SBase); cbn [fwrap app] in E; [discriminate|].
    destruct (fpr dec a) as [|t0 l0] eqn:Ea; cbn [app] in E; [discriminate|].
    inversion E; subst. right. destruct (IHa x l0 eq_refl) as [[_ ->]|(t & r' & -> & Ht)].
    + eexists _, _; split; [reflexivity|]. repeat split; discriminate.
    + eexists _, _; split; [reflexivity|exact Ht].
  - destruct (dec (XCall a args) SBase); cbn [fwrap app] in E; [discriminate|].
    destruct (fpr dec a) as [|t0 l0] eqn:Ea; cbn [app] in E; [discriminate|].
    inversion E; subst. right. destruct (IHa x l0 eq_refl) as [[_ ->]|(t & r' & -> & Ht)].
    + eexists _, _; split; [reflexivity|]. repeat split; discriminate.
    + eexists _, _; split; [reflexivity|exact Ht].
  - destruct u; discriminate.
  - destruct (dec (XBin o a b) SLeft); cbn [fwrap app] in E; [discriminate|].
    destruct (fpr dec a) as [|t0 l0] eqn:Ea; cbn [app] in E; [discriminate|].
    inversion E; subst. right. destruct (IHa x l0 eq_refl) as [[_ ->]|(t & r' & -> & Ht)].
    + eexists _, _; split; [reflexivity|]. repeat split; discriminate.
    + eexists _, _; split; [reflexivity|exact Ht].
Qed.
End Heads.

Section RT.
Variable tps : list nat.
Local Notation P := (pmode tps).

Lemma P_level_step k ts e r : 1 <= k <= 6 -> P (MLevel (S k)) ts = Some (e, r) -> P (MLevel k) ts = P (MLoop k e) r.
Proof.
  intros Hk H. rewrite (pmode_eq tps (MLevel k)). cbn [estep].
  destruct (Nat.eqb_spec k 0); [lia|]. destruct (Nat.leb_spec k 6); [|lia]. rewrite H. reflexivity.
Qed.

Lemma P_loop_step k o e ts e2 r : plevel o = k -> P (MLevel (S k)) ts = Some (e2, r) ->
  P (MLoop k e) (TOp o :: ts) = P (MLoop k (XBin o e e2)) r.
Proof. intros Hk H. rewrite (pmode_eq tps (MLoop k e)). cbn [estep]. rewrite Hk, Nat.eqb_refl, H. reflexivity. Qed.

Lemma P_loop_exit k e ts : ffollow_ok k ts -> P (MLoop k e) ts = Some (e, ts).
Proof.
  intros H. rewrite pmode_eq. cbn [estep]. destruct ts as [|[q|p|x|x|z|s|o] ts']; try reflexivity.
  cbn in H. destruct (Nat.eqb_spec (plevel o) k); [lia|reflexivity].
Qed.

Lemma P_level0_step t ts : 1 <= fhd_level t -> P (MLevel 0) (t :: ts) = P (MLevel 1) (t :: ts).
Proof.
  intros Ht. rewrite (pmode_eq tps (MLevel 0)). cbn [estep Nat.eqb level0].
  destruct t as [q|p|x|x|z|s|o]; try reflexivity. destruct q; cbn in Ht; try lia; reflexivity.
Qed.

Lemma P_level7_step t ts : 8 <= fhd_level t -> P (MLevel 7) (t :: ts) = P (MLevel 8) (t :: ts).
Proof.
  intros Ht. rewrite (pmode_eq tps (MLevel 7)). cbn [estep Nat.eqb Nat.leb].
  destruct t as [q|p|x|x|z|s|o]; try reflexivity.
  - destruct p; cbn in Ht; try lia; reflexivity.
  - destruct o; cbn in Ht; try lia; reflexivity.
Qed.

Lemma P_unary u ts a r : P (MLevel 8) ts = Some (a, r) -> P (MLevel 7) (futok u :: ts) = Some (XUn u a, r).
Proof. intros H. rewrite pmode_eq. cbn [estep Nat.eqb Nat.leb]. destruct u; cbn [futok]; rewrite H; reflexivity. Qed.

Lemma P_level8_step ts e r : P (MLevel 9) ts = Some (e, r) -> P (MLevel 8) ts = P (MPost e) r.
Proof. intros H. rewrite (pmode_eq tps (MLevel 8)). cbn [estep Nat.eqb Nat.leb]. rewrite H. reflexivity. Qed.

Lemma P_post_exit e ts : ffollow_ok 8 ts -> P (MPost e) ts = Some (e, ts).
Proof.
  intros H. rewrite pmode_eq. cbn [estep post_step]. destruct ts as [|[q|p|x|x|z|s|o] ts']; try reflexivity.
  destruct p; try reflexivity; cbn in H; lia.
Qed.

Lemma P_level9 ts : P (MLevel 9) ts = base_expr tps P ts.
Proof. rewrite pmode_eq. reflexivity. Qed.

Lemma P_chain_last e ts : P (MChain 1 e) ts = P (MLoop 1 e) ts.
Proof. rewrite (pmode_eq tps (MChain 1 e)). cbn [estep Nat.ltb Nat.leb]. destruct (P (MLoop 1 e) ts) as [[e' r]|]; reflexivity. Qed.

Lemma P_chain_step k e ts : 2 <= k <= 6 ->
  P (MChain k e) ts = match P (MLoop k e) ts with Some (e', r) => P (MChain (pred k) e') r | None => None end.
Proof.
  intros Hk. rewrite (pmode_eq tps (MChain k e)). cbn [estep].
  destruct (Nat.ltb_spec 6 k); [lia|]. destruct (Nat.leb_spec k 1); [lia|]. reflexivity.
Qed.

Lemma P_frombase e ts :
  P (MFromBase e) ts = match P (MPost e) ts with Some (e', r) => P (MChain 6 e') r | None => None end.
Proof. rewrite (pmode_eq tps (MFromBase e)). reflexivity. Qed.

(* ---- the `( id <other>` path reads what parse_expression would read *)
Definition chain_from (k : nat) (x : presult fexpr) : presult fexpr :=
  match x with Some (e, r) => P (MChain k e) r | None => None end.

Lemma chain_from_down k ts : 2 <= k <= 6 ->
  chain_from k (P (MLevel (S k)) ts) = chain_from (pred k) (P (MLevel k) ts).
Proof.
  intros Hk. unfold chain_from.
  destruct (P (MLevel (S k)) ts) as [[e r]|] eqn:E.
  - rewrite (P_level_step k ts e r ltac:(lia) E). rewrite P_chain_step by lia. reflexivity.
  - rewrite (pmode_eq tps (MLevel k)). cbn [estep].
    destruct (Nat.eqb_spec k 0); [lia|]. destruct (Nat.leb_spec k 6); [|lia]. rewrite E. reflexivity.
Qed.

Lemma chain_from_1 ts : chain_from 1 (P (MLevel 2) ts) = P (MLevel 1) ts.
Proof.
  unfold chain_from. destruct (P (MLevel 2) ts) as [[e r]|] eqn:E.
  - rewrite (P_level_step 1 ts e r ltac:(lia) E). apply P_chain_last.
  - rewrite (pmode_eq tps (MLevel 1)). cbn [estep Nat.eqb Nat.leb]. rewrite E. reflexivity.
Qed.

Lemma frombase_of_level0 x l : P (MFromBase (XId x)) l = P (MLevel 0) (TLow x :: l).
Proof.
  rewrite P_level0_step by (cbn; lia). rewrite <- chain_from_1.
  rewrite <- (chain_from_down 2) by lia. rewrite <- (chain_from_down 3) by lia.
  rewrite <- (chain_from_down 4) by lia. rewrite <- (chain_from_down 5) by lia. rewrite <- (chain_from_down 6) by lia.
  rewrite P_level7_step by (cbn; lia).
  rewrite (P_level8_step (TLow x :: l) (XId x) l) by (rewrite P_level9; reflexivity).
  rewrite P_frombase. reflexivity.
Qed.

(* ------------------------------------------------------------------ delimited positions *)
Variable dec : fexpr -> side -> bool.

Definition sep_tail (ts : list tok) : Prop :=
  match ts with
  | TP Comma :: _ | TP RParen :: _ | TP Semi :: _ | TP RBrace :: _ | TP LBrace :: _ => True
  | _ => False
  end.

(* the element of a delimited position is read back by parse_expression *)
Definition E0 (x : fexpr) : Prop := forall tail, sep_tail tail -> P (MLevel 0) (fpr dec x ++ tail) = Some (x, tail).

Lemma is_p_false p t : t <> TP p -> is_p p t = false.
Proof.
  destruct t as [q|p'|x|x|z|s|o]; try reflexivity. intros H. cbn.
  destruct p, p'; try reflexivity; exfalso; apply H; reflexivity.
Qed.

Lemma estart_not_p t p : estart t = true -> p <> LParen -> p <> LBrace -> p <> Bang -> is_p p t = false.
Proof. destruct t as [q|p'|x|x|z|s|o]; try reflexivity. destruct p'; try discriminate; destruct p; try reflexivity; congruence. Qed.

Lemma ffollow9_not_arrow ts : ffollow_ok 9 ts -> hd_is (is_p Arrow) ts = false.
Proof. destruct ts as [|[q|p|x|x|z|s|o] ts']; try reflexivity. destruct p; try reflexivity. intros []. Qed.

Lemma fpr_starts_ok c : fsuff dec c = true -> starts_ok (fpr dec) (is_p RParen) c.
Proof.
  intros Hs. destruct (fpr_head dec c Hs) as (t & rest & E & _ & He). exists t, rest. split; [exact E|].
  apply estart_not_p; [exact He|discriminate..].
Qed.

Lemma one_elem_list c n ts : fsuff dec c = true -> E0 c ->
  seplist (P (MLevel 0)) (is_p RParen) (S n) (fpr dec c ++ TP RParen :: ts) = Some ([c], TP RParen :: ts).
Proof.
  intros Hs He.
  pose proof (seplist_rt (P (MLevel 0)) (is_p RParen) (fpr dec) (fun x => x) sep_tail c [] (S n) (TP RParen) ts) as H.
  cbn [map commas] in H. apply H.
  - cbn; lia.
  - discriminate.
  - exact I.
  - intros l. exact I.
  - intros y [].
  - intros y tail [<-|[]] Hf. apply He. exact Hf.
Qed.

Lemma paren_wrap c ts : fsuff dec c = true -> E0 c -> ffollow_ok 9 ts ->
  P (MLevel 9) (TP LParen :: fpr dec c ++ TP RParen :: ts) = Some (c, ts).
Proof.
  intros Hs He Hf. rewrite P_level9. cbn [base_expr]. unfold paren_expr.
  destruct (fpr_head dec c Hs) as (t & rest & E & _ & Het).
  assert (Hrp : hd_is (is_p RParen) (fpr dec c ++ TP RParen :: ts) = false).
  { rewrite E. cbn [app hd_is]. apply estart_not_p; [exact Het|discriminate..]. }
  rewrite Hrp.
  assert (Hlist : paren_list (P (MLevel 0)) (Some MAX_STRUCT_SIZE) (fpr dec c ++ TP RParen :: ts) = Some ([c], ts)).
  { unfold paren_list. rewrite Hrp. rewrite one_elem_list by assumption. cbn [length MAX_STRUCT_SIZE Nat.ltb Nat.leb].
    rewrite expect_same. reflexivity. }
  destruct t as [q|p|x|x|z|s|o]; try (rewrite E in *; cbn [app] in *; rewrite Hlist; reflexivity).
  (* starts with a lower-case identifier *)
  destruct (fpr_head_id dec c x rest E) as [[-> ->]|(t' & rest' & -> & Hn1 & Hn2 & Hn3)].
  - cbn [fpr app hd_is is_p punct_eqb]. rewrite expect_same. rewrite (ffollow9_not_arrow _ Hf). reflexivity.
  - rewrite E. cbn [app hd_is]. rewrite (is_p_false Colon t' Hn3), (is_p_false Comma t' Hn2), (is_p_false RParen t' Hn1).
    rewrite frombase_of_level0.
    change (TLow x :: t' :: rest' ++ TP RParen :: ts) with ((TLow x :: t' :: rest') ++ TP RParen :: ts). rewrite <- E.
    rewrite (He (TP RParen :: ts) I). cbn [hd_is is_p punct_eqb]. rewrite expect_same. reflexivity.
Qed.

Lemma args_rt args ts : (forall x, In x args -> fsuff dec x = true /\ E0 x) ->
  paren_list (P (MLevel 0)) None (commas (map (fpr dec) args) ++ TP RParen :: ts) = Some (args, ts).
Proof.
  intros Hall. unfold paren_list. destruct args as [|a args].
  - cbn [map commas app hd_is is_p punct_eqb]. rewrite expect_same. reflexivity.
  - assert (Hrp : hd_is (is_p RParen) (commas (map (fpr dec) (a :: args)) ++ TP RParen :: ts) = false).
    { rewrite commas_cons. destruct (fpr_head dec a (proj1 (Hall a (or_introl eq_refl)))) as (t & rest & E & _ & Het).
      rewrite E. cbn [app hd_is]. apply estart_not_p; [exact Het|discriminate..]. }
    rewrite Hrp.
    rewrite (seplist_rt (P (MLevel 0)) (is_p RParen) (fpr dec) (fun x => x) sep_tail a args _ (TP RParen) ts).
    + rewrite map_id, expect_same. reflexivity.
    + rewrite app_length, commas_cons, app_length. pose proof (tails_length (fpr dec) args). cbn [length]. lia.
    + discriminate.
    + exact I.
    + intros l. exact I.
    + intros y Hy. apply fpr_starts_ok. apply Hall. right. exact Hy.
    + intros y tail Hy Hf. apply (proj2 (Hall y Hy)). exact Hf.
Qed.

(* ---- tuples: the three ways into a tuple (`( id ,` cover, `( id <other>`, expression list) *)
Lemma tuple_match (l : list fexpr) (r : list tok) : 2 <= length l ->
  match l with [_] => None | all => Some (XTuple all, r) end = Some (XTuple l, r).
Proof. destruct l as [|a [|b l]]; cbn; intros; try lia; reflexivity. Qed.

Lemma is_xid_pr e : is_xid e = true -> exists n, e = XId n.
Proof. destruct e; try discriminate. intros _. eexists. reflexivity. Qed.

Lemma sep_tail_tails more ts : sep_tail (tails (fpr dec) more ++ TP RParen :: ts).
Proof. destruct more; cbn; exact I. Qed.

Lemma collect_rt before more ts :
  (forall x, In x more -> fsuff dec x = true /\ E0 x) ->
  length (before ++ more) <= MAX_STRUCT_SIZE -> 2 <= length (before ++ more) ->
  collect (P (MLevel 0)) before (tails (fpr dec) more ++ TP RParen :: ts) = Some (XTuple (before ++ more), ts).
Proof.
  intros Hall Hmax Hmin. unfold collect.
  rewrite (seprest_rt (P (MLevel 0)) (is_p RParen) (fpr dec) (fun x => x) sep_tail more _ (TP RParen) ts).
  - rewrite map_id. destruct (Nat.ltb_spec MAX_STRUCT_SIZE (length (before ++ more))); [lia|].
    rewrite expect_same. destruct (before ++ more) as [|a [|b l]]; cbn [length] in Hmin; try lia. reflexivity.
  - rewrite app_length. pose proof (tails_length (fpr dec) more). lia.
  - discriminate.
  - exact I.
  - intros l. exact I.
  - intros y Hy. apply fpr_starts_ok. apply Hall. exact Hy.
  - intros y tail Hy Hf. apply (proj2 (Hall y Hy)). exact Hf.
Qed.

Lemma not_xid_of_print e t rest : fpr dec e = t :: rest -> (forall x, t <> TLow x) \/ rest <> [] -> is_xid e = false.
Proof.
  intros E H. destruct (is_xid e) eqn:Ex; [|reflexivity]. destruct (is_xid_pr e Ex) as [n ->]. cbn in E. inversion E; subst.
  destruct H as [H|H]; [exfalso; apply (H n); reflexivity|exfalso; apply H; reflexivity].
Qed.

Lemma forallb_false_in {A} (f : A -> bool) l x : In x l -> f x = false -> forallb f l = false.
Proof.
  intros Hi Hf. destruct (forallb f l) eqn:E; [|reflexivity]. rewrite forallb_forall in E. rewrite (E x Hi) in Hf. discriminate.
Qed.

Lemma cover_tuple : forall elems ids n ts,
  (forall x, In x elems -> fsuff dec x = true /\ E0 x) ->
  ids <> [] -> elems <> [] -> length elems < n -> ffollow_ok 9 ts ->
  (length ids + length elems <= MAX_STRUCT_SIZE \/ forallb is_xid elems = true) ->
  cover tps P n ids (tails (fpr dec) elems ++ TP RParen :: ts) = Some (XTuple (map XId ids ++ elems), ts).
Proof.
  induction elems as [|e more IH]; intros ids n ts Hall Hids Hne Hn Hf Hsz; [congruence|].
  destruct n as [|n]; [cbn in Hn; lia|].
  destruct (Hall e (or_introl eq_refl)) as [Hse He0].
  destruct (fpr_head dec e Hse) as (t & rest & E & _ & Het).
  assert (Hlen2 : 2 <= length (map XId ids ++ e :: more)).
  { rewrite app_length, map_length. destruct ids; [congruence|]. cbn [length]. lia. }
  assert (Hmore : forall x, In x more -> fsuff dec x = true /\ E0 x) by (intros x Hx; apply Hall; right; exact Hx).
  assert (Hcollect : is_xid e = false ->
            collect (P (MLevel 0)) (map XId ids ++ [e]) (tails (fpr dec) more ++ TP RParen :: ts)
            = Some (XTuple (map XId ids ++ e :: more), ts)).
  { intros Hx. rewrite collect_rt; [rewrite <- app_assoc; reflexivity|exact Hmore| |].
    - destruct Hsz as [Hsz|Hsz]; [|rewrite (forallb_false_in is_xid (e :: more) e (or_introl eq_refl) Hx) in Hsz; discriminate].
      rewrite <- app_assoc. cbn [app]. rewrite app_length, map_length. exact Hsz.
    - rewrite <- app_assoc. exact Hlen2. }
  cbn [tails flat_map app cover]. fold (tails (fpr dec) more). rewrite <- app_assoc.
  assert (Hdefault : (forall x, t <> TLow x) ->
     (if hd_is (is_p RParen) (fpr dec e ++ tails (fpr dec) more ++ TP RParen :: ts)
      then cover_end (P (MLevel 0)) ids (fpr dec e ++ tails (fpr dec) more ++ TP RParen :: ts)
      else match P (MLevel 0) (fpr dec e ++ tails (fpr dec) more ++ TP RParen :: ts) with
           | Some (e', r2) => collect (P (MLevel 0)) (map XId ids ++ [e']) r2
           | None => None
           end) = Some (XTuple (map XId ids ++ e :: more), ts)).
  { intros Hnl. rewrite E at 1. cbn [app hd_is]. rewrite (estart_not_p t RParen Het) by discriminate.
    rewrite (He0 _ (sep_tail_tails more ts)). apply Hcollect. eapply not_xid_of_print; [exact E|left; exact Hnl]. }
  destruct t as [q|p|x|y|z|s|o];
    try (rewrite E in Hdefault |- *; cbn [app] in Hdefault |- *; apply Hdefault; discriminate).
  clear Hdefault.
  destruct (fpr_head_id dec e x rest E) as [[-> ->]|(t' & rest' & -> & Hn1 & Hn2 & Hn3)].
  - cbn [fpr app]. destruct more as [|e2 more'].
    + cbn [tails flat_map app hd_is is_p punct_eqb]. unfold cover_end. rewrite expect_same, (ffollow9_not_arrow _ Hf).
      rewrite map_app. cbn [map]. destruct ids as [|i [|i2 ids']]; [congruence|reflexivity|reflexivity].
    + assert (Hc : hd_is (is_p Comma) (tails (fpr dec) (e2 :: more') ++ TP RParen :: ts) = true) by reflexivity.
      rewrite Hc. rewrite (IH (ids ++ [x]) n ts).
      * rewrite map_app, <- app_assoc. reflexivity.
      * exact Hmore.
      * destruct ids; discriminate.
      * discriminate.
      * cbn [length] in *. lia.
      * exact Hf.
      * destruct Hsz as [Hsz|Hsz]; [left|right].
        -- rewrite app_length. cbn [length] in *. lia.
        -- cbn [forallb is_xid andb] in Hsz. exact Hsz.
  - rewrite E. cbn [app hd_is]. rewrite (is_p_false Colon t' Hn3), (is_p_false Comma t' Hn2), (is_p_false RParen t' Hn1).
    rewrite frombase_of_level0.
    change (TLow x :: t' :: rest' ++ tails (fpr dec) more ++ TP RParen :: ts)
      with ((TLow x :: t' :: rest') ++ tails (fpr dec) more ++ TP RParen :: ts). rewrite <- E.
    rewrite (He0 _ (sep_tail_tails more ts)). apply Hcollect. eapply not_xid_of_print; [exact E|right; discriminate].
Qed.
End RT.
