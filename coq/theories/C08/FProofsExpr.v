(* C08 — full model, proofs part 3: print/parse round trip of expressions and statements for every
   printer that puts at least the parentheses the grammar needs (then: the implementation's printer
   outside the known classes, FProofsImpl.v). *)
From Coq Require Import List Arith Bool Lia ZArith NArith.
Import ListNotations.
From SV Require Import C08.Syntax C08.Model C08.ProofsMono C08.Lit C08.FSyntax C08.FModelTypes C08.FModelExpr
  C08.FProofsGen C08.FProofsTypes C08.FProofsExprFuel.

Definition ffollow_ok (k : nat) (ts : list tok) : Prop :=
  match ts with
  | TOp o :: _ => plevel o < k
  | TP Dot :: _ | TP LParen :: _ => 9 <= k
  | TP Arrow :: _ => False
  | _ => True
  end.

Lemma ffollow_ok_mono k k' ts : k <= k' -> ffollow_ok k ts -> ffollow_ok k' ts.
Proof. destruct ts as [|[q|p|x|x|z|s|o] ts']; cbn; auto; try (intros; lia). destruct p; auto; intros; lia. Qed.

(* the level at which a token can start an expression *)
Definition fhd_level (t : tok) : nat :=
  match t with
  | TK KTrue | TK KFalse | TK KThis | TInt _ | TStr _ | TLow _ | TUp _ | TP LParen | TP LBrace => 9
  | TP Bang | TOp Minus => 7
  | _ => 0
  end.
(* the tokens an expression can start with *)
Definition estart (t : tok) : bool :=
  match t with
  | TK KTrue | TK KFalse | TK KThis | TK KIf | TK KMatch | TInt _ | TStr _ | TLow _ | TUp _
  | TP LParen | TP LBrace | TP Bang | TOp Minus => true
  | _ => false
  end.

Lemma list_eqb_eq {A} (eq : A -> A -> bool) : forall l l',
  (forall x y, In x l -> eq x y = true -> x = y) -> list_eqb eq l l' = true -> l = l'.
Proof.
  induction l as [|x l IH]; intros [|y l'] Hel H; try discriminate; [reflexivity|].
  cbn in H. apply andb_prop in H. destruct H as [H1 H2].
  rewrite (Hel x y (or_introl eq_refl) H1). f_equal. apply IH; [|exact H2]. intros a b Ha. apply Hel. right. exact Ha.
Qed.

Lemma annot_eqb_eq : forall n a b, annot_size a <= n -> annot_eqb a b = true -> a = b.
Proof.
  induction n as [|n IH]; intros a b Hsz H; [destruct a; cbn in Hsz; lia|].
  destruct a as [k|x tas|x|ps r], b as [k'|x' tas'|x'|ps' r']; cbn [annot_eqb] in H; try discriminate.
  - destruct k, k'; try discriminate; reflexivity.
  - apply andb_prop in H. destruct H as [H1 H2]. apply Nat.eqb_eq in H1. subst. f_equal.
    apply (list_eqb_eq annot_eqb); [|exact H2]. intros y z Hy. apply IH.
    pose proof (in_size_le annot_size y tas Hy). cbn [annot_size] in Hsz. lia.
  - apply Nat.eqb_eq in H. subst. reflexivity.
  - apply andb_prop in H. destruct H as [H1 H2]. cbn [annot_size] in Hsz. f_equal.
    + apply (list_eqb_eq annot_eqb); [|exact H1]. intros y z Hy. apply IH.
      pose proof (in_size_le annot_size y ps Hy). lia.
    + apply (IH r r'); [lia|exact H2].
Qed.

(* ------------------------------------------------------------------ the shape of printed expressions *)
Section Heads.
Variable dec : fexpr -> side -> bool.

Lemma fsuff_node_side e s : fsuff_node dec e = true -> fneed dec e s = true -> dec e s = true.
Proof.
  unfold fsuff_node. rewrite forallb_forall. intros H Hn.
  assert (Hin : In s sides) by (destruct s; cbn; tauto).
  specialize (H s Hin). rewrite Hn in H. exact H.
Qed.

Lemma fneed_level_need e s : fneed_level e s = true -> fneed dec e s = true.
Proof. intros H. unfold fneed. rewrite H. reflexivity. Qed.

Lemma fsuff_node_of e : fsuff dec e = true -> fsuff_node dec e = true.
Proof. unfold fsuff. destruct e; cbn [fall]; rewrite ?andb_true_iff; tauto. Qed.

Lemma flevel_bound e : flevel e <= 9.
Proof. destruct e; cbn; try lia. pose proof (plevel_bounds o). lia. Qed.

Lemma pr_lit_head l : fhd_level (pr_lit l) = 9 /\ estart (pr_lit l) = true.
Proof. destruct l as [z|s|[]]; split; reflexivity. Qed.

(* first token of a printed expression *)
Lemma fpr_head : forall c, fsuff dec c = true ->
  exists t rest, fpr dec c = t :: rest /\ flevel c <= fhd_level t /\ estart t = true.
Proof.
  induction c as [l|n| |n|es|a IHa up f tas|a IHa args|u a IHa|o a IHa b IHb|g c IHc b1 IHb1 e2 IHe2|s IHs arms|ps b IHb|ss r];
    intros Hs; pose proof (fsuff_node_of _ Hs) as Hn; cbn [fpr flevel].
  - destruct (pr_lit_head l) as [H1 H2]. eexists _, _; split; [reflexivity|]. rewrite H1. split; [lia|exact H2].
  - eexists _, _; split; [reflexivity|]. split; [cbn; lia|reflexivity].
  - eexists _, _; split; [reflexivity|]. split; [cbn; lia|reflexivity].
  - eexists _, _; split; [reflexivity|]. split; [cbn; lia|reflexivity].
  - eexists _, _; split; [reflexivity|]. split; [cbn; lia|reflexivity].
  - destruct (dec (XField a up f tas) SBase) eqn:Ed; cbn [fwrap app].
    + eexists _, _; split; [reflexivity|]. split; [cbn; lia|reflexivity].
    + cbn [fsuff fall] in Hs. rewrite andb_true_iff in Hs. destruct (IHa (proj2 Hs)) as (t & rest & E & Hl & He).
      rewrite E. cbn [app]. eexists _, _; split; [reflexivity|]. split; [|exact He].
      destruct (Nat.ltb_spec (flevel a) 8) as [Hlt|]; [|lia].
      rewrite (fsuff_node_side _ SBase Hn) in Ed; [discriminate|]. apply fneed_level_need. cbn [fneed_level].
      apply Nat.ltb_lt. exact Hlt.
  - destruct (dec (XCall a args) SBase) eqn:Ed; cbn [fwrap app].
    + eexists _, _; split; [reflexivity|]. split; [cbn; lia|reflexivity].
    + cbn [fsuff fall] in Hs. rewrite !andb_true_iff in Hs. destruct (IHa (proj1 (proj2 Hs))) as (t & rest & E & Hl & He).
      rewrite E. cbn [app]. eexists _, _; split; [reflexivity|]. split; [|exact He].
      destruct (Nat.ltb_spec (flevel a) 8) as [Hlt|]; [|lia].
      rewrite (fsuff_node_side _ SBase Hn) in Ed; [discriminate|]. apply fneed_level_need. cbn [fneed_level].
      apply Nat.ltb_lt. exact Hlt.
  - destruct u; eexists _, _; (split; [reflexivity|]); split; try reflexivity; cbn; lia.
  - pose proof (plevel_bounds o). destruct (dec (XBin o a b) SLeft) eqn:Ed; cbn [fwrap app].
    + eexists _, _; split; [reflexivity|]. split; [cbn; lia|reflexivity].
    + cbn [fsuff fall] in Hs. rewrite !andb_true_iff in Hs. destruct (IHa (proj1 (proj2 Hs))) as (t & rest & E & Hl & He).
      rewrite E. cbn [app]. eexists _, _; split; [reflexivity|]. split; [|exact He].
      destruct (Nat.ltb_spec (flevel a) (plevel o)) as [Hlt|]; [|lia].
      rewrite (fsuff_node_side _ SLeft Hn) in Ed; [discriminate|]. apply fneed_level_need. cbn [fneed_level].
      apply Nat.ltb_lt. exact Hlt.
  - eexists _, _; split; [reflexivity|]. split; [cbn; lia|reflexivity].
  - eexists _, _; split; [reflexivity|]. split; [cbn; lia|reflexivity].
  - eexists _, _; split; [reflexivity|]. split; [cbn; lia|reflexivity].
  - eexists _, _; split; [reflexivity|]. split; [cbn; lia|reflexivity].
Qed.

Definition not_sep (t : tok) : Prop := t <> TP RParen /\ t <> TP Comma /\ t <> TP Colon.

(* a printed expression that starts with an identifier is that identifier alone, or goes on with
   something that is neither `)` nor `,` nor `:` *)
Lemma fpr_head_id : forall c x rest, fpr dec c = TLow x :: rest ->
  (c = XId x /\ rest = []) \/ (exists t rest', rest = t :: rest' /\ not_sep t).
Proof.
  induction c as [l|n| |n|es|a IHa up f tas|a IHa args|u a IHa|o a IHa b IHb|g c IHc b1 IHb1 e2 IHe2|s IHs arms|ps b IHb|ss r];
    intros x rest E; cbn [fpr] in E; try discriminate.
  - destruct l as [z|s|[]]; discriminate.
  - inversion E; subst. left. split; reflexivity.
  - destruct (dec (XField a up f tas) SBase); cbn [fwrap app] in E; [discriminate|].
    destruct (fpr dec a) as [|t0 l0] eqn:Ea; cbn [app] in E; [discriminate|].
    inversion E; subst. right. destruct (IHa x l0 eq_refl) as [[_ ->]|(t & r' & -> & Ht)].
    + eexists _, _; split; [reflexivity|]. repeat split; discriminate.
    + eexists _, _; split; [reflexivity|exact Ht].
  - destruct (dec (XCall a args) SBase); cbn [fwrap app] in E; [discriminate|].
    destruct (fpr dec a) as [|t0 l0] eqn:Ea; cbn [app] in E; [discriminate|].
    inversion E; subst. right. destruct (IHa x l0 eq_refl) as [[_ ->]|(t & r' & -> & Ht)].
    + eexists _, _; split; [reflexivity|]. repeat split; discriminate.
    + eexists _, _; split; [reflexivity|exact Ht].
  - destruct u; discriminate.
  - destruct (dec (XBin o a b) SLeft); cbn [fwrap app] in E; [discriminate|].
    destruct (fpr dec a) as [|t0 l0] eqn:Ea; cbn [app] in E; [discriminate|].
    inversion E; subst. right. destruct (IHa x l0 eq_refl) as [[_ ->]|(t & r' & -> & Ht)].
    + eexists _, _; split; [reflexivity|]. repeat split; discriminate.
    + eexists _, _; split; [reflexivity|exact Ht].
Qed.
End Heads.

Section RT.
Variable tps : list nat.
Local Notation P := (pmode tps).

Lemma P_level_step k ts e r : 1 <= k <= 6 -> P (MLevel (S k)) ts = Some (e, r) -> P (MLevel k) ts = P (MLoop k e) r.
Proof.
  intros Hk H. rewrite (pmode_eq tps (MLevel k)). cbn [estep].
  destruct (Nat.eqb_spec k 0); [lia|]. destruct (Nat.leb_spec k 6); [|lia]. rewrite H. reflexivity.
Qed.

Lemma P_loop_step k o e ts e2 r : plevel o = k -> P (MLevel (S k)) ts = Some (e2, r) ->
  P (MLoop k e) (TOp o :: ts) = P (MLoop k (XBin o e e2)) r.
Proof. intros Hk H. rewrite (pmode_eq tps (MLoop k e)). cbn [estep]. rewrite Hk, Nat.eqb_refl, H. reflexivity. Qed.

Lemma P_loop_exit k e ts : ffollow_ok k ts -> P (MLoop k e) ts = Some (e, ts).
Proof.
  intros H. rewrite pmode_eq. cbn [estep]. destruct ts as [|[q|p|x|x|z|s|o] ts']; try reflexivity.
  cbn in H. destruct (Nat.eqb_spec (plevel o) k); [lia|reflexivity].
Qed.

Lemma P_level0_step t ts : 1 <= fhd_level t -> P (MLevel 0) (t :: ts) = P (MLevel 1) (t :: ts).
Proof.
  intros Ht. rewrite (pmode_eq tps (MLevel 0)). cbn [estep Nat.eqb level0].
  destruct t as [q|p|x|x|z|s|o]; try reflexivity. destruct q; cbn in Ht; try lia; reflexivity.
Qed.

Lemma P_level7_step t ts : 8 <= fhd_level t -> P (MLevel 7) (t :: ts) = P (MLevel 8) (t :: ts).
Proof.
  intros Ht. rewrite (pmode_eq tps (MLevel 7)). cbn [estep Nat.eqb Nat.leb].
  destruct t as [q|p|x|x|z|s|o]; try reflexivity.
  - destruct p; cbn in Ht; try lia; reflexivity.
  - destruct o; cbn in Ht; try lia; reflexivity.
Qed.

Lemma P_unary u ts a r : P (MLevel 8) ts = Some (a, r) -> P (MLevel 7) (futok u :: ts) = Some (XUn u a, r).
Proof. intros H. rewrite pmode_eq. cbn [estep Nat.eqb Nat.leb]. destruct u; cbn [futok]; rewrite H; reflexivity. Qed.

Lemma P_level8_step ts e r : P (MLevel 9) ts = Some (e, r) -> P (MLevel 8) ts = P (MPost e) r.
Proof. intros H. rewrite (pmode_eq tps (MLevel 8)). cbn [estep Nat.eqb Nat.leb]. rewrite H. reflexivity. Qed.

Lemma P_post_exit e ts : ffollow_ok 8 ts -> P (MPost e) ts = Some (e, ts).
Proof.
  intros H. rewrite pmode_eq. cbn [estep post_step]. destruct ts as [|[q|p|x|x|z|s|o] ts']; try reflexivity.
  destruct p; try reflexivity; cbn in H; lia.
Qed.

Lemma P_level9 ts : P (MLevel 9) ts = base_expr tps P ts.
Proof. rewrite pmode_eq. reflexivity. Qed.

Lemma P_chain_last e ts : P (MChain 1 e) ts = P (MLoop 1 e) ts.
Proof. rewrite (pmode_eq tps (MChain 1 e)). cbn [estep Nat.ltb Nat.leb]. destruct (P (MLoop 1 e) ts) as [[e' r]|]; reflexivity. Qed.

Lemma P_chain_step k e ts : 2 <= k <= 6 ->
  P (MChain k e) ts = match P (MLoop k e) ts with Some (e', r) => P (MChain (pred k) e') r | None => None end.
Proof.
  intros Hk. rewrite (pmode_eq tps (MChain k e)). cbn [estep].
  destruct (Nat.ltb_spec 6 k); [lia|]. destruct (Nat.leb_spec k 1); [lia|]. reflexivity.
Qed.

Lemma P_frombase e ts :
  P (MFromBase e) ts = match P (MPost e) ts with Some (e', r) => P (MChain 6 e') r | None => None end.
Proof. rewrite (pmode_eq tps (MFromBase e)). reflexivity. Qed.

(* ---- the `( id <other>` path reads what parse_expression would read *)
Definition chain_from (k : nat) (x : presult fexpr) : presult fexpr :=
  match x with Some (e, r) => P (MChain k e) r | None => None end.

Lemma chain_from_down k ts : 2 <= k <= 6 ->
  chain_from k (P (MLevel (S k)) ts) = chain_from (pred k) (P (MLevel k) ts).
Proof.
  intros Hk. unfold chain_from.
  destruct (P (MLevel (S k)) ts) as [[e r]|] eqn:E.
  - rewrite (P_level_step k ts e r ltac:(lia) E). rewrite P_chain_step by lia. reflexivity.
  - rewrite (pmode_eq tps (MLevel k)). cbn [estep].
    destruct (Nat.eqb_spec k 0); [lia|]. destruct (Nat.leb_spec k 6); [|lia]. rewrite E. reflexivity.
Qed.

Lemma chain_from_1 ts : chain_from 1 (P (MLevel 2) ts) = P (MLevel 1) ts.
Proof.
  unfold chain_from. destruct (P (MLevel 2) ts) as [[e r]|] eqn:E.
  - rewrite (P_level_step 1 ts e r ltac:(lia) E). apply P_chain_last.
  - rewrite (pmode_eq tps (MLevel 1)). cbn [estep Nat.eqb Nat.leb]. rewrite E. reflexivity.
Qed.

Lemma frombase_of_level0 x l : P (MFromBase (XId x)) l = P (MLevel 0) (TLow x :: l).
Proof.
  rewrite P_level0_step by (cbn; lia). rewrite <- chain_from_1.
  rewrite <- (chain_from_down 2) by lia. rewrite <- (chain_from_down 3) by lia.
  rewrite <- (chain_from_down 4) by lia. rewrite <- (chain_from_down 5) by lia. rewrite <- (chain_from_down 6) by lia.
  rewrite P_level7_step by (cbn; lia).
  rewrite (P_level8_step (TLow x :: l) (XId x) l) by (rewrite P_level9; reflexivity).
  rewrite P_frombase. reflexivity.
Qed.

(* ------------------------------------------------------------------ delimited positions *)
Variable dec : fexpr -> side -> bool.

Definition sep_tail (ts : list tok) : Prop :=
  match ts with
  | TP Comma :: _ | TP RParen :: _ | TP Semi :: _ | TP RBrace :: _ | TP LBrace :: _ => True
  | _ => False
  end.

(* the element of a delimited position is read back by parse_expression *)
Definition E0 (x : fexpr) : Prop := forall tail, sep_tail tail -> P (MLevel 0) (fpr dec x ++ tail) = Some (x, tail).

Lemma is_p_false p t : t <> TP p -> is_p p t = false.
Proof.
  destruct t as [q|p'|x|x|z|s|o]; try reflexivity. intros H. cbn.
  destruct p, p'; try reflexivity; exfalso; apply H; reflexivity.
Qed.

Lemma estart_not_p t p : estart t = true -> p <> LParen -> p <> LBrace -> p <> Bang -> is_p p t = false.
Proof. destruct t as [q|p'|x|x|z|s|o]; try reflexivity. destruct p'; try discriminate; destruct p; try reflexivity; congruence. Qed.

Lemma ffollow9_not_arrow ts : ffollow_ok 9 ts -> hd_is (is_p Arrow) ts = false.
Proof. destruct ts as [|[q|p|x|x|z|s|o] ts']; try reflexivity. destruct p; try reflexivity. intros []. Qed.

Lemma fpr_starts_ok c : fsuff dec c = true -> starts_ok (fpr dec) (is_p RParen) c.
Proof.
  intros Hs. destruct (fpr_head dec c Hs) as (t & rest & E & _ & He). exists t, rest. split; [exact E|].
  apply estart_not_p; [exact He|discriminate..].
Qed.

Lemma one_elem_list c n ts : fsuff dec c = true -> E0 c ->
  seplist (P (MLevel 0)) (is_p RParen) (S n) (fpr dec c ++ TP RParen :: ts) = Some ([c], TP RParen :: ts).
Proof.
  intros Hs He.
  pose proof (seplist_rt (P (MLevel 0)) (is_p RParen) (fpr dec) (fun x => x) sep_tail c [] (S n) (TP RParen) ts) as H.
  cbn [map commas] in H. apply H.
  - cbn; lia.
  - discriminate.
  - exact I.
  - intros l. exact I.
  - intros y [].
  - intros y tail [<-|[]] Hf. apply He. exact Hf.
Qed.

Lemma paren_wrap c ts : fsuff dec c = true -> E0 c -> ffollow_ok 9 ts ->
  P (MLevel 9) (TP LParen :: fpr dec c ++ TP RParen :: ts) = Some (c, ts).
Proof.
  intros Hs He Hf. rewrite P_level9. cbn [base_expr]. unfold paren_expr.
  destruct (fpr_head dec c Hs) as (t & rest & E & _ & Het).
  assert (Hrp : hd_is (is_p RParen) (fpr dec c ++ TP RParen :: ts) = false).
  { rewrite E. cbn [app hd_is]. apply estart_not_p; [exact Het|discriminate..]. }
  rewrite Hrp.
  assert (Hlist : paren_list (P (MLevel 0)) (Some MAX_STRUCT_SIZE) (fpr dec c ++ TP RParen :: ts) = Some ([c], ts)).
  { unfold paren_list. rewrite Hrp. rewrite one_elem_list by assumption. cbn [length MAX_STRUCT_SIZE Nat.ltb Nat.leb].
    rewrite expect_same. reflexivity. }
  destruct t as [q|p|x|x|z|s|o]; try (rewrite E in *; cbn [app] in *; rewrite Hlist; reflexivity).
  (* starts with a lower-case identifier *)
  destruct (fpr_head_id dec c x rest E) as [[-> ->]|(t' & rest' & -> & Hn1 & Hn2 & Hn3)].
  - cbn [fpr app hd_is is_p punct_eqb]. rewrite expect_same. rewrite (ffollow9_not_arrow _ Hf). reflexivity.
  - rewrite E. cbn [app hd_is]. rewrite (is_p_false Colon t' Hn3), (is_p_false Comma t' Hn2), (is_p_false RParen t' Hn1).
    rewrite frombase_of_level0.
    change (TLow x :: t' :: rest' ++ TP RParen :: ts) with ((TLow x :: t' :: rest') ++ TP RParen :: ts). rewrite <- E.
    rewrite (He (TP RParen :: ts) I). cbn [hd_is is_p punct_eqb]. rewrite expect_same. reflexivity.
Qed.

Lemma args_rt args ts : (forall x, In x args -> fsuff dec x = true /\ E0 x) ->
  paren_list (P (MLevel 0)) None (commas (map (fpr dec) args) ++ TP RParen :: ts) = Some (args, ts).
Proof.
  intros Hall. unfold paren_list. destruct args as [|a args].
  - cbn [map commas app hd_is is_p punct_eqb]. rewrite expect_same. reflexivity.
  - assert (Hrp : hd_is (is_p RParen) (commas (map (fpr dec) (a :: args)) ++ TP RParen :: ts) = false).
    { rewrite commas_cons. destruct (fpr_head dec a (proj1 (Hall a (or_introl eq_refl)))) as (t & rest & E & _ & Het).
      rewrite E. cbn [app hd_is]. apply estart_not_p; [exact Het|discriminate..]. }
    rewrite Hrp.
    rewrite (seplist_rt (P (MLevel 0)) (is_p RParen) (fpr dec) (fun x => x) sep_tail a args _ (TP RParen) ts).
    + rewrite map_id, expect_same. reflexivity.
    + rewrite app_length, commas_cons, app_length. pose proof (tails_length (fpr dec) args). cbn [length]. lia.
    + discriminate.
    + exact I.
    + intros l. exact I.
    + intros y Hy. apply fpr_starts_ok. apply Hall. right. exact Hy.
    + intros y tail Hy Hf. apply (proj2 (Hall y Hy)). exact Hf.
Qed.

(* ---- tuples: the three ways into a tuple (`( id ,` cover, `( id <other>`, expression list) *)
Lemma tuple_match (l : list fexpr) (r : list tok) : 2 <= length l ->
  match l with [_] => None | all => Some (XTuple all, r) end = Some (XTuple l, r).
Proof. destruct l as [|a [|b l]]; cbn; intros; try lia; reflexivity. Qed.

Lemma is_xid_pr e : is_xid e = true -> exists n, e = XId n.
Proof. destruct e; try discriminate. intros _. eexists. reflexivity. Qed.

Lemma sep_tail_tails more ts : sep_tail (tails (fpr dec) more ++ TP RParen :: ts).
Proof. destruct more; cbn; exact I. Qed.

Lemma collect_rt before more ts :
  (forall x, In x more -> fsuff dec x = true /\ E0 x) ->
  length (before ++ more) <= MAX_STRUCT_SIZE -> 2 <= length (before ++ more) ->
  collect (P (MLevel 0)) before (tails (fpr dec) more ++ TP RParen :: ts) = Some (XTuple (before ++ more), ts).
Proof.
  intros Hall Hmax Hmin. unfold collect.
  rewrite (seprest_rt (P (MLevel 0)) (is_p RParen) (fpr dec) (fun x => x) sep_tail more _ (TP RParen) ts).
  - rewrite map_id. destruct (Nat.ltb_spec MAX_STRUCT_SIZE (length (before ++ more))); [lia|].
    rewrite expect_same. destruct (before ++ more) as [|a [|b l]]; cbn [length] in Hmin; try lia. reflexivity.
  - rewrite app_length. pose proof (tails_length (fpr dec) more). lia.
  - discriminate.
  - exact I.
  - intros l. exact I.
  - intros y Hy. apply fpr_starts_ok. apply Hall. exact Hy.
  - intros y tail Hy Hf. apply (proj2 (Hall y Hy)). exact Hf.
Qed.

Lemma not_xid_of_print e t rest : fpr dec e = t :: rest -> (forall x, t <> TLow x) \/ rest <> [] -> is_xid e = false.
Proof.
  intros E H. destruct (is_xid e) eqn:Ex; [|reflexivity]. destruct (is_xid_pr e Ex) as [n ->]. cbn in E. inversion E; subst.
  destruct H as [H|H]; [exfalso; apply (H n); reflexivity|exfalso; apply H; reflexivity].
Qed.

Lemma forallb_false_in {A} (f : A -> bool) l x : In x l -> f x = false -> forallb f l = false.
Proof.
  intros Hi Hf. destruct (forallb f l) eqn:E; [|reflexivity]. rewrite forallb_forall in E. rewrite (E x Hi) in Hf. discriminate.
Qed.

Lemma cover_tuple : forall elems ids n ts,
  (forall x, In x elems -> fsuff dec x = true /\ E0 x) ->
  ids <> [] -> elems <> [] -> length elems < n -> ffollow_ok 9 ts ->
  length ids + length elems <= MAX_STRUCT_SIZE ->
  cover tps P n ids (tails (fpr dec) elems ++ TP RParen :: ts) = Some (XTuple (map XId ids ++ elems), ts).
Proof.
  induction elems as [|e more IH]; intros ids n ts Hall Hids Hne Hn Hf Hsz; [congruence|].
  destruct n as [|n]; [cbn in Hn; lia|].
  destruct (Hall e (or_introl eq_refl)) as [Hse He0].
  destruct (fpr_head dec e Hse) as (t & rest & E & _ & Het).
  assert (Hlen2 : 2 <= length (map XId ids ++ e :: more)).
  { rewrite app_length, map_length. destruct ids; [congruence|]. cbn [length]. lia. }
  assert (Hmore : forall x, In x more -> fsuff dec x = true /\ E0 x) by (intros x Hx; apply Hall; right; exact Hx).
  assert (Hcollect : is_xid e = false ->
            collect (P (MLevel 0)) (map XId ids ++ [e]) (tails (fpr dec) more ++ TP RParen :: ts)
            = Some (XTuple (map XId ids ++ e :: more), ts)).
  { intros Hx. rewrite collect_rt; [rewrite <- app_assoc; reflexivity|exact Hmore| |].
    - rewrite <- app_assoc. cbn [app]. rewrite app_length, map_length. exact Hsz.
    - rewrite <- app_assoc. exact Hlen2. }
  cbn [tails flat_map app cover]. fold (tails (fpr dec) more). rewrite <- app_assoc.
  assert (Hdefault : (forall x, t <> TLow x) ->
     (if hd_is (is_p RParen) (fpr dec e ++ tails (fpr dec) more ++ TP RParen :: ts)
      then cover_end (P (MLevel 0)) ids (fpr dec e ++ tails (fpr dec) more ++ TP RParen :: ts)
      else match P (MLevel 0) (fpr dec e ++ tails (fpr dec) more ++ TP RParen :: ts) with
           | Some (e', r2) => collect (P (MLevel 0)) (map XId ids ++ [e']) r2
           | None => None
           end) = Some (XTuple (map XId ids ++ e :: more), ts)).
  { intros Hnl. rewrite E at 1. cbn [app hd_is]. rewrite (estart_not_p t RParen Het) by discriminate.
    rewrite (He0 _ (sep_tail_tails more ts)). apply Hcollect. eapply not_xid_of_print; [exact E|left; exact Hnl]. }
  destruct t as [q|p|x|y|z|s|o];
    try (rewrite E in Hdefault |- *; cbn [app] in Hdefault |- *; apply Hdefault; discriminate).
  clear Hdefault.
  destruct (fpr_head_id dec e x rest E) as [[-> ->]|(t' & rest' & -> & Hn1 & Hn2 & Hn3)].
  - cbn [fpr app]. destruct more as [|e2 more'].
    + cbn [tails flat_map app hd_is is_p punct_eqb]. unfold cover_end. rewrite expect_same, (ffollow9_not_arrow _ Hf).
      assert (Hlim : (MAX_STRUCT_SIZE <? length (ids ++ [x])) = false).
      { apply Nat.ltb_ge. rewrite app_length. cbn [length] in *. lia. }
      rewrite Hlim.
      rewrite map_app. cbn [map]. destruct ids as [|i [|i2 ids']]; [congruence|reflexivity|reflexivity].
    + assert (Hc : hd_is (is_p Comma) (tails (fpr dec) (e2 :: more') ++ TP RParen :: ts) = true) by reflexivity.
      rewrite Hc. rewrite (IH (ids ++ [x]) n ts).
      * rewrite map_app, <- app_assoc. reflexivity.
      * exact Hmore.
      * destruct ids; discriminate.
      * discriminate.
      * cbn [length] in *. lia.
      * exact Hf.
      * rewrite app_length. cbn [length] in *. lia.
  - rewrite E. cbn [app hd_is]. rewrite (is_p_false Colon t' Hn3), (is_p_false Comma t' Hn2), (is_p_false RParen t' Hn1).
    rewrite frombase_of_level0.
    change (TLow x :: t' :: rest' ++ tails (fpr dec) more ++ TP RParen :: ts)
      with ((TLow x :: t' :: rest') ++ tails (fpr dec) more ++ TP RParen :: ts). rewrite <- E.
    rewrite (He0 _ (sep_tail_tails more ts)). apply Hcollect. eapply not_xid_of_print; [exact E|right; discriminate].
Qed.

Lemma tuple_rt e1 e2 es ts : (forall x, In x (e1 :: e2 :: es) -> fsuff dec x = true /\ E0 x) ->
  length (e1 :: e2 :: es) <= MAX_STRUCT_SIZE -> ffollow_ok 9 ts ->
  P (MLevel 9) (TP LParen :: commas (map (fpr dec) (e1 :: e2 :: es)) ++ TP RParen :: ts) = Some (XTuple (e1 :: e2 :: es), ts).
Proof.
  intros Hall Hsz Hf. rewrite P_level9. cbn [base_expr]. unfold paren_expr. rewrite commas_cons, <- app_assoc.
  destruct (Hall e1 (or_introl eq_refl)) as [Hs1 He1].
  assert (Hmore : forall x, In x (e2 :: es) -> fsuff dec x = true /\ E0 x) by (intros x Hx; apply Hall; right; exact Hx).
  destruct (fpr_head dec e1 Hs1) as (t & rest & E & _ & Het).
  assert (Hrp : hd_is (is_p RParen) (fpr dec e1 ++ tails (fpr dec) (e2 :: es) ++ TP RParen :: ts) = false).
  { rewrite E. cbn [app hd_is]. apply estart_not_p; [exact Het|discriminate..]. }
  rewrite Hrp.
  assert (Hle : is_xid e1 = false -> length (e1 :: e2 :: es) <= MAX_STRUCT_SIZE).
  { intros _. exact Hsz. }
  assert (Hdefault : (forall x, t <> TLow x) ->
     match paren_list (P (MLevel 0)) (Some MAX_STRUCT_SIZE) (fpr dec e1 ++ tails (fpr dec) (e2 :: es) ++ TP RParen :: ts) with
     | Some (es0, r1) => match es0 with [e] => Some (e, r1) | _ => Some (XTuple es0, r1) end
     | None => None
     end = Some (XTuple (e1 :: e2 :: es), ts)).
  { intros Hnl. unfold paren_list. rewrite Hrp.
    pose proof (seplist_rt (P (MLevel 0)) (is_p RParen) (fpr dec) (fun x => x) sep_tail e1 (e2 :: es)
                  (S (length (fpr dec e1 ++ tails (fpr dec) (e2 :: es) ++ TP RParen :: ts))) (TP RParen) ts) as H.
    rewrite commas_cons, <- app_assoc in H. rewrite H; clear H.
    - rewrite map_id. pose proof (Hle (not_xid_of_print e1 t rest E (or_introl Hnl))) as Hl.
      destruct (Nat.ltb_spec MAX_STRUCT_SIZE (length (e1 :: e2 :: es))); [lia|]. rewrite expect_same. reflexivity.
    - rewrite !app_length. pose proof (tails_length (fpr dec) (e2 :: es)). lia.
    - discriminate.
    - exact I.
    - intros l. exact I.
    - intros y Hy. apply fpr_starts_ok. apply Hmore. exact Hy.
    - intros y tail Hy Hfl. apply (proj2 (Hall y Hy)). exact Hfl. }
  destruct t as [q|p|x|y|z|s|o];
    try (rewrite E in Hdefault |- *; cbn [app] in Hdefault |- *; apply Hdefault; discriminate).
  clear Hdefault.
  destruct (fpr_head_id dec e1 x rest E) as [[-> ->]|(t' & rest' & -> & Hn1 & Hn2 & Hn3)].
  - cbn [fpr app]. assert (Hc : hd_is (is_p Comma) (tails (fpr dec) (e2 :: es) ++ TP RParen :: ts) = true) by reflexivity.
    assert (Hc2 : hd_is (is_p Colon) (tails (fpr dec) (e2 :: es) ++ TP RParen :: ts) = false) by reflexivity.
    rewrite Hc, Hc2. rewrite (cover_tuple (e2 :: es) [x]); [reflexivity|exact Hmore|discriminate|discriminate| |exact Hf|].
    + rewrite app_length. pose proof (tails_length (fpr dec) (e2 :: es)). lia.
    + cbn [length] in *. lia.
  - rewrite E. cbn [app hd_is]. rewrite (is_p_false Colon t' Hn3), (is_p_false Comma t' Hn2), (is_p_false RParen t' Hn1).
    rewrite frombase_of_level0.
    change (TLow x :: t' :: rest' ++ tails (fpr dec) (e2 :: es) ++ TP RParen :: ts)
      with ((TLow x :: t' :: rest') ++ tails (fpr dec) (e2 :: es) ++ TP RParen :: ts). rewrite <- E.
    rewrite (He1 _ (sep_tail_tails (e2 :: es) ts)).
    assert (Hc : hd_is (is_p Comma) (tails (fpr dec) (e2 :: es) ++ TP RParen :: ts) = true) by reflexivity.
    rewrite Hc. rewrite (collect_rt [e1] (e2 :: es) ts); [reflexivity|exact Hmore| |cbn [app length]; lia].
    apply Hle. eapply not_xid_of_print; [exact E|right; discriminate].
Qed.

(* ---- lambdas *)
Definition pr_oannot (oa : option annot) : list tok :=
  match oa with None => [] | Some a => TP Colon :: pr_annot a end.
Lemma pr_param_eq x oa : pr_param (x, oa) = TLow x :: pr_oannot oa.
Proof. destruct oa; reflexivity. Qed.

Lemma annot_ok_canon a : annot_ok tps a = true -> canon tps a = a.
Proof. unfold annot_ok. intros H. symmetry. symmetry. eapply annot_eqb_eq; [apply le_n|exact H]. Qed.

(* the tail after an optional annotation: no `:` and no `<` *)
Definition annot_tail (ts : list tok) : Prop :=
  match ts with TP Colon :: _ | TOp Lt :: _ => False | _ => True end.

Lemma opt_annot_rt oa tail : oannot_ok tps oa = true -> annot_tail tail ->
  opt_annot tps (pr_oannot oa ++ tail) = Some (oa, tail).
Proof.
  intros Hok Ht. unfold opt_annot. destruct oa as [a|]; cbn [pr_oannot app hd_is is_p punct_eqb].
  - rewrite expect_same. rewrite annot_roundtrip'.
    + rewrite (annot_ok_canon a Hok). reflexivity.
    + destruct tail as [|[q|p|x|x|z|s|o] tl]; try exact I. destruct o; try exact I. destruct Ht.
  - destruct tail as [|[q|p|x|x|z|s|o] tl]; try reflexivity. destruct p; try reflexivity. destruct Ht.
Qed.

Definition param_tail (ts : list tok) : Prop :=
  match ts with TP Comma :: _ | TP RParen :: _ => True | _ => False end.
Lemma param_tail_annot ts : param_tail ts -> annot_tail ts.
Proof. destruct ts as [|[q|p|x|x|z|s|o] tl]; cbn; try tauto. destruct p; tauto. Qed.

Lemma opt_annot_id_rt x oa tail : oannot_ok tps oa = true -> param_tail tail ->
  opt_annot_id tps (pr_param (x, oa) ++ tail) = Some ((x, oa), tail).
Proof.
  intros Hok Ht. rewrite pr_param_eq. cbn [app opt_annot_id]. rewrite opt_annot_rt; [reflexivity|exact Hok|].
  apply param_tail_annot. exact Ht.
Qed.

Section Lambda.
Variables (b : fexpr) (body ts : list tok).
Hypothesis Hbody : P (MLevel 0) (body ++ ts) = Some (b, ts).

Lemma lambda_rest_rt before more : (forall p, In p more -> oannot_ok tps (snd p) = true) ->
  lambda_rest tps (P (MLevel 0)) before (tails pr_param more ++ TP RParen :: TP Arrow :: body ++ ts)
  = Some (XLam (before ++ more) b, ts).
Proof.
  intros Hok. unfold lambda_rest.
  rewrite (seprest_rt (opt_annot_id tps) (is_p RParen) pr_param (fun x => x) param_tail more _ (TP RParen) (TP Arrow :: body ++ ts)).
  - rewrite !expect_same, Hbody, map_id. reflexivity.
  - rewrite app_length. pose proof (tails_length pr_param more). lia.
  - discriminate.
  - exact I.
  - intros l. exact I.
  - intros [y oa] Hy. unfold starts_ok. rewrite pr_param_eq. eexists _, _. split; reflexivity.
  - intros [y oa] tail Hy Hf. apply opt_annot_id_rt; [exact (Hok _ Hy)|exact Hf].
Qed.

Lemma param_tail_tails more l : param_tail (tails pr_param more ++ TP RParen :: l).
Proof. destruct more; cbn; exact I. Qed.

Lemma cover_lambda : forall params ids n,
  (forall p, In p params -> oannot_ok tps (snd p) = true) -> params <> [] -> length params < n ->
  cover tps P n ids (tails pr_param params ++ TP RParen :: TP Arrow :: body ++ ts)
  = Some (XLam (map (fun i => (i, None)) ids ++ params) b, ts).
Proof.
  induction params as [|[y oa] more IH]; intros ids n Hok Hne Hn; [congruence|].
  destruct n as [|n]; [cbn in Hn; lia|].
  assert (Hmore : forall p, In p more -> oannot_ok tps (snd p) = true) by (intros p Hp; apply Hok; right; exact Hp).
  cbn [tails flat_map app cover]. fold (tails pr_param more). rewrite pr_param_eq. cbn [app]. rewrite <- app_assoc.
  destruct oa as [a|]; cbn [pr_oannot app].
  - cbn [hd_is is_p punct_eqb].
    pose proof (opt_annot_rt (Some a) (tails pr_param more ++ TP RParen :: TP Arrow :: body ++ ts)
                  (Hok _ (or_introl eq_refl)) (param_tail_annot _ (param_tail_tails more _))) as Ho.
    cbn [pr_oannot app] in Ho. rewrite Ho.
    rewrite lambda_rest_rt by exact Hmore. rewrite <- app_assoc. reflexivity.
  - destruct more as [|p2 more'].
    + cbn [tails flat_map app hd_is is_p punct_eqb]. unfold cover_end. rewrite !expect_same. cbn [hd_is is_p punct_eqb].
      rewrite Hbody, map_app. reflexivity.
    + assert (Hc : hd_is (is_p Comma) (tails pr_param (p2 :: more') ++ TP RParen :: TP Arrow :: body ++ ts) = true) by reflexivity.
      rewrite Hc. rewrite (IH (ids ++ [y]) n); [|exact Hmore|discriminate|cbn [length] in *; lia].
      rewrite map_app, <- app_assoc. reflexivity.
Qed.

Lemma lambda_rt ps : (forall p, In p ps -> oannot_ok tps (snd p) = true) ->
  P (MLevel 9) (TP LParen :: commas (map pr_param ps) ++ TP RParen :: TP Arrow :: body ++ ts) = Some (XLam ps b, ts).
Proof.
  intros Hok. rewrite P_level9. cbn [base_expr]. unfold paren_expr. destruct ps as [|[x oa] more].
  - cbn [map commas app hd_is is_p punct_eqb]. rewrite !expect_same, Hbody. reflexivity.
  - rewrite commas_cons, <- app_assoc, pr_param_eq. cbn [app hd_is is_p].
    assert (Hmore : forall p, In p more -> oannot_ok tps (snd p) = true) by (intros p Hp; apply Hok; right; exact Hp).
    destruct oa as [a|]; cbn [pr_oannot app].
    + cbn [hd_is is_p punct_eqb].
      pose proof (opt_annot_rt (Some a) (tails pr_param more ++ TP RParen :: TP Arrow :: body ++ ts)
                    (Hok _ (or_introl eq_refl)) (param_tail_annot _ (param_tail_tails more _))) as Ho.
      cbn [pr_oannot app] in Ho. rewrite Ho.
      rewrite lambda_rest_rt by exact Hmore. reflexivity.
    + destruct more as [|p2 more'].
      * cbn [tails flat_map app hd_is is_p punct_eqb]. rewrite !expect_same. cbn [hd_is is_p punct_eqb]. rewrite Hbody. reflexivity.
      * assert (Hc : hd_is (is_p Comma) (tails pr_param (p2 :: more') ++ TP RParen :: TP Arrow :: body ++ ts) = true) by reflexivity.
        assert (Hc2 : hd_is (is_p Colon) (tails pr_param (p2 :: more') ++ TP RParen :: TP Arrow :: body ++ ts) = false) by reflexivity.
        rewrite Hc, Hc2. rewrite (cover_lambda (p2 :: more') [x]); [reflexivity|exact Hmore|discriminate|].
        rewrite app_length. pose proof (tails_length pr_param (p2 :: more')). lia.
Qed.
End Lambda.

(* ---- blocks *)
Lemma pr_binder_eq p oa : pr_binder (Some (p, oa)) = TK KLet :: pr_pat p ++ pr_oannot oa ++ [TP Assign].
Proof. destruct oa; cbn [pr_binder pr_oannot app]; rewrite <- ?app_assoc; reflexivity. Qed.

Definition stmt_ok (s : stmt) : Prop :=
  fsuff dec (snd s) = true /\ E0 (snd s) /\
  match fst s with Some (p, oa) => wf_pat p = true /\ oannot_ok tps oa = true | None => True end.

Lemma block_loop_default t l n : estart t = true ->
  block_loop tps (P (MLevel 0)) (S n) (t :: l) =
  match P (MLevel 0) (t :: l) with
  | Some (e, r) =>
      if hd_is (is_p Semi) r then
        match expect Semi r with
        | Some r0 => match block_loop tps (P (MLevel 0)) n r0 with
                     | Some (b, r') => Some (((None, e) :: fst b, snd b), r')
                     | None => None end
        | None => None end
      else match expect RBrace r with Some r0 => Some (([], Some e), r0) | None => None end
  | None => None
  end.
Proof. destruct t as [q|p|x|x|z|s|o]; try discriminate; try reflexivity; [destruct q|destruct p]; try discriminate; reflexivity. Qed.

Lemma let_stmt_rt p oa x tail : wf_pat p = true -> oannot_ok tps oa = true -> E0 x ->
  let_stmt tps (P (MLevel 0)) (pr_binder (Some (p, oa)) ++ fpr dec x ++ TP Semi :: tail) = Some ((Some (p, oa), x), tail).
Proof.
  intros Hp Ha Hx. unfold let_stmt. rewrite pr_binder_eq. cbn [app]. rewrite expect_kw_same.
  rewrite <- !app_assoc. rewrite pattern_roundtrip; [|exact Hp|].
  - rewrite opt_annot_rt; [|exact Ha|exact I]. cbn [app]. rewrite expect_same, (Hx (TP Semi :: tail) I), expect_same. reflexivity.
  - destruct oa; exact I.
Qed.

Lemma block_loop_rt : forall ss r n ts, length ss + 1 < n ->
  (forall s, In s ss -> stmt_ok s) ->
  match r with Some x => fsuff dec x = true /\ E0 x | None => True end ->
  block_loop tps (P (MLevel 0)) n
    (flat_map (pr_stmt dec) ss ++ match r with Some x => fpr dec x | None => [] end ++ TP RBrace :: ts) = Some ((ss, r), ts).
Proof.
  induction ss as [|[bd x] more IH]; intros r n ts Hn Hss Hr; (destruct n as [|n]; [lia|]).
  - cbn [flat_map app]. destruct r as [x|].
    + destruct Hr as [Hsx Hex]. destruct (fpr_head dec x Hsx) as (t & rest & E & _ & Het).
      rewrite E. cbn [app]. rewrite block_loop_default by exact Het.
      change (t :: rest ++ TP RBrace :: ts) with ((t :: rest) ++ TP RBrace :: ts). rewrite <- E.
      rewrite (Hex (TP RBrace :: ts) I). cbn [hd_is is_p punct_eqb]. rewrite expect_same. reflexivity.
    + reflexivity.
  - assert (Hmore : forall s, In s more -> stmt_ok s) by (intros s Hs; apply Hss; right; exact Hs).
    destruct (Hss _ (or_introl eq_refl)) as (Hsx & Hex & Hbd). cbn [fst snd] in *.
    cbn [flat_map]. unfold pr_stmt at 1. rewrite <- !app_assoc. cbn [app].
    set (tail := flat_map (pr_stmt dec) more ++ match r with Some x0 => fpr dec x0 | None => [] end ++ TP RBrace :: ts).
    destruct bd as [[p oa]|].
    + destruct Hbd as [Hp Ha].
      assert (Hk : exists l, pr_binder (Some (p, oa)) ++ fpr dec x ++ TP Semi :: tail = TK KLet :: l).
      { rewrite pr_binder_eq. eexists. reflexivity. }
      destruct Hk as [l Hl]. cbn [block_loop]. rewrite Hl. rewrite <- Hl.
      rewrite let_stmt_rt by assumption. unfold tail. rewrite (IH r n ts); [reflexivity|cbn [length] in Hn; lia|exact Hmore|exact Hr].
    + cbn [pr_binder app]. destruct (fpr_head dec x Hsx) as (t & rest & E & _ & Het).
      rewrite E. cbn [app]. rewrite block_loop_default by exact Het.
      change (t :: rest ++ TP Semi :: tail) with ((t :: rest) ++ TP Semi :: tail). rewrite <- E.
      rewrite (Hex (TP Semi :: tail) I). cbn [hd_is is_p punct_eqb]. rewrite expect_same. unfold tail.
      rewrite (IH r n ts); [reflexivity|cbn [length] in Hn; lia|exact Hmore|exact Hr].
Qed.

Lemma stmts_length ss l : length ss + length l <= length (flat_map (pr_stmt dec) ss ++ l).
Proof.
  induction ss as [|[bd x] more IH]; cbn [flat_map length app]; [lia|]. unfold pr_stmt at 1.
  rewrite !app_length in *. cbn [length]. lia.
Qed.

Lemma block_rt ss r ts : (forall s, In s ss -> stmt_ok s) ->
  match r with Some x => fsuff dec x = true /\ E0 x | None => True end ->
  block tps (P (MLevel 0)) (fpr dec (XBlock ss r) ++ ts) = Some (XBlock ss r, ts).
Proof.
  intros Hss Hr. unfold block. cbn [fpr app]. rewrite expect_same.
  change (fun s : option (pat * option annot) * fexpr => let (bd, x) := s in pr_binder bd ++ fpr dec x ++ [TP Semi])
    with (pr_stmt dec).
  rewrite <- !app_assoc. cbn [app].
  rewrite block_loop_rt; [reflexivity| |exact Hss|exact Hr].
  pose proof (stmts_length ss (match r with Some x => fpr dec x | None => [] end ++ TP RBrace :: ts)) as H1.
  rewrite !app_length in *. cbn [length] in *. unfold stmt in *. lia.
Qed.

(* ---- match arms *)
Definition arm_ok (pb : arm) : Prop := wf_pat (fst pb) = true /\ fsuff dec (snd pb) = true /\ E0 (snd pb).

Lemma pr_pat_starts p : wf_pat p = true -> exists t l, pr_pat p = t :: l /\ starts_pat t = true.
Proof.
  revert p. fix IH 1. intros p Hw. destruct p as [|n|ps|fs|n d|ps]; cbn [pr_pat]; try (eexists _, _; split; reflexivity).
  - destruct d; eexists _, _; split; reflexivity.
  - destruct ps as [|q qs]; [discriminate Hw|]. cbn [wf_pat forallb] in Hw.
    rewrite !andb_true_iff in Hw. destruct Hw as (_ & (_ & Hq) & _).
    destruct (IH q Hq) as (t & l & E & H1). rewrite bar_sep_cons, E. cbn [app]. eexists _, _; split; [reflexivity|exact H1].
Qed.

Lemma arms_loop_rt : forall arms n ts, arms <> [] -> length arms < n -> (forall pb, In pb arms -> arm_ok pb) ->
  arms_loop (P (MLevel 0)) n (flat_map (pr_arm dec) arms ++ TP RBrace :: ts) = Some (arms, TP RBrace :: ts).
Proof.
  induction arms as [|[p b] more IH]; intros n ts Hne Hn Hok; [congruence|].
  destruct n as [|n]; [cbn in Hn; lia|].
  destruct (Hok _ (or_introl eq_refl)) as (Hp & Hsb & Heb). cbn [fst snd] in *.
  cbn [flat_map arms_loop]. unfold pr_arm at 1. rewrite <- !app_assoc. cbn [app]. rewrite <- !app_assoc. cbn [app].
  rewrite pattern_roundtrip; [|exact Hp|exact I]. rewrite expect_same.
  rewrite (Heb (TP Comma :: flat_map (pr_arm dec) more ++ TP RBrace :: ts) I). cbn [hd_is is_p punct_eqb]. rewrite expect_same.
  destruct more as [|[p2 b2] more'].
  - cbn [flat_map app hd_is starts_pat]. reflexivity.
  - assert (Hok' : forall pb, In pb ((p2, b2) :: more') -> arm_ok pb) by (intros pb Hpb; apply Hok; right; exact Hpb).
    destruct (Hok' _ (or_introl eq_refl)) as (Hp2 & _ & _). cbn [fst] in Hp2.
    assert (Hst : hd_is starts_pat (flat_map (pr_arm dec) ((p2, b2) :: more') ++ TP RBrace :: ts) = true).
    { cbn [flat_map]. unfold pr_arm at 1. destruct (pr_pat_starts p2 Hp2) as (t & l & E & Ht). rewrite E. cbn [app hd_is]. exact Ht. }
    unfold arm in *. rewrite Hst. rewrite (IH n ts); [reflexivity|discriminate|cbn [length] in *; lia|exact Hok'].
Qed.

Lemma arms_length arms l : length arms <= length (flat_map (pr_arm dec) arms ++ l).
Proof.
  induction arms as [|[p b] more IH]; cbn [flat_map length app]; [lia|]. unfold pr_arm at 1.
  rewrite !app_length in *. cbn [length]. rewrite app_length. cbn [length]. lia.
Qed.

(* ---- if / else *)
Lemma ifelse_mono pe : forall n n' ts x, ifelse tps pe n ts = Some x -> n <= n' -> ifelse tps pe n' ts = Some x.
Proof.
  induction n as [|n IH]; intros n' ts x H Hle; [discriminate|].
  destruct n' as [|n']; [lia|]. cbn [ifelse] in *.
  repeat match type of H with
  | context [ifelse tps pe n ?t] =>
      let E := fresh "E" in
      destruct (ifelse tps pe n t) as [[? ?]|] eqn:E; [rewrite (IH n' t _ E) by lia|discriminate H]
  | context [match ?x with _ => _ end] =>
      lazymatch x with
      | context [match _ with _ => _ end] => fail
      | _ => destruct x eqn:?; try discriminate H
      end
  | context [if ?c then _ else _] =>
      lazymatch c with
      | context [match _ with _ => _ end] => fail
      | _ => destruct c eqn:?; try discriminate H
      end
  end; exact H.
Qed.

Lemma P_level0_match l : P (MLevel 0) (TK KMatch :: l) =
  match P (MLevel 0) l with
  | Some (s, r1) =>
      match expect LBrace r1 with
      | Some r2 =>
          match arms_loop (P (MLevel 0)) (S (length r2)) r2 with
          | Some (arms, r3) => match expect RBrace r3 with Some r4 => Some (XMatch s arms, r4) | None => None end
          | None => None
          end
      | None => None
      end
  | None => None
  end.
Proof. rewrite (pmode_eq tps (MLevel 0)). reflexivity. Qed.

Lemma P_level0_if l : P (MLevel 0) (TK KIf :: l) = ifelse tps (P (MLevel 0)) (S (length (TK KIf :: l))) (TK KIf :: l).
Proof. rewrite (pmode_eq tps (MLevel 0)). reflexivity. Qed.

(* ---- postfix steps *)
Lemma targs_opt_rt tas ts : forallb (annot_ok tps) tas = true -> (tas = [] -> not_lt ts) ->
  targs_opt (parse_annot tps) (pr_targs tas ++ ts) = Some (tas, ts).
Proof.
  intros Hok Hnl. destruct tas as [|t more].
  - cbn [pr_targs app]. specialize (Hnl eq_refl). unfold targs_opt.
    destruct ts as [|[q|p|x|x|z|s|o] ts']; try reflexivity. destruct o; try reflexivity. destruct Hnl.
  - unfold pr_targs. cbn [app targs_opt]. rewrite <- app_assoc. cbn [app].
    rewrite (seplist_rt (parse_annot tps) is_gt pr_annot (canon tps) not_lt t more _ (TOp Gt) ts).
    + rewrite expect_op_same.
      assert (Hm : map (canon tps) (t :: more) = t :: more).
      { transitivity (map (fun x : annot => x) (t :: more)); [|apply map_id]. apply map_ext_in.
        intros a Ha. apply annot_ok_canon. exact (forallb_In _ _ _ Hok Ha). }
      rewrite Hm. reflexivity.
    + rewrite app_length, commas_cons, app_length. pose proof (tails_length pr_annot more). cbn [length]. lia.
    + discriminate.
    + exact I.
    + intros l. exact I.
    + intros y Hy. destruct (pr_annot_head y) as (t0 & l0 & E & H1 & _). exists t0, l0. split; assumption.
    + intros y tail Hy Hf. apply annot_roundtrip'. exact Hf.
Qed.

Lemma P_post_field a (up : bool) f tas ts : forallb (annot_ok tps) tas = true -> (tas = [] -> not_lt ts) ->
  P (MPost a) (TP Dot :: (if up then TUp f else TLow f) :: pr_targs tas ++ ts) = P (MPost (XField a up f tas)) ts.
Proof.
  intros Hok Hnl. rewrite (pmode_eq tps (MPost a)). cbn [estep post_step].
  destruct up; rewrite (targs_opt_rt tas ts Hok Hnl); reflexivity.
Qed.

Lemma P_post_call a args ts : (forall x, In x args -> fsuff dec x = true /\ E0 x) ->
  P (MPost a) (TP LParen :: commas (map (fpr dec) args) ++ TP RParen :: ts) = P (MPost (XCall a args)) ts.
Proof. intros Hall. rewrite (pmode_eq tps (MPost a)). cbn [estep post_step]. rewrite args_rt by exact Hall. reflexivity. Qed.

(* ---- descending between levels *)
Lemma step_down k t rest c ts : k <= 8 -> S k <= fhd_level t -> ffollow_ok k ts ->
  P (MLevel (S k)) (t :: rest) = Some (c, ts) -> P (MLevel k) (t :: rest) = Some (c, ts).
Proof.
  intros Hk Hh Hf Hp.
  destruct (Nat.eq_dec k 8) as [->|].
  { rewrite (P_level8_step _ _ _ Hp). apply P_post_exit. exact Hf. }
  destruct (Nat.eq_dec k 7) as [->|].
  { rewrite P_level7_step by lia. exact Hp. }
  destruct (Nat.eq_dec k 0) as [->|].
  { rewrite P_level0_step by lia. exact Hp. }
  rewrite (P_level_step k _ _ _ ltac:(lia) Hp). apply P_loop_exit. exact Hf.
Qed.

Lemma descend : forall d k t rest c ts, k + d <= 9 -> k + d <= fhd_level t -> ffollow_ok k ts ->
  P (MLevel (k + d)) (t :: rest) = Some (c, ts) -> P (MLevel k) (t :: rest) = Some (c, ts).
Proof.
  induction d as [|d IH]; intros k t rest c ts Hk Hh Hf Hp.
  - now rewrite Nat.add_0_r in Hp.
  - apply step_down; [lia|lia|exact Hf|].
    apply (IH (S k)); [lia|lia| |].
    + eapply ffollow_ok_mono; [|exact Hf]. lia.
    + now replace (S k + d) with (k + S d) by lia.
Qed.

Lemma descend_to k j t rest c ts : k <= j -> j <= 9 -> j <= fhd_level t -> ffollow_ok k ts ->
  P (MLevel j) (t :: rest) = Some (c, ts) -> P (MLevel k) (t :: rest) = Some (c, ts).
Proof.
  intros H1 H2 H3 Hf Hp. apply (descend (j - k) k); try (replace (k + (j - k)) with j by lia); auto.
Qed.

(* ---- the three induction predicates *)
Definition efp (b : bool) (c : fexpr) : bool := negb b && fends_field dec c.

Definition A (c : fexpr) : Prop := forall k b ts, k <= 9 -> (flevel c < k -> b = true) ->
  ffollow_ok k ts -> (efp b c = true -> not_lt ts) -> P (MLevel k) (fwrap b (fpr dec c) ++ ts) = Some (c, ts).
Definition L (c : fexpr) : Prop := forall j b ts, 1 <= j <= 6 -> (flevel c < j -> b = true) ->
  ffollow_ok (S j) ts -> (efp b c = true -> not_lt ts) ->
  P (MLevel j) (fwrap b (fpr dec c) ++ ts) = P (MLoop j c) ts.
Definition Pp (c : fexpr) : Prop := forall b ts, (flevel c < 8 -> b = true) ->
  ffollow_ok 9 ts -> (efp b c = true -> not_lt ts) ->
  P (MLevel 8) (fwrap b (fpr dec c) ++ ts) = P (MPost c) ts.
Definition A0 (c : fexpr) : Prop := forall ts, ffollow_ok (flevel c) ts ->
  (fends_field dec c = true -> not_lt ts) -> P (MLevel (flevel c)) (fpr dec c ++ ts) = Some (c, ts).

Lemma sep_tail_follow ts : sep_tail ts -> ffollow_ok 0 ts /\ not_lt ts.
Proof. destruct ts as [|[q|p|x|x|z|s|o] ts']; cbn; try tauto. destruct p; tauto. Qed.

Lemma E0_of_A c : A c -> E0 c.
Proof.
  intros HA tail Ht. destruct (sep_tail_follow _ Ht) as [H1 H2].
  apply (HA 0 false tail); [lia|lia|exact H1|intros _; exact H2].
Qed.

Lemma A_of_A0 c : fsuff dec c = true -> A0 c -> A c.
Proof.
  intros Hs H0 k b ts Hk Hb Hf Hlt. pose proof (flevel_bound c) as Hbound.
  destruct (fpr_head dec c Hs) as (t & rest & E & Hh & _).
  assert (Hunp : forall k' ts', k' <= flevel c -> ffollow_ok k' ts' -> (fends_field dec c = true -> not_lt ts') ->
                 P (MLevel k') (fpr dec c ++ ts') = Some (c, ts')).
  { intros k' ts' Hk' Hf' Hl'. specialize (H0 ts'). rewrite E in *. cbn [app] in *.
    apply (descend_to k' (flevel c)); auto. apply H0; [|exact Hl']. eapply ffollow_ok_mono; eauto. }
  destruct b; cbn [fwrap].
  - cbn [app]. rewrite <- app_assoc. cbn [app].
    apply (descend_to k 9); [lia|lia|cbn; lia|exact Hf|].
    apply paren_wrap; [exact Hs| |eapply ffollow_ok_mono; [|exact Hf]; lia].
    intros tail Ht. destruct (sep_tail_follow _ Ht) as [H1 H2]. apply Hunp; [lia|exact H1|intros _; exact H2].
  - apply Hunp; [|exact Hf|exact Hlt]. destruct (Nat.lt_ge_cases (flevel c) k) as [Hl|]; [|assumption].
    specialize (Hb Hl). discriminate.
Qed.

Lemma P_of_A c : A c -> flevel c <> 8 -> Pp c.
Proof.
  intros HA Hne b ts Hb Hf Hlt. apply P_level8_step.
  apply (HA 9 b ts); [lia| |exact Hf|exact Hlt]. intros Hl. apply Hb. lia.
Qed.

Lemma L_of_A c : A c -> (flevel c = 0 \/ 7 <= flevel c) -> L c.
Proof.
  intros HA Hl j b ts Hj Hb Hf Hlt. apply P_level_step; [lia|].
  apply (HA (S j) b ts); [lia| |exact Hf|exact Hlt]. intros Hl'. apply Hb. lia.
Qed.

Lemma nstr_eqb_eq a b : nstr_eqb a b = true -> a = b.
Proof.
  unfold nstr_eqb. apply list_eqb_eq. intros x y _ H. apply N.eqb_eq. exact H.
Qed.

Lemma str_ok_roundtrip s : str_ok s = true -> unescape (escape s) = s.
Proof.
  unfold str_ok. destruct (walk (escape s) false) as [[|]|]; try discriminate. apply nstr_eqb_eq.
Qed.

Lemma fall_in (Q : fexpr -> bool) l x : forallb (fall Q) l = true -> In x l -> fall Q x = true.
Proof. intros H Hi. exact (forallb_In _ _ _ H Hi). Qed.

Lemma ALP_of_A0 c : fsuff dec c = true -> A0 c -> (flevel c = 0 \/ flevel c = 7 \/ flevel c = 9) -> A c /\ L c /\ Pp c.
Proof.
  intros Hs H0 Hl. pose proof (A_of_A0 c Hs H0) as HA.
  split; [exact HA|]. split; [apply L_of_A; [exact HA|lia]|apply P_of_A; [exact HA|lia]].
Qed.

Lemma ltb_true a b : a < b -> (a <? b) = true.
Proof. intros. apply Nat.ltb_lt. assumption. Qed.

Theorem all_ALP : forall n c, fsize c <= n -> fsuff dec c = true -> fwf tps c = true -> A c /\ L c /\ Pp c.
Proof.
  induction n as [|n IH]; intros c Hsz Hs Hw; [destruct c; cbn in Hsz; lia|].
  pose proof (fsuff_node_of dec c Hs) as Hn.
  assert (IHE : forall x, fsize x <= n -> fsuff dec x = true -> fwf tps x = true -> fsuff dec x = true /\ E0 x).
  { intros x Hx Hsx Hwx. split; [exact Hsx|]. apply E0_of_A. apply (IH x Hx Hsx Hwx). }
  unfold fsuff, fwf in Hs, Hw.
  destruct c as [l|x| |x|es|a up f tas|a args|u a|o a b|g c b1 e2|s arms|ps b|ss r];
    cbn [fall] in Hs, Hw; cbn [fsize] in Hsz; rewrite ?andb_true_iff in Hs, Hw.
  - (* literal *)
    apply ALP_of_A0; [exact (proj2 (andb_true_iff _ _) (conj (proj1 Hs) eq_refl))| |cbn; tauto].
    intros ts _ _. cbn [flevel fpr app]. rewrite P_level9. destruct Hw as [Hw _]. cbn [fwf_node] in Hw.
    destruct l as [z|str|[]]; cbn [pr_lit base_expr lit_ok] in *; try reflexivity.
    + rewrite Hw. reflexivity.
    + rewrite (str_ok_roundtrip str Hw), Hw. reflexivity.
  - apply ALP_of_A0; [exact (proj2 (andb_true_iff _ _) (conj (proj1 Hs) eq_refl))| |cbn; tauto].
    intros ts _ _. cbn [flevel fpr app]. rewrite P_level9. reflexivity.
  - apply ALP_of_A0; [exact (proj2 (andb_true_iff _ _) (conj (proj1 Hs) eq_refl))| |cbn; tauto].
    intros ts _ _. cbn [flevel fpr app]. rewrite P_level9. reflexivity.
  - apply ALP_of_A0; [exact (proj2 (andb_true_iff _ _) (conj (proj1 Hs) eq_refl))| |cbn; tauto].
    intros ts _ _. cbn [flevel fpr app]. rewrite P_level9. reflexivity.
  - (* tuple *)
    destruct Hs as [Hsn Hsc], Hw as [Hwn Hwc]. cbn [fwf_node] in Hwn. rewrite andb_true_iff in Hwn. destruct Hwn as [Hlen Hmax].
    assert (Hall : forall y, In y es -> fsuff dec y = true /\ E0 y).
    { intros y Hy. apply IHE; [|exact (fall_in _ _ _ Hsc Hy)|exact (fall_in _ _ _ Hwc Hy)].
      pose proof (in_size_le fsize y es Hy). lia. }
    apply ALP_of_A0; [unfold fsuff; cbn [fall]; rewrite Hsn, Hsc; reflexivity| |cbn; tauto].
    intros ts Hf _. cbn [flevel] in *. destruct es as [|e1 [|e2 es']]; try (cbn in Hlen; discriminate).
    cbn [fpr app]. rewrite <- app_assoc. cbn [app]. apply tuple_rt; [exact Hall| |exact Hf].
    apply Nat.leb_le. exact Hmax.
  - (* field access *)
    destruct Hs as [Hsn Hsa], Hw as [Hwn Hwa]. cbn [fwf_node] in Hwn.
    destruct (IH a ltac:(lia) Hsa Hwa) as (Aa & La & Pa).
    assert (Hs' : fsuff dec (XField a up f tas) = true) by (unfold fsuff; cbn [fall]; rewrite Hsn; exact Hsa).
    assert (Hb1 : flevel a < 8 -> dec (XField a up f tas) SBase = true).
    { intros Hlt. apply (fsuff_node_side dec _ SBase Hn). apply fneed_level_need. cbn [fneed_level]. apply ltb_true. exact Hlt. }
    assert (Hnl : forall ts, (fends_field dec (XField a up f tas) = true -> not_lt ts) -> tas = [] -> not_lt ts).
    { intros ts H ->. apply H. reflexivity. }
    assert (HA : A (XField a up f tas)).
    { apply A_of_A0; [exact Hs'|]. intros ts Hf Hlt. cbn [flevel fpr] in *. rewrite <- app_assoc. cbn [app].
      rewrite Pa; [|exact Hb1|cbn; lia|intros _; exact I]. rewrite P_post_field; [|exact Hwn|apply Hnl; exact Hlt].
      apply P_post_exit. exact Hf. }
    split; [exact HA|]. split; [apply L_of_A; [exact HA|cbn; lia]|].
    intros bb ts Hb Hf Hlt. destruct bb.
    + apply P_level8_step. apply (HA 9 true ts); [lia|reflexivity|exact Hf|intros H; discriminate H].
    + cbn [fwrap fpr]. rewrite <- app_assoc. cbn [app].
      rewrite Pa; [|exact Hb1|cbn; lia|intros _; exact I]. apply P_post_field; [exact Hwn|].
      apply Hnl. intros H. apply Hlt. unfold efp. rewrite H. reflexivity.
  - (* call *)
    destruct Hs as [Hsn [Hsa Hsargs]], Hw as [Hwn [Hwa Hwargs]].
    destruct (IH a ltac:(lia) Hsa Hwa) as (Aa & La & Pa).
    assert (Hs' : fsuff dec (XCall a args) = true) by (unfold fsuff; cbn [fall]; rewrite Hsn, Hsa, Hsargs; reflexivity).
    assert (Hall : forall y, In y args -> fsuff dec y = true /\ E0 y).
    { intros y Hy. apply IHE; [|exact (fall_in _ _ _ Hsargs Hy)|exact (fall_in _ _ _ Hwargs Hy)].
      pose proof (in_size_le fsize y args Hy). lia. }
    assert (Hb1 : flevel a < 8 -> dec (XCall a args) SBase = true).
    { intros Hlt. apply (fsuff_node_side dec _ SBase Hn). apply fneed_level_need. cbn [fneed_level]. apply ltb_true. exact Hlt. }
    assert (HA : A (XCall a args)).
    { apply A_of_A0; [exact Hs'|]. intros ts Hf _. cbn [flevel fpr] in *. rewrite <- app_assoc. cbn [app].
      rewrite <- app_assoc. cbn [app].
      rewrite Pa; [|exact Hb1|cbn; lia|intros _; exact I]. rewrite P_post_call by exact Hall.
      apply P_post_exit. exact Hf. }
    split; [exact HA|]. split; [apply L_of_A; [exact HA|cbn; lia]|].
    intros bb ts Hb Hf Hlt. destruct bb.
    + apply P_level8_step. apply (HA 9 true ts); [lia|reflexivity|exact Hf|intros H; discriminate H].
    + cbn [fwrap fpr]. rewrite <- app_assoc. cbn [app]. rewrite <- app_assoc. cbn [app].
      rewrite Pa; [|exact Hb1|cbn; lia|intros _; exact I]. apply P_post_call. exact Hall.
  - (* unary *)
    destruct Hs as [Hsn Hsa], Hw as [Hwn Hwa].
    destruct (IH a ltac:(lia) Hsa Hwa) as (Aa & _ & _).
    assert (Hb1 : flevel a < 8 -> dec (XUn u a) SArg = true).
    { intros Hlt. apply (fsuff_node_side dec _ SArg Hn). apply fneed_level_need. cbn [fneed_level]. apply ltb_true. exact Hlt. }
    apply ALP_of_A0; [unfold fsuff; cbn [fall]; rewrite Hsn; exact Hsa| |cbn; tauto].
    intros ts Hf Hlt. cbn [flevel fpr] in *. cbn [app].
    apply P_unary. apply Aa; [lia|exact Hb1| |exact Hlt]. eapply ffollow_ok_mono; [|exact Hf]. lia.
  - (* binary *)
    destruct Hs as [Hsn [Hsa Hsb]], Hw as [Hwn [Hwa Hwb]].
    destruct (IH a ltac:(lia) Hsa Hwa) as (Aa & La & _). destruct (IH b ltac:(lia) Hsb Hwb) as (Ab & _ & _).
    pose proof (plevel_bounds o) as Ho.
    assert (Hs' : fsuff dec (XBin o a b) = true) by (unfold fsuff; cbn [fall]; rewrite Hsn, Hsa, Hsb; reflexivity).
    assert (Hbl : flevel a < plevel o -> dec (XBin o a b) SLeft = true).
    { intros Hlt. apply (fsuff_node_side dec _ SLeft Hn). apply fneed_level_need. cbn [fneed_level]. apply ltb_true. exact Hlt. }
    assert (Hbl_lt : efp (dec (XBin o a b) SLeft) a = true -> not_lt (TOp o :: fwrap (dec (XBin o a b) SRight) (fpr dec b))).
    { intros He. destruct o; try exact I. unfold efp in He. apply andb_prop in He. destruct He as [He1 He2].
      rewrite (fsuff_node_side dec _ SLeft Hn) in He1; [discriminate|].
      unfold fneed. cbn [fneed_lt is_lt]. rewrite He2. apply orb_true_r. }
    assert (Hbr : flevel b < S (plevel o) -> dec (XBin o a b) SRight = true).
    { intros Hlt. apply (fsuff_node_side dec _ SRight Hn). apply fneed_level_need. cbn [fneed_level]. apply ltb_true. exact Hlt. }
    assert (Hchain : forall ts, ffollow_ok (S (plevel o)) ts -> (fends_field dec (XBin o a b) = true -> not_lt ts) ->
                     P (MLevel (plevel o)) (fpr dec (XBin o a b) ++ ts) = P (MLoop (plevel o) (XBin o a b)) ts).
    { intros ts Hf Hlt. cbn [fpr]. rewrite <- app_assoc. cbn [app].
      rewrite La; [|lia|exact Hbl|cbn; lia|].
      - apply P_loop_step; [reflexivity|]. apply Ab; [lia|exact Hbr|exact Hf|exact Hlt].
      - intros He. specialize (Hbl_lt He). destruct o; exact I || exact Hbl_lt. }
    assert (HA : A (XBin o a b)).
    { apply A_of_A0; [exact Hs'|]. intros ts Hf Hlt. cbn [flevel] in *.
      rewrite Hchain; [|eapply ffollow_ok_mono; [|exact Hf]; lia|exact Hlt]. apply P_loop_exit. exact Hf. }
    split; [exact HA|]. split.
    + intros j bf ts Hj Hb Hf Hlt. cbn [flevel] in Hb.
      destruct bf.
      * apply P_level_step; [lia|]. apply (HA (S j) true ts); [lia|reflexivity|exact Hf|intros H; discriminate H].
      * cbn [fwrap].
        destruct (Nat.eq_dec (plevel o) j) as [<-|Hne].
        -- apply Hchain; [exact Hf|]. intros H. apply Hlt. unfold efp. rewrite H. reflexivity.
        -- apply P_level_step; [lia|].
           assert (Hge : j <= plevel o).
           { destruct (Nat.lt_ge_cases (plevel o) j) as [Hl|]; [specialize (Hb Hl); discriminate|assumption]. }
           apply (HA (S j) false ts); [lia| |exact Hf|exact Hlt]. cbn [flevel]. intros. lia.
    + intros bf ts Hb Hf Hlt. cbn [flevel] in Hb. rewrite (Hb ltac:(lia)).
      apply P_level8_step. apply (HA 9 true ts); [lia|reflexivity|exact Hf|intros H; discriminate H].
  - (* if / else *)
    destruct Hs as [Hsn [[Hsc Hs1] Hs2]], Hw as [Hwn [[Hwc Hw1] Hw2]].
    cbn [fwf_node] in Hwn. rewrite !andb_true_iff in Hwn. destruct Hwn as [[Hg Hb1] He2].
    destruct (IHE c ltac:(lia) Hsc Hwc) as [_ Ec].
    assert (Hblock : forall blk tail, is_block blk = true -> fsize blk <= n -> fsuff dec blk = true -> fwf tps blk = true ->
              block tps (P (MLevel 0)) (fpr dec blk ++ tail) = Some (blk, tail)).
    { intros blk tail Hb Hz Hsb Hwb. destruct blk as [| | | | | | | | | | | |ss r]; try discriminate.
      unfold fsuff, fwf in Hsb, Hwb. cbn [fall] in Hsb, Hwb. cbn [fsize] in Hz. rewrite ?andb_true_iff in Hsb, Hwb.
      destruct Hsb as [_ [Hss Hsr]], Hwb as [Hwbn [Hws Hwr]]. cbn [fwf_node] in Hwbn.
      apply block_rt.
      - intros st Hst. pose proof (forallb_In _ _ _ Hss Hst) as H1. pose proof (forallb_In _ _ _ Hws Hst) as H2.
        pose proof (forallb_In _ _ _ Hwbn Hst) as H3. cbn beta in H1, H2, H3.
        pose proof (in_size_le (fun s0 : option (pat * option annot) * fexpr => fsize (snd s0)) st ss Hst) as H4. cbn beta in H4.
        destruct (IHE (snd st) ltac:(lia) H1 H2) as [H5 H6]. split; [exact H5|]. split; [exact H6|].
        destruct (fst st) as [[p oa]|]; [|exact I]. apply andb_prop in H3. exact H3.
      - destruct r as [x|]; [|exact I]. apply IHE; [lia|exact Hsr|exact Hwr]. }
    apply ALP_of_A0; [unfold fsuff; cbn [fall]; rewrite Hsn, Hsc, Hs1, Hs2; reflexivity| |cbn; tauto].
    intros ts Hf _. cbn [flevel] in Hf. cbn [flevel fpr]. cbn [app]. rewrite P_level0_if. cbn [ifelse]. rewrite expect_kw_same.
    assert (Hcond : (if hd_is (is_kw KLet) ((match g with Some p => TK KLet :: pr_pat p ++ [TP Assign] | None => [] end
                                              ++ fpr dec c ++ fpr dec b1 ++ TK KElse :: fpr dec e2) ++ ts)
             then match expect_kw KLet ((match g with Some p => TK KLet :: pr_pat p ++ [TP Assign] | None => [] end
                                              ++ fpr dec c ++ fpr dec b1 ++ TK KElse :: fpr dec e2) ++ ts) with
                  | Some q0 => match parse_pat q0 with
                               | Some (p, q1) => match expect Assign q1 with
                                                 | Some q2 => match P (MLevel 0) q2 with
                                                              | Some (c0, q3) => Some (Some p, c0, q3)
                                                              | None => None end
                                                 | None => None end
                               | None => None end
                  | None => None end
             else match P (MLevel 0) ((match g with Some p => TK KLet :: pr_pat p ++ [TP Assign] | None => [] end
                                              ++ fpr dec c ++ fpr dec b1 ++ TK KElse :: fpr dec e2) ++ ts) with
                  | Some (c0, q3) => Some (None, c0, q3)
                  | None => None end)
             = Some (g, c, fpr dec b1 ++ TK KElse :: fpr dec e2 ++ ts)).
    { assert (Htail : sep_tail (fpr dec b1 ++ TK KElse :: fpr dec e2 ++ ts)).
      { destruct b1; try discriminate. cbn [fpr app]. exact I. }
      destruct g as [p|].
      - cbn [app hd_is is_kw kw_eqb]. rewrite expect_kw_same. rewrite <- !app_assoc. cbn [app].
        rewrite pattern_roundtrip; [|exact Hg|exact I]. rewrite expect_same.
        rewrite (Ec _ Htail). reflexivity.
      - cbn [app]. rewrite <- !app_assoc.
        destruct (fpr_head dec c Hsc) as (t & rest & E & _ & Het).
        assert (Hk : hd_is (is_kw KLet) (fpr dec c ++ fpr dec b1 ++ (TK KElse :: fpr dec e2) ++ ts) = false).
        { rewrite E. cbn [app hd_is]. destruct t as [q|p|x|x|z|s|o]; try reflexivity. destruct q; try discriminate; reflexivity. }
        rewrite Hk. cbn [app]. rewrite (Ec _ Htail). reflexivity. }
    rewrite Hcond. cbn [fst snd].
    rewrite (Hblock b1 _ Hb1 ltac:(lia) Hs1 Hw1). rewrite expect_kw_same.
    apply orb_prop in He2. destruct He2 as [He2|He2].
    + assert (Hk : hd_is (is_kw KIf) (fpr dec e2 ++ ts) = false) by (destruct e2; try discriminate; reflexivity).
      rewrite Hk. rewrite (Hblock e2 _ He2 ltac:(lia) Hs2 Hw2). reflexivity.
    + assert (Hk : exists l, fpr dec e2 ++ ts = TK KIf :: l) by (destruct e2; try discriminate; eexists; reflexivity).
      destruct Hk as [l Hl]. rewrite Hl. cbn [hd_is is_kw kw_eqb].
      destruct (IH e2 ltac:(lia) Hs2 Hw2) as (A2 & _ & _).
      assert (H2 : P (MLevel 0) (TK KIf :: l) = Some (e2, ts)).
      { rewrite <- Hl. apply (A2 0 false ts); [lia|lia|exact Hf|]. intros H. destruct e2; discriminate. }
      rewrite P_level0_if in H2.
      rewrite (ifelse_mono (P (MLevel 0)) _ _ _ _ H2); [reflexivity|].
      assert (Hlen : length (TK KIf :: l) = length (fpr dec e2) + length ts) by (rewrite <- Hl; apply app_length).
      rewrite Hlen. cbn [length]. repeat (rewrite app_length; cbn [length]). lia.
  - (* match *)
    destruct Hs as [Hsn [Hss Hsarms]], Hw as [Hwn [Hws Hwarms]].
    cbn [fwf_node] in Hwn. rewrite andb_true_iff in Hwn. destruct Hwn as [Hne Hpats].
    destruct (IHE s ltac:(lia) Hss Hws) as [_ Es].
    apply ALP_of_A0; [unfold fsuff; cbn [fall]; rewrite Hsn, Hss, Hsarms; reflexivity| |cbn; tauto].
    intros ts _ _. cbn [flevel fpr]. cbn [app]. rewrite <- !app_assoc. cbn [app].
    rewrite P_level0_match. rewrite Es by exact I. rewrite expect_same.
    change (fun pb : pat * fexpr => let (p, b) := pb in pr_pat p ++ TP Arrow :: fpr dec b ++ [TP Comma]) with (pr_arm dec).
    rewrite <- !app_assoc. cbn [app].
    rewrite arms_loop_rt.
    + rewrite expect_same. reflexivity.
    + destruct arms; [discriminate Hne|discriminate].
    + pose proof (arms_length arms (TP RBrace :: ts)). unfold arm in *. lia.
    + intros pb Hpb. pose proof (forallb_In _ _ _ Hsarms Hpb) as H1. pose proof (forallb_In _ _ _ Hwarms Hpb) as H2.
      pose proof (forallb_In _ _ _ Hpats Hpb) as H3. cbn beta in H1, H2, H3.
      pose proof (in_size_le (fun pb0 : pat * fexpr => fsize (snd pb0)) pb arms Hpb) as H4. cbn beta in H4.
      destruct (IHE (snd pb) ltac:(lia) H1 H2) as [H5 H6]. split; [exact H3|]. split; assumption.
  - (* lambda *)
    destruct Hs as [Hsn Hsb], Hw as [Hwn Hwb]. cbn [fwf_node] in Hwn.
    destruct (IH b ltac:(lia) Hsb Hwb) as (Ab & _ & _).
    assert (Hs' : fsuff dec (XLam ps b) = true) by (unfold fsuff; cbn [fall]; rewrite Hsn; exact Hsb).
    apply ALP_of_A0; [exact Hs'| |cbn; tauto].
    intros ts Hf Hlt. cbn [flevel] in *. cbn [fpr]. cbn [app]. rewrite <- !app_assoc. cbn [app].
    apply (descend_to 0 9); [lia|lia|cbn; lia|exact Hf|].
    apply lambda_rt.
    + apply Ab; [lia|lia|exact Hf|exact Hlt].
    + intros p Hp. exact (forallb_In _ _ _ Hwn Hp).
  - (* block *)
    destruct Hs as [Hsn [Hss Hsr]], Hw as [Hwn [Hws Hwr]]. cbn [fwf_node] in Hwn.
    apply ALP_of_A0; [unfold fsuff; cbn [fall]; rewrite Hsn, Hss, Hsr; reflexivity| |cbn; tauto].
    intros ts _ _. cbn [flevel]. rewrite P_level9.
    assert (Hb : exists l, fpr dec (XBlock ss r) ++ ts = TP LBrace :: l) by (eexists; reflexivity).
    destruct Hb as [l Hl]. rewrite Hl. cbn [base_expr]. rewrite <- Hl.
    apply block_rt.
    + intros st Hst. pose proof (forallb_In _ _ _ Hss Hst) as H1. pose proof (forallb_In _ _ _ Hws Hst) as H2.
      pose proof (forallb_In _ _ _ Hwn Hst) as H3. cbn beta in H1, H2, H3.
      pose proof (in_size_le (fun s0 : option (pat * option annot) * fexpr => fsize (snd s0)) st ss Hst) as H4. cbn beta in H4.
      destruct (IHE (snd st) ltac:(lia) H1 H2) as [H5 H6]. split; [exact H5|]. split; [exact H6|].
      destruct (fst st) as [[p oa]|]; [|exact I]. apply andb_prop in H3. exact H3.
    + destruct r as [x|]; [|exact I]. apply IHE; [lia|exact Hsr|exact Hwr].
Qed.

Theorem fpr_roundtrip e : fsuff dec e = true -> fwf tps e = true -> parse_fexpr tps (fpr dec e) = Some e.
Proof.
  intros Hs Hw. destruct (all_ALP (fsize e) e (le_n _) Hs Hw) as (HA & _ & _).
  pose proof (HA 0 false [] ltac:(lia) ltac:(lia) I ltac:(intros _; exact I)) as H.
  cbn [fwrap] in H. rewrite app_nil_r in H. unfold parse_fexpr, parse_expression. rewrite H. reflexivity.
Qed.
End RT.
