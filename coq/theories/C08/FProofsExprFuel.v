(* C08 — full model, proofs part 2: the expression parser.  Every function of the parser returns a
   suffix no longer than its input; the result of one unfolding depends only on calls with a smaller
   measure; hence the answer is the same for every fuel above the measure (parse_fuel_sufficient) and
   the parser satisfies its fixpoint equation. *)
From Coq Require Import List Arith Bool Lia.
Import ListNotations.
From SV Require Import C08.Syntax C08.Model C08.FSyntax C08.FModelTypes C08.FModelExpr C08.FProofsGen C08.FProofsTypes.

Section Fuel.
Variable tps : list nat.

(* ------------------------------------------------------------------ shrinking *)
Lemma opt_annot_shrinks : shrinks (opt_annot tps).
Proof. intros ts a r H. unfold opt_annot in H. dm H; fin H. Qed.
Hint Resolve opt_annot_shrinks : shrinkdb.
Lemma opt_annot_id_shrinks : shrinks (opt_annot_id tps).
Proof. intros ts a r H. unfold opt_annot_id in H. dm H; fin H. Qed.
Hint Resolve opt_annot_id_shrinks : shrinkdb.

Section PE.
Variable pe : pexpr.
Hypothesis Hpe : shrinks pe.

Lemma paren_list_shrinks limit : shrinks (paren_list pe limit).
Proof. intros ts a r H. unfold paren_list in H. dm H; fin H. Qed.
Lemma collect_shrinks es : shrinks (collect pe es).
Proof. intros ts a r H. unfold collect in H. dm H; fin H. Qed.
Lemma let_stmt_shrinks : shrinks (let_stmt tps pe).
Proof. intros ts a r H. unfold let_stmt in H. dm H; fin H. Qed.
Hint Resolve paren_list_shrinks collect_shrinks let_stmt_shrinks : shrinkdb.
Lemma block_loop_shrinks n : shrinks (block_loop tps pe n).
Proof.
  induction n as [|n IH]; intros ts a r H; [discriminate|]. cbn [block_loop] in H. dm H; fin H.
Qed.
Hint Resolve block_loop_shrinks : shrinkdb.
Lemma block_shrinks : shrinks (block tps pe).
Proof. intros ts a r H. unfold block in H. dm H; fin H. Qed.
Hint Resolve block_shrinks : shrinkdb.
Lemma ifelse_shrinks n : shrinks (ifelse tps pe n).
Proof.
  induction n as [|n IH]; intros ts a r H; [discriminate|]. cbn [ifelse] in H. dm H; fin H.
Qed.
Lemma arms_loop_shrinks n : shrinks (arms_loop pe n).
Proof.
  induction n as [|n IH]; intros ts a r H; [discriminate|]. cbn [arms_loop] in H. dm H; fin H.
Qed.
Lemma cover_end_shrinks ids : shrinks (cover_end pe ids).
Proof. intros ts a r H. unfold cover_end in H. dm H; fin H. Qed.
Lemma lambda_rest_shrinks before : shrinks (lambda_rest tps pe before).
Proof. intros ts a r H. unfold lambda_rest in H. dm H; fin H. Qed.
End PE.
Hint Resolve paren_list_shrinks collect_shrinks let_stmt_shrinks block_loop_shrinks block_shrinks ifelse_shrinks
  arms_loop_shrinks cover_end_shrinks lambda_rest_shrinks : shrinkdb.

Section REC.
Variable rec : erec.
Hypothesis Hs : forall m, shrinks (rec m).

Lemma cover_shrinks n : forall ids, shrinks (cover tps rec n ids).
Proof.
  induction n as [|n IH]; intros ids ts a r H; [discriminate|]. cbn [cover] in H. dm H; fin H.
Qed.
Hint Resolve cover_shrinks : shrinkdb.
Lemma paren_expr_shrinks : shrinks (paren_expr tps rec).
Proof. intros ts a r H. unfold paren_expr in H. dm H; fin H. Qed.
Hint Resolve paren_expr_shrinks : shrinkdb.
Lemma base_expr_shrinks : shrinks (base_expr tps rec).
Proof. intros ts a r H. unfold base_expr in H. dm H; fin H. Qed.
Lemma post_step_shrinks e : shrinks (post_step tps rec e).
Proof. intros ts a r H. unfold post_step in H. dm H; fin H. Qed.
Lemma level0_shrinks : shrinks (level0 tps rec).
Proof. intros ts a r H. unfold level0 in H. dm H; fin H. Qed.
Hint Resolve base_expr_shrinks post_step_shrinks level0_shrinks : shrinkdb.
Lemma estep_shrinks m : shrinks (estep tps rec m).
Proof. intros ts a r H. unfold estep in H. dm H; fin H. Qed.
End REC.

(* ------------------------------------------------------------------ locality *)
Ltac loc_with rw :=
  repeat first
    [ reflexivity
    | rw
    | match goal with |- context [match ?x with _ => _ end] => is_var x; destruct x end
    | match goal with |- context [match ?x with _ => _ end] =>
        lazymatch x with
        | context [match _ with _ => _ end] => fail
        | _ => let E := fresh "E" in destruct x eqn:E
        end end
    | match goal with |- context [if ?c then _ else _] =>
        lazymatch c with
        | context [match _ with _ => _ end] => fail
        | _ => let E := fresh "E" in destruct c eqn:E
        end end ].

Section PELocal.
Variables pe pe' : pexpr.

(* rewriting steps shared by the lemmas of this section; Hag : forall ts', length ts' < N -> pe ts' = pe' ts' *)
Ltac rw_pe Hpe Hag :=
  idtac; first
    [ match goal with |- context [pe' ?t] => rewrite <- (Hag t) by side end
    | match goal with |- context [seplist pe' ?e ?n ?t] =>
        rewrite <- (seplist_local pe pe' e n t Hpe) by (intros; apply Hag; side) end
    | match goal with |- context [seprest pe' ?e ?n ?t] =>
        rewrite <- (seprest_local pe pe' e Hpe n t) by (intros; apply Hag; side) end ].

Lemma paren_list_local (Hpe : shrinks pe) limit ts :
  (forall ts', length ts' <= length ts -> pe ts' = pe' ts') -> paren_list pe limit ts = paren_list pe' limit ts.
Proof. intros Hag. unfold paren_list. loc_with ltac:(rw_pe Hpe Hag). Qed.

Lemma collect_local (Hpe : shrinks pe) es ts :
  (forall ts', length ts' < length ts -> pe ts' = pe' ts') -> collect pe es ts = collect pe' es ts.
Proof. intros Hag. unfold collect. loc_with ltac:(rw_pe Hpe Hag). Qed.

Lemma let_stmt_local (Hpe : shrinks pe) ts :
  (forall ts', length ts' < length ts -> pe ts' = pe' ts') -> let_stmt tps pe ts = let_stmt tps pe' ts.
Proof. intros Hag. unfold let_stmt. loc_with ltac:(rw_pe Hpe Hag). Qed.

Lemma block_loop_local (Hpe : shrinks pe) n : forall ts,
  (forall ts', length ts' <= length ts -> pe ts' = pe' ts') -> block_loop tps pe n ts = block_loop tps pe' n ts.
Proof.
  induction n as [|n IH]; intros ts Hag; [reflexivity|]. cbn [block_loop].
  loc_with ltac:(idtac; first
    [ rw_pe Hpe Hag
    | match goal with |- context [let_stmt tps pe' ?t] =>
        rewrite <- (let_stmt_local Hpe t) by (intros; apply Hag; side) end
    | match goal with |- context [block_loop tps pe' n ?t] =>
        rewrite <- (IH t) by (intros; apply Hag; side) end ]).
Qed.

Lemma block_local (Hpe : shrinks pe) ts :
  (forall ts', length ts' < length ts -> pe ts' = pe' ts') -> block tps pe ts = block tps pe' ts.
Proof.
  intros Hag. unfold block.
  loc_with ltac:(idtac; match goal with |- context [block_loop tps pe' ?n ?t] =>
    rewrite <- (block_loop_local Hpe n t) by (intros; apply Hag; side) end).
Qed.

Lemma ifelse_local (Hpe : shrinks pe) n : forall ts,
  (forall ts', length ts' < length ts -> pe ts' = pe' ts') -> ifelse tps pe n ts = ifelse tps pe' n ts.
Proof.
  induction n as [|n IH]; intros ts Hag; [reflexivity|]. cbn [ifelse].
  loc_with ltac:(idtac; first
    [ rw_pe Hpe Hag
    | match goal with |- context [block tps pe' ?t] => rewrite <- (block_local Hpe t) by (intros; apply Hag; side) end
    | match goal with |- context [ifelse tps pe' n ?t] => rewrite <- (IH t) by (intros; apply Hag; side) end ]).
Qed.

Lemma arms_loop_local (Hpe : shrinks pe) n : forall ts,
  (forall ts', length ts' < length ts -> pe ts' = pe' ts') -> arms_loop pe n ts = arms_loop pe' n ts.
Proof.
  induction n as [|n IH]; intros ts Hag; [reflexivity|]. cbn [arms_loop].
  loc_with ltac:(idtac; first
    [ rw_pe Hpe Hag
    | match goal with |- context [arms_loop pe' n ?t] => rewrite <- (IH t) by (intros; apply Hag; side) end ]).
Qed.

Lemma cover_end_local (Hpe : shrinks pe) ids ts :
  (forall ts', length ts' < length ts -> pe ts' = pe' ts') -> cover_end pe ids ts = cover_end pe' ids ts.
Proof. intros Hag. unfold cover_end. loc_with ltac:(rw_pe Hpe Hag). Qed.

Lemma lambda_rest_local (Hpe : shrinks pe) before ts :
  (forall ts', length ts' < length ts -> pe ts' = pe' ts') -> lambda_rest tps pe before ts = lambda_rest tps pe' before ts.
Proof. intros Hag. unfold lambda_rest. loc_with ltac:(rw_pe Hpe Hag). Qed.
End PELocal.

Section RECLocal.
Variables rec rec' : erec.

(* Hag : forall m ts', length ts' < N -> rec m ts' = rec' m ts' *)
Ltac rw_rec Hs Hag :=
  idtac; first
    [ match goal with |- context [rec' ?m ?t] => rewrite <- (Hag m t) by side end
    | match goal with |- context [seplist (rec' ?m) ?e ?n ?t] =>
        rewrite <- (seplist_local (rec m) (rec' m) e n t (Hs m)) by (intros; apply Hag; side) end
    | match goal with |- context [seprest (rec' ?m) ?e ?n ?t] =>
        rewrite <- (seprest_local (rec m) (rec' m) e (Hs m) n t) by (intros; apply Hag; side) end
    | match goal with |- context [paren_list (rec' ?m) ?l ?t] =>
        rewrite <- (paren_list_local (rec m) (rec' m) (Hs m) l t) by (intros; apply Hag; side) end
    | match goal with |- context [collect (rec' ?m) ?es ?t] =>
        rewrite <- (collect_local (rec m) (rec' m) (Hs m) es t) by (intros; apply Hag; side) end
    | match goal with |- context [cover_end (rec' ?m) ?ids ?t] =>
        rewrite <- (cover_end_local (rec m) (rec' m) (Hs m) ids t) by (intros; apply Hag; side) end
    | match goal with |- context [lambda_rest tps (rec' ?m) ?b ?t] =>
        rewrite <- (lambda_rest_local (rec m) (rec' m) (Hs m) b t) by (intros; apply Hag; side) end
    | match goal with |- context [block tps (rec' ?m) ?t] =>
        rewrite <- (block_local (rec m) (rec' m) (Hs m) t) by (intros; apply Hag; side) end
    | match goal with |- context [ifelse tps (rec' ?m) ?n ?t] =>
        rewrite <- (ifelse_local (rec m) (rec' m) (Hs m) n t) by (intros; apply Hag; side) end
    | match goal with |- context [arms_loop (rec' ?m) ?n ?t] =>
        rewrite <- (arms_loop_local (rec m) (rec' m) (Hs m) n t) by (intros; apply Hag; side) end ].

Lemma cover_local (Hs : forall m, shrinks (rec m)) n : forall ids ts,
  (forall m ts', length ts' < length ts -> rec m ts' = rec' m ts') -> cover tps rec n ids ts = cover tps rec' n ids ts.
Proof.
  induction n as [|n IH]; intros ids ts Hag; [reflexivity|]. cbn [cover].
  loc_with ltac:(idtac; first
    [ rw_rec Hs Hag
    | match goal with |- context [cover tps rec' n ?i ?t] => rewrite <- (IH i t) by (intros; apply Hag; side) end ]).
Qed.

Lemma paren_expr_local (Hs : forall m, shrinks (rec m)) ts :
  (forall m ts', length ts' <= length ts -> rec m ts' = rec' m ts') -> paren_expr tps rec ts = paren_expr tps rec' ts.
Proof.
  intros Hag. unfold paren_expr.
  loc_with ltac:(idtac; first
    [ rw_rec Hs Hag
    | match goal with |- context [cover tps rec' ?n ?i ?t] => rewrite <- (cover_local Hs n i t) by (intros; apply Hag; side) end ]).
Qed.

Lemma base_expr_local (Hs : forall m, shrinks (rec m)) ts :
  (forall m ts', length ts' < length ts -> rec m ts' = rec' m ts') -> base_expr tps rec ts = base_expr tps rec' ts.
Proof.
  intros Hag. unfold base_expr.
  loc_with ltac:(idtac; first
    [ rw_rec Hs Hag
    | match goal with |- context [paren_expr tps rec' ?t] => rewrite <- (paren_expr_local Hs t) by (intros; apply Hag; side) end ]).
Qed.

Lemma post_step_local (Hs : forall m, shrinks (rec m)) e ts :
  (forall m ts', length ts' < length ts -> rec m ts' = rec' m ts') -> post_step tps rec e ts = post_step tps rec' e ts.
Proof. intros Hag. unfold post_step. loc_with ltac:(rw_rec Hs Hag). Qed.

Lemma rank_bound m : rank m <= 30.
Proof. destruct m; cbn [rank]; lia. Qed.

Lemma level0_local (Hs : forall m, shrinks (rec m)) ts :
  (forall m ts', mu m ts' < mu (MLevel 0) ts -> rec m ts' = rec' m ts') -> level0 tps rec ts = level0 tps rec' ts.
Proof.
  intros Hag.
  assert (Hlt : forall m ts', length ts' < length ts -> rec m ts' = rec' m ts').
  { intros m ts' H. apply Hag. unfold mu. pose proof (rank_bound m). cbn [rank]. lia. }
  unfold level0.
  loc_with ltac:(idtac; first
    [ rw_rec Hs Hlt
    | match goal with |- context [rec' (MLevel 1) ?t] => rewrite <- (Hag (MLevel 1) t) by (unfold mu; cbn; lia) end ]).
Qed.

Lemma estep_local (Hs : forall m, shrinks (rec m)) m ts :
  (forall m' ts', mu m' ts' < mu m ts -> rec m' ts' = rec' m' ts') -> estep tps rec m ts = estep tps rec' m ts.
Proof.
  intros Hag.
  assert (Hlt : forall m' ts', length ts' < length ts -> rec m' ts' = rec' m' ts').
  { intros m' ts' H. apply Hag. unfold mu. pose proof (rank_bound m'). lia. }
  destruct m as [k|k e|e|k e|e]; cbn [estep].
  - destruct k as [|[|[|[|[|[|[|[|[|k]]]]]]]]]; cbn [Nat.eqb Nat.leb];
      try (match goal with |- context [rec' ?m' ts] => rewrite <- (Hag m' ts) by (unfold mu; cbn; lia) end;
           destruct (rec _ ts) as [[e0 r0]|] eqn:E0; [|reflexivity];
           apply Hag; shr; unfold mu; cbn [rank]; cbn [length] in *; lia).
    + apply level0_local; [exact Hs|exact Hag].
    + loc_with ltac:(idtac; first
        [ rw_rec Hs Hlt
        | match goal with |- context [rec' (MLevel 8) ?t] => rewrite <- (Hag (MLevel 8) t) by (unfold mu; cbn; lia) end ]).
    + apply base_expr_local; [exact Hs|exact Hlt].
  - loc_with ltac:(rw_rec Hs Hlt).
  - apply post_step_local; [exact Hs|exact Hlt].
  - destruct (6 <? k) eqn:Ek; [reflexivity|]. apply Nat.ltb_ge in Ek.
    rewrite <- (Hag (MLoop k e) ts) by (unfold mu; cbn [rank]; lia).
    destruct (rec (MLoop k e) ts) as [[e0 r0]|] eqn:E0; [|reflexivity].
    destruct (k <=? 1) eqn:Ek1; [reflexivity|]. apply Nat.leb_gt in Ek1.
    apply Hag. shr. unfold mu. cbn [rank]. lia.
  - rewrite <- (Hag (MPost e) ts) by (unfold mu; cbn [rank]; lia).
    destruct (rec (MPost e) ts) as [[e0 r0]|] eqn:E0; [|reflexivity].
    apply Hag. shr. unfold mu. cbn [rank]. lia.
Qed.
End RECLocal.

(* ------------------------------------------------------------------ fuel independence *)
Lemma ego_shrinks f : forall m, shrinks (ego tps f m).
Proof.
  induction f as [|f IH]; intros m; [intros ts a r H; discriminate|]. cbn [ego]. apply estep_shrinks. exact IH.
Qed.

Lemma ego_stable : forall n m ts, mu m ts <= n -> forall f1 f2, n < f1 -> n < f2 -> ego tps f1 m ts = ego tps f2 m ts.
Proof.
  induction n as [|n IH]; intros m ts Hl f1 f2 H1 H2.
  - destruct f1 as [|f1]; [lia|]. destruct f2 as [|f2]; [lia|]. cbn [ego].
    apply estep_local. { apply ego_shrinks. } intros m' ts' Hlt. lia.
  - destruct f1 as [|f1]; [lia|]. destruct f2 as [|f2]; [lia|]. cbn [ego].
    apply estep_local. { apply ego_shrinks. } intros m' ts' Hlt. apply (IH m' ts'); lia.
Qed.

(* any fuel above the measure 40 * (number of tokens) + rank of the entry point gives the parser's answer *)
Theorem parse_fuel_sufficient f m ts : mu m ts < f -> ego tps f m ts = pmode tps m ts.
Proof. intros H. unfold pmode. apply (ego_stable (mu m ts)); lia. Qed.

Lemma pmode_shrinks m : shrinks (pmode tps m).
Proof. intros ts a r H. unfold pmode in H. eapply ego_shrinks. exact H. Qed.

Lemma pmode_eq m ts : pmode tps m ts = estep tps (pmode tps) m ts.
Proof.
  unfold pmode at 1. cbn [ego]. apply estep_local. { apply ego_shrinks. }
  intros m' ts' Hlt. apply parse_fuel_sufficient. exact Hlt.
Qed.
End Fuel.
