(* C08 — full model, proofs part 0: generic facts about the list combinators and about parsers given
   by open recursion (output never longer than the input; locality; independence of the fuel above the
   token count; the fixpoint equation). *)
From Coq Require Import List Arith Bool Lia.
Import ListNotations.
From SV Require Import C08.Syntax C08.FSyntax C08.FModelTypes.

Definition shrinks {A} (p : list tok -> presult A) : Prop :=
  forall ts a r, p ts = Some (a, r) -> length r <= length ts.

(* ------------------------------------------------------------------ seprest / seplist *)
Lemma seprest_shrinks {A} (elem : list tok -> presult A) endt : shrinks elem -> forall n, shrinks (seprest elem endt n).
Proof.
  intros He n. induction n as [|n IH]; intros ts a r H; [discriminate|]. cbn [seprest] in H.
  destruct ts as [|t ts']; [inversion H; subst; lia|].
  destruct t as [k|p|x|x|z|s|o]; try (inversion H; subst; lia).
  destruct p; try (inversion H; subst; lia).
  destruct (hd_is endt ts'); [inversion H; subst; cbn; lia|].
  destruct (elem ts') as [[a1 r1]|] eqn:E1; [|discriminate].
  destruct (seprest elem endt n r1) as [[l r2]|] eqn:E2; [|discriminate].
  inversion H; subst. apply He in E1. apply IH in E2. cbn. lia.
Qed.

Lemma seplist_shrinks {A} (elem : list tok -> presult A) endt n : shrinks elem -> shrinks (seplist elem endt n).
Proof.
  intros He ts a r H. unfold seplist in H.
  destruct (elem ts) as [[a1 r1]|] eqn:E1; [|discriminate].
  destruct (seprest elem endt n r1) as [[l r2]|] eqn:E2; [|discriminate].
  inversion H; subst. apply He in E1. apply (seprest_shrinks _ _ He) in E2. lia.
Qed.

Lemma seprest_local {A} (elem elem' : list tok -> presult A) endt : shrinks elem ->
  forall n ts, (forall ts', length ts' < length ts -> elem ts' = elem' ts') ->
  seprest elem endt n ts = seprest elem' endt n ts.
Proof.
  intros He n. induction n as [|n IH]; intros ts Hag; [reflexivity|]. cbn [seprest].
  destruct ts as [|t ts']; [reflexivity|].
  destruct t as [k|p|x|x|z|s|o]; try reflexivity. destruct p; try reflexivity.
  destruct (hd_is endt ts'); [reflexivity|].
  rewrite <- (Hag ts') by (cbn; lia).
  destruct (elem ts') as [[a1 r1]|] eqn:E1; [|reflexivity].
  apply He in E1. rewrite (IH r1); [reflexivity|]. intros ts2 H2. apply Hag. cbn. lia.
Qed.

Lemma seplist_local {A} (elem elem' : list tok -> presult A) endt n ts : shrinks elem ->
  (forall ts', length ts' <= length ts -> elem ts' = elem' ts') ->
  seplist elem endt n ts = seplist elem' endt n ts.
Proof.
  intros He Hag. unfold seplist. rewrite <- (Hag ts) by lia.
  destruct (elem ts) as [[a1 r1]|] eqn:E1; [|reflexivity].
  apply He in E1. rewrite (seprest_local elem elem' endt He n r1); [reflexivity|].
  intros ts2 H2. apply Hag. lia.
Qed.

(* printing and reading back a list *)
Definition tails {A} (pr : A -> list tok) (xs : list A) : list tok := flat_map (fun x => TP Comma :: pr x) xs.

Lemma commas_cons2 (l1 l2 : list tok) ls : commas (l1 :: l2 :: ls) = l1 ++ TP Comma :: commas (l2 :: ls).
Proof. reflexivity. Qed.

Lemma commas_cons {A} (pr : A -> list tok) x xs : commas (map pr (x :: xs)) = pr x ++ tails pr xs.
Proof.
  revert x. induction xs as [|y ys IH]; intros x.
  - cbn. rewrite app_nil_r. reflexivity.
  - change (map pr (x :: y :: ys)) with (pr x :: pr y :: map pr ys). rewrite commas_cons2.
    change (pr y :: map pr ys) with (map pr (y :: ys)). rewrite IH. reflexivity.
Qed.

Definition starts_ok {A} (pr : A -> list tok) (endt : tok -> bool) (x : A) : Prop :=
  exists t l, pr x = t :: l /\ endt t = false.

Lemma seprest_rt {A B} (elem : list tok -> presult B) endt (pr : A -> list tok) (g : A -> B) (Fol : list tok -> Prop) :
  forall xs n e rest, length xs < n -> e <> TP Comma -> Fol (e :: rest) ->
  (forall l, Fol (TP Comma :: l)) ->
  (forall x, In x xs -> starts_ok pr endt x) ->
  (forall x tail, In x xs -> Fol tail -> elem (pr x ++ tail) = Some (g x, tail)) ->
  seprest elem endt n (tails pr xs ++ e :: rest) = Some (map g xs, e :: rest).
Proof.
  induction xs as [|x xs IH]; intros n e rest Hn He Hfe Hfc Hst Hel.
  - destruct n; [cbn in Hn; lia|]. cbn [tails flat_map app seprest map].
    destruct e as [k|p|y|y|z|s|o]; try reflexivity. destruct p; try reflexivity. congruence.
  - destruct n; [cbn in Hn; lia|]. cbn [tails flat_map app seprest map]. rewrite <- app_assoc.
    destruct (Hst x (or_introl eq_refl)) as (t & l & Ep & Ht). rewrite Ep. cbn [app hd_is]. rewrite Ht.
    change (t :: l ++ flat_map (fun x0 : A => TP Comma :: pr x0) xs ++ e :: rest) with ((t :: l) ++ tails pr xs ++ e :: rest).
    rewrite <- Ep. rewrite (Hel x (tails pr xs ++ e :: rest) (or_introl eq_refl)).
    + rewrite (IH n e rest); [reflexivity|cbn in Hn; lia|assumption|assumption|assumption| |].
      * intros y Hy. apply Hst. right. exact Hy.
      * intros y tail Hy. apply Hel. right. exact Hy.
    + destruct xs as [|y ys]; cbn [tails flat_map app]; [exact Hfe|apply Hfc].
Qed.

Lemma seplist_rt {A B} (elem : list tok -> presult B) endt (pr : A -> list tok) (g : A -> B) (Fol : list tok -> Prop) :
  forall x xs n e rest, length xs < n -> e <> TP Comma -> Fol (e :: rest) ->
  (forall l, Fol (TP Comma :: l)) ->
  (forall y, In y xs -> starts_ok pr endt y) ->
  (forall y tail, In y (x :: xs) -> Fol tail -> elem (pr y ++ tail) = Some (g y, tail)) ->
  seplist elem endt n (commas (map pr (x :: xs)) ++ e :: rest) = Some (map g (x :: xs), e :: rest).
Proof.
  intros x xs n e rest Hn He Hfe Hfc Hst Hel. unfold seplist. rewrite commas_cons, <- app_assoc.
  rewrite (Hel x _ (or_introl eq_refl)).
  - rewrite (seprest_rt elem endt pr g Fol xs n e rest); auto. intros y tail Hy. apply Hel. right. exact Hy.
  - destruct xs as [|y ys]; cbn [tails flat_map app]; [exact Hfe|apply Hfc].
Qed.

Lemma tails_length {A} (pr : A -> list tok) xs : length xs <= length (tails pr xs).
Proof. induction xs as [|x xs IH]; cbn [tails flat_map length]; [lia|]. rewrite app_length. fold (tails pr xs). cbn. lia. Qed.

(* ------------------------------------------------------------------ one-mode parsers by open recursion *)
Section Layer.
Context {A : Type}.
Variable step : (list tok -> presult A) -> list tok -> presult A.
Hypothesis step_shrinks : forall rec, shrinks rec -> shrinks (step rec).
Hypothesis step_local : forall rec rec' ts, shrinks rec ->
  (forall ts', length ts' < length ts -> rec ts' = rec' ts') -> step rec ts = step rec' ts.

Lemma lgo_shrinks f : shrinks (lgo step f).
Proof. induction f as [|f IH]; [intros ts a r H; discriminate|]. cbn [lgo]. apply step_shrinks. exact IH. Qed.

Lemma lgo_stable : forall n ts, length ts <= n -> forall f1 f2, n < f1 -> n < f2 -> lgo step f1 ts = lgo step f2 ts.
Proof.
  induction n as [|n IH]; intros ts Hl f1 f2 H1 H2;
    (destruct f1 as [|f1]; [lia|]); (destruct f2 as [|f2]; [lia|]); cbn [lgo];
    apply step_local; try apply lgo_shrinks; intros ts' Hlt.
  - lia.
  - apply (IH ts'); lia.
Qed.

Lemma lparse_fuel f ts : length ts < f -> lgo step f ts = lparse step ts.
Proof. intros H. unfold lparse. apply (lgo_stable (length ts)); lia. Qed.

Lemma lparse_shrinks : shrinks (lparse step).
Proof. intros ts a r H. unfold lparse in H. eapply lgo_shrinks. exact H. Qed.

Lemma lparse_eq ts : lparse step ts = step (lparse step) ts.
Proof.
  unfold lparse at 1. cbn [lgo]. apply step_local; [apply lgo_shrinks|].
  intros ts' Hlt. apply lparse_fuel. exact Hlt.
Qed.
End Layer.
