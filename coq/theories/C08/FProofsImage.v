(* C08 — full model, proofs part 6: what the parser produces lies in the domain of the round-trip
   theorems (canonical annotations, wf_pat, fwf, module_ok).  Hence the round trip can be stated for
   every token list that parses. *)
From Coq Require Import List Arith Bool Lia ZArith NArith.
Import ListNotations.
From SV Require Import C08.Syntax C08.Model C08.ProofsMono C08.Lit C08.FSyntax C08.FModelTypes C08.FModelExpr C08.FModelDecl
  C08.FProofsGen C08.FProofsTypes C08.FProofsExprFuel C08.FProofsExpr C08.FProofsImpl C08.FProofsDecl.

(* ------------------------------------------------------------------ lists *)
Lemma seprest_all {A} (elem : list tok -> presult A) endt (Q : A -> bool) :
  (forall ts a r, elem ts = Some (a, r) -> Q a = true) ->
  forall n ts l r, seprest elem endt n ts = Some (l, r) -> forallb Q l = true.
Proof.
  intros He. induction n as [|n IH]; intros ts l r H; [discriminate|]. cbn [seprest] in H.
  dm H; inversion H; subst; try reflexivity. cbn [forallb]. rewrite (He _ _ _ E0), (IH _ _ _ E1). reflexivity.
Qed.

Lemma seplist_all {A} (elem : list tok -> presult A) endt (Q : A -> bool) n ts l r :
  (forall ts a r, elem ts = Some (a, r) -> Q a = true) ->
  seplist elem endt n ts = Some (l, r) -> forallb Q l = true /\ l <> [].
Proof.
  intros He H. unfold seplist in H. dm H. inversion H; subst. cbn [forallb].
  rewrite (He _ _ _ E), (seprest_all elem endt Q He _ _ _ _ E0). split; [reflexivity|discriminate].
Qed.

(* ------------------------------------------------------------------ annotations are canonical *)
Lemma canon_map_ok tps l : forallb (annot_ok tps) l = true -> map (canon tps) l = l.
Proof. apply annots_ok_map. Qed.

Lemma annot_eqb_refl : forall n a, annot_size a <= n -> annot_eqb a a = true.
Proof.
  induction n as [|n IH]; intros a Hsz; [destruct a; cbn in Hsz; lia|].
  assert (Hl : forall l, list_sum (map annot_size l) <= n -> list_eqb annot_eqb l l = true).
  { induction l as [|x l IHl]; intros Hs; [reflexivity|].
    change (list_sum (map annot_size (x :: l))) with (annot_size x + list_sum (map annot_size l)) in Hs. cbn [list_eqb].
    rewrite (IH x) by lia. apply IHl. lia. }
  destruct a as [k|x tas|x|ps r]; cbn [annot_eqb annot_size] in *.
  - destruct k; reflexivity.
  - rewrite Nat.eqb_refl. apply Hl. lia.
  - apply Nat.eqb_refl.
  - rewrite Hl by lia. apply IH. lia.
Qed.

Lemma annot_ok_of_eq tps a : canon tps a = a -> annot_ok tps a = true.
Proof. intros H. unfold annot_ok. rewrite H. apply (annot_eqb_refl (annot_size a)). apply le_n. Qed.

Lemma annot_step_ok tps (rec : arec) : (forall ts a r, rec ts = Some (a, r) -> annot_ok tps a = true) ->
  forall ts a r, annot_step tps rec ts = Some (a, r) -> annot_ok tps a = true.
Proof.
  intros Hrec ts a r H. unfold annot_step, targs_opt in H. dm H; inversion H; subst; clear H; apply annot_ok_of_eq;
    try reflexivity; cbn [canon];
    repeat match goal with
    | E : seplist rec _ _ _ = Some (?l, _) |- _ =>
        let F := fresh "F" in pose proof (proj1 (seplist_all rec _ (annot_ok tps) _ _ _ _ Hrec E)) as F; clear E
    | E : rec _ = Some (?x, _) |- _ =>
        let F := fresh "F" in pose proof (Hrec _ _ _ E) as F; clear E
    end.
  all: repeat match goal with E : memb _ _ = _ |- _ => rewrite E; clear E end; try reflexivity.
  all: repeat match goal with
       | F : forallb (annot_ok ?t) ?l = true |- context [map (canon ?t) ?l] => rewrite (canon_map_ok t l F)
       | F : annot_ok ?t ?a = true |- context [canon ?t ?a] => rewrite (annot_ok_eq t a F)
       end; reflexivity.
Qed.

Lemma annot_go_ok tps : forall f ts a r, annot_go tps f ts = Some (a, r) -> annot_ok tps a = true.
Proof.
  induction f as [|f IH]; intros ts a r H; [discriminate|]. cbn [annot_go lgo] in H.
  eapply annot_step_ok; [|exact H]. exact IH.
Qed.

Theorem parse_annot_ok tps ts a r : parse_annot tps ts = Some (a, r) -> annot_ok tps a = true.
Proof. intros H. exact (annot_go_ok tps (S (length ts)) ts a r H). Qed.

Lemma targs_opt_ok tps ts l r : targs_opt (parse_annot tps) ts = Some (l, r) -> forallb (annot_ok tps) l = true.
Proof.
  intros H. unfold targs_opt in H. dm H; inversion H; subst; try reflexivity.
  exact (proj1 (seplist_all _ _ (annot_ok tps) _ _ _ _ (parse_annot_ok tps) E)).
Qed.

(* ------------------------------------------------------------------ patterns are well formed *)
Section PatImage.
Variable rec : prec.
Hypothesis Hrec : forall ts p r, rec ts = Some (p, r) -> wf_pat p = true.

Lemma nonnil_negb {A} (l : list A) : l <> [] -> negb (match l with [] => true | _ => false end) = true.
Proof. destruct l; [congruence|reflexivity]. Qed.

Lemma tuple_pat_ok ts ps r : tuple_pat rec ts = Some (ps, r) -> forallb wf_pat ps = true /\ ps <> [].
Proof.
  intros H. unfold tuple_pat in H. dm H. inversion H; subst. exact (seplist_all rec _ wf_pat _ _ _ _ Hrec E).
Qed.

Lemma obj_elem_ok ts fp r : obj_elem rec ts = Some (fp, r) -> match snd fp with Some p => wf_pat p | None => true end = true.
Proof. intros H. unfold obj_elem in H. dm H; inversion H; subst; cbn [snd]; [eapply Hrec; eassumption|reflexivity]. Qed.

Lemma single_pat_ok ts p r : single_pat rec ts = Some (p, r) -> wf_pat p = true /\ is_por p = false.
Proof.
  intros H. unfold single_pat in H. dm H; inversion H; subst; clear H; (split; [|reflexivity]); cbn [wf_pat]; try reflexivity.
  - destruct (tuple_pat_ok _ _ _ E) as [H1 H2]. rewrite H1, (nonnil_negb _ H2). reflexivity.
  - destruct (seplist_all (obj_elem rec) _ (fun fp => match snd fp with Some p => wf_pat p | None => true end) _ _ _ _ obj_elem_ok E) as [H1 H2].
    rewrite H1, (nonnil_negb _ H2). reflexivity.
  - destruct (tuple_pat_ok _ _ _ E0) as [H1 H2]. rewrite H1, (nonnil_negb _ H2). reflexivity.
Qed.

Lemma bars_ok : forall n ts l r, bars rec n ts = Some (l, r) ->
  forallb (fun q => negb (is_por q) && wf_pat q) l = true /\ (hd_is (is_p Bar) ts = true -> l <> []).
Proof.
  induction n as [|n IH]; intros ts l r H; [discriminate|]. cbn [bars] in H.
  dm H; inversion H; subst; clear H; try (split; [reflexivity|cbn; discriminate]).
  destruct (single_pat_ok _ _ _ E) as [H1 H2]. destruct (IH _ _ _ E0) as [H3 _].
  cbn [forallb]. rewrite H1, H2, H3. split; [reflexivity|discriminate].
Qed.

Lemma pat_step_ok ts p r : pat_step rec ts = Some (p, r) -> wf_pat p = true.
Proof.
  intros H. unfold pat_step in H. dm H; inversion H; subst; clear H.
  - destruct (single_pat_ok _ _ _ E) as [H1 H2]. destruct (bars_ok _ _ _ _ E1) as [H3 H4]. specialize (H4 E0).
    cbn [wf_pat forallb]. rewrite H1, H2, H3. destruct l0; [congruence|reflexivity].
  - exact (proj1 (single_pat_ok _ _ _ E)).
Qed.
End PatImage.

Lemma pat_go_ok : forall f ts p r, pat_go f ts = Some (p, r) -> wf_pat p = true.
Proof.
  induction f as [|f IH]; intros ts p r H; [discriminate|]. cbn [pat_go lgo] in H.
  eapply pat_step_ok; [|exact H]. exact IH.
Qed.

Theorem parse_pat_ok ts p r : parse_pat ts = Some (p, r) -> wf_pat p = true.
Proof. intros H. exact (pat_go_ok (S (length ts)) ts p r H). Qed.

(* ------------------------------------------------------------------ expressions are well formed *)
Section ExprImage.
Variable tps : list nat.
Local Notation W := (fwf tps).

Lemma fwf_tuple es : forallb W es = true -> 2 <= length es ->
  length es <= MAX_STRUCT_SIZE -> fwf tps (XTuple es) = true.
Proof.
  intros Ha Hl Hm. unfold fwf. cbn [fall fwf_node]. apply andb_true_iff. split; [|exact Ha].
  apply andb_true_iff. split; [apply Nat.leb_le; exact Hl|apply Nat.leb_le; exact Hm].
Qed.
Lemma fwf_field a up f tas : fwf tps a = true -> forallb (annot_ok tps) tas = true -> fwf tps (XField a up f tas) = true.
Proof. intros Ha Ht. unfold fwf in *. cbn [fall fwf_node]. rewrite Ha, Ht. reflexivity. Qed.
Lemma fwf_call a args : fwf tps a = true -> forallb W args = true -> fwf tps (XCall a args) = true.
Proof. intros Ha Hl. unfold fwf in *. cbn [fall fwf_node]. rewrite Ha. exact Hl. Qed.
Lemma fwf_un u a : fwf tps a = true -> fwf tps (XUn u a) = true.
Proof. intros Ha. unfold fwf in *. cbn [fall fwf_node]. rewrite Ha. reflexivity. Qed.
Lemma fwf_bin o a b : fwf tps a = true -> fwf tps b = true -> fwf tps (XBin o a b) = true.
Proof. intros Ha Hb. unfold fwf in *. cbn [fall fwf_node]. rewrite Ha, Hb. reflexivity. Qed.
Lemma fwf_if g c b1 e2 : match g with Some p => wf_pat p | None => true end = true -> fwf tps c = true ->
  fwf tps b1 = true -> fwf tps e2 = true -> is_block b1 = true -> is_block e2 || is_if e2 = true -> fwf tps (XIf g c b1 e2) = true.
Proof. intros Hg Hc H1 H2 Hb He. unfold fwf in *. cbn [fall fwf_node]. rewrite Hg, Hc, H1, H2, Hb, He. reflexivity. Qed.
Lemma fwf_match s arms : fwf tps s = true -> arms <> [] -> forallb (fun pb => wf_pat (fst pb)) arms = true ->
  forallb (fun pb : pat * fexpr => fwf tps (snd pb)) arms = true -> fwf tps (XMatch s arms) = true.
Proof.
  intros Hs Hn Hp Hb. unfold fwf in *. cbn [fall fwf_node]. rewrite Hs, Hp, Hb, (nonnil_negb _ Hn). reflexivity.
Qed.
Lemma fwf_lam ps b : forallb (fun p => oannot_ok tps (snd p)) ps = true -> fwf tps b = true -> fwf tps (XLam ps b) = true.
Proof. intros Hp Hb. unfold fwf in *. cbn [fall fwf_node]. rewrite Hp, Hb. reflexivity. Qed.
Definition stmt_okb (s : stmt) : bool :=
  match fst s with Some (p, a) => wf_pat p && oannot_ok tps a | None => true end && fwf tps (snd s).
Lemma fwf_block ss r : forallb stmt_okb ss = true -> match r with Some x => fwf tps x | None => true end = true ->
  fwf tps (XBlock ss r) = true.
Proof.
  intros Hs Hr. unfold fwf in *. cbn [fall fwf_node]. rewrite Hr, andb_true_r.
  assert (H1 : forallb (fun s : option (pat * option annot) * fexpr => match fst s with Some (p, a) => wf_pat p && oannot_ok tps a | None => true end) ss = true
               /\ forallb (fun s : option (pat * option annot) * fexpr => fall (fwf_node tps) (snd s)) ss = true).
  { clear Hr. induction ss as [|s ss IH]; [split; reflexivity|]. cbn [forallb] in *. unfold stmt_okb at 1 in Hs. unfold fwf in Hs.
    rewrite !andb_true_iff in Hs. destruct Hs as [[Ha Hb] Hc]. destruct (IH Hc) as [I1 I2]. rewrite Ha, Hb, I1, I2. split; reflexivity. }
  destruct H1 as [H1 H2]. rewrite H1, H2. reflexivity.
Qed.

Lemma opt_annot_ok ts oa r : opt_annot tps ts = Some (oa, r) -> oannot_ok tps oa = true.
Proof. intros H. unfold opt_annot in H. dm H; inversion H; subst; [exact (parse_annot_ok _ _ _ _ E1)|reflexivity]. Qed.
Lemma opt_annot_id_ok ts p r : opt_annot_id tps ts = Some (p, r) -> oannot_ok tps (snd p) = true.
Proof. intros H. unfold opt_annot_id in H. dm H; inversion H; subst. exact (opt_annot_ok _ _ _ E). Qed.

Section PE.
Variable pe : pexpr.
Hypothesis Hpe : forall ts a r, pe ts = Some (a, r) -> fwf tps a = true.

Lemma paren_list_ok lim ts l r : paren_list pe lim ts = Some (l, r) ->
  forallb W l = true /\ (lim = Some MAX_STRUCT_SIZE -> length l <= MAX_STRUCT_SIZE).
Proof.
  intros H. unfold paren_list in H. dm H; inversion H; subst; clear H; try (split; [reflexivity|cbn; intros; lia]).
  - split; [exact (proj1 (seplist_all pe _ W _ _ _ _ Hpe E0))|]. intros Hl. inversion Hl; subst. apply Nat.ltb_ge. exact E1.
  - split; [exact (proj1 (seplist_all pe _ W _ _ _ _ Hpe E0))|]. discriminate.
Qed.

Lemma collect_ok es ts e r : forallb W es = true -> es <> [] -> collect pe es ts = Some (e, r) -> fwf tps e = true.
Proof.
  intros Hes Hne H. unfold collect in H.
  destruct (seprest pe (is_p RParen) (S (length ts)) ts) as [[more r0]|] eqn:E; [|discriminate].
  pose proof (seprest_all pe _ W Hpe _ _ _ _ E) as Hmore.
  destruct (MAX_STRUCT_SIZE <? length (es ++ more)) eqn:El; [discriminate|]. apply Nat.ltb_ge in El.
  destruct (expect RParen r0) as [r1|]; [|discriminate].
  assert (Hall : forallb W (es ++ more) = true) by (rewrite forallb_app, Hes, Hmore; reflexivity).
  destruct (es ++ more) as [|x [|y l]] eqn:Ea.
  - destruct es; [congruence|discriminate].
  - discriminate.
  - inversion H; subst. apply fwf_tuple; [exact Hall|cbn [length]; lia|exact El].
Qed.

Lemma let_stmt_ok ts s r : let_stmt tps pe ts = Some (s, r) -> stmt_okb s = true.
Proof.
  intros H. unfold let_stmt in H. dm H. inversion H; subst. unfold stmt_okb. cbn [fst snd].
  rewrite (parse_pat_ok _ _ _ E0), (opt_annot_ok _ _ _ E1), (Hpe _ _ _ E3). reflexivity.
Qed.

Lemma block_loop_ok : forall n ts b r, block_loop tps pe n ts = Some (b, r) ->
  forallb stmt_okb (fst b) = true /\ match snd b with Some x => fwf tps x | None => true end = true.
Proof.
  induction n as [|n IH]; intros ts b r H; [discriminate|]. cbn [block_loop] in H.
  dm H; inversion H; subst; clear H; cbn [fst snd forallb];
    repeat match goal with
    | E : block_loop tps pe n _ = Some _ |- _ => destruct (IH _ _ _ E) as [? ?]; clear E
    | E : let_stmt tps pe _ = Some _ |- _ => pose proof (let_stmt_ok _ _ _ E); clear E
    | E : pe _ = Some _ |- _ => pose proof (Hpe _ _ _ E); clear E
    end;
    try (split; [reflexivity|reflexivity]); try (split; [reflexivity|assumption]); try (split; assumption).
  all: try (split; [|assumption]); try (apply andb_true_iff; split; [|assumption]); try assumption.
  all: unfold stmt_okb; cbn [fst snd]; assumption.
Qed.

Lemma block_ok ts e r : block tps pe ts = Some (e, r) -> fwf tps e = true /\ is_block e = true.
Proof.
  intros H. unfold block in H. dm H. inversion H; subst. destruct (block_loop_ok _ _ _ _ E0) as [H1 H2].
  split; [apply fwf_block; assumption|reflexivity].
Qed.

Lemma ifelse_ok : forall n ts e r, ifelse tps pe n ts = Some (e, r) -> fwf tps e = true /\ is_if e = true.
Proof.
  induction n as [|n IH]; intros ts e r H; [discriminate|]. cbn [ifelse] in H.
  dm H; inversion H; subst; clear H; (split; [|reflexivity]); cbn [fst snd];
    repeat match goal with
    | E : ifelse tps pe n _ = Some _ |- _ => destruct (IH _ _ _ E) as [? ?]; clear E
    | E : block tps pe _ = Some _ |- _ => destruct (block_ok _ _ _ E) as [? ?]; clear E
    | E : parse_pat _ = Some _ |- _ => pose proof (parse_pat_ok _ _ _ E); clear E
    | E : pe _ = Some _ |- _ => pose proof (Hpe _ _ _ E); clear E
    end;
    apply fwf_if; try assumption; try reflexivity;
    repeat match goal with Hb : ?x = true |- context [?x] => rewrite Hb end; try reflexivity; try apply orb_true_r.
Qed.

Lemma arms_loop_ok : forall n ts l r, arms_loop pe n ts = Some (l, r) ->
  l <> [] /\ forallb (fun pb => wf_pat (fst pb)) l = true /\ forallb (fun pb : pat * fexpr => fwf tps (snd pb)) l = true.
Proof.
  induction n as [|n IH]; intros ts l r H; [discriminate|]. cbn [arms_loop] in H.
  dm H; inversion H; subst; clear H; cbn [forallb fst snd];
    repeat match goal with
    | E : arms_loop pe n _ = Some _ |- _ => destruct (IH _ _ _ E) as (? & ? & ?); clear E
    | E : parse_pat _ = Some _ |- _ => pose proof (parse_pat_ok _ _ _ E); clear E
    | E : pe _ = Some _ |- _ => pose proof (Hpe _ _ _ E); clear E
    end;
    (split; [discriminate|]);
    repeat match goal with Hb : ?x = true |- context [?x] => rewrite Hb end; split; reflexivity.
Qed.

Lemma xid_list_ok ids : forallb W (map XId ids) = true /\ forallb is_xid (map XId ids) = true.
Proof. induction ids as [|i ids [H1 H2]]; [split; reflexivity|]. cbn [map forallb is_xid]. rewrite H1, H2. split; reflexivity. Qed.

Lemma unannot_ok ids : forallb (fun p : nat * option annot => oannot_ok tps (snd p)) (map (fun i => (i, None)) ids) = true.
Proof. induction ids as [|i ids IH]; [reflexivity|]. cbn [map forallb snd oannot_ok]. exact IH. Qed.

Lemma cover_end_ok ids ts e r : ids <> [] -> cover_end pe ids ts = Some (e, r) -> fwf tps e = true.
Proof.
  intros Hne H. unfold cover_end in H.
  destruct (expect RParen ts) as [r0|]; [|discriminate].
  destruct (hd_is (is_p Arrow) r0).
  - destruct (expect Arrow r0) as [r1|]; [|discriminate]. destruct (pe r1) as [[b r2]|] eqn:E; [|discriminate].
    inversion H; subst. apply fwf_lam; [apply unannot_ok|exact (Hpe _ _ _ E)].
  - destruct (MAX_STRUCT_SIZE <? length ids) eqn:El; [discriminate|]. apply Nat.ltb_ge in El.
    destruct ids as [|i [|i2 ids']]; [congruence|discriminate|]. inversion H; subst.
    destruct (xid_list_ok (i :: i2 :: ids')) as [H1 H2]. apply fwf_tuple; [exact H1|cbn [map length]; lia|cbn [map length] in *; rewrite ?map_length; lia].
Qed.

Lemma lambda_rest_ok before ts e r : forallb (fun p : nat * option annot => oannot_ok tps (snd p)) before = true ->
  lambda_rest tps pe before ts = Some (e, r) -> fwf tps e = true.
Proof.
  intros Hb H. unfold lambda_rest in H. dm H. inversion H; subst. apply fwf_lam; [|exact (Hpe _ _ _ E2)].
  rewrite forallb_app, Hb. exact (seprest_all _ _ (fun p : nat * option annot => oannot_ok tps (snd p)) opt_annot_id_ok _ _ _ _ E).
Qed.
End PE.

Definition mode_ok (m : mode) : Prop :=
  match m with
  | MLevel _ => True
  | MLoop _ e | MPost e | MChain _ e | MFromBase e => fwf tps e = true
  end.

Section REC.
Variable rec : erec.
Hypothesis Hrec : forall m ts e r, rec m ts = Some (e, r) -> mode_ok m -> fwf tps e = true.

Lemma Hpe0 : forall ts a r, rec (MLevel 0) ts = Some (a, r) -> fwf tps a = true.
Proof. intros ts a r H. exact (Hrec _ _ _ _ H I). Qed.

Lemma cover_ok : forall n ids ts e r, ids <> [] -> cover tps rec n ids ts = Some (e, r) -> fwf tps e = true.
Proof.
  induction n as [|n IH]; intros ids ts e r Hne H; [discriminate|]. cbn [cover] in H.
  assert (Hn1 : forall y, ids ++ [y] <> []) by (intros y; destruct ids; discriminate).
  assert (Hcol : forall x tl, fwf tps x = true -> collect (rec (MLevel 0)) (map XId ids ++ [x]) tl = Some (e, r) -> fwf tps e = true).
  { intros x tl Hx Hc. apply (collect_ok _ Hpe0 _ _ _ _) in Hc; [exact Hc| |destruct ids; discriminate].
    rewrite forallb_app, (proj1 (xid_list_ok ids)). cbn [forallb]. rewrite Hx. reflexivity. }
  dm H; first
    [ eapply IH; [apply Hn1|eassumption]
    | eapply (cover_end_ok _ Hpe0); [|eassumption]; first [apply Hn1|exact Hne]
    | eapply (lambda_rest_ok _ Hpe0); [|eassumption]; rewrite forallb_app, unannot_ok; cbn [forallb snd];
      match goal with E : opt_annot _ _ = Some _ |- _ => rewrite (opt_annot_ok _ _ _ E) end; reflexivity
    | eapply Hcol; [|eassumption]; match goal with E : rec (MFromBase _) _ = Some _ |- _ => exact (Hrec _ _ _ _ E eq_refl) end
    | eapply Hcol; [|eassumption]; match goal with E : rec (MLevel 0) _ = Some _ |- _ => exact (Hpe0 _ _ _ E) end ].
Qed.

Lemma paren_default_ok ts e r : hd_is (is_p RParen) ts = false ->
  match paren_list (rec (MLevel 0)) (Some MAX_STRUCT_SIZE) ts with
  | Some (es, r1) => match es with [e1] => Some (e1, r1) | _ => Some (XTuple es, r1) end
  | None => None
  end = Some (e, r) -> fwf tps e = true.
Proof.
  intros Erp H.
  destruct (paren_list (rec (MLevel 0)) (Some MAX_STRUCT_SIZE) ts) as [[es r1]|] eqn:E; [|discriminate].
  destruct (paren_list_ok _ Hpe0 _ _ _ _ E) as [Hall Hlen]. specialize (Hlen eq_refl).
  assert (Hnn : es <> []).
  { unfold paren_list in E. rewrite Erp in E.
    destruct (seplist (rec (MLevel 0)) (is_p RParen) (S (length ts)) ts) as [[l0 r0]|] eqn:E0; [|discriminate].
    pose proof (proj2 (seplist_all _ _ W _ _ _ _ Hpe0 E0)) as Hn0.
    destruct (MAX_STRUCT_SIZE <? length l0); [discriminate|]. destruct (expect RParen r0); [|discriminate]. inversion E; subst. exact Hn0. }
  destruct es as [|e1 [|e2 es']]; [congruence| |]; inversion H; subst.
  - cbn [forallb] in Hall. apply andb_prop in Hall. exact (proj1 Hall).
  - apply fwf_tuple; [exact Hall|cbn [length]; lia|exact Hlen].
Qed.

Lemma paren_expr_ok ts e r : paren_expr tps rec ts = Some (e, r) -> fwf tps e = true.
Proof.
  intros H. unfold paren_expr in H.
  destruct (hd_is (is_p RParen) ts) eqn:Erp.
  { dm H. inversion H; subst. apply fwf_lam; [reflexivity|exact (Hpe0 _ _ _ E1)]. }
  destruct ts as [|t ts']; [exact (paren_default_ok _ _ _ Erp H)|].
  destruct t as [q|p|x|x|z|s|o]; try exact (paren_default_ok _ _ _ Erp H).
  (* `( id ..` *)
  dm H.
  - eapply (lambda_rest_ok _ Hpe0); [|exact H]. cbn [forallb snd]. rewrite (opt_annot_ok _ _ _ E0). reflexivity.
  - eapply cover_ok; [|exact H]. discriminate.
  - inversion H; subst. apply fwf_lam; [reflexivity|exact (Hpe0 _ _ _ E5)].
  - inversion H; subst. reflexivity.
  - eapply (collect_ok _ Hpe0); [| |exact H]; [cbn [forallb]; rewrite (Hrec _ _ _ _ E2 eq_refl); reflexivity|discriminate].
  - inversion H; subst. exact (Hrec _ _ _ _ E2 eq_refl).
Qed.

Lemma base_expr_ok ts e r : base_expr tps rec ts = Some (e, r) -> fwf tps e = true.
Proof.
  intros H. unfold base_expr in H. dm H; try (inversion H; subst; clear H; unfold fwf; cbn [fall fwf_node lit_ok]; rewrite ?andb_true_r; try reflexivity; assumption).
  - exact (paren_expr_ok _ _ _ H).
  - exact (proj1 (block_ok _ Hpe0 _ _ _ H)).
Qed.

Lemma post_step_ok e0 ts e r : fwf tps e0 = true -> post_step tps rec e0 ts = Some (e, r) -> fwf tps e = true.
Proof.
  intros H0 H. unfold post_step in H.
  dm H; first
    [ inversion H; subst; exact H0
    | apply (Hrec _ _ _ _ H); cbn [mode_ok]; apply fwf_field; [exact H0|];
      match goal with E : targs_opt _ _ = Some _ |- _ => exact (targs_opt_ok _ _ _ _ E) end
    | apply (Hrec _ _ _ _ H); cbn [mode_ok]; apply fwf_call; [exact H0|];
      match goal with E : paren_list _ _ _ = Some _ |- _ => exact (proj1 (paren_list_ok _ Hpe0 _ _ _ _ E)) end ].
Qed.

Lemma level0_ok ts e r : level0 tps rec ts = Some (e, r) -> fwf tps e = true.
Proof.
  intros H. unfold level0 in H.
  destruct ts as [|t ts']; [exact (Hrec _ _ _ _ H I)|]. destruct t as [q|p|x|x|z|s|o]; try exact (Hrec _ _ _ _ H I).
  destruct q; try exact (Hrec _ _ _ _ H I).
  - exact (proj1 (ifelse_ok _ Hpe0 _ _ _ _ H)).
  - dm H. inversion H; subst. destruct (arms_loop_ok _ Hpe0 _ _ _ _ E1) as (H1 & H2 & H3).
    apply fwf_match; [exact (Hpe0 _ _ _ E)|exact H1|exact H2|exact H3].
Qed.

Lemma estep_ok m ts e r : estep tps rec m ts = Some (e, r) -> mode_ok m -> fwf tps e = true.
Proof.
  intros H Hm. destruct m as [k|k e0|e0|k e0|e0]; cbn [estep mode_ok] in *.
  - destruct (k =? 0); [exact (level0_ok _ _ _ H)|]. destruct (k <=? 6).
    { dm H. apply (Hrec _ _ _ _ H). cbn [mode_ok]. exact (Hrec _ _ _ _ E I). }
    destruct (k =? 7).
    { dm H; try exact (Hrec _ _ _ _ H I); inversion H; subst; apply fwf_un; exact (Hrec _ _ _ _ E I). }
    destruct (k =? 8).
    { dm H. apply (Hrec _ _ _ _ H). cbn [mode_ok]. exact (Hrec _ _ _ _ E I). }
    exact (base_expr_ok _ _ _ H).
  - dm H; try (inversion H; subst; exact Hm). apply (Hrec _ _ _ _ H). cbn [mode_ok]. apply fwf_bin; [exact Hm|exact (Hrec _ _ _ _ E0 I)].
  - exact (post_step_ok _ _ _ _ Hm H).
  - dm H.
    + inversion H; subst. exact (Hrec _ _ _ _ E0 Hm).
    + apply (Hrec _ _ _ _ H). cbn [mode_ok]. exact (Hrec _ _ _ _ E0 Hm).
  - dm H. apply (Hrec _ _ _ _ H). cbn [mode_ok]. exact (Hrec _ _ _ _ E Hm).
Qed.
End REC.

Lemma ego_ok : forall f m ts e r, ego tps f m ts = Some (e, r) -> mode_ok m -> fwf tps e = true.
Proof.
  induction f as [|f IH]; intros m ts e r H Hm; [discriminate|]. cbn [ego] in H. exact (estep_ok _ IH _ _ _ _ H Hm).
Qed.

Theorem parse_expression_ok ts e r : parse_expression tps ts = Some (e, r) -> fwf tps e = true.
Proof. intros H. exact (ego_ok _ _ _ _ _ H I). Qed.

Theorem parse_fexpr_ok ts e : parse_fexpr tps ts = Some e -> fwf tps e = true.
Proof.
  unfold parse_fexpr. destruct (parse_expression tps ts) as [[e0 [|t r]]|] eqn:E; try discriminate.
  intros H. inversion H; subst. exact (parse_expression_ok _ _ _ E).
Qed.
End ExprImage.

(* ------------------------------------------------------------------ modules are well formed *)
Lemma annot_eqb_rfl a : annot_eqb a a = true.
Proof. apply (annot_eqb_refl (annot_size a)). apply le_n. Qed.
Lemma list_eqb_rfl {A} (eq : A -> A -> bool) l : (forall x, eq x x = true) -> list_eqb eq l l = true.
Proof. intros H. induction l as [|x l IH]; [reflexivity|]. cbn [list_eqb]. rewrite H, IH. reflexivity. Qed.
Lemma tparam_eqb_rfl t : tparam_eqb t t = true.
Proof.
  destruct t as [n [[b tas]|]]; unfold tparam_eqb, pair_eqb; cbn [fst snd opt_eqb]; rewrite Nat.eqb_refl; [|reflexivity].
  unfold pair_eqb. cbn [fst snd]. rewrite Nat.eqb_refl. cbn. apply list_eqb_rfl. exact annot_eqb_rfl.
Qed.

Lemma memb_app n l1 l2 : memb n (l1 ++ l2) = memb n l1 || memb n l2.
Proof. unfold memb. apply existsb_app. Qed.

Lemma map_fixed_elem {A} (f : A -> A) : forall l, map f l = l -> forall y, In y l -> f y = y.
Proof.
  induction l as [|z l IHl]; intros Hm y Hy; [destruct Hy|]. cbn [map] in Hm. inversion Hm as [[H0 H1]].
  destruct Hy as [->|Hy]; [exact H0|]. apply IHl; assumption.
Qed.

Lemma fix_canon_fix avail extra : forall k a, annot_size a <= k -> annot_ok avail a = true ->
  fix_annot (avail ++ extra) (canon avail (fix_annot (avail ++ extra) a)) = fix_annot (avail ++ extra) a.
Proof.
  induction k as [|k IH]; intros a Hsz Hok; [destruct a; cbn in Hsz; lia|].
  pose proof (annot_ok_eq avail a Hok) as Hc.
  destruct a as [p|n tas|n|ps r]; cbn [annot_size] in Hsz.
  - reflexivity.
  - destruct tas as [|t tas].
    + cbn [canon] in Hc. destruct (memb n avail) eqn:Em; [discriminate|].
      cbn [fix_annot]. rewrite memb_app, Em. cbn [orb]. destruct (memb n extra) eqn:Ex.
      * cbn [canon]. rewrite Em. cbn [fix_annot]. rewrite memb_app, Em, Ex. reflexivity.
      * cbn [canon]. rewrite Em. cbn [fix_annot]. rewrite memb_app, Em, Ex. reflexivity.
    + cbn [fix_annot]. rewrite Hc. reflexivity.
  - cbn [canon] in Hc. destruct (memb n avail) eqn:Em; [|discriminate]. cbn [fix_annot canon]. rewrite Em. reflexivity.
  - cbn [canon] in Hc. inversion Hc as [[Hps Hr]]. cbn [fix_annot canon]. rewrite !map_map. f_equal.
    + apply map_ext_in. intros x Hx. apply IH.
      * pose proof (in_size_le annot_size x ps Hx) as Hle. rewrite ?(map_fixed_elem (canon avail) ps Hps x Hx).
        generalize dependent (list_sum (map annot_size ps)). intros. lia.
      * rewrite ?(map_fixed_elem (canon avail) ps Hps x Hx). apply annot_ok_of_eq. exact (map_fixed_elem (canon avail) ps Hps x Hx).
    + rewrite ?Hr. apply IH; [generalize dependent (list_sum (map annot_size ps)); intros; lia|]. apply annot_ok_of_eq. exact Hr.
Qed.

Section DeclImage.
Lemma tparam_elem_ok avail ts tp r : tparam_elem avail ts = Some (tp, r) ->
  match snd tp with Some (b, tas) => forallb (annot_ok avail) tas | None => true end = true.
Proof.
  intros H. unfold tparam_elem, upper_id in H. dm H; inversion H; subst; cbn [snd]; try reflexivity.
  all: match goal with E : targs_opt _ _ = Some _ |- _ => exact (targs_opt_ok _ _ _ _ E) end.
Qed.

Lemma tparams_opt_ok avail ts tps avail' r : tparams_opt avail ts = Some ((tps, avail'), r) ->
  tparams_ok avail tps = true /\ avail' = avail ++ map fst tps.
Proof.
  intros H. unfold tparams_opt in H. dm H; inversion H; subst; clear H.
  2: { split; [reflexivity|rewrite app_nil_r; reflexivity]. }
  pose proof (proj1 (seplist_all _ _ (fun tp : tparam => match snd tp with Some (b, tas) => forallb (annot_ok avail) tas | None => true end)
                       _ _ _ _ (tparam_elem_ok avail) E1)) as Hall.
  assert (Hfst : map fst (map (fix_tparam (avail ++ map fst l0)) l0) = map fst l0).
  { rewrite map_map. apply map_ext. intros [n b]. reflexivity. }
  split; [|rewrite Hfst; reflexivity].
  unfold tparams_ok. rewrite Hfst.
  assert (Hm : map (canon_tparam avail (avail ++ map fst l0)) (map (fix_tparam (avail ++ map fst l0)) l0) = map (fix_tparam (avail ++ map fst l0)) l0).
  { rewrite map_map. apply map_ext_in. intros [n [[b tas]|]] Hin; unfold canon_tparam, fix_tparam; cbn [fst snd]; [|reflexivity].
    pose proof (forallb_In _ _ _ Hall Hin) as Ht. cbn [snd] in Ht. f_equal. f_equal. f_equal. rewrite map_map. apply map_ext_in.
    intros a Ha. apply (fix_canon_fix avail (map fst l0) (annot_size a)); [apply le_n|exact (forallb_In _ _ _ Ht Ha)]. }
  unfold tparam in *. rewrite Hm. apply list_eqb_rfl. exact tparam_eqb_rfl.
Qed.

Lemma super_elem_ok avail ts s r : super_elem avail ts = Some (s, r) -> annots_ok avail (snd s) = true.
Proof.
  intros H. unfold super_elem, upper_id in H. dm H; inversion H; subst. cbn [snd].
  match goal with E : targs_opt _ _ = Some _ |- _ => exact (targs_opt_ok _ _ _ _ E) end.
Qed.

Lemma supers_rest_ok avail : forall n ts l r, supers_rest avail n ts = Some (l, r) -> supers_ok avail l = true.
Proof.
  induction n as [|n IH]; intros ts l r H; [discriminate|]. cbn [supers_rest] in H. dm H; inversion H; subst; try reflexivity.
  unfold supers_ok. cbn [forallb].
  match goal with E : super_elem _ _ = Some _ |- _ => rewrite (super_elem_ok _ _ _ _ E) end.
  match goal with E : supers_rest _ _ _ = Some _ |- _ => exact (IH _ _ _ E) end.
Qed.

Lemma supers_opt_ok avail ts l r : supers_opt avail ts = Some (l, r) -> supers_ok avail l = true.
Proof.
  intros H. unfold supers_opt in H. dm H; inversion H; subst; try reflexivity.
  unfold supers_ok. cbn [forallb].
  match goal with E : super_elem _ _ = Some _ |- _ => rewrite (super_elem_ok _ _ _ _ E) end.
  match goal with E : supers_rest _ _ _ = Some _ |- _ => exact (supers_rest_ok _ _ _ _ _ E) end.
Qed.

Lemma annotated_id_ok avail ts p r : annotated_id avail ts = Some (p, r) -> annot_ok avail (snd p) = true.
Proof.
  intros H. unfold annotated_id, lower_id in H. dm H; inversion H; subst.
  match goal with E : parse_annot _ _ = Some _ |- _ => exact (parse_annot_ok _ _ _ _ E) end.
Qed.

Lemma member_sig_ok pub meth avail0 ts m av r : member_sig pub meth avail0 ts = Some ((m, av), r) ->
  m_public m = pub /\ m_method m = meth /\ av = avail0 ++ map fst (m_tparams m) /\ tparams_ok avail0 (m_tparams m) = true
  /\ forallb (fun p => annot_ok av (snd p)) (m_params m) = true /\ annot_ok av (m_ret m) = true.
Proof.
  intros H. unfold member_sig, lower_id in H.
  destruct (tparams_opt avail0 ts) as [[[tps av'] r2]|] eqn:Et; [|discriminate]. destruct (tparams_opt_ok _ _ _ _ _ Et) as [Ht1 Ht2].
  cbn [fst snd] in H. dm H; inversion H; subst; clear H; cbn [m_public m_method m_tparams m_params m_ret];
    repeat split; try reflexivity; try exact Ht1;
    try match goal with E : parse_annot _ _ = Some _ |- _ => exact (parse_annot_ok _ _ _ _ E) end.
  match goal with E : seplist (annotated_id _) _ _ _ = Some _ |- _ =>
    exact (proj1 (seplist_all _ _ (fun p : nat * annot => annot_ok (avail0 ++ map fst tps) (snd p)) _ _ _ _ (annotated_id_ok _) E)) end.
Qed.

Lemma member_decl_ok allow class_avail ts m av r : member_decl allow class_avail ts = Some ((m, av), r) ->
  member_ok class_avail m = true /\ av = member_avail class_avail m /\ (allow = false -> m_public m = true).
Proof.
  intros H. unfold member_decl in H.
  dm H; match goal with H : member_sig _ _ _ _ = Some _ |- _ => destruct (member_sig_ok _ _ _ _ _ _ _ H) as (H1 & H2 & H3 & H4 & H5 & H6) end;
    unfold member_ok, member_avail; rewrite H2; subst av; rewrite H4, H5, H6; repeat split; try reflexivity; try (intros; congruence).
  all: try (intros Ha; rewrite H1; match goal with E : (false, _) = _ |- _ => inversion E | E : (true, _) = _ |- _ => inversion E | _ => idtac end; congruence).
Qed.
End DeclImage.

Lemma member_def_ok class_avail ts mb r : member_def class_avail ts = Some (mb, r) ->
  member_ok class_avail (fst mb) = true /\ fwf (member_avail class_avail (fst mb)) (snd mb) = true.
Proof.
  intros H. unfold member_def in H.
  destruct (member_decl true class_avail ts) as [[[m av] r0]|] eqn:Ed; [|discriminate].
  destruct (member_decl_ok _ _ _ _ _ _ Ed) as (H1 & H2 & _). cbn [fst snd] in H.
  dm H. inversion H; subst. cbn [fst snd]. split; [exact H1|].
  match goal with E : parse_expression _ _ = Some _ |- _ => exact (parse_expression_ok _ _ _ _ E) end.
Qed.

Lemma members_loop_ok {A} (elem : list tok -> presult A) (Q : A -> bool) :
  (forall ts a r, elem ts = Some (a, r) -> Q a = true) ->
  forall n ts l r, members_loop elem n ts = Some (l, r) -> forallb Q l = true.
Proof.
  intros He. induction n as [|n IH]; intros ts l r H; [discriminate|]. cbn [members_loop] in H.
  dm H; inversion H; subst; try reflexivity. cbn [forallb].
  match goal with E : elem _ = Some _ |- _ => rewrite (He _ _ _ E) end.
  match goal with E : members_loop _ _ _ = Some _ |- _ => exact (IH _ _ _ E) end.
Qed.

Lemma field_def_ok avail ts f r : field_def avail ts = Some (f, r) -> annot_ok avail (snd f) = true.
Proof.
  intros H. unfold field_def, lower_id in H. dm H; inversion H; subst; cbn [snd];
    match goal with E : parse_annot _ _ = Some _ |- _ => exact (parse_annot_ok _ _ _ _ E) end.
Qed.

Lemma variant_def_ok avail ts v r : variant_def avail ts = Some (v, r) -> annots_ok avail (snd v) = true.
Proof.
  intros H. unfold variant_def, upper_id in H. dm H; inversion H; subst; cbn [snd]; try reflexivity.
  match goal with E : seplist _ _ _ _ = Some _ |- _ => exact (proj1 (seplist_all _ _ (annot_ok avail) _ _ _ _ (parse_annot_ok avail) E)) end.
Qed.

Lemma typedef_inner_ok avail ts td r : typedef_inner avail ts = Some (td, r) -> typedef_ok avail td = true.
Proof.
  intros H. unfold typedef_inner in H. dm H; inversion H; subst; clear H; cbn [typedef_ok].
  - match goal with E : seplist _ _ _ _ = Some _ |- _ =>
      destruct (seplist_all _ _ (fun v : nat * list annot => annots_ok avail (snd v)) _ _ _ _ (variant_def_ok avail) E) as [H1 H2] end.
    rewrite H1, (nonnil_negb _ H2). reflexivity.
  - match goal with E : seplist _ _ _ _ = Some _ |- _ =>
      destruct (seplist_all _ _ (fun f : bool * nat * annot => annot_ok avail (snd f)) _ _ _ _ (field_def_ok avail) E) as [H1 H2] end.
    rewrite H1, (nonnil_negb _ H2).
    match goal with E : (MAX_STRUCT_SIZE <? _) = false |- _ => apply Nat.ltb_ge in E; apply Nat.leb_le in E; rewrite E end. reflexivity.
Qed.

Lemma class_rest_ok priv ts t r : class_rest priv ts = Some (t, r) -> toplevel_ok t = true.
Proof.
  intros H. unfold class_rest, upper_id in H.
  destruct ts as [|[q|p|x|name|z|s|o] ts']; try discriminate.
  destruct (tparams_opt [] ts') as [[[tps av] r1]|] eqn:Et; [|discriminate]. destruct (tparams_opt_ok _ _ _ _ _ Et) as [Ht1 Ht2].
  cbn [app] in Ht2. subst av. cbn [fst snd] in H.
  destruct (if hd_is (is_p LBrace) r1 || hd_is (is_p Colon) r1 then Some (TDNone, r1) else typedef_inner (map fst tps) r1) as [[td r2]|] eqn:Etd; [|discriminate].
  assert (Htd : typedef_ok (map fst tps) td = true).
  { destruct (hd_is (is_p LBrace) r1 || hd_is (is_p Colon) r1); [inversion Etd; reflexivity|exact (typedef_inner_ok _ _ _ _ Etd)]. }
  destruct (supers_opt (map fst tps) r2) as [[sup r3]|] eqn:Es; [|discriminate]. pose proof (supers_opt_ok _ _ _ _ Es) as Hs.
  destruct (expect LBrace r3) as [r4|]; [|discriminate].
  destruct (members_loop (member_def (map fst tps)) (S (length r4)) r4) as [[ms r5]|] eqn:Em; [|discriminate].
  destruct (expect RBrace r5) as [r6|]; [|discriminate]. inversion H; subst. cbn [toplevel_ok]. rewrite Ht1, Htd, Hs. cbn [andb].
  refine (members_loop_ok (member_def (map fst tps))
            (fun mb : member * fexpr => member_ok (map fst tps) (fst mb) && fwf (member_avail (map fst tps) (fst mb)) (snd mb)) _ _ _ _ _ Em).
  intros ts0 mb r0 Hmb. destruct (member_def_ok _ _ _ _ Hmb) as [H1 H2]. rewrite H1, H2. reflexivity.
Qed.

Lemma interface_rest_ok priv ts t r : interface_rest priv ts = Some (t, r) -> toplevel_ok t = true.
Proof.
  intros H. unfold interface_rest, upper_id in H.
  destruct ts as [|[q|p|x|name|z|s|o] ts']; try discriminate.
  destruct (tparams_opt [] ts') as [[[tps av] r1]|] eqn:Et; [|discriminate]. destruct (tparams_opt_ok _ _ _ _ _ Et) as [Ht1 Ht2].
  cbn [app] in Ht2. subst av. cbn [fst snd] in H.
  destruct (supers_opt (map fst tps) r1) as [[sup r3]|] eqn:Es; [|discriminate]. pose proof (supers_opt_ok _ _ _ _ Es) as Hs.
  destruct (expect LBrace r3) as [r4|]; [|discriminate].
  match type of H with context [members_loop ?f ?n ?t] => destruct (members_loop f n t) as [[ms r5]|] eqn:Em; [|discriminate] end.
  destruct (expect RBrace r5) as [r6|]; [|discriminate]. inversion H; subst. cbn [toplevel_ok]. rewrite Ht1, Hs. cbn [andb].
  refine (members_loop_ok _ (fun m : member => m_public m && member_ok (map fst tps) m) _ _ _ _ _ Em).
  intros ts0 m r0 Hm. destruct (member_decl false (map fst tps) ts0) as [[[m' av] r']|] eqn:Ed; [|discriminate].
  inversion Hm; subst. destruct (member_decl_ok _ _ _ _ _ _ Ed) as (H1 & _ & H3). rewrite (H3 eq_refl), H1. reflexivity.
Qed.

Lemma toplevel_one_ok ts t r : toplevel_one ts = Some (t, r) -> toplevel_ok t = true.
Proof.
  intros H. unfold toplevel_one in H.
  dm H; first [exact (interface_rest_ok _ _ _ _ H)|exact (class_rest_ok _ _ _ _ H)].
Qed.

Lemma toplevels_loop_ok : forall n ts l, toplevels_loop n ts = Some l -> forallb toplevel_ok l = true.
Proof.
  induction n as [|n IH]; intros ts l H; [discriminate|]. cbn [toplevels_loop] in H.
  destruct ts as [|t ts']; [inversion H; reflexivity|].
  destruct (hd_is starts_toplevel (t :: ts')); [|discriminate].
  destruct (toplevel_one (t :: ts')) as [[tp r]|] eqn:Et; [|discriminate].
  destruct (toplevels_loop n r) as [l0|] eqn:El; [|discriminate]. inversion H; subst. cbn [forallb].
  rewrite (toplevel_one_ok _ _ _ Et), (IH _ _ El). reflexivity.
Qed.

Lemma import_one_ok ts i r : import_one ts = Some (i, r) -> import_ok i = true.
Proof.
  intros H. unfold import_one in H. dm H; inversion H; subst; clear H; unfold import_ok; cbn [fst snd];
    match goal with E : seplist upper_id _ _ _ = Some _ |- _ =>
      pose proof (proj2 (seplist_all upper_id _ (fun _ => true) _ _ _ _ (fun _ _ _ _ => eq_refl) E)) as Hn end;
    rewrite (nonnil_negb _ Hn); reflexivity.
Qed.

Lemma imports_loop_ok : forall n ts l r, imports_loop n ts = Some (l, r) -> forallb import_ok l = true.
Proof.
  induction n as [|n IH]; intros ts l r H; [discriminate|]. cbn [imports_loop] in H. dm H; inversion H; subst; try reflexivity.
  cbn [forallb].
  match goal with E : import_one _ = Some _ |- _ => rewrite (import_one_ok _ _ _ E) end.
  match goal with E : imports_loop _ _ = Some _ |- _ => exact (IH _ _ _ E) end.
Qed.

Theorem parse_module_ok ts m : parse_module ts = Some m -> module_ok m = true.
Proof.
  unfold parse_module. destruct (imports_loop (S (length ts)) ts) as [[imps r]|] eqn:Ei; [|discriminate].
  destruct (toplevels_loop (S (length r)) r) as [tops|] eqn:Et; [|discriminate]. intros H. inversion H; subst.
  unfold module_ok. cbn [fst snd]. rewrite (imports_loop_ok _ _ _ _ Ei), (toplevels_loop_ok _ _ _ Et). reflexivity.
Qed.

(* ------------------------------------------------------------------ the property, from token lists *)
(* every token list that parses to a module outside the known classes is formatted to a token list that
   parses to the module with organised imports and the same toplevels *)
Theorem format_preserves_parsed_module ts m : parse_module ts = Some m -> module_known m = false ->
  parse_module (fimpl_module m) = Some (organise (fst m), snd m).
Proof. intros Hp Hk. apply module_roundtrip_outside_known; [exact (parse_module_ok ts m Hp)|exact Hk]. Qed.

Theorem format_preserves_parsed_expression tps ts e : parse_fexpr tps ts = Some e -> fknown e = false ->
  parse_fexpr tps (fimpl e) = Some e.
Proof. intros Hp Hk. apply fimpl_roundtrip_outside_known; [exact Hk|exact (parse_fexpr_ok tps ts e Hp)]. Qed.


(* repaired by 70138aa (C05): the all-identifier path of `( id , id , .. )` applies MAX_STRUCT_SIZE too (a 17-identifier
   tuple used to be accepted and panicked the type checker); a lambda with as many parameters is still accepted *)
Definition ids17 : list nat := seq 0 17.
Definition tuple17_toks : list tok := TP LParen :: commas (map (fun n => [TLow n]) ids17) ++ [TP RParen].
Lemma tuple_limit_repaired :
  parse_fexpr [] tuple17_toks = None /\
  parse_fexpr [] (TP LParen :: commas (map (fun n => [TLow n]) (seq 0 16)) ++ [TP RParen]) = Some (XTuple (map XId (seq 0 16))) /\
  parse_fexpr [] (tuple17_toks ++ [TP Arrow; TLow 0]) = Some (XLam (map (fun n => (n, None)) ids17) (XId 0)) /\
  fwf [] (XTuple (map XId ids17)) = false.
Proof. repeat split; vm_compute; reflexivity. Qed.
