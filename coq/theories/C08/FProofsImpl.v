(* C08 — full model, proofs part 4: the implementation's parenthesisation against the grammar's
   needs on the full expression language; the known classes K1 / K3 are exactly the nodes where a
   needed parenthesis is omitted; round trip of the implementation's printer outside them. *)
From Coq Require Import List Arith Bool Lia ZArith NArith.
Import ListNotations.
From SV Require Import C08.Syntax C08.Model C08.ProofsMono C08.Lit C08.FSyntax C08.FModelTypes C08.FModelExpr
  C08.FProofsGen C08.FProofsTypes C08.FProofsExprFuel C08.FProofsExpr.
From SVG Require Import PrecTable.

Definition fsuff_node_level (dec : fexpr -> side -> bool) (e : fexpr) : bool :=
  forallb (fun s => implb (fneed_level e s) (dec e s)) sides.
Definition flt_ok (dec : fexpr -> side -> bool) (e : fexpr) : bool :=
  match e with
  | XBin o a _ => implb (is_lt o && fends_field dec a) (dec e SLeft)
  | _ => true
  end.

Lemma implb_orb_l x y d : implb (x || y) d = implb x d && implb y d.
Proof. destruct x, y, d; reflexivity. Qed.

Lemma fsuff_node_split dec e : fsuff_node dec e = fsuff_node_level dec e && flt_ok dec e.
Proof.
  unfold fsuff_node, fsuff_node_level, flt_ok, fneed. cbn [forallb sides]. rewrite !implb_orb_l.
  destruct e; cbn [fneed_lt implb]; rewrite ?andb_true_r; try reflexivity.
  generalize (implb (is_lt o && fends_field dec e1) (dec (XBin o e1 e2) SLeft)) as z.
  generalize (implb (fneed_level (XBin o e1 e2) SBase) (dec (XBin o e1 e2) SBase)) as a.
  generalize (implb (fneed_level (XBin o e1 e2) SArg) (dec (XBin o e1 e2) SArg)) as b.
  generalize (implb (fneed_level (XBin o e1 e2) SLeft) (dec (XBin o e1 e2) SLeft)) as c.
  generalize (implb (fneed_level (XBin o e1 e2) SRight) (dec (XBin o e1 e2) SRight)) as d.
  generalize (implb (fneed_level (XBin o e1 e2) SBody) (dec (XBin o e1 e2) SBody)) as f.
  intros [] [] [] [] [] []; reflexivity.
Qed.

Lemma fnode_char_level e : fsuff_node_level fdec_impl e = negb (fk1 e || fk3 e).
Proof.
  destruct e as [l|x| |x|es|a up f tas|a args|u a|o a b|g c b1 e2|s arms|ps b|ss r]; try reflexivity.
  - destruct a as [| | | | | | | |oa ? ?| | | |]; try reflexivity; destruct oa; reflexivity.
  - destruct a as [| | | | | | | |oa ? ?| | | |]; try reflexivity; destruct oa; reflexivity.
  - destruct u; destruct a as [| | | | | | | |oa ? ?| | | |]; try reflexivity; destruct oa; reflexivity.
  - destruct (bop_eqb_spec o Lt) as [->|Hne].
    + unfold fsuff_node_level. cbn [forallb sides fdec_impl is_lt andb]. generalize (fmay_end a). intros m.
      destruct a as [| | | | | | | |oa ? ?| | | |]; destruct b as [| | | | | | | |ob ? ?| | | |];
        try destruct oa; try destruct ob; destruct m; reflexivity.
    + assert (Hlt : is_lt o = false) by (destruct o; try reflexivity; congruence).
      unfold fsuff_node_level. cbn [forallb sides fdec_impl]. rewrite Hlt. cbn [andb].
      destruct a as [| | | | | | | |oa ? ?| | | |]; destruct b as [| | | | | | | |ob ? ?| | | |];
        try destruct oa; try destruct ob; destruct o; try congruence; reflexivity.
Qed.

Lemma fends_field_may_end dec : forall e, fends_field dec e = true -> fmay_end e = true.
Proof.
  induction e; cbn [fends_field fmay_end]; intros H; try discriminate; try exact H;
    apply andb_prop in H; destruct H as [_ H]; auto.
Qed.

Lemma fnode_char_lt e : flt_ok fdec_impl e = true.
Proof.
  destruct e as [l|x| |x|es|a up f tas|a args|u a|o a b|g c b1 e2|s arms|ps b|ss r]; try reflexivity.
  unfold flt_ok. destruct o; try reflexivity. cbn [is_lt andb].
  destruct (fends_field fdec_impl a) eqn:E; [|reflexivity].
  cbn [implb fdec_impl is_lt andb]. rewrite (fends_field_may_end _ _ E). reflexivity.
Qed.

Lemma fnode_char e : fsuff_node fdec_impl e = negb (fknown_node e).
Proof.
  rewrite fsuff_node_split, fnode_char_level, fnode_char_lt. unfold fknown_node. rewrite andb_true_r. reflexivity.
Qed.

Lemma forallb_ext_in {A} (f g : A -> bool) l : (forall x, In x l -> f x = g x) -> forallb f l = forallb g l.
Proof.
  induction l as [|x l IH]; intros H; [reflexivity|]. cbn [forallb]. rewrite (H x (or_introl eq_refl)), IH; [reflexivity|].
  intros y Hy. apply H. right. exact Hy.
Qed.

Lemma fall_ext P Q : (forall x, P x = Q x) -> forall n e, fsize e <= n -> fall P e = fall Q e.
Proof.
  intros HPQ. induction n as [|n IH]; intros e Hsz; [destruct e; cbn in Hsz; lia|].
  destruct e as [l|x| |x|es|a up f tas|a args|u a|o a b|g c b1 e2|s arms|ps b|ss r]; cbn [fall]; cbn [fsize] in Hsz; rewrite HPQ;
    try reflexivity.
  - f_equal. apply forallb_ext_in. intros y Hy. apply IH. pose proof (in_size_le fsize y es Hy). lia.
  - rewrite (IH a) by lia. reflexivity.
  - rewrite (IH a) by lia. f_equal. f_equal. apply forallb_ext_in. intros y Hy. apply IH.
    pose proof (in_size_le fsize y args Hy). lia.
  - rewrite (IH a) by lia. reflexivity.
  - rewrite (IH a), (IH b) by lia. reflexivity.
  - rewrite (IH c), (IH b1), (IH e2) by lia. reflexivity.
  - rewrite (IH s) by lia. f_equal. f_equal. apply forallb_ext_in. intros y Hy. apply IH.
    pose proof (in_size_le (fun pb : pat * fexpr => fsize (snd pb)) y arms Hy). cbn beta in *. lia.
  - rewrite (IH b) by lia. reflexivity.
  - f_equal. f_equal.
    + apply forallb_ext_in. intros y Hy. apply IH.
      pose proof (in_size_le (fun s0 : option (pat * option annot) * fexpr => fsize (snd s0)) y ss Hy). cbn beta in *. lia.
    + destruct r as [x|]; [|reflexivity]. apply IH. lia.
Qed.

Theorem fsafe_known e : fsafe e = negb (fknown e).
Proof.
  unfold fsafe, fsuff, fknown. rewrite negb_involutive. apply (fall_ext _ _ fnode_char (fsize e)). apply le_n.
Qed.

Section Impl.
Variable tps : list nat.

Theorem fimpl_roundtrip e : fsafe e = true -> fwf tps e = true -> parse_fexpr tps (fimpl e) = Some e.
Proof. apply fpr_roundtrip. Qed.

Theorem fimpl_roundtrip_outside_known e : fknown e = false -> fwf tps e = true -> parse_fexpr tps (fimpl e) = Some e.
Proof. intros H. apply fimpl_roundtrip. rewrite fsafe_known, H. reflexivity. Qed.

(* idempotence on the full expression language (for C09) *)
Theorem fimpl_idempotent e : fknown e = false -> fwf tps e = true ->
  forall e', parse_fexpr tps (fimpl e) = Some e' -> fimpl e' = fimpl e.
Proof. intros Hk Hw e' H. rewrite (fimpl_roundtrip_outside_known e Hk Hw) in H. inversion H. reflexivity. Qed.
End Impl.

(* the reference printer (exactly the needed parentheses) round-trips on every parser-producible tree *)
Lemma fends_field_ref : forall e, fends_field fdec_ref e = fends_ref e.
Proof.
  induction e; cbn [fends_field fends_ref]; try reflexivity.
  - rewrite IHe. unfold fdec_ref. cbn [fneed_level]. rewrite orb_false_r. reflexivity.
  - rewrite IHe2. unfold fdec_ref. cbn [fneed_level]. rewrite orb_false_r. reflexivity.
  - rewrite IHe. unfold fdec_ref. cbn [fneed_level orb negb andb]. reflexivity.
Qed.

Lemma fneed_dec_ref e s : fneed fdec_ref e s = fdec_ref e s.
Proof.
  unfold fneed, fdec_ref, fneed_lt. destruct e, s; try reflexivity. rewrite fends_field_ref. reflexivity.
Qed.

Lemma fsuff_node_ref e : fsuff_node fdec_ref e = true.
Proof. unfold fsuff_node. cbn [forallb sides]. rewrite !fneed_dec_ref. repeat rewrite Bool.implb_same. reflexivity. Qed.

Lemma fall_true P : (forall x, P x = true) -> forall n e, fsize e <= n -> fall P e = true.
Proof.
  intros HP n e Hsz. rewrite (fall_ext P (fun _ => true) HP n e Hsz). clear HP.
  revert e Hsz. induction n as [|n IH]; intros e Hsz; [destruct e; cbn in Hsz; lia|].
  destruct e as [l|x| |x|es|a up f tas|a args|u a|o a b|g c b1 e2|s arms|ps b|ss r]; cbn [fall andb]; cbn [fsize] in Hsz;
    try reflexivity.
  - apply forallb_forall. intros y Hy. apply IH. pose proof (in_size_le fsize y es Hy). lia.
  - apply IH. lia.
  - rewrite (IH a) by lia. apply forallb_forall. intros y Hy. apply IH. pose proof (in_size_le fsize y args Hy). lia.
  - apply IH. lia.
  - rewrite (IH a), (IH b) by lia. reflexivity.
  - rewrite (IH c), (IH b1), (IH e2) by lia. reflexivity.
  - rewrite (IH s) by lia. apply forallb_forall. intros y Hy. apply IH.
    pose proof (in_size_le (fun pb : pat * fexpr => fsize (snd pb)) y arms Hy). cbn beta in *. lia.
  - apply IH. lia.
  - apply andb_true_iff. split.
    + apply forallb_forall. intros y Hy. apply IH.
      pose proof (in_size_le (fun s0 : option (pat * option annot) * fexpr => fsize (snd s0)) y ss Hy). cbn beta in *. lia.
    + destruct r as [x|]; [|reflexivity]. apply IH. lia.
Qed.

Theorem fref_roundtrip tps e : fwf tps e = true -> parse_fexpr tps (fpr fdec_ref e) = Some e.
Proof. apply fpr_roundtrip. unfold fsuff. apply (fall_true _ fsuff_node_ref (fsize e)). apply le_n. Qed.

(* ---- witnesses on the full language: a K1 node deep inside statements, arguments and a lambda *)
Definition fxa := XId 0. Definition fxb := XId 1. Definition fxc := XId 2.
Definition fwitness : fexpr :=
  XBlock [(Some (PTuple [PId 3; PWild], Some (AId 4 [APrim PInt])), XCall (XField fxa false 5 [APrim PBool]) [fxb; XLam [(6, None); (7, Some (APrim PInt))] (XBin Mul fxa (XBin Div fxb fxc))])]
         (Some (XMatch fxa [(POr [PVar 1 None; PVar 2 (Some [PId 3])], XTuple [fxa; fxb])])).
Definition fwitness_back : fexpr :=
  XBlock [(Some (PTuple [PId 3; PWild], Some (AId 4 [APrim PInt])), XCall (XField fxa false 5 [APrim PBool]) [fxb; XLam [(6, None); (7, Some (APrim PInt))] (XBin Div (XBin Mul fxa fxb) fxc)])]
         (Some (XMatch fxa [(POr [PVar 1 None; PVar 2 (Some [PId 3])], XTuple [fxa; fxb])])).

Lemma fK1_witness : fknown fwitness = true /\ fwf [] fwitness = true /\ parse_fexpr [] (fimpl fwitness) = Some fwitness_back.
Proof. repeat split; vm_compute; reflexivity. Qed.

Theorem fimpl_roundtrip_refuted : exists e, fwf [] e = true /\ parse_fexpr [] (fimpl e) <> Some e.
Proof.
  exists fwitness. destruct fK1_witness as (_ & Hw & Hp). split; [exact Hw|]. rewrite Hp. intros H. inversion H.
Qed.

(* non-vacuity: a tree using every construct, outside the known classes, read back *)
Definition fsample : fexpr :=
  XBlock [(Some (PObj [(0, None); (1, Some (PVar 2 (Some [PWild; PId 3])))], None), XTuple [fxa; XBin Plus fxb (XLit (LInt 1%Z)); XThis]);
          (None, XCall (XField (XCls 1) true 2 [AFn [AGen 7] (AFn [] (APrim PUnit))]) []);
          (Some (PId 4, Some (AFn [APrim PInt; AId 1 [AGen 7]] (APrim PBool))), XLam [(5, Some (AGen 7)); (6, None)] (XIf (Some (PVar 0 None)) fxa (XBlock [] (Some (XUn Not fxb))) (XIf None fxc (XBlock [] None) (XBlock [(None, fxa)] None))))]
         (Some (XMatch (XTuple [fxa; fxb]) [(PTuple [PId 0; POr [PVar 1 None; PWild]], XLit (LStr [113; 34]%N)); (PWild, XBin Lt (XField fxa false 1 []) (XLit (LBool true)))])).
Lemma fsample_ok : fknown fsample = false /\ fwf [7] fsample = true /\ parse_fexpr [7] (fimpl fsample) = Some fsample /\ length (fimpl fsample) = 112.
Proof. repeat split; vm_compute; reflexivity. Qed.
