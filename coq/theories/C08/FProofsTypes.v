(* C08 — full model, proofs part 1: type annotations and patterns.  Fuel independence (hence the
   fixpoint equations of parse_annot / parse_pat) and the print/parse round trips. *)
From Coq Require Import List Arith Bool Lia.
Import ListNotations.
From SV Require Import C08.Syntax C08.FSyntax C08.FModelTypes C08.FProofsGen.

Create HintDb shrinkdb.
#[export] Hint Resolve seplist_shrinks seprest_shrinks : shrinkdb.

Lemma expect_inv p ts r : expect p ts = Some r -> ts = TP p :: r.
Proof.
  unfold expect. destruct ts as [|[k|q|x|x|z|s|o] ts']; try discriminate.
  destruct p, q; cbn; intros H; try discriminate; inversion H; reflexivity.
Qed.
Lemma expect_kw_inv k ts r : expect_kw k ts = Some r -> ts = TK k :: r.
Proof.
  unfold expect_kw. destruct ts as [|[q|p|x|x|z|s|o] ts']; try discriminate.
  destruct k, q; cbn; intros H; try discriminate; inversion H; reflexivity.
Qed.
Lemma expect_op_inv o ts r : expect_op o ts = Some r -> ts = TOp o :: r.
Proof.
  unfold expect_op. destruct ts as [|[q|p|x|x|z|s|o'] ts']; try discriminate.
  destruct (bop_eqb_spec o o'); intros H; try discriminate. inversion H; subst. reflexivity.
Qed.
Lemma expect_same p r : expect p (TP p :: r) = Some r. Proof. destruct p; reflexivity. Qed.
Lemma expect_kw_same k r : expect_kw k (TK k :: r) = Some r. Proof. destruct k; reflexivity. Qed.
Lemma expect_op_same o r : expect_op o (TOp o :: r) = Some r. Proof. destruct o; reflexivity. Qed.

Lemma expect_len p ts r : expect p ts = Some r -> length ts = S (length r).
Proof. intros H. apply expect_inv in H. subst. reflexivity. Qed.
Lemma expect_kw_len k ts r : expect_kw k ts = Some r -> length ts = S (length r).
Proof. intros H. apply expect_kw_inv in H. subst. reflexivity. Qed.
Lemma expect_op_len o ts r : expect_op o ts = Some r -> length ts = S (length r).
Proof. intros H. apply expect_op_inv in H. subst. reflexivity. Qed.

(* length facts from every successful sub-parse in the context *)
Ltac shr :=
  repeat match goal with
  | E : expect _ ?ts = Some ?r |- _ =>
      lazymatch goal with _ : length ts = S (length r) |- _ => fail | _ => pose proof (expect_len _ _ _ E) end
  | E : expect_kw _ ?ts = Some ?r |- _ =>
      lazymatch goal with _ : length ts = S (length r) |- _ => fail | _ => pose proof (expect_kw_len _ _ _ E) end
  | E : expect_op _ ?ts = Some ?r |- _ =>
      lazymatch goal with _ : length ts = S (length r) |- _ => fail | _ => pose proof (expect_op_len _ _ _ E) end
  | E : ?p ?ts = Some (?a, ?r) |- _ =>
      lazymatch goal with
      | _ : length r <= length ts |- _ => fail
      | _ => let S := fresh "S" in
             assert (S : shrinks p) by (auto with shrinkdb); pose proof (S _ _ _ E); clear S
      end
  end.

(* case analysis on every match of hypothesis H, innermost scrutinee first *)
Ltac dm H :=
  repeat (first
    [ match type of H with context [match ?x with _ => _ end] => is_var x; destruct x; try discriminate H end
    | match type of H with context [match ?x with _ => _ end] =>
        lazymatch x with
        | context [match _ with _ => _ end] => fail
        | _ => let E := fresh "E" in destruct x eqn:E; try discriminate H
        end end
    | match type of H with context [if ?c then _ else _] =>
        lazymatch c with
        | context [match _ with _ => _ end] => fail
        | _ => let E := fresh "E" in destruct c eqn:E; try discriminate H
        end end ]).

Ltac fin H := shr; try (inversion H; subst); shr; cbn [length] in *; lia.
Ltac side := shr; cbn [length] in *; lia.

(* locality: the goal is  F rec ts = F rec' ts ; Hag says rec and rec' agree on shorter inputs *)
Ltac loc_step rec rec' Hs Hag extra :=
  first
    [ reflexivity
    | match goal with |- context [rec' ?t] => rewrite <- (Hag t) by side end
    | extra
    | match goal with |- context [match ?x with _ => _ end] => is_var x; destruct x end
    | match goal with |- context [match ?x with _ => _ end] => let E := fresh "E" in destruct x eqn:E end
    | match goal with |- context [if ?c then _ else _] => let E := fresh "E" in destruct c eqn:E end ].
Ltac loc rec rec' Hs Hag extra := repeat (loc_step rec rec' Hs Hag extra).

(* ------------------------------------------------------------------ annotations: shrink, locality *)
Lemma targs_opt_shrinks rec : shrinks rec -> shrinks (targs_opt rec).
Proof. intros Hs ts a r H. unfold targs_opt in H. dm H; fin H. Qed.
#[export] Hint Resolve targs_opt_shrinks : shrinkdb.

Lemma annot_step_shrinks tps rec : shrinks rec -> shrinks (annot_step tps rec).
Proof. intros Hs ts a r H. unfold annot_step in H. dm H; fin H. Qed.

Ltac loc_seplist rec rec' Hs Hag :=
  match goal with |- context [seplist rec' ?e ?n ?t] =>
    rewrite <- (seplist_local rec rec' e n t Hs) by (intros; apply Hag; side) end.

Lemma targs_opt_local rec rec' ts : shrinks rec ->
  (forall ts', length ts' < length ts -> rec ts' = rec' ts') -> targs_opt rec ts = targs_opt rec' ts.
Proof. intros Hs Hag. unfold targs_opt. loc rec rec' Hs Hag ltac:(idtac; loc_seplist rec rec' Hs Hag). Qed.

Lemma annot_step_local tps rec rec' ts : shrinks rec ->
  (forall ts', length ts' < length ts -> rec ts' = rec' ts') -> annot_step tps rec ts = annot_step tps rec' ts.
Proof.
  intros Hs Hag. unfold annot_step.
  loc rec rec' Hs Hag ltac:(idtac; first [loc_seplist rec rec' Hs Hag
    | match goal with |- context [targs_opt rec' ?t] =>
        rewrite <- (targs_opt_local rec rec' t Hs) by (intros; apply Hag; side) end]).
Qed.

(* ---- the annotation parser does not depend on the fuel; its fixpoint equation *)
Theorem annot_fuel_sufficient tps f ts : length ts < f -> annot_go tps f ts = parse_annot tps ts.
Proof. apply lparse_fuel; [apply annot_step_shrinks|apply annot_step_local]. Qed.

Lemma parse_annot_eq tps ts : parse_annot tps ts = annot_step tps (parse_annot tps) ts.
Proof. apply lparse_eq; [apply annot_step_shrinks|apply annot_step_local]. Qed.

Lemma parse_annot_shrinks tps : shrinks (parse_annot tps).
Proof. apply lparse_shrinks. apply annot_step_shrinks. Qed.
#[export] Hint Resolve parse_annot_shrinks : shrinkdb.

(* ---- round trip *)
Definition not_lt (ts : list tok) : Prop := match ts with TOp Lt :: _ => False | _ => True end.

Lemma in_size_le {A} (sz : A -> nat) x l : In x l -> sz x <= list_sum (map sz l).
Proof.
  induction l as [|y l IH]; [intros []|].
  change (list_sum (map sz (y :: l))) with (sz y + list_sum (map sz l)).
  intros [->|H]; [apply Nat.le_add_r|]. specialize (IH H). generalize dependent (list_sum (map sz l)). intros. lia.
Qed.

Lemma pr_annot_head a : exists t l, pr_annot a = t :: l /\ is_gt t = false /\ is_p RParen t = false.
Proof. destruct a as [k|n tas|n|ps r]; cbn [pr_annot]; eexists _, _; (split; [reflexivity|]); split; try reflexivity; destruct k; reflexivity. Qed.

Lemma map_canon_nonnil tps a l : match map (canon tps) (a :: l) with [] => False | _ => True end.
Proof. exact I. Qed.

Theorem annot_roundtrip tps : forall n a rest, annot_size a <= n -> not_lt rest ->
  parse_annot tps (pr_annot a ++ rest) = Some (canon tps a, rest).
Proof.
  induction n as [|n IH]; intros a rest Hsz Hnl; [destruct a; cbn in Hsz; lia|].
  rewrite parse_annot_eq. destruct a as [k|x tas|x|ps r]; cbn [pr_annot annot_size] in *.
  - destruct k; reflexivity.
  - destruct tas as [|t tas].
    + cbn [app annot_step canon]. unfold targs_opt.
      destruct rest as [|[k|p|y|y|z|s|o] rest']; try reflexivity. destruct o; try reflexivity. destruct Hnl.
    + cbn [app annot_step targs_opt]. rewrite <- app_assoc. cbn [app].
      rewrite (seplist_rt (parse_annot tps) is_gt pr_annot (canon tps) not_lt t tas _ (TOp Gt) rest).
      * rewrite expect_op_same. cbn [canon map]. reflexivity.
      * rewrite !app_length, commas_cons, app_length. pose proof (tails_length pr_annot tas). cbn [length]. lia.
      * discriminate.
      * exact I.
      * intros l. exact I.
      * intros y Hy. destruct (pr_annot_head y) as (t0 & l0 & E & H1 & _). exists t0, l0. split; assumption.
      * intros y tail Hy Hf. apply IH; [|exact Hf].
        pose proof (in_size_le annot_size y (t :: tas) Hy). cbn [map list_sum] in *. lia.
  - cbn [app annot_step canon]. unfold targs_opt.
    destruct rest as [|[k|p|y|y|z|s|o] rest']; try reflexivity. destruct o; try reflexivity. destruct Hnl.
  - destruct ps as [|p ps].
    + cbn [map commas app annot_step hd_is is_p punct_eqb]. rewrite !expect_same.
      rewrite IH by (cbn in Hsz; lia || exact Hnl); try exact Hnl. reflexivity.
    + cbn [app annot_step]. rewrite <- app_assoc. cbn [app].
      destruct (pr_annot_head p) as (t0 & l0 & E0 & _ & H0).
      assert (Hhd : hd_is (is_p RParen) (commas (map pr_annot (p :: ps)) ++ TP RParen :: TP Arrow :: pr_annot r ++ rest) = false).
      { rewrite commas_cons, E0. cbn [app hd_is]. exact H0. }
      rewrite Hhd.
      rewrite (seplist_rt (parse_annot tps) (is_p RParen) pr_annot (canon tps) not_lt p ps _ (TP RParen) (TP Arrow :: pr_annot r ++ rest)).
      * rewrite !expect_same. rewrite IH; [reflexivity| |exact Hnl]. lia.
      * rewrite !app_length, commas_cons, app_length. pose proof (tails_length pr_annot ps). cbn [length]. lia.
      * discriminate.
      * exact I.
      * intros l. exact I.
      * intros y Hy. destruct (pr_annot_head y) as (t1 & l1 & E & _ & H1). exists t1, l1. split; assumption.
      * intros y tail Hy Hf. apply IH; [|exact Hf].
        pose proof (in_size_le annot_size y (p :: ps) Hy). cbn [map list_sum] in *. lia.
Qed.

(* ------------------------------------------------------------------ patterns: shrink, locality *)
Lemma tuple_pat_shrinks rec : shrinks rec -> shrinks (tuple_pat rec).
Proof. intros Hs ts a r H. unfold tuple_pat in H. dm H; fin H. Qed.
Lemma obj_elem_shrinks rec : shrinks rec -> shrinks (obj_elem rec).
Proof. intros Hs ts a r H. unfold obj_elem in H. dm H; fin H. Qed.
#[export] Hint Resolve tuple_pat_shrinks obj_elem_shrinks : shrinkdb.
Lemma single_pat_shrinks rec : shrinks rec -> shrinks (single_pat rec).
Proof. intros Hs ts a r H. unfold single_pat in H. dm H; fin H. Qed.
#[export] Hint Resolve single_pat_shrinks : shrinkdb.
Lemma bars_shrinks rec : shrinks rec -> forall n, shrinks (bars rec n).
Proof.
  intros Hs n. induction n as [|n IH]; intros ts a r H; [discriminate|]. cbn [bars] in H.
  dm H; fin H.
Qed.
#[export] Hint Resolve bars_shrinks : shrinkdb.
Lemma pat_step_shrinks rec : shrinks rec -> shrinks (pat_step rec).
Proof. intros Hs ts a r H. unfold pat_step in H. dm H; fin H. Qed.

Lemma tuple_pat_local rec rec' ts : shrinks rec ->
  (forall ts', length ts' < length ts -> rec ts' = rec' ts') -> tuple_pat rec ts = tuple_pat rec' ts.
Proof. intros Hs Hag. unfold tuple_pat. loc rec rec' Hs Hag ltac:(idtac; loc_seplist rec rec' Hs Hag). Qed.

Lemma obj_elem_local rec rec' ts : shrinks rec ->
  (forall ts', length ts' < length ts -> rec ts' = rec' ts') -> obj_elem rec ts = obj_elem rec' ts.
Proof. intros Hs Hag. unfold obj_elem. loc rec rec' Hs Hag ltac:(fail). Qed.

Lemma single_pat_local rec rec' ts : shrinks rec ->
  (forall ts', length ts' < length ts -> rec ts' = rec' ts') -> single_pat rec ts = single_pat rec' ts.
Proof.
  intros Hs Hag. unfold single_pat.
  loc rec rec' Hs Hag ltac:(idtac; first
    [ match goal with |- context [tuple_pat rec' ?t] =>
        rewrite <- (tuple_pat_local rec rec' t Hs) by (intros; apply Hag; side) end
    | match goal with |- context [seplist (obj_elem rec') ?e ?n ?t] =>
        rewrite <- (seplist_local (obj_elem rec) (obj_elem rec') e n t (obj_elem_shrinks rec Hs))
          by (intros; apply obj_elem_local; [exact Hs|intros; apply Hag; side]) end ]).
Qed.

Lemma bars_local rec rec' : shrinks rec -> forall n ts,
  (forall ts', length ts' < length ts -> rec ts' = rec' ts') -> bars rec n ts = bars rec' n ts.
Proof.
  intros Hs n. induction n as [|n IH]; intros ts Hag; [reflexivity|]. cbn [bars].
  destruct ts as [|t r]; [reflexivity|]. destruct t as [k|p|x|x|z|s|o]; try reflexivity. destruct p; try reflexivity.
  rewrite <- (single_pat_local rec rec' r Hs) by (intros; apply Hag; side).
  destruct (single_pat rec r) as [[p r1]|] eqn:E; [|reflexivity].
  rewrite (IH r1); [reflexivity|]. intros. apply Hag. side.
Qed.

Lemma pat_step_local rec rec' ts : shrinks rec ->
  (forall ts', length ts' < length ts -> rec ts' = rec' ts') -> pat_step rec ts = pat_step rec' ts.
Proof.
  intros Hs Hag. unfold pat_step.
  rewrite <- (single_pat_local rec rec' ts Hs Hag).
  destruct (single_pat rec ts) as [[p r]|] eqn:E; [|reflexivity].
  destruct (hd_is (is_p Bar) r) eqn:Eb; [|reflexivity].
  destruct r as [|t r']; [discriminate|].
  rewrite (bars_local rec rec' Hs (S (length (t :: r'))) (t :: r')); [reflexivity|].
  intros ts' H. apply Hag. side.
Qed.

Theorem pat_fuel_sufficient f ts : length ts < f -> pat_go f ts = parse_pat ts.
Proof. apply lparse_fuel; [apply pat_step_shrinks|apply pat_step_local]. Qed.
Lemma parse_pat_eq ts : parse_pat ts = pat_step parse_pat ts.
Proof. apply lparse_eq; [apply pat_step_shrinks|apply pat_step_local]. Qed.
Lemma parse_pat_shrinks : shrinks parse_pat.
Proof. apply lparse_shrinks. apply pat_step_shrinks. Qed.
#[export] Hint Resolve parse_pat_shrinks : shrinkdb.

(* ---- round trip *)
Definition no_lp (ts : list tok) : Prop := match ts with TP LParen :: _ => False | _ => True end.
Definition pat_fol (ts : list tok) : Prop := match ts with TP LParen :: _ | TP Bar :: _ => False | _ => True end.
Definition obj_fol (ts : list tok) : Prop :=
  match ts with TP LParen :: _ | TP Bar :: _ | TK KAs :: _ => False | _ => True end.

Definition pr_field (fp : nat * option pat) : list tok :=
  match fp with (f, None) => [TLow f] | (f, Some p) => TLow f :: TK KAs :: pr_pat p end.

Lemma pr_pat_obj fs : pr_pat (PObj fs) = TP LBrace :: commas (map pr_field fs) ++ [TP RBrace].
Proof. reflexivity. Qed.

Definition btails (ps : list pat) : list tok := flat_map (fun q => TP Bar :: pr_pat q) ps.
Lemma bar_sep_cons q qs : bar_sep (map pr_pat (q :: qs)) = pr_pat q ++ btails qs.
Proof.
  revert q. induction qs as [|y ys IH]; intros q.
  - cbn. rewrite app_nil_r. reflexivity.
  - change (bar_sep (map pr_pat (q :: y :: ys))) with (pr_pat q ++ TP Bar :: bar_sep (map pr_pat (y :: ys))).
    rewrite IH. reflexivity.
Qed.

Lemma pr_pat_head p : wf_pat p = true ->
  exists t l, pr_pat p = t :: l /\ is_p RParen t = false /\ is_p RBrace t = false /\ is_p Comma t = false.
Proof.
  revert p. fix IH 1. intros p Hw. destruct p as [|n|ps|fs|n d|ps]; cbn [pr_pat]; try (eexists _, _; repeat split; reflexivity).
  - destruct d; eexists _, _; repeat split; reflexivity.
  - destruct ps as [|q qs]; [discriminate Hw|]. cbn [wf_pat forallb] in Hw.
    rewrite !andb_true_iff in Hw. destruct Hw as (_ & (_ & Hq) & _).
    destruct (IH q Hq) as (t & l & E & H1 & H2 & H3). rewrite bar_sep_cons, E. cbn [app].
    eexists _, _; repeat split; eassumption.
Qed.

Lemma btails_length qs : length qs <= length (btails qs).
Proof. induction qs as [|q qs IH]; cbn [btails flat_map length]; [lia|]. rewrite app_length. fold (btails qs). cbn. lia. Qed.

Lemma bars_rt (rec : prec) : forall qs n tail, length qs < n -> pat_fol tail ->
  (forall q tl, In q qs -> no_lp tl -> single_pat rec (pr_pat q ++ tl) = Some (q, tl)) ->
  bars rec n (btails qs ++ tail) = Some (qs, tail).
Proof.
  induction qs as [|q qs IH]; intros n tail Hn Hf Hel; (destruct n; [cbn in Hn; lia|]).
  - cbn [btails flat_map app bars]. destruct tail as [|[k|p|x|x|z|s|o] tl]; try reflexivity. destruct p; try reflexivity. destruct Hf.
  - cbn [btails flat_map app bars]. rewrite <- app_assoc. fold (btails qs).
    rewrite (Hel q _ (or_introl eq_refl)).
    + rewrite (IH n tail); [reflexivity|cbn in Hn; lia|exact Hf|]. intros q' tl Hq. apply Hel. right. exact Hq.
    + destruct qs as [|q' qs']; cbn [btails flat_map app]; [|exact I].
      destruct tail as [|[k|p|x|x|z|s|o] tl]; try exact I. destruct p; try exact I. destruct Hf.
Qed.

Lemma pat_fol_no_lp ts : pat_fol ts -> no_lp ts.
Proof. destruct ts as [|[k|p|x|x|z|s|o] tl]; cbn; auto. destruct p; auto. Qed.
Lemma pat_fol_not_bar ts : pat_fol ts -> hd_is (is_p Bar) ts = false.
Proof. destruct ts as [|[k|p|x|x|z|s|o] tl]; cbn; auto. destruct p; cbn; auto; intros []. Qed.
Lemma no_lp_hd ts : no_lp ts -> hd_is (is_p LParen) ts = false.
Proof. destruct ts as [|[k|p|x|x|z|s|o] tl]; cbn; auto. destruct p; cbn; auto; intros []. Qed.

Lemma forallb_In {A} (f : A -> bool) l x : forallb f l = true -> In x l -> f x = true.
Proof. intros H Hi. rewrite forallb_forall in H. apply H. exact Hi. Qed.

Lemma tuple_pat_rt p ps tail :
  (forall y tl, In y (p :: ps) -> pat_fol tl -> parse_pat (pr_pat y ++ tl) = Some (y, tl)) ->
  (forall y, In y (p :: ps) -> wf_pat y = true) ->
  tuple_pat parse_pat (TP LParen :: commas (map pr_pat (p :: ps)) ++ TP RParen :: tail) = Some (p :: ps, tail).
Proof.
  intros Hel Hwf. unfold tuple_pat.
  rewrite (seplist_rt parse_pat (is_p RParen) pr_pat (fun x => x) pat_fol p ps _ (TP RParen) tail).
  - rewrite expect_same, map_id. reflexivity.
  - rewrite app_length, commas_cons, app_length. pose proof (tails_length pr_pat ps). cbn [length]. lia.
  - discriminate.
  - exact I.
  - intros l. exact I.
  - intros y Hy. destruct (pr_pat_head y (Hwf y (or_intror Hy))) as (t & l & E & H1 & _). exists t, l. split; assumption.
  - exact Hel.
Qed.

Theorem pat_roundtrip_gen : forall n p, pat_size p <= n -> wf_pat p = true ->
  (is_por p = false -> forall tail, no_lp tail -> single_pat parse_pat (pr_pat p ++ tail) = Some (p, tail))
  /\ (forall tail, pat_fol tail -> parse_pat (pr_pat p ++ tail) = Some (p, tail)).
Proof.
  induction n as [|n IH]; intros p Hsz Hw; [destruct p as [| | | |? []|]; cbn in Hsz; lia|].
  assert (Hfull : (is_por p = false -> forall tail, no_lp tail -> single_pat parse_pat (pr_pat p ++ tail) = Some (p, tail)) ->
                  is_por p = false -> forall tail, pat_fol tail -> parse_pat (pr_pat p ++ tail) = Some (p, tail)).
  { intros H1 Hp tail Hf. rewrite parse_pat_eq. unfold pat_step. rewrite (H1 Hp tail (pat_fol_no_lp _ Hf)).
    rewrite (pat_fol_not_bar _ Hf). reflexivity. }
  assert (Hsub : forall y l, In y l -> S (list_sum (map pat_size l)) <= S n -> wf_pat y = true ->
                 forall tl, pat_fol tl -> parse_pat (pr_pat y ++ tl) = Some (y, tl)).
  { intros y l Hy Hl Hwy. apply IH; [|exact Hwy]. pose proof (in_size_le pat_size y l Hy). lia. }
  destruct p as [|x|ps|fs|x d|ps].
  - split; [intros _ tail _; reflexivity|]. apply Hfull; [intros _ tail _|]; reflexivity.
  - split; [intros _ tail _; reflexivity|]. apply Hfull; [intros _ tail _|]; reflexivity.
  - (* tuple *)
    destruct ps as [|p ps]; [discriminate Hw|]. cbn [wf_pat negb andb] in Hw. cbn [pat_size] in Hsz.
    assert (H1 : forall tail, single_pat parse_pat (pr_pat (PTuple (p :: ps)) ++ tail) = Some (PTuple (p :: ps), tail)).
    { intros tail. cbn [pr_pat]. cbn [app]. rewrite <- app_assoc. cbn [app single_pat].
      rewrite tuple_pat_rt; [reflexivity| |].
      - intros y tl Hy. apply (Hsub y (p :: ps) Hy Hsz). exact (forallb_In _ _ _ Hw Hy).
      - intros y Hy. exact (forallb_In _ _ _ Hw Hy). }
    split; [intros _ tail _; apply H1|]. apply Hfull; [intros _ tail _; apply H1|reflexivity].
  - (* object *)
    destruct fs as [|fp fs]; [discriminate Hw|]. cbn [wf_pat negb andb] in Hw. cbn [pat_size] in Hsz.
    assert (H1 : forall tail, single_pat parse_pat (pr_pat (PObj (fp :: fs)) ++ tail) = Some (PObj (fp :: fs), tail)).
    { intros tail. rewrite pr_pat_obj. cbn [app]. rewrite <- app_assoc. cbn [app single_pat].
      rewrite (seplist_rt (obj_elem parse_pat) (is_p RBrace) pr_field (fun x => x) obj_fol fp fs _ (TP RBrace) tail).
      - rewrite expect_same, map_id. reflexivity.
      - rewrite app_length, commas_cons, app_length. pose proof (tails_length pr_field fs). cbn [length]. lia.
      - discriminate.
      - exact I.
      - intros l. exact I.
      - intros [f [q|]] Hy; eexists _, _; split; reflexivity.
      - intros [f [q|]] tl Hy Hf; cbn [pr_field app obj_elem hd_is].
        + rewrite expect_kw_same.
          assert (Hq : wf_pat q = true) by (exact (forallb_In _ _ _ Hw Hy)).
          assert (Hs : pat_size q <= n).
          { pose proof (in_size_le (fun fp => match snd fp with Some p => S (pat_size p) | None => 1 end) _ _ Hy) as Hle.
            cbn [snd] in Hle. lia. }
          destruct (IH q Hs Hq) as [_ H2]. rewrite H2; [reflexivity|].
          destruct tl as [|[k|p|x|x|z|s|o] tl']; try exact I; destruct p; try exact I; destruct Hf.
        + destruct tl as [|[k|p|x|x|z|s|o] tl']; try reflexivity. destruct k; try reflexivity. destruct Hf. }
    split; [intros _ tail _; apply H1|]. apply Hfull; [intros _ tail _; apply H1|reflexivity].
  - (* variant *)
    destruct d as [ps|].
    + destruct ps as [|p ps]; [discriminate Hw|]. cbn [wf_pat negb andb] in Hw. cbn [pat_size] in Hsz.
      assert (H1 : forall tail, single_pat parse_pat (pr_pat (PVar x (Some (p :: ps))) ++ tail) = Some (PVar x (Some (p :: ps)), tail)).
      { intros tail. cbn [pr_pat]. cbn [app]. rewrite <- app_assoc. cbn [app single_pat hd_is is_p punct_eqb].
        rewrite tuple_pat_rt; [reflexivity| |].
        - intros y tl Hy. apply (Hsub y (p :: ps) Hy Hsz). exact (forallb_In _ _ _ Hw Hy).
        - intros y Hy. exact (forallb_In _ _ _ Hw Hy). }
      split; [intros _ tail _; apply H1|]. apply Hfull; [intros _ tail _; apply H1|reflexivity].
    + assert (H1 : forall tail, no_lp tail -> single_pat parse_pat (pr_pat (PVar x None) ++ tail) = Some (PVar x None, tail)).
      { intros tail Hnl. cbn [pr_pat app single_pat]. rewrite (no_lp_hd _ Hnl). reflexivity. }
      split; [intros _; exact H1|]. apply Hfull; [intros _; exact H1|reflexivity].
  - (* or *)
    split; [discriminate|]. intros tail Hf.
    destruct ps as [|q qs]; [discriminate Hw|]. cbn [wf_pat] in Hw. rewrite andb_true_iff in Hw. destruct Hw as [Hlen Hall].
    cbn [pat_size] in Hsz.
    assert (Hq : forall y, In y (q :: qs) -> forall tl, no_lp tl -> single_pat parse_pat (pr_pat y ++ tl) = Some (y, tl)).
    { intros y Hy. pose proof (forallb_In _ _ _ Hall Hy) as Hy'. cbn beta in Hy'. rewrite andb_true_iff, negb_true_iff in Hy'.
      destruct Hy' as [Hnor Hwy]. pose proof (in_size_le pat_size y _ Hy) as Hle.
      destruct (IH y ltac:(lia) Hwy) as [H1 _]. exact (H1 Hnor). }
    destruct qs as [|q2 qs]; [cbn in Hlen; discriminate|].
    rewrite parse_pat_eq. unfold pat_step. cbn [pr_pat]. rewrite bar_sep_cons, <- app_assoc.
    rewrite (Hq q (or_introl eq_refl)); [|exact I].
    cbn [btails flat_map app hd_is is_p punct_eqb]. fold (btails qs).
    change (TP Bar :: pr_pat q2 ++ btails qs) with (btails (q2 :: qs)).
    change (TP Bar :: (pr_pat q2 ++ btails qs) ++ tail) with (btails (q2 :: qs) ++ tail).
    rewrite bars_rt; [reflexivity| |exact Hf|].
    + rewrite app_length. pose proof (btails_length (q2 :: qs)). lia.
    + intros y tl Hy. apply Hq. right. exact Hy.
Qed.

Theorem pattern_roundtrip p rest : wf_pat p = true -> pat_fol rest -> parse_pat (pr_pat p ++ rest) = Some (p, rest).
Proof. intros Hw Hf. destruct (pat_roundtrip_gen (pat_size p) p (le_n _) Hw) as [_ H]. exact (H rest Hf). Qed.

Theorem annot_roundtrip' tps a rest : not_lt rest -> parse_annot tps (pr_annot a ++ rest) = Some (canon tps a, rest).
Proof. apply (annot_roundtrip tps (annot_size a)). apply le_n. Qed.
