(* C08 — syntax of the FULL model (steps 1-3 of the extension): tokens as the lexer hands them to the
   parser, type annotations, patterns, expressions with statements, declarations, modules.
   Definitions only.

   Code mirrored: crates/samlang-ast/src/source.rs (annotation::T, pattern::MatchingPattern, expr::E,
   expr::Statement, ClassMemberDeclaration, InterfaceDeclarationCommon, TypeDefinition, ModuleMembersImport,
   Module) with locations, comment references and checker-filled fields (types, field_order, tag_order,
   captured, inferred type arguments) left out.  Names are numbers.  Module references of class ids are
   NOT stored in the tree: `resolve_class` is a pure function of the import list (FModel.resolve). *)
From Coq Require Import List Arith Bool NArith ZArith.
Import ListNotations.
From SV Require Import C08.Syntax.

(* ------------------------------------------------------------------ tokens *)
Inductive kw := KIf | KElse | KMatch | KLet | KAs | KVal | KPrivate | KFunction | KMethod | KClass | KInterface
              | KImport | KFrom | KUnit | KBool | KInt | KTrue | KFalse | KThis.
Inductive punct := LParen | RParen | LBrace | RBrace | Dot | Comma | Arrow | Colon | Semi | Assign | Bar | Under | Bang.
(* TOp Minus is `-` (binary and unary), TOp Lt / TOp Gt are also the brackets of type arguments.
   TInt z: an IntLiteral token whose text denotes z (0..2147483647, or -2147483648 for the merged token);
   TStr s: a StringLiteral token, s = the text between the quotes (still escaped). *)
Inductive tok := TK (k : kw) | TP (p : punct) | TLow (n : nat) | TUp (n : nat) | TInt (z : Z) | TStr (s : list N) | TOp (o : bop).

(* ------------------------------------------------------------------ trees *)
Inductive prim := PUnit | PBool | PInt.

Inductive annot :=
| APrim (k : prim)
| AId (n : nat) (tas : list annot)          (* [] = no type arguments *)
| AGen (n : nat)                            (* a name in available_tparams *)
| AFn (ps : list annot) (r : annot).

Inductive pat :=
| PWild
| PId (n : nat)
| PTuple (ps : list pat)
| PObj (fs : list (nat * option pat))       (* None: shorthand `f`; Some p: `f as p` *)
| PVar (n : nat) (d : option (list pat))    (* Tag / Tag(p, ..) *)
| POr (ps : list pat).

Inductive lit := LInt (z : Z) | LStr (s : list N) | LBool (b : bool).

Inductive fexpr :=
| XLit (l : lit)
| XId (n : nat)
| XThis
| XCls (n : nat)
| XTuple (es : list fexpr)
| XField (e : fexpr) (up : bool) (f : nat) (tas : list annot)   (* e.f / e.F with explicit type arguments *)
| XCall (e : fexpr) (args : list fexpr)
| XUn (u : uop) (e : fexpr)
| XBin (o : bop) (a b : fexpr)
| XIf (g : option pat) (c : fexpr) (b1 : fexpr) (e2 : fexpr)   (* b1 is an XBlock, e2 an XBlock or an XIf *)
| XMatch (s : fexpr) (arms : list (pat * fexpr))
| XLam (ps : list (nat * option annot)) (b : fexpr)
| XBlock (ss : list (option (pat * option annot) * fexpr)) (r : option fexpr).
        (* statement: (Some (p, a), e) is `let p: a = e;`, (None, e) is `e;` *)

Definition stmt := (option (pat * option annot) * fexpr)%type.
Definition arm := (pat * fexpr)%type.

(* declarations *)
Definition tparam := (nat * option (nat * list annot))%type.          (* T / T: Bound<targs> *)
Definition superty := (nat * list annot)%type.                        (* annotation::Id *)
Record member := { m_public : bool; m_method : bool; m_name : nat; m_tparams : list tparam;
                   m_params : list (nat * annot); m_ret : annot }.
Inductive typedef := TDNone | TDStruct (fs : list (bool * nat * annot)) | TDEnum (vs : list (nat * list annot)).
        (* struct field: (is_public, name, type); enum variant: (name, data types, [] = none) *)
Inductive toplevel :=
| TInterface (priv : bool) (name : nat) (tps : list tparam) (supers : list superty) (ms : list member)
| TClass (priv : bool) (name : nat) (tps : list tparam) (td : typedef) (supers : list superty) (ms : list (member * fexpr)).
Definition modname := list (bool * nat).                              (* parts: (upper?, name) *)
Definition import := (list nat * modname)%type.                       (* import { A, B } from a.b *)
Definition module := (list import * list toplevel)%type.

(* ------------------------------------------------------------------ decidable equality (used by FCorr) *)
Definition list_eqb {A} (eq : A -> A -> bool) : list A -> list A -> bool :=
  fix go l1 l2 := match l1, l2 with
                  | [], [] => true
                  | x :: l1', y :: l2' => eq x y && go l1' l2'
                  | _, _ => false
                  end.
Definition opt_eqb {A} (eq : A -> A -> bool) (a b : option A) : bool :=
  match a, b with Some x, Some y => eq x y | None, None => true | _, _ => false end.
Definition pair_eqb {A B} (ea : A -> A -> bool) (eb : B -> B -> bool) (a b : A * B) : bool :=
  ea (fst a) (fst b) && eb (snd a) (snd b).

Definition prim_eqb (a b : prim) : bool :=
  match a, b with PUnit, PUnit | PBool, PBool | PInt, PInt => true | _, _ => false end.
Definition uop_eqb (a b : uop) : bool := match a, b with Not, Not | Neg, Neg => true | _, _ => false end.

Fixpoint annot_eqb (a b : annot) : bool :=
  match a, b with
  | APrim k, APrim k' => prim_eqb k k'
  | AId n l, AId n' l' => Nat.eqb n n' && list_eqb annot_eqb l l'
  | AGen n, AGen n' => Nat.eqb n n'
  | AFn l r, AFn l' r' => list_eqb annot_eqb l l' && annot_eqb r r'
  | _, _ => false
  end.

Fixpoint pat_eqb (a b : pat) : bool :=
  match a, b with
  | PWild, PWild => true
  | PId n, PId n' => Nat.eqb n n'
  | PTuple l, PTuple l' => list_eqb pat_eqb l l'
  | PObj l, PObj l' =>
      list_eqb (fun x y => match x, y with (f, p), (f', p') => Nat.eqb f f' && opt_eqb pat_eqb p p' end) l l'
  | PVar n d, PVar n' d' => Nat.eqb n n' && opt_eqb (list_eqb pat_eqb) d d'
  | POr l, POr l' => list_eqb pat_eqb l l'
  | _, _ => false
  end.

Definition nstr_eqb : list N -> list N -> bool := list_eqb N.eqb.
Definition lit_eqb (a b : lit) : bool :=
  match a, b with
  | LInt z, LInt z' => Z.eqb z z'
  | LStr s, LStr s' => nstr_eqb s s'
  | LBool x, LBool y => Bool.eqb x y
  | _, _ => false
  end.

Definition binder_eqb (x y : option (pat * option annot)) : bool :=
  opt_eqb (pair_eqb pat_eqb (opt_eqb annot_eqb)) x y.

Fixpoint fexpr_eqb (a b : fexpr) : bool :=
  match a, b with
  | XLit l, XLit l' => lit_eqb l l'
  | XId n, XId n' => Nat.eqb n n'
  | XThis, XThis => true
  | XCls n, XCls n' => Nat.eqb n n'
  | XTuple l, XTuple l' => list_eqb fexpr_eqb l l'
  | XField e u f t, XField e' u' f' t' => fexpr_eqb e e' && Bool.eqb u u' && Nat.eqb f f' && list_eqb annot_eqb t t'
  | XCall e l, XCall e' l' => fexpr_eqb e e' && list_eqb fexpr_eqb l l'
  | XUn u e, XUn u' e' => uop_eqb u u' && fexpr_eqb e e'
  | XBin o x y, XBin o' x' y' => bop_eqb o o' && fexpr_eqb x x' && fexpr_eqb y y'
  | XIf g c x y, XIf g' c' x' y' => opt_eqb pat_eqb g g' && fexpr_eqb c c' && fexpr_eqb x x' && fexpr_eqb y y'
  | XMatch s l, XMatch s' l' =>
      fexpr_eqb s s' && list_eqb (fun x y => match x, y with (p, e), (p', e') => pat_eqb p p' && fexpr_eqb e e' end) l l'
  | XLam ps e, XLam ps' e' => list_eqb (pair_eqb Nat.eqb (opt_eqb annot_eqb)) ps ps' && fexpr_eqb e e'
  | XBlock ss r, XBlock ss' r' =>
      list_eqb (fun x y => match x, y with (bd, e), (bd', e') => binder_eqb bd bd' && fexpr_eqb e e' end) ss ss'
      && opt_eqb fexpr_eqb r r'
  | _, _ => false
  end.

Definition kw_eqb (a b : kw) : bool :=
  match a, b with
  | KIf, KIf | KElse, KElse | KMatch, KMatch | KLet, KLet | KAs, KAs | KVal, KVal | KPrivate, KPrivate
  | KFunction, KFunction | KMethod, KMethod | KClass, KClass | KInterface, KInterface | KImport, KImport
  | KFrom, KFrom | KUnit, KUnit | KBool, KBool | KInt, KInt | KTrue, KTrue | KFalse, KFalse | KThis, KThis => true
  | _, _ => false
  end.
Definition punct_eqb (a b : punct) : bool :=
  match a, b with
  | LParen, LParen | RParen, RParen | LBrace, LBrace | RBrace, RBrace | Dot, Dot | Comma, Comma | Arrow, Arrow
  | Colon, Colon | Semi, Semi | Assign, Assign | Bar, Bar | Under, Under | Bang, Bang => true
  | _, _ => false
  end.
Definition ftok_eqb (a b : tok) : bool :=
  match a, b with
  | TK k, TK k' => kw_eqb k k'
  | TP p, TP p' => punct_eqb p p'
  | TLow n, TLow n' | TUp n, TUp n' => Nat.eqb n n'
  | TInt z, TInt z' => Z.eqb z z'
  | TStr s, TStr s' => nstr_eqb s s'
  | TOp o, TOp o' => bop_eqb o o'
  | _, _ => false
  end.
Definition ftoks_eqb : list tok -> list tok -> bool := list_eqb ftok_eqb.

Definition tparam_eqb : tparam -> tparam -> bool :=
  pair_eqb Nat.eqb (opt_eqb (pair_eqb Nat.eqb (list_eqb annot_eqb))).
Definition superty_eqb : superty -> superty -> bool := pair_eqb Nat.eqb (list_eqb annot_eqb).
Definition member_eqb (a b : member) : bool :=
  Bool.eqb (m_public a) (m_public b) && Bool.eqb (m_method a) (m_method b) && Nat.eqb (m_name a) (m_name b)
  && list_eqb tparam_eqb (m_tparams a) (m_tparams b)
  && list_eqb (pair_eqb Nat.eqb annot_eqb) (m_params a) (m_params b) && annot_eqb (m_ret a) (m_ret b).
Definition typedef_eqb (a b : typedef) : bool :=
  match a, b with
  | TDNone, TDNone => true
  | TDStruct l, TDStruct l' => list_eqb (pair_eqb (pair_eqb Bool.eqb Nat.eqb) annot_eqb) l l'
  | TDEnum l, TDEnum l' => list_eqb (pair_eqb Nat.eqb (list_eqb annot_eqb)) l l'
  | _, _ => false
  end.
Definition toplevel_eqb (a b : toplevel) : bool :=
  match a, b with
  | TInterface p n t s m, TInterface p' n' t' s' m' =>
      Bool.eqb p p' && Nat.eqb n n' && list_eqb tparam_eqb t t' && list_eqb superty_eqb s s' && list_eqb member_eqb m m'
  | TClass p n t d s m, TClass p' n' t' d' s' m' =>
      Bool.eqb p p' && Nat.eqb n n' && list_eqb tparam_eqb t t' && typedef_eqb d d' && list_eqb superty_eqb s s'
      && list_eqb (pair_eqb member_eqb fexpr_eqb) m m'
  | _, _ => false
  end.
Definition modname_eqb : modname -> modname -> bool := list_eqb (pair_eqb Bool.eqb Nat.eqb).
Definition import_eqb : import -> import -> bool := pair_eqb (list_eqb Nat.eqb) modname_eqb.
Definition module_eqb : module -> module -> bool := pair_eqb (list_eqb import_eqb) (list_eqb toplevel_eqb).
