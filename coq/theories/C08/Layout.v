(* C08 — model, part 2: the layout engine of crates/samlang-printer/src/prettier.rs
   (Document, flatten, group, concat, bracket_flexible, generate_best_doc, pretty_print).
   Characters are Unicode code points (N); `consumed` counts UTF-8 bytes as `str::len` does.
   Definitions only. *)
From Coq Require Import List Arith Bool NArith.
Import ListNotations.

Notation str := (list N).

Inductive doc :=
| Nil
| Concat (a b : doc)
| Nest (n : nat) (d : doc)
| Text (s : str)          (* Text and NonStaticText *)
| Line                    (* a space when flattened *)
| LineNil                 (* LineFlattenToNil: nothing when flattened *)
| LineHard
| Union (a b : doc).

(* char::is_whitespace (Unicode White_Space) -- what trim_end removes *)
Definition is_ws (c : N) : bool :=
  ((9 <=? c) && (c <=? 13) || (c =? 32) || (c =? 133) || (c =? 160) || (c =? 5760)
   || ((8192 <=? c) && (c <=? 8202)) || (c =? 8232) || (c =? 8233) || (c =? 8239) || (c =? 8287)
   || (c =? 12288))%N.

Definition utf8_len (c : N) : nat :=
  if (c <? 128)%N then 1 else if (c <? 2048)%N then 2 else if (c <? 65536)%N then 3 else 4.
Definition blen (s : str) : nat := fold_right (fun c n => utf8_len c + n) 0 s.

(* ---- flatten / group / concat / brackets *)
Fixpoint flatten (d : doc) : option doc :=
  match d with
  | Nil => Some Nil
  | Concat a b => match flatten a, flatten b with Some a', Some b' => Some (Concat a' b') | _, _ => None end
  | Nest n d => option_map (Nest n) (flatten d)
  | Text s => Some (Text s)
  | Line => Some (Text [32%N])
  | LineNil => Some Nil
  | LineHard => None
  | Union a _ => flatten a
  end.

Definition group (d : doc) : doc := match flatten d with Some f => Union f d | None => d end.

(* Document::concat: right-nested, Nil for the empty vector *)
Fixpoint concat (ds : list doc) : doc :=
  match ds with
  | [] => Nil
  | [d] => d
  | d :: ds' => Concat d (concat ds')
  end.

Definition bracket_flexible (l : str) (sep d : doc) (r : str) : doc :=
  group (concat [Text l; Nest 2 (Concat sep d); sep; Text r]).

(* ---- generate_best_doc *)
Inductive ltok := TText (s : str) | TLine (indent : nat) (hard : bool).
Inductive res := Fits (ts : list ltok) | NoFit | OutOfFuel.

(* `acc` is the collector, newest token first *)
Fixpoint gbd (fuel w consumed : nat) (enforce : bool) (l : list (nat * doc)) (acc : list ltok) : res :=
  match fuel with
  | O => OutOfFuel
  | S f =>
      if enforce && (w <? consumed) then NoFit
      else
        match l with
        | [] => Fits (rev acc)
        | (i, d) :: rest =>
            match d with
            | Nil => gbd f w consumed enforce rest acc
            | Concat a b => gbd f w consumed enforce ((i, a) :: (i, b) :: rest) acc
            | Nest n d' => gbd f w consumed enforce ((i + n, d') :: rest) acc
            | Text s => gbd f w (consumed + blen s) enforce rest (TText s :: acc)
            | Line | LineNil => gbd f w i false rest (TLine i false :: acc)
            | LineHard => gbd f w i false rest (TLine i true :: acc)
            | Union a b =>
                match gbd f w consumed true ((i, a) :: rest) acc with
                | Fits ts => Fits ts
                | NoFit => gbd f w consumed enforce ((i, b) :: rest) acc
                | OutOfFuel => OutOfFuel
                end
            end
        end
  end.

Fixpoint size (d : doc) : nat :=
  match d with
  | Concat a b | Union a b => 1 + size a + size b
  | Nest _ d => 1 + size d
  | _ => 1
  end.
Definition work_size (l : list (nat * doc)) : nat := fold_right (fun p n => size (snd p) + n) 0 l.

(* ---- the string builder of pretty_print; `sb` is the string built so far, REVERSED *)
Fixpoint dropwhile (f : N -> bool) (l : str) : str :=
  match l with
  | [] => []
  | c :: l' => if f c then dropwhile f l' else l
  end.
Definition trim_end (l : str) : str := rev (dropwhile is_ws (rev l)).

Fixpoint build (ts : list ltok) (sb : str) (prev_hard : bool) : str :=
  match ts with
  | [] => sb
  | TText s :: ts' => build ts' (rev s ++ sb) false
  | TLine indent hard :: ts' =>
      let sb1 := if negb hard && prev_hard then dropwhile is_ws sb else sb in
      build ts' (repeat 32%N indent ++ 10%N :: sb1) hard
  end.

Fixpoint split_nl (cur : str) (l : str) : list str :=
  match l with
  | [] => [rev cur]
  | c :: l' => if (c =? 10)%N then rev cur :: split_nl [] l' else split_nl (c :: cur) l'
  end.

Fixpoint join_nl (ls : list str) : str :=
  match ls with
  | [] => []
  | [l] => l
  | l :: ls' => l ++ 10%N :: join_nl ls'
  end.

Definition post (built : str) : str :=
  let t := trim_end (join_nl (map trim_end (split_nl [] built))) in
  match t with [] => [] | _ => t ++ [10%N] end.

Definition render_fuel (fuel w : nat) (d : doc) : option str :=
  match gbd fuel w 0 false [(0, d)] [] with
  | Fits ts => Some (post (rev (build ts [] false)))
  | _ => None
  end.

(* pretty_print(available_width, document) *)
Definition render (w : nat) (d : doc) : str :=
  match render_fuel (S (S (size d))) w d with Some s => s | None => [] end.

(* ---- content: the non-blank characters *)
Definition visible (s : str) : str := filter (fun c => negb (is_ws c)) s.

Fixpoint content (d : doc) : str :=
  match d with
  | Nil | Line | LineNil | LineHard => []
  | Concat a b => content a ++ content b
  | Nest _ d => content d
  | Text s => visible s
  | Union a _ => content a
  end.

(* every choice point offers two layouts of the same text *)
Fixpoint wf (d : doc) : Prop :=
  match d with
  | Concat a b => wf a /\ wf b
  | Nest _ d => wf d
  | Union a b => wf a /\ wf b /\ content a = content b
  | _ => True
  end.

Fixpoint wfb (d : doc) : bool :=
  match d with
  | Concat a b => wfb a && wfb b
  | Nest _ d => wfb d
  | Union a b => wfb a && wfb b && (if list_eq_dec N.eq_dec (content a) (content b) then true else false)
  | _ => true
  end.
