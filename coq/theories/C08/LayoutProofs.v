(* C08 — proofs, part 3: the layout engine never changes the non-blank content of a document,
   whatever the width; the fuel used by `render` is sufficient. *)
From Coq Require Import List Arith Bool NArith Lia.
Import ListNotations.
From SV Require Import C08.Layout.

Definition tok_content (t : ltok) : str := match t with TText s => visible s | TLine _ _ => [] end.
Definition toks_content (ts : list ltok) : str := flat_map tok_content ts.
Definition work_content (l : list (nat * doc)) : str := flat_map (fun p => content (snd p)) l.

Lemma toks_content_app a b : toks_content (a ++ b) = toks_content a ++ toks_content b.
Proof. unfold toks_content. now rewrite flat_map_app. Qed.

Lemma visible_app a b : visible (a ++ b) = visible a ++ visible b.
Proof. unfold visible. apply filter_app. Qed.

Definition wfl (l : list (nat * doc)) : Prop := Forall (fun p => wf (snd p)) l.
Lemma wfl_cons i d l : wf d -> wfl l -> wfl ((i, d) :: l).
Proof. intros H1 H2. constructor; auto. Qed.

Theorem gbd_preserves_content : forall fuel w c e l acc ts,
  wfl l -> gbd fuel w c e l acc = Fits ts -> toks_content ts = toks_content (rev acc) ++ work_content l.
Proof.
  induction fuel as [|fuel IH]; intros w c e l acc ts Hwf H; [discriminate|].
  cbn [gbd] in H. destruct (e && (w <? c)); [discriminate|].
  destruct l as [|[i d] rest].
  - inversion H; subst. cbn. now rewrite app_nil_r.
  - inversion Hwf as [|? ? Hd Hrest]; subst. cbn [snd] in Hd.
    destruct d as [|a b|n d'|s| | | |a b]; cbn [work_content flat_map snd content].
    + apply (IH _ _ _ _ _ _ Hrest H).
    + destruct Hd as [Ha Hb].
      rewrite (IH _ _ _ _ _ _ (wfl_cons _ _ _ Ha (wfl_cons _ _ _ Hb Hrest)) H).
      unfold work_content. cbn [flat_map snd]. rewrite <- !app_assoc. reflexivity.
    + cbn [wf] in Hd. rewrite (IH _ _ _ _ _ _ (wfl_cons _ _ _ Hd Hrest) H). reflexivity.
    + rewrite (IH _ _ _ _ _ _ Hrest H). cbn [rev]. rewrite toks_content_app. cbn. rewrite app_nil_r, <- app_assoc. reflexivity.
    + rewrite (IH _ _ _ _ _ _ Hrest H). cbn [rev]. rewrite toks_content_app. cbn. now rewrite app_nil_r.
    + rewrite (IH _ _ _ _ _ _ Hrest H). cbn [rev]. rewrite toks_content_app. cbn. now rewrite app_nil_r.
    + rewrite (IH _ _ _ _ _ _ Hrest H). cbn [rev]. rewrite toks_content_app. cbn. now rewrite app_nil_r.
    + destruct Hd as [Ha [Hb Hab]].
      destruct (gbd fuel w c true ((i, a) :: rest) acc) as [ts'| |] eqn:E; [|clear E|discriminate].
      * inversion H; subst ts'. rewrite (IH _ _ _ _ _ _ (wfl_cons _ _ _ Ha Hrest) E). reflexivity.
      * rewrite (IH _ _ _ _ _ _ (wfl_cons _ _ _ Hb Hrest) H). cbn [work_content flat_map snd]. now rewrite Hab.
Qed.

(* the top-level call never answers "does not fit" *)
Lemma gbd_no_enforce_fits : forall fuel w c l acc, gbd fuel w c false l acc <> NoFit.
Proof.
  induction fuel as [|fuel IH]; intros w c l acc; cbn [gbd]; [discriminate|].
  cbn [andb]. destruct l as [|[i d] rest]; [discriminate|].
  destruct d; try apply IH.
  destruct (gbd fuel w c true ((i, d1) :: rest) acc); [discriminate|apply IH|discriminate].
Qed.

Lemma size_pos d : 1 <= size d.
Proof. destruct d; cbn; lia. Qed.

Lemma gbd_fuel_sufficient : forall fuel w c e l acc, work_size l < fuel -> gbd fuel w c e l acc <> OutOfFuel.
Proof.
  induction fuel as [|fuel IH]; intros w c e l acc Hlt; [lia|].
  cbn [gbd]. destruct (e && (w <? c)); [discriminate|].
  destruct l as [|[i d] rest]; [discriminate|].
  cbn [work_size fold_right snd] in Hlt. fold (work_size rest) in Hlt.
  destruct d as [|a b|n d'|s| | | |a b]; cbn [size] in Hlt;
    try (apply IH; cbn [work_size fold_right snd]; fold (work_size rest); lia).
  destruct (gbd fuel w c true ((i, a) :: rest) acc) eqn:E; [discriminate| |].
  - apply IH. cbn [work_size fold_right snd]; fold (work_size rest). lia.
  - exfalso. revert E. apply IH. cbn [work_size fold_right snd]; fold (work_size rest). lia.
Qed.

Lemma render_fuel_total w d : exists s, render_fuel (S (S (size d))) w d = Some s.
Proof.
  unfold render_fuel.
  destruct (gbd (S (S (size d))) w 0 false [(0, d)] []) eqn:E.
  - eexists. reflexivity.
  - exfalso. revert E. apply gbd_no_enforce_fits.
  - exfalso. revert E. apply gbd_fuel_sufficient. cbn. lia.
Qed.

(* ---- the string builder only adds and removes blanks *)
Lemma visible_dropwhile l : visible (rev (dropwhile is_ws l)) = visible (rev l).
Proof.
  induction l as [|c l IH]; [reflexivity|]. cbn [dropwhile].
  destruct (is_ws c) eqn:E; [|reflexivity].
  rewrite IH. cbn [rev]. rewrite visible_app. cbn. rewrite E. cbn. now rewrite app_nil_r.
Qed.

Lemma visible_trim_end l : visible (trim_end l) = visible l.
Proof. unfold trim_end. rewrite visible_dropwhile, rev_involutive. reflexivity. Qed.

Lemma visible_repeat_space n : visible (repeat 32%N n) = [].
Proof. induction n; cbn; auto. Qed.

Lemma visible_rev l : visible (rev l) = rev (visible l).
Proof.
  induction l as [|c l IH]; [reflexivity|]. cbn [rev]. rewrite visible_app, IH. cbn.
  destruct (is_ws c); cbn; [now rewrite app_nil_r|reflexivity].
Qed.

Lemma build_content : forall ts sb ph, visible (rev (build ts sb ph)) = visible (rev sb) ++ toks_content ts.
Proof.
  induction ts as [|t ts IH]; intros sb ph; cbn [build].
  - cbn. now rewrite app_nil_r.
  - destruct t as [s|ind hard].
    + rewrite IH. rewrite rev_app_distr, rev_involutive, visible_app. cbn [toks_content flat_map tok_content].
      now rewrite app_assoc.
    + rewrite IH. cbn [toks_content flat_map tok_content app].
      f_equal. rewrite rev_app_distr. cbn [rev]. rewrite !visible_app.
      rewrite (visible_rev (repeat 32%N ind)), visible_repeat_space.
      change (visible [10%N]) with (@nil N). cbn [rev]. rewrite !app_nil_r.
      destruct (negb hard && ph); [apply visible_dropwhile|reflexivity].
Qed.

Lemma split_nl_content : forall l cur, visible (flat_map (fun x => x) (split_nl cur l)) = visible (rev cur ++ l).
Proof.
  induction l as [|c l IH]; intros cur; cbn [split_nl].
  - cbn. now rewrite !app_nil_r.
  - destruct (N.eqb_spec c 10) as [->|Hne].
    + cbn [flat_map]. rewrite !visible_app, IH. cbn. reflexivity.
    + rewrite IH. cbn [rev]. rewrite <- app_assoc. reflexivity.
Qed.

Lemma join_nl_content : forall ls, visible (join_nl ls) = visible (flat_map (fun x => x) ls).
Proof.
  induction ls as [|l ls IH]; [reflexivity|]. cbn [join_nl flat_map].
  destruct ls as [|l2 ls'].
  - cbn. now rewrite app_nil_r.
  - rewrite !visible_app. cbn [visible filter]. change (is_ws 10%N) with true. cbn [negb].
    fold (visible (join_nl (l2 :: ls'))). rewrite IH. reflexivity.
Qed.

Lemma map_trim_content : forall ls, visible (flat_map (fun x => x) (map trim_end ls)) = visible (flat_map (fun x => x) ls).
Proof.
  induction ls as [|l ls IH]; [reflexivity|]. cbn [map flat_map]. rewrite !visible_app, visible_trim_end, IH. reflexivity.
Qed.

Lemma post_content s : visible (post s) = visible s.
Proof.
  unfold post.
  assert (H : visible (trim_end (join_nl (map trim_end (split_nl [] s)))) = visible s).
  { rewrite visible_trim_end, join_nl_content, map_trim_content, split_nl_content. reflexivity. }
  destruct (trim_end (join_nl (map trim_end (split_nl [] s)))) as [|c t] eqn:E.
  - exact H.
  - rewrite visible_app, H. cbn. now rewrite app_nil_r.
Qed.

(* ---- the theorem: for every width, the rendering has exactly the document's non-blank content *)
Theorem layout_preserves_tokens : forall w d, wf d -> visible (render w d) = content d.
Proof.
  intros w d Hwf. unfold render. destruct (render_fuel_total w d) as [s Hs]. rewrite Hs.
  unfold render_fuel in Hs.
  destruct (gbd (S (S (size d))) w 0 false [(0, d)] []) as [ts| |] eqn:E; try discriminate.
  inversion Hs; subst s. rewrite post_content, build_content. cbn [rev visible filter app].
  rewrite (gbd_preserves_content _ _ _ _ _ _ _ (wfl_cons 0 _ _ Hwf (Forall_nil _)) E).
  cbn. now rewrite app_nil_r.
Qed.

Corollary layout_width_independent : forall w1 w2 d, wf d -> visible (render w1 d) = visible (render w2 d).
Proof. intros. rewrite !layout_preserves_tokens by assumption. reflexivity. Qed.

(* ---- flatten / group keep content and well-formedness, so documents built with the
        combinators of prettier.rs satisfy the hypothesis *)
Lemma flatten_content d : forall f, flatten d = Some f -> content f = content d /\ (wf d -> wf f).
Proof.
  induction d; intros f H; cbn in H; try (inversion H; subst; cbn; auto; fail).
  - destruct (flatten d1) as [a'|]; [|discriminate]. destruct (flatten d2) as [b'|]; [|discriminate].
    inversion H; subst. destruct (IHd1 _ eq_refl), (IHd2 _ eq_refl). cbn. split; [congruence|tauto].
  - destruct (flatten d) as [d'|]; [|discriminate]. inversion H; subst. destruct (IHd _ eq_refl). cbn. auto.
  - destruct (IHd1 _ H). cbn. split; [auto|tauto].
Qed.

Theorem group_wf d : wf d -> wf (group d).
Proof.
  intros H. unfold group. destruct (flatten d) as [f|] eqn:E; auto.
  destruct (flatten_content d f E) as [Hc Hw]. cbn. auto.
Qed.

Lemma group_content d : content (group d) = content d.
Proof. unfold group. destruct (flatten d) as [f|] eqn:E; auto. cbn. apply (flatten_content d f E). Qed.

Lemma concat_wf ds : Forall wf ds -> wf (concat ds).
Proof.
  induction ds as [|d ds IH]; intros H; [exact I|]. inversion H; subst.
  destruct ds as [|d2 ds']; [assumption|]. change (wf d /\ wf (concat (d2 :: ds'))). split; auto.
Qed.

Theorem bracket_flexible_wf l sep d r : wf sep -> wf d -> wf (bracket_flexible l sep d r).
Proof.
  intros Hs Hd. unfold bracket_flexible. apply group_wf. apply concat_wf.
  repeat constructor; cbn; auto.
Qed.

Lemma wfb_wf d : wfb d = true -> wf d.
Proof.
  induction d; cbn; intros H; auto.
  - apply andb_prop in H. destruct H. split; auto.
  - apply andb_prop in H. destruct H as [H Hc]. apply andb_prop in H. destruct H.
    destruct (list_eq_dec N.eq_dec (content d1) (content d2)); [|discriminate]. repeat split; auto.
Qed.
