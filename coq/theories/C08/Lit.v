(* C08 — model, part 3: literals.
   String literals: lexer.rs lex_str_lit_opt (closing quote = first quote preceded by an even number
   of backslashes, no newline), source_parser.rs unescape_quotes (`\"` -> `"`, nothing else),
   source_printer.rs `"` ++ s with every quote re-escaped ++ `"`.
   Int literals: lexer.rs TokenProducer::process_raw_token (the 32-bit gate and the `-` merge),
   source_parser.rs `parse::<i32>().unwrap_or(0)`, printer `i.to_string()`.
   Definitions only. *)
From Coq Require Import NArith ZArith String DecimalString DecimalZ Decimal.
From Coq Require Import List Arith Bool.
Import ListNotations.

Notation str := (list N).
Definition QUOTE : N := 34. Definition BSLASH : N := 92. Definition NL : N := 10.

(* scanning the interior of a string literal: `odd` = an odd number of backslashes immediately
   precedes the current position; `acc` = interior read so far, reversed.
   Result: (interior, rest after the closing quote). *)
Fixpoint scan (l : str) (odd : bool) (acc : str) : option (str * str) :=
  match l with
  | [] => None
  | c :: l' =>
      if (c =? QUOTE)%N then (if odd then scan l' false (c :: acc) else Some (rev acc, l'))
      else if (c =? NL)%N then None
      else scan l' (if (c =? BSLASH)%N then negb odd else false) (c :: acc)
  end.

(* lex_str_lit_opt on text that starts with a quote *)
Definition lex_str (l : str) : option (str * str) :=
  match l with
  | c :: l' => if (c =? QUOTE)%N then scan l' false [] else None
  | [] => None
  end.

(* unescape_quotes: source.replace("\\\"", "\"") *)
Fixpoint unescape (l : str) : str :=
  match l with
  | [] => []
  | c :: l' =>
      match l' with
      | d :: l'' => if ((c =? BSLASH) && (d =? QUOTE))%N then QUOTE :: unescape l'' else c :: unescape l'
      | [] => [c]
      end
  end.

(* the printer (7ab5ea6): `"` ++ s.replace('"', "\\\"") ++ `"` *)
Fixpoint escape (s : str) : str :=
  match s with
  | [] => []
  | c :: s' => if (c =? QUOTE)%N then BSLASH :: QUOTE :: escape s' else c :: escape s'
  end.
Definition print_str (s : str) : str := QUOTE :: escape s ++ [QUOTE].
(* the printer before the repair, kept for the regression example *)
Definition print_str_pinned (s : str) : str := QUOTE :: s ++ [QUOTE].

(* a raw literal interior the lexer walks over completely: no newline, every quote preceded by an odd
   run of backslashes; the result is the parity of the run of backslashes at its end *)
Fixpoint walk (l : str) (odd : bool) : option bool :=
  match l with
  | [] => Some odd
  | c :: l' =>
      if (c =? QUOTE)%N then (if odd then walk l' false else None)
      else if (c =? NL)%N then None
      else walk l' (if (c =? BSLASH)%N then negb odd else false)
  end.
(* the interior of a literal the lexer accepts *)
Definition valid_raw (r : str) : Prop := walk r false = Some false.

(* what the parser reads back from the printed literal followed by `rest` *)
Definition reparse_str (printed rest : str) : option (str * str) :=
  match lex_str (printed ++ rest) with
  | Some (interior, r) => Some (unescape interior, r)
  | None => None
  end.

Definition has_quote (s : str) : bool := existsb (fun c => (c =? QUOTE)%N) s.
Definition has_nl (s : str) : bool := existsb (fun c => (c =? NL)%N) s.
(* parity of the run of backslashes at the end of s *)
Definition run_bs (b : bool) (s : str) : bool :=
  fold_left (fun b c => if (c =? BSLASH)%N then negb b else false) s b.


(* ---- int literals *)
Local Open Scope Z_scope.
Definition MAX : Z := 2147483647. Definition MIN : Z := -2147483648.

Inductive pending := PNone | PMinus | POther.       (* the token the producer holds back *)
Inductive int_tok := IErr | ITok (v : Z) | IMerged. (* syntax error / IntLiteral(v) / `-` merged into IntLiteral(-2147483648) *)

(* process_raw_token on a digit string of value v (i64 parse failure = error as well); since 9eaf9b5
   2147483648 is accepted only directly after `-` *)
Definition gate (p : pending) (v : Z) : int_tok :=
  if v >? MAX + 1 then IErr
  else if v =? MAX + 1 then match p with PMinus => IMerged | _ => IErr end
  else ITok v.

(* the gate before the repair, kept for the regression example *)
Definition gate_pinned (p : pending) (v : Z) : int_tok :=
  if v >? MAX + 1 then IErr
  else if v =? MAX + 1 then match p with PNone => IErr | PMinus => IMerged | POther => ITok v end
  else ITok v.

(* Literal::Int(text.parse::<i32>().unwrap_or(0)) *)
Definition lit_value (t : int_tok) : option Z :=
  match t with
  | IErr => None
  | ITok v => Some (if (MIN <=? v) && (v <=? MAX) then v else 0)
  | IMerged => Some MIN
  end.

(* i32::to_string and str::parse on decimal text *)
Definition print_int (n : Z) : string := NilZero.string_of_int (Z.to_int n).
Definition parse_int (s : string) : option Z := option_map Z.of_int (NilZero.int_of_string s).
