(* C08 — proofs, part 4: literals (printer 7ab5ea6, lexer gate 9eaf9b5). *)
From Coq Require Import NArith ZArith String DecimalString DecimalZ DecimalPos Decimal Lia.
From Coq Require Import List Arith Bool.
Import ListNotations.
From SV Require Import C08.Lit.

(* ---- strings *)
Lemma unescape_cons2 c d l : unescape (c :: d :: l) =
  if ((c =? BSLASH) && (d =? QUOTE))%N then QUOTE :: unescape l else c :: unescape (d :: l).
Proof. reflexivity. Qed.

Lemma unescape_cons_other c l : (c =? BSLASH)%N = false -> unescape (c :: l) = c :: unescape l.
Proof. intros H. destruct l as [|d l]; [reflexivity|]. rewrite unescape_cons2, H. reflexivity. Qed.

Lemma unescape_bs_noquote d l : (d =? QUOTE)%N = false -> unescape (BSLASH :: d :: l) = BSLASH :: unescape (d :: l).
Proof. intros H. rewrite unescape_cons2, H, andb_false_r. reflexivity. Qed.

(* a literal interior the lexer walks over is read up to the closing quote *)
Lemma walk_scan : forall r odd acc rest, walk r odd = Some false ->
  scan (r ++ QUOTE :: rest) odd acc = Some (rev acc ++ r, rest).
Proof.
  induction r as [|c r IH]; intros odd acc rest H.
  - cbn in H. inversion H; subst. cbn. rewrite app_nil_r. reflexivity.
  - cbn [walk] in H. cbn [app scan]. destruct (c =? QUOTE)%N.
    + destruct odd; [|discriminate]. rewrite (IH _ _ _ H). cbn [rev]. rewrite <- app_assoc. reflexivity.
    + destruct (c =? NL)%N; [discriminate|]. rewrite (IH _ _ _ H). cbn [rev]. rewrite <- app_assoc. reflexivity.
Qed.

(* and whatever the lexer accepts has such an interior *)
Lemma scan_walk : forall l odd acc r rest, scan l odd acc = Some (r, rest) ->
  exists p, r = rev acc ++ p /\ l = p ++ QUOTE :: rest /\ walk p odd = Some false.
Proof.
  induction l as [|c l IH]; intros odd acc r rest H; [discriminate|]. cbn [scan] in H.
  destruct (N.eqb_spec c QUOTE) as [->|Hc].
  - destruct odd.
    + destruct (IH _ _ _ _ H) as (p & -> & -> & Hw). exists (QUOTE :: p). cbn [rev walk app].
      rewrite <- app_assoc. rewrite N.eqb_refl. auto.
    + inversion H; subst. exists []. cbn. rewrite app_nil_r. auto.
  - destruct (c =? NL)%N eqn:En; [discriminate|].
    destruct (IH _ _ _ _ H) as (p & -> & -> & Hw). exists (c :: p). cbn [rev walk app].
    rewrite <- app_assoc. apply N.eqb_neq in Hc. rewrite Hc, En. auto.
Qed.

(* re-escaping undoes unescape_quotes on every interior the lexer accepts *)
Lemma escape_unescape_n : forall n l, length l <= n ->
  (forall b, walk l false = Some b -> escape (unescape l) = l) /\
  (forall b, walk l true = Some b -> escape (unescape (BSLASH :: l)) = BSLASH :: l).
Proof.
  induction n as [|n IH]; intros l Hl.
  - destruct l; [|cbn in Hl; lia]. split; intros; reflexivity.
  - destruct l as [|c l']; [split; intros; reflexivity|]. cbn [length] in Hl.
    destruct (IH l' ltac:(lia)) as [F' G'].
    assert (F : forall b, walk (c :: l') false = Some b -> escape (unescape (c :: l')) = c :: l').
    { intros b H. cbn [walk] in H. destruct (c =? QUOTE)%N eqn:Eq; [discriminate|].
      destruct (c =? NL)%N; [discriminate|]. destruct (N.eqb_spec c BSLASH) as [->|Hb].
      - exact (G' b H).
      - apply N.eqb_neq in Hb. rewrite (unescape_cons_other c l' Hb). cbn [escape]. rewrite Eq.
        rewrite (F' b H). reflexivity. }
    split; [exact F|]. intros b H. cbn [walk] in H.
    destruct (N.eqb_spec c QUOTE) as [->|Hq].
    + rewrite unescape_cons2, !N.eqb_refl. cbn [andb escape]. rewrite N.eqb_refl. rewrite (F' b H). reflexivity.
    + apply N.eqb_neq in Hq. destruct (c =? NL)%N eqn:En; [discriminate|].
      rewrite (unescape_bs_noquote c l' Hq). cbn [escape]. change (BSLASH =? QUOTE)%N with false. cbn iota.
      f_equal. destruct (N.eqb_spec c BSLASH) as [->|Hb].
      * (* second backslash of a pair: what follows is walked with even parity *)
        cbn [negb] in H. destruct l' as [|d l''].
        -- reflexivity.
        -- assert (Hd : (d =? QUOTE)%N = false).
           { cbn [walk] in H. destruct (d =? QUOTE)%N; [discriminate|reflexivity]. }
           rewrite (unescape_bs_noquote d l'' Hd). cbn [escape]. change (BSLASH =? QUOTE)%N with false. cbn iota.
           f_equal. exact (F' b H).
      * apply N.eqb_neq in Hb. apply (F b). cbn [walk]. rewrite Hq, En, Hb. exact H.
Qed.

Lemma escape_unescape r : valid_raw r -> escape (unescape r) = r.
Proof. intros H. destruct (escape_unescape_n (length r) r (le_n _)) as [F _]. exact (F false H). Qed.

(* the printed literal is the literal that was read: print (parse text) = text *)
Theorem str_print_parse_text : forall r, valid_raw r -> print_str (unescape r) = QUOTE :: r ++ [QUOTE].
Proof. intros r H. unfold print_str. rewrite (escape_unescape r H). reflexivity. Qed.

(* EVERY value a string literal can have is read back unchanged, whatever follows *)
Theorem str_roundtrip : forall r rest, valid_raw r ->
  reparse_str (print_str (unescape r)) rest = Some (unescape r, rest).
Proof.
  intros r rest H. unfold reparse_str. rewrite (str_print_parse_text r H). unfold lex_str. cbn [app].
  rewrite N.eqb_refl. rewrite <- app_assoc. cbn [app]. rewrite (walk_scan r false [] rest H). reflexivity.
Qed.

(* stated on the lexer itself: whatever lex_str accepts, the value the parser makes of it is printed
   as text that lexes and parses back to the same value *)
Theorem str_lexed_roundtrip : forall l r rest rest',
  lex_str (QUOTE :: l) = Some (r, rest) ->
  valid_raw r /\ reparse_str (print_str (unescape r)) rest' = Some (unescape r, rest').
Proof.
  intros l r rest rest' H. unfold lex_str in H. rewrite N.eqb_refl in H.
  destruct (scan_walk _ _ _ _ _ H) as (p & -> & _ & Hw). cbn [rev app].
  split; [exact Hw|apply str_roundtrip; exact Hw].
Qed.

(* values without a quote are printed as they are *)
Lemma escape_quote_free : forall s, has_quote s = false -> escape s = s.
Proof.
  induction s as [|c s IH]; intros H; [reflexivity|]. cbn [has_quote existsb] in H.
  apply orb_false_elim in H. destruct H as [Hc H]. cbn [escape]. rewrite Hc, (IH H). reflexivity.
Qed.

(* regression example for 7ab5ea6: the value a, quote, b *)
Lemma K4_repaired :
  reparse_str (print_str [97; 34; 98]%N) [] = Some ([97; 34; 98]%N, []) /\
  print_str [97; 34; 98]%N = [34; 97; 92; 34; 98; 34]%N /\
  reparse_str (print_str_pinned [97; 34; 98]%N) [] = Some ([97]%N, [98; 34]%N).
Proof. repeat split; vm_compute; reflexivity. Qed.

(* ---- ints *)
Local Open Scope Z_scope.

Theorem int_print_parse : forall n, parse_int (print_int n) = Some n.
Proof.
  intros n. unfold parse_int, print_int. rewrite NilZero.isi.
  - cbn [option_map]. rewrite DecimalZ.of_to. reflexivity.
  - destruct n; cbn; try discriminate. intros H. inversion H. revert H1. apply DecimalPos.Unsigned.to_uint_nonnil.
  - destruct n; cbn; try discriminate. intros H. inversion H. revert H1. apply DecimalPos.Unsigned.to_uint_nonnil.
Qed.

(* every value a literal can have is printed as text that the gate accepts and that reads back:
   non-negative values as one token, MIN as `-` followed by 2147483648 merged by the producer *)
Theorem int_roundtrip_nonneg : forall p n, 0 <= n <= MAX -> lit_value (gate p n) = Some n.
Proof.
  intros p n [H0 H1]. unfold gate, MAX in *.
  destruct (Z.gtb_spec n (2147483647 + 1)); [lia|]. destruct (Z.eqb_spec n (2147483647 + 1)); [lia|].
  cbn [lit_value]. unfold MIN, MAX.
  destruct (Z.leb_spec (-2147483648) n); [|lia]. destruct (Z.leb_spec n 2147483647); [|lia]. reflexivity.
Qed.

Theorem int_roundtrip_min : lit_value (gate PMinus (- MIN)) = Some MIN /\ print_int MIN = "-2147483648"%string.
Proof. split; vm_compute; reflexivity. Qed.

(* an accepted literal keeps its value, with no exception: the printed text is the text that was read *)
Theorem int_text_preserved : forall p v t, 0 <= v -> gate p v = t ->
  match t with
  | IErr => True
  | ITok v' => v' = v /\ v <= MAX /\ lit_value t = Some v
  | IMerged => v = - MIN /\ p = PMinus /\ lit_value t = Some MIN
  end.
Proof.
  intros p v t H0 <-. unfold gate, MAX, MIN in *.
  destruct (Z.gtb_spec v (2147483647 + 1)); [exact I|].
  destruct (Z.eqb_spec v (2147483647 + 1)).
  - destruct p; cbn; try exact I. repeat split; lia.
  - cbn [lit_value]. split; [reflexivity|]. split; [lia|]. unfold MIN, MAX.
    destruct (Z.leb_spec (-2147483648) v); [|lia]. destruct (Z.leb_spec v 2147483647); [|lia]. reflexivity.
Qed.

(* regression example for 9eaf9b5 *)
Lemma K5_repaired : gate POther 2147483648 = IErr /\ gate PNone 2147483648 = IErr /\ gate PMinus 2147483648 = IMerged /\
  gate_pinned POther 2147483648 = ITok 2147483648 /\ lit_value (gate_pinned POther 2147483648) = Some 0.
Proof. repeat split; vm_compute; reflexivity. Qed.
