(* C08 — proofs, part 4: literals. *)
From Coq Require Import NArith ZArith String DecimalString DecimalZ DecimalPos Decimal Lia.
From Coq Require Import List Arith Bool.
Import ListNotations.
From SV Require Import C08.Lit.

(* ---- strings *)
Lemma scan_quote_free : forall s t odd acc, has_quote s = false -> has_nl s = false ->
  scan (s ++ t) odd acc = scan t (run_bs odd s) (rev s ++ acc).
Proof.
  induction s as [|c s IH]; intros t odd acc Hq Hn; [reflexivity|].
  cbn [has_quote has_nl existsb] in Hq, Hn. apply orb_false_elim in Hq. apply orb_false_elim in Hn.
  destruct Hq as [Hc Hq], Hn as [Hc' Hn]. cbn [app scan]. rewrite Hc, Hc'.
  rewrite (IH t _ _ Hq Hn). cbn [run_bs fold_left rev]. rewrite <- app_assoc. reflexivity.
Qed.

Lemma unescape_cons2 c d l : unescape (c :: d :: l) =
  if ((c =? BSLASH) && (d =? QUOTE))%N then QUOTE :: unescape l else c :: unescape (d :: l).
Proof. reflexivity. Qed.

Lemma unescape_quote_free_n : forall n s, length s <= n -> has_quote s = false -> unescape s = s.
Proof.
  induction n as [|n IH]; intros [|c [|d s]] Hl Hq; try reflexivity; cbn [length] in Hl; try lia.
  cbn [has_quote existsb] in Hq. apply orb_false_elim in Hq. destruct Hq as [Hc Hq].
  pose proof Hq as Hq'. apply orb_false_elim in Hq. destruct Hq as [Hd Hq].
  rewrite unescape_cons2. rewrite Hd, andb_false_r. f_equal. apply IH; [cbn [length]; lia|exact Hq'].
Qed.
Lemma unescape_quote_free : forall s, has_quote s = false -> unescape s = s.
Proof. intros s. apply (unescape_quote_free_n (length s)). lia. Qed.

(* a string value without quotes (and, as every value the parser produces, without newline and
   with an even run of trailing backslashes) is read back unchanged, whatever follows *)
Theorem str_roundtrip : forall s rest, has_quote s = false -> has_nl s = false -> run_bs false s = false ->
  reparse_str (print_str s) rest = Some (s, rest).
Proof.
  intros s rest Hq Hn Hb. unfold reparse_str, print_str, lex_str. cbn [app]. rewrite N.eqb_refl.
  rewrite <- app_assoc. rewrite (scan_quote_free s _ _ _ Hq Hn). rewrite Hb. cbn [app scan].
  rewrite N.eqb_refl. rewrite app_nil_r, rev_involutive. rewrite (unescape_quote_free s Hq). reflexivity.
Qed.

(* and the printed text is the literal's original text: print (parse text) = text *)
Theorem str_print_parse_text : forall r, has_quote r = false -> print_str (unescape r) = QUOTE :: r ++ [QUOTE].
Proof. intros r H. unfold print_str. rewrite (unescape_quote_free r H). reflexivity. Qed.

(* scanning returns a split of its input *)
Lemma scan_split : forall l odd acc r rest, scan l odd acc = Some (r, rest) -> rev acc ++ l = r ++ QUOTE :: rest.
Proof.
  induction l as [|c l IH]; intros odd acc r rest H; [discriminate|]. cbn [scan] in H.
  destruct (N.eqb_spec c QUOTE) as [->|Hc].
  - destruct odd.
    + apply IH in H. cbn [rev] in H. rewrite <- app_assoc in H. exact H.
    + inversion H; subst. reflexivity.
  - destruct (c =? NL)%N; [discriminate|]. apply IH in H. cbn [rev] in H. rewrite <- app_assoc in H. exact H.
Qed.

Lemma unescape_len_n : forall n l, length l <= n -> length (unescape l) <= length l.
Proof.
  induction n as [|n IH]; intros [|c [|d l]] Hl; try (cbn; lia); cbn [length] in Hl; try lia.
  rewrite unescape_cons2.
  destruct ((c =? BSLASH) && (d =? QUOTE))%N; cbn [length].
  - specialize (IH l ltac:(lia)). lia.
  - specialize (IH (d :: l) ltac:(cbn [length]; lia)). cbn [length] in IH. lia.
Qed.
Lemma unescape_len : forall l, length (unescape l) <= length l.
Proof. intros l. apply (unescape_len_n (length l)). lia. Qed.

(* an escaped quote makes unescape strictly shorter *)
Lemma unescape_shrinks_n : forall n a q, length a <= n ->
  length (unescape (a ++ BSLASH :: QUOTE :: q)) < length (a ++ BSLASH :: QUOTE :: q).
Proof.
  induction n as [|n IH]; intros [|c [|d a]] q Hl; cbn [length] in Hl; try lia.
  - cbn [app]. rewrite unescape_cons2. rewrite !N.eqb_refl. cbn [andb length]. pose proof (unescape_len q). lia.
  - cbn [app]. rewrite unescape_cons2. rewrite !N.eqb_refl. cbn [andb length]. pose proof (unescape_len q). lia.
  - cbn [app]. rewrite unescape_cons2.
    change (BSLASH =? QUOTE)%N with false. rewrite andb_false_r. cbn [length].
    specialize (IH [] q ltac:(cbn; lia)). cbn [app] in IH. cbn [length] in IH. lia.
  - cbn [app]. rewrite unescape_cons2.
    destruct ((c =? BSLASH) && (d =? QUOTE))%N; cbn [length].
    + specialize (IH a q ltac:(lia)). lia.
    + specialize (IH (d :: a) q ltac:(cbn [length]; lia)). cbn [app length] in IH. lia.
Qed.
Lemma unescape_shrinks : forall a q, length (unescape (a ++ BSLASH :: QUOTE :: q)) < length (a ++ BSLASH :: QUOTE :: q).
Proof. intros a q. apply (unescape_shrinks_n (length a)). lia. Qed.

(* if the scanner walks over a quote, that quote is preceded by a backslash *)
Lemma scan_over_quote : forall p q odd acc r rest, has_quote p = false ->
  scan (p ++ QUOTE :: q) odd acc = Some (r, rest) -> length rest < length q ->
  (odd = true /\ p = []) \/ exists p', p = p' ++ [BSLASH].
Proof.
  induction p as [|c p IH]; intros q odd acc r rest Hq H Hlen.
  - cbn [app scan] in H. rewrite N.eqb_refl in H. destruct odd; [left; auto|].
    inversion H; subst. lia.
  - cbn [has_quote existsb] in Hq. apply orb_false_elim in Hq. destruct Hq as [Hc Hq].
    cbn [app scan] in H. rewrite Hc in H. destruct (c =? NL)%N; [discriminate|].
    destruct (IH _ _ _ _ _ Hq H Hlen) as [[Ho ->]|[p' ->]].
    + right. exists []. destruct (N.eqb_spec c BSLASH) as [->|]; [reflexivity|discriminate].
    + right. exists (c :: p'). reflexivity.
Qed.

(* K4, the converse: a value with a quote is never read back *)
Theorem str_quote_not_roundtrip : forall s rest, has_quote s = true ->
  reparse_str (print_str s) rest <> Some (s, rest).
Proof.
  intros s rest Hq Heq. unfold reparse_str, print_str, lex_str in Heq. cbn [app] in Heq.
  rewrite N.eqb_refl in Heq. rewrite <- app_assoc in Heq. cbn [app] in Heq.
  destruct (scan (s ++ QUOTE :: rest) false []) as [[r rest']|] eqn:E; [|discriminate].
  inversion Heq; subst rest'. clear Heq. rename H0 into Hu.
  pose proof (scan_split _ _ _ _ _ E) as Hs. cbn [rev app] in Hs.
  assert (Hr : r = s).
  { assert (Hl : length (s ++ QUOTE :: rest) = length (r ++ QUOTE :: rest)) by (rewrite Hs; reflexivity).
    rewrite !app_length in Hl. cbn [length] in Hl.
    assert (length s = length r) by lia.
    clear -Hs H. revert r Hs H. induction s as [|c s IH]; intros [|d r] Hs Hlen; cbn in *; try lia; auto.
    inversion Hs; subst. f_equal. apply IH; auto. }
  subst r.
  (* first quote of s *)
  assert (Hsplit : exists p q, s = p ++ QUOTE :: q /\ has_quote p = false).
  { clear -Hq. induction s as [|c s IH]; [discriminate|]. cbn [has_quote existsb] in Hq.
    destruct (N.eqb_spec c QUOTE) as [->|Hc].
    - exists [], s. split; reflexivity.
    - cbn [orb] in Hq. destruct (IH Hq) as (p & q & -> & Hp). exists (c :: p), q. split; [reflexivity|].
      cbn [has_quote existsb]. apply N.eqb_neq in Hc. rewrite Hc. exact Hp. }
  destruct Hsplit as (p & q & -> & Hp).
  rewrite <- app_assoc in E. cbn [app] in E.
  destruct (scan_over_quote p (q ++ QUOTE :: rest) false [] _ _ Hp E) as [[Ho _]|[p' ->]].
  { rewrite app_length. cbn [length]. lia. }
  { discriminate. }
  rewrite <- app_assoc in Hu. cbn [app] in Hu.
  pose proof (unescape_shrinks p' q) as Hlt. rewrite Hu in Hlt. lia.
Qed.

Lemma K4_witness : has_quote [97; 34; 98]%N = true /\
  reparse_str (print_str [97; 34; 98]%N) [] = Some ([97]%N, [98; 34]%N) /\
  lex_str (print_str [97; 34; 98]%N) = Some ([97]%N, [98; 34]%N) /\
  reparse_str (print_str_fixed [97; 34; 98]%N) [] = Some ([97; 34; 98]%N, []).
Proof. repeat split; vm_compute; reflexivity. Qed.

(* ---- ints *)
Local Open Scope Z_scope.

Theorem int_print_parse : forall n, parse_int (print_int n) = Some n.
Proof.
  intros n. unfold parse_int, print_int. rewrite NilZero.isi.
  - cbn [option_map]. rewrite DecimalZ.of_to. reflexivity.
  - destruct n; cbn; try discriminate. intros H. inversion H. revert H1. apply DecimalPos.Unsigned.to_uint_nonnil.
  - destruct n; cbn; try discriminate. intros H. inversion H. revert H1. apply DecimalPos.Unsigned.to_uint_nonnil.
Qed.

(* every value a literal can have is printed as text that the gate accepts and that reads back:
   non-negative values as one token, MIN as `-` followed by 2147483648 merged by the producer *)
Theorem int_roundtrip_nonneg : forall p n, 0 <= n <= MAX -> lit_value (gate p n) = Some n.
Proof.
  intros p n [H0 H1]. unfold gate, MAX in *.
  destruct (Z.gtb_spec n (2147483647 + 1)); [lia|]. destruct (Z.eqb_spec n (2147483647 + 1)); [lia|].
  cbn [lit_value]. unfold MIN, MAX.
  destruct (Z.leb_spec (-2147483648) n); [|lia]. destruct (Z.leb_spec n 2147483647); [|lia]. reflexivity.
Qed.

Theorem int_roundtrip_min : lit_value (gate PMinus (- MIN)) = Some MIN /\ print_int MIN = "-2147483648"%string.
Proof. split; vm_compute; reflexivity. Qed.

(* K5: the gate lets 2147483648 through after any token but `-`, it is read as 0 and printed as "0" *)
Theorem K5_witness : gate POther 2147483648 = ITok 2147483648 /\ lit_value (gate POther 2147483648) = Some 0 /\
  print_int 0 = "0"%string /\ print_int 2147483648 = "2147483648"%string /\ known_C08_int POther 2147483648 = true.
Proof. repeat split; vm_compute; reflexivity. Qed.

(* outside K5 an accepted literal keeps its value: the printed text is the text that was read *)
Theorem int_text_preserved : forall p v t, 0 <= v -> known_C08_int p v = false -> gate p v = t ->
  match t with
  | IErr => True
  | ITok v' => v' = v /\ lit_value t = Some v
  | IMerged => v = - MIN /\ lit_value t = Some MIN
  end.
Proof.
  intros p v t H0 Hk <-. unfold gate, known_C08_int, MAX, MIN in *.
  destruct (Z.gtb_spec v (2147483647 + 1)); [exact I|].
  destruct (Z.eqb_spec v (2147483647 + 1)).
  - destruct p; cbn in *; try exact I; try discriminate. split; [lia|reflexivity].
  - cbn [lit_value]. split; [reflexivity|]. unfold MIN, MAX.
    destruct (Z.leb_spec (-2147483648) v); [|lia]. destruct (Z.leb_spec v 2147483647); [|lia]. reflexivity.
Qed.

(* the repaired gate has no K5 *)
Theorem gate_fixed_sound : forall p v, 0 <= v ->
  match gate_fixed p v with
  | IErr => True
  | ITok v' => v' = v /\ v <= MAX
  | IMerged => v = - MIN /\ p = PMinus
  end.
Proof.
  intros p v H0. unfold gate_fixed, MAX, MIN.
  destruct (Z.gtb_spec v (2147483647 + 1)); [exact I|].
  destruct (Z.eqb_spec v (2147483647 + 1)).
  - destruct p; try exact I. split; [lia|reflexivity].
  - split; [reflexivity|lia].
Qed.
