(* C08 — model, part 1: the expression parser's level structure, the reference printer for that
   grammar, and the implementation's parenthesisation decisions.  Definitions only.

   Code modelled:
     crates/samlang-parser/src/source_parser.rs  parse_expression .. parse_base_expression
       (match / if-else at the top, six left-associative binary loops, unary taking a POSTFIX
        operand, the postfix loop, base expressions incl. the `( id ...` look-ahead paths and
        parse_expression_from_base)
     crates/samlang-printer/src/source_printer.rs
       create_doc_for_subexpression_considering_precedence_level, the three-way Binary case with
       the guard_e1 / may_end_with_field_name rule, create_chainable_ir_docs, Unary, Lambda
     crates/samlang-ast/src/source.rs  E::precedence(), BinaryOperator::precedence()
       -> NOT copied here: taken from coq/generated/PrecTable.v, regenerated from the code. *)
From Coq Require Import List Arith Bool.
Import ListNotations.
From SV Require Import C08.Syntax.
From SVG Require Import PrecTable.

(* ------------------------------------------------------------------ parser levels *)
(* 0 expression (match / if / else below) ; 1..6 binary loops ; 7 unary ; 8 postfix ; 9 base *)
Definition plevel (o : bop) : nat :=
  match o with
  | Or => 1 | And => 2 | Lt | Le | Gt | Ge | Eq | Ne => 3
  | Plus | Minus => 4 | Mul | Div | Mod => 5 | Concat => 6
  end.

Definition utok (u : uop) : tok := match u with Not => TBang | Neg => TOp Minus end.

Inductive mode :=
| MLevel (k : nat)
| MLoop (k : nat) (e : expr)       (* parse_<level>_with_start *)
| MPost (e : expr)                 (* parse_function_call_or_field_access_with_start *)
| MChain (k : nat) (e : expr)      (* the tail of parse_expression_from_base: loops k, k-1, .., 1 *)
| MFromBase (e : expr).            (* parse_expression_from_base *)

Fixpoint go (fuel : nat) (m : mode) (ts : list tok) : option (expr * list tok) :=
  match fuel with
  | O => None
  | S f =>
      match m with
      | MLevel k =>
          if k =? 0 then
          match ts with
          | TMatch :: ts1 =>
              match go f (MLevel 0) ts1 with
              | Some (e, LB :: TPat p :: TArrow :: ts2) =>
                  match go f (MLevel 0) ts2 with
                  | Some (b, TComma :: RB :: r) => Some (Mat e p b, r)
                  | Some (b, RB :: r) => Some (Mat e p b, r)
                  | _ => None
                  end
              | _ => None
              end
          | TIf :: ts1 =>
              match go f (MLevel 0) ts1 with
              | Some (c, LB :: ts2) =>
                  match go f (MLevel 0) ts2 with
                  | Some (a, RB :: TElse :: LB :: ts3) =>
                      match go f (MLevel 0) ts3 with
                      | Some (b, RB :: r) => Some (If c a b, r)
                      | _ => None
                      end
                  | _ => None
                  end
              | _ => None
              end
          | _ => go f (MLevel 1) ts
          end
          else if k <=? 6 then
            match go f (MLevel (S k)) ts with
            | Some (e, r) => go f (MLoop k e) r
            | None => None
            end
          else if k =? 7 then
          match ts with
          | TBang :: ts' =>
              match go f (MLevel 8) ts' with Some (e, r) => Some (Un Not e, r) | None => None end
          | TOp Minus :: ts' =>
              match go f (MLevel 8) ts' with Some (e, r) => Some (Un Neg e, r) | None => None end
          | _ => go f (MLevel 8) ts
          end
          else if k =? 8 then
          match go f (MLevel 9) ts with
          | Some (e, r) => go f (MPost e) r
          | None => None
          end
          else
          match ts with
          | TLit n :: r => Some (Atom false n, r)
          | TId n :: r => Some (Atom true n, r)
          | LB :: r =>
              match go f (MLevel 0) r with Some (e, RB :: r') => Some (Blk e, r') | _ => None end
          | LP :: TId x :: RP :: TArrow :: r =>
              match go f (MLevel 0) r with Some (b, r') => Some (Lam x b, r') | None => None end
          | LP :: TId x :: RP :: r => Some (Atom true x, r)
          | LP :: TId x :: r =>
              match go f (MFromBase (Atom true x)) r with Some (e, RP :: r') => Some (e, r') | _ => None end
          | LP :: r =>
              match go f (MLevel 0) r with Some (e, RP :: r') => Some (e, r') | _ => None end
          | _ => None
          end
      | MLoop k e =>
          match ts with
          | TOp o :: ts' =>
              if plevel o =? k then
                match go f (MLevel (S k)) ts' with
                | Some (e2, r) => go f (MLoop k (Bin o e e2)) r
                | None => None
                end
              else Some (e, ts)
          | _ => Some (e, ts)
          end
      | MPost e =>
          match ts with
          | TDot :: TFld n :: r =>
              (* parse_optional_type_arguments: a `<` right after the field name opens explicit type
                 arguments; on expression tokens that is a syntax error *)
              match r with
              | TOp Lt :: _ => None
              | _ => go f (MPost (Field e n)) r
              end
          | LP :: r =>
              match go f (MLevel 0) r with
              | Some (a, RP :: r') => go f (MPost (Call e a)) r'
              | _ => None
              end
          | _ => Some (e, ts)
          end
      | MChain k e =>
          match go f (MLoop k e) ts with
          | Some (e', r) => if k <=? 1 then Some (e', r) else go f (MChain (pred k) e') r
          | None => None
          end
      | MFromBase e =>
          match go f (MPost e) ts with
          | Some (e', r) => go f (MChain 6 e') r
          | None => None
          end
      end
  end.

Definition parse_expr (fuel : nat) (ts : list tok) : option expr :=
  match go fuel (MLevel 0) ts with Some (e, []) => Some e | _ => None end.

(* ------------------------------------------------------------------ printers *)
Inductive side := SBase | SArg | SLeft | SRight | SBody.

Definition level_of (e : expr) : nat :=
  match e with
  | Atom _ _ | Blk _ => 9
  | Field _ _ | Call _ _ => 8
  | Un _ _ => 7
  | Bin o _ _ => plevel o
  | If _ _ _ | Mat _ _ _ | Lam _ _ => 0
  end.

Definition wrap (b : bool) (l : list tok) : list tok := if b then LP :: l ++ [RP] else l.

(* generic printer: `dec parent side` says whether that child is parenthesised *)
Fixpoint gp (dec : expr -> side -> bool) (e : expr) : list tok :=
  match e with
  | Atom true n => [TId n]
  | Atom false n => [TLit n]
  | Field a f => wrap (dec e SBase) (gp dec a) ++ [TDot; TFld f]
  | Call a x => wrap (dec e SBase) (gp dec a) ++ LP :: gp dec x ++ [RP]
  | Blk a => LB :: gp dec a ++ [RB]
  | Un u a => utok u :: wrap (dec e SArg) (gp dec a)
  | Bin o a b => wrap (dec e SLeft) (gp dec a) ++ TOp o :: wrap (dec e SRight) (gp dec b)
  | If c a b => TIf :: gp dec c ++ LB :: gp dec a ++ RB :: TElse :: LB :: gp dec b ++ [RB]
  | Mat s p b => TMatch :: gp dec s ++ LB :: TPat p :: TArrow :: gp dec b ++ [TComma; RB]
  | Lam x b => LP :: TId x :: RP :: TArrow :: wrap (dec e SBody) (gp dec b)
  end.

(* does the printed form of e end with a field name (so that a following `<` would be read as the
   start of type arguments)? *)
Fixpoint ends_field (dec : expr -> side -> bool) (e : expr) : bool :=
  match e with
  | Field _ _ => true
  | Bin _ _ b => negb (dec e SRight) && ends_field dec b
  | Un _ a => negb (dec e SArg) && ends_field dec a
  | Lam _ b => negb (dec e SBody) && ends_field dec b
  | _ => false
  end.

Definition is_lt (o : bop) : bool := match o with Lt => true | _ => false end.

(* the parentheses the grammar needs: by level ... *)
Definition need_level (parent : expr) (s : side) : bool :=
  match parent, s with
  | Field a _, SBase | Call a _, SBase => level_of a <? 8
  | Un _ a, SArg => level_of a <? 8
  | Bin o a _, SLeft => level_of a <? plevel o
  | Bin o _ b, SRight => level_of b <? S (plevel o)
  | _, _ => false
  end.
(* ... and around a left operand of `<` that would otherwise end with a field name *)
Definition need_lt (dec : expr -> side -> bool) (parent : expr) (s : side) : bool :=
  match parent, s with
  | Bin o a _, SLeft => is_lt o && ends_field dec a
  | _, _ => false
  end.
Definition need (dec : expr -> side -> bool) (parent : expr) (s : side) : bool :=
  need_level parent s || need_lt dec parent s.

(* the reference ("minimal parenthesis") printer *)
Fixpoint ends_ref (e : expr) : bool :=
  match e with
  | Field _ _ => true
  | Bin o _ b => negb (level_of b <? S (plevel o)) && ends_ref b
  | Un _ a => negb (level_of a <? 8) && ends_ref a
  | Lam _ b => ends_ref b
  | _ => false
  end.
Definition dec_ref (parent : expr) (s : side) : bool :=
  need_level parent s ||
  match parent, s with
  | Bin o a _, SLeft => is_lt o && ends_ref a
  | _, _ => false
  end.
Definition pr (e : expr) : list tok := gp dec_ref e.

(* ---- the implementation's decisions *)
Definition pprec (e : expr) : nat :=
  match e with
  | Bin o _ _ => binary_node_prec o
  | _ => ctor_prec (ctor_of e)
  end.

(* source_printer.rs: `MINUS | DIV | MOD => {}` in the "commutative operators" shortcut *)
Definition comm (o : bop) : bool := match o with Minus | Div | Mod => false | _ => true end.

(* create_doc_for_subexpression_considering_precedence_level *)
Definition sub_paren (equal_level : bool) (parent child : expr) : bool :=
  if equal_level then pprec parent <=? pprec child else pprec parent <? pprec child.

(* source_printer.rs may_end_with_field_name: can the printed form end with a field name?
   (deliberately ignores the parentheses put around inner operands) *)
Fixpoint may_end (e : expr) : bool :=
  match e with
  | Field _ _ => true
  | Un _ a => may_end a
  | Bin _ _ b => may_end b
  | Lam _ b => may_end b
  | _ => false
  end.

Definition dec_impl (parent : expr) (s : side) : bool :=
  match parent, s with
  | Field a _, SBase | Call a _, SBase => sub_paren false parent a
  | Un _ a, SArg => sub_paren true parent a      (* 98d650f: equal level is parenthesised *)
  | Lam _ b, SBody => sub_paren false parent b
  | Bin o a b, SLeft =>
      (* 98c0b1b: guard_e1 *)
      if is_lt o && may_end a then true
      else if pprec a =? pprec parent then false else sub_paren true parent a
  | Bin o a b, SRight =>
      if pprec a =? pprec parent then sub_paren true parent b
      else if (pprec b =? pprec parent) && comm o then false
      else sub_paren true parent b
  | _, _ => false
  end.

Definition impl (e : expr) : list tok := gp dec_impl e.

(* ---- sufficiency: every needed parenthesis is there *)
Definition sides : list side := [SBase; SArg; SLeft; SRight; SBody].

Definition suff_node (dec : expr -> side -> bool) (e : expr) : bool :=
  forallb (fun s => implb (need dec e s) (dec e s)) sides.

Fixpoint all_nodes (P : expr -> bool) (e : expr) : bool :=
  P e &&
  match e with
  | Atom _ _ => true
  | Field a _ | Blk a | Un _ a | Lam _ a => all_nodes P a
  | Call a b | Bin _ a b | Mat a _ b => all_nodes P a && all_nodes P b
  | If c a b => all_nodes P c && all_nodes P a && all_nodes P b
  end.

Definition suff (dec : expr -> side -> bool) (e : expr) : bool := all_nodes (suff_node dec) e.

(* exact agreement of the decisions (then impl e = pr e) *)
Definition agree_node (e : expr) : bool :=
  forallb (fun s => Bool.eqb (dec_ref e s) (dec_impl e s)) sides.
Definition agree (e : expr) : bool := all_nodes agree_node e.

(* the implementation omits no needed parenthesis *)
Definition safe (e : expr) : bool := suff dec_impl e.

(* ------------------------------------------------------------------ the known classes *)
Definition is_muldivmod (o : bop) : bool := match o with Mul | Div | Mod => true | _ => false end.
Definition is_plusminus (o : bop) : bool := match o with Plus | Minus => true | _ => false end.

(* K1: a binary node, operator not - / %, whose right child is a binary node of the parent's
   printer precedence and of the same or a looser parser level, and whose left child is not of
   the parent's printer precedence:  a * (b / c) -> a * b / c,  f == (x < y) -> f == x < y *)
Definition k1 (e : expr) : bool :=
  match e with
  | Bin o a (Bin ob _ _) =>
      negb (pprec a =? binary_node_prec o) && (binary_node_prec ob =? binary_node_prec o) && comm o
      && (plevel ob <=? plevel o)
  | _ => false
  end.

(* K3: `::` whose operand is an arithmetic node the printer's table ranks at or below `::`
   although the parser binds `::` tighter:  (a + b) :: c -> a + b :: c,  a :: (b * c) -> a :: b * c *)
Definition k3 (e : expr) : bool :=
  match e with
  | Bin Concat a b =>
      (match a with Bin oa _ _ => is_muldivmod oa || is_plusminus oa | _ => false end)
      || (match b with Bin ob _ _ => is_muldivmod ob | _ => false end)
  | _ => false
  end.

Definition known_node (e : expr) : bool := k1 e || k3 e.

Fixpoint any_node (P : expr -> bool) (e : expr) : bool :=
  P e ||
  match e with
  | Atom _ _ => false
  | Field a _ | Blk a | Un _ a | Lam _ a => any_node P a
  | Call a b | Bin _ a b | Mat a _ b => any_node P a || any_node P b
  | If c a b => any_node P c || any_node P a || any_node P b
  end.

Definition known_C08 (e : expr) : bool := any_node known_node e.
Definition Known_C08 (e : expr) : Prop := known_C08 e = true.
