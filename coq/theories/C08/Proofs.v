(* C08 — proofs, part 1: print/parse round trip for every printer that puts at least the
   parentheses the grammar needs. *)
From Coq Require Import List Arith Bool Lia.
Import ListNotations.
From SV Require Import C08.Syntax C08.Model C08.ProofsMono.

(* what may follow an expression parsed at level k: the enclosing loops must stop *)
Definition follow_ok (k : nat) (ts : list tok) : Prop :=
  match ts with
  | TOp o :: _ => plevel o < k
  | TDot :: _ | LP :: _ => 9 <= k
  | TArrow :: _ => False
  | _ => True
  end.

Lemma follow_ok_mono k k' ts : k <= k' -> follow_ok k ts -> follow_ok k' ts.
Proof. destruct ts as [|[]]; cbn; auto; intros; lia. Qed.

(* the level at which a token can start an expression without being taken by a lower level *)
Definition hd_level (t : tok) : nat :=
  match t with
  | TId _ | TLit _ | LB | LP => 9
  | TBang | TOp Minus => 7
  | _ => 0
  end.

(* ------------------------------------------------------------------ composition lemmas *)
Ltac fuel2 f1 f2 := exists (S (max f1 f2)); cbn [go].
Ltac use_mono H := rewrite (go_mono _ _ _ _ H) by lia.

Lemma level_step k ts e ts' r : 1 <= k <= 6 ->
  parses (MLevel (S k)) ts (e, ts') -> parses (MLoop k e) ts' r -> parses (MLevel k) ts r.
Proof.
  intros Hk [f1 H1] [f2 H2]. fuel2 f1 f2.
  destruct (Nat.eqb_spec k 0); [lia|]. destruct (Nat.leb_spec k 6); [|lia].
  use_mono H1. apply (go_mono _ _ _ _ H2). lia.
Qed.

Lemma loop_step k o e ts e2 ts' r : plevel o = k ->
  parses (MLevel (S k)) ts (e2, ts') -> parses (MLoop k (Bin o e e2)) ts' r ->
  parses (MLoop k e) (TOp o :: ts) r.
Proof.
  intros Hk [f1 H1] [f2 H2]. fuel2 f1 f2. rewrite Hk, Nat.eqb_refl.
  use_mono H1. apply (go_mono _ _ _ _ H2). lia.
Qed.

Lemma loop_exit k e ts : follow_ok k ts -> parses (MLoop k e) ts (e, ts).
Proof.
  intros H. exists 1. cbn. destruct ts as [|[] ts']; auto.
  cbn in H. destruct (Nat.eqb_spec (plevel o) k); [lia|reflexivity].
Qed.

Lemma level0_step t ts r : 1 <= hd_level t ->
  parses (MLevel 1) (t :: ts) r -> parses (MLevel 0) (t :: ts) r.
Proof.
  intros Ht [f H]. exists (S f). cbn [go Nat.eqb]. destruct t; cbn in Ht; try lia; exact H.
Qed.

Lemma level7_step t ts r : 8 <= hd_level t ->
  parses (MLevel 8) (t :: ts) r -> parses (MLevel 7) (t :: ts) r.
Proof.
  intros Ht [f H]. exists (S f). cbn [go Nat.eqb Nat.leb].
  destruct t; cbn in Ht; try lia; try exact H. destruct o; cbn in Ht; try lia.
Qed.

Lemma unary_parse u ts a r :
  parses (MLevel 8) ts (a, r) -> parses (MLevel 7) (utok u :: ts) (Un u a, r).
Proof. intros [f H]. exists (S f). cbn [go Nat.eqb Nat.leb]. destruct u; cbn [utok]; rewrite H; reflexivity. Qed.

Lemma level8_step ts e r1 r :
  parses (MLevel 9) ts (e, r1) -> parses (MPost e) r1 r -> parses (MLevel 8) ts r.
Proof.
  intros [f1 H1] [f2 H2]. fuel2 f1 f2. cbn [Nat.eqb Nat.leb].
  use_mono H1. apply (go_mono _ _ _ _ H2). lia.
Qed.

Lemma post_exit e ts : follow_ok 8 ts -> parses (MPost e) ts (e, ts).
Proof. intros H. exists 1. cbn. destruct ts as [|[] ts']; auto; cbn in H; lia. Qed.

(* a `<` right after a field name is taken for the start of type arguments *)
Definition not_lt (ts : list tok) : Prop := match ts with TOp Lt :: _ => False | _ => True end.

Lemma post_field e n ts r : not_lt ts ->
  parses (MPost (Field e n)) ts r -> parses (MPost e) (TDot :: TFld n :: ts) r.
Proof.
  intros Hn [f H]. exists (S f). cbn [go]. destruct ts as [|[] ?]; try exact H.
  destruct o; try exact H. destruct Hn.
Qed.

Lemma post_call e a ts ts' r :
  parses (MLevel 0) ts (a, RP :: ts') -> parses (MPost (Call e a)) ts' r -> parses (MPost e) (LP :: ts) r.
Proof.
  intros [f1 H1] [f2 H2]. fuel2 f1 f2. use_mono H1. apply (go_mono _ _ _ _ H2). lia.
Qed.

Lemma base_atom l n ts : parses (MLevel 9) (gp (fun _ _ => false) (Atom l n) ++ ts) (Atom l n, ts).
Proof. exists 1. destruct l; reflexivity. Qed.

Lemma base_blk ts e ts' : parses (MLevel 0) ts (e, RB :: ts') -> parses (MLevel 9) (LB :: ts) (Blk e, ts').
Proof. intros [f H]. exists (S f). cbn [go Nat.eqb Nat.leb]. rewrite H. reflexivity. Qed.

Lemma base_lam x ts b ts' :
  parses (MLevel 0) ts (b, ts') -> parses (MLevel 9) (LP :: TId x :: RP :: TArrow :: ts) (Lam x b, ts').
Proof. intros [f H]. exists (S f). cbn [go Nat.eqb Nat.leb]. rewrite H. reflexivity. Qed.

Lemma base_paren t ts e ts' : (forall x, t <> TId x) ->
  parses (MLevel 0) (t :: ts) (e, RP :: ts') -> parses (MLevel 9) (LP :: t :: ts) (e, ts').
Proof.
  intros Ht [f H]. exists (S f). cbn [go Nat.eqb Nat.leb].
  destruct t; try (rewrite H; reflexivity). exfalso. eapply Ht. reflexivity.
Qed.

Lemma base_paren_id x ts : follow_ok 9 ts -> parses (MLevel 9) (LP :: TId x :: RP :: ts) (Atom true x, ts).
Proof. intros H. exists 1. cbn. destruct ts as [|[] ?]; try reflexivity. destruct H. Qed.

Lemma base_paren_frombase x t ts e ts' : t <> RP ->
  parses (MFromBase (Atom true x)) (t :: ts) (e, RP :: ts') ->
  parses (MLevel 9) (LP :: TId x :: t :: ts) (e, ts').
Proof.
  intros Ht [f H]. exists (S f). cbn [go Nat.eqb Nat.leb].
  destruct t; try (rewrite H; reflexivity). congruence.
Qed.

Lemma if_parse ts1 c ts2 a ts3 b r :
  parses (MLevel 0) ts1 (c, LB :: ts2) -> parses (MLevel 0) ts2 (a, RB :: TElse :: LB :: ts3) ->
  parses (MLevel 0) ts3 (b, RB :: r) -> parses (MLevel 0) (TIf :: ts1) (If c a b, r).
Proof.
  intros [f1 H1] [f2 H2] [f3 H3]. exists (S (max f1 (max f2 f3))). cbn [go Nat.eqb].
  use_mono H1. use_mono H2. use_mono H3. reflexivity.
Qed.

Lemma match_parse ts1 s p ts2 b r :
  parses (MLevel 0) ts1 (s, LB :: TPat p :: TArrow :: ts2) ->
  parses (MLevel 0) ts2 (b, TComma :: RB :: r) -> parses (MLevel 0) (TMatch :: ts1) (Mat s p b, r).
Proof.
  intros [f1 H1] [f2 H2]. fuel2 f1 f2. cbn [Nat.eqb]. use_mono H1. use_mono H2. reflexivity.
Qed.

Lemma chain_last e ts r : parses (MLoop 1 e) ts r -> parses (MChain 1 e) ts r.
Proof. intros [f H]. exists (S f). cbn [go]. destruct r. rewrite H. reflexivity. Qed.

Lemma chain_step k e ts e' ts' r : 2 <= k ->
  parses (MLoop k e) ts (e', ts') -> parses (MChain (pred k) e') ts' r -> parses (MChain k e) ts r.
Proof.
  intros Hk [f1 H1] [f2 H2]. fuel2 f1 f2. use_mono H1.
  destruct (Nat.leb_spec k 1); [lia|]. apply (go_mono _ _ _ _ H2). lia.
Qed.

Lemma frombase_parse e ts e' ts' r :
  parses (MPost e) ts (e', ts') -> parses (MChain 6 e') ts' r -> parses (MFromBase e) ts r.
Proof.
  intros [f1 H1] [f2 H2]. fuel2 f1 f2. use_mono H1. apply (go_mono _ _ _ _ H2). lia.
Qed.

(* ------------------------------------------------------------------ descending between levels *)
Lemma step_down k t rest c ts : k <= 8 -> S k <= hd_level t -> follow_ok k ts ->
  parses (MLevel (S k)) (t :: rest) (c, ts) -> parses (MLevel k) (t :: rest) (c, ts).
Proof.
  intros Hk Hh Hf Hp.
  destruct (Nat.eq_dec k 8) as [->|].
  { eapply level8_step; [exact Hp|]. apply post_exit. exact Hf. }
  destruct (Nat.eq_dec k 7) as [->|].
  { apply level7_step; [lia|exact Hp]. }
  destruct (Nat.eq_dec k 0) as [->|].
  { apply level0_step; [lia|exact Hp]. }
  eapply level_step; [lia|exact Hp|]. apply loop_exit. exact Hf.
Qed.

Lemma descend : forall d k t rest c ts, k + d <= 9 -> k + d <= hd_level t -> follow_ok k ts ->
  parses (MLevel (k + d)) (t :: rest) (c, ts) -> parses (MLevel k) (t :: rest) (c, ts).
Proof.
  induction d as [|d IH]; intros k t rest c ts Hk Hh Hf Hp.
  - now rewrite Nat.add_0_r in Hp.
  - apply step_down; [lia|lia|exact Hf|].
    apply (IH (S k)); [lia|lia| |].
    + eapply follow_ok_mono; [|exact Hf]. lia.
    + now replace (S k + d) with (k + S d) by lia.
Qed.

Lemma descend_to k j t rest c ts : k <= j -> j <= 9 -> j <= hd_level t -> follow_ok k ts ->
  parses (MLevel j) (t :: rest) (c, ts) -> parses (MLevel k) (t :: rest) (c, ts).
Proof.
  intros H1 H2 H3 Hf Hp. apply (descend (j - k) k); try (replace (k + (j - k)) with j by lia); auto.
Qed.

(* ------------------------------------------------------------------ inversion lemmas *)
Lemma level_inv k ts r : 1 <= k <= 6 -> parses (MLevel k) ts r ->
  exists e r1, parses (MLevel (S k)) ts (e, r1) /\ parses (MLoop k e) r1 r.
Proof.
  intros Hk [f H]. destruct f as [|f]; [discriminate|]. cbn [go] in H.
  destruct (Nat.eqb_spec k 0); [lia|]. destruct (Nat.leb_spec k 6); [|lia].
  destruct (go f (MLevel (S k)) ts) as [[e r1]|] eqn:E; [|discriminate].
  exists e, r1. split; [exists f; exact E|exists f; exact H].
Qed.

Lemma level0_inv_id x ts r : parses (MLevel 0) (TId x :: ts) r -> parses (MLevel 1) (TId x :: ts) r.
Proof. intros [f H]. destruct f as [|f]; [discriminate|]. cbn [go Nat.eqb] in H. exists f. exact H. Qed.

Lemma level7_inv_id x ts r : parses (MLevel 7) (TId x :: ts) r -> parses (MLevel 8) (TId x :: ts) r.
Proof. intros [f H]. destruct f as [|f]; [discriminate|]. cbn [go Nat.eqb Nat.leb] in H. exists f. exact H. Qed.

Lemma level8_inv_id x ts r : parses (MLevel 8) (TId x :: ts) r -> parses (MPost (Atom true x)) ts r.
Proof.
  intros [f H]. destruct f as [|f]; [discriminate|]. cbn [go Nat.eqb Nat.leb] in H.
  destruct f as [|f]; [discriminate|].
  assert (E : go (S f) (MLevel 9) (TId x :: ts) = Some (Atom true x, ts)) by reflexivity.
  rewrite E in H. exists (S f). exact H.
Qed.

(* loops 6, 5, .., 7 - n applied in that order *)
Fixpoint chainP (n : nat) (e : expr) (ts : list tok) (r : expr * list tok) : Prop :=
  match n with
  | O => r = (e, ts)
  | S n' => exists e1 r1, chainP n' e ts (e1, r1) /\ parses (MLoop (7 - n) e1) r1 r
  end.

Lemma level_chain : forall n x l r, n <= 6 -> parses (MLevel (7 - n)) (TId x :: l) r ->
  exists e' r', parses (MPost (Atom true x)) l (e', r') /\ chainP n e' r' r.
Proof.
  induction n as [|n IH]; intros x l r Hn Hp.
  - destruct r as [e' r']. exists e', r'. split; [|reflexivity].
    apply level8_inv_id, level7_inv_id. exact Hp.
  - destruct (level_inv (7 - S n) _ _ ltac:(lia) Hp) as (e1 & r1 & H1 & H2).
    replace (S (7 - S n)) with (7 - n) in H1 by lia.
    destruct (IH x l (e1, r1) ltac:(lia) H1) as (e' & r' & Hpost & Hc).
    exists e', r'. split; [exact Hpost|]. cbn [chainP]. exists e1, r1. split; assumption.
Qed.

Lemma chain_of_chainP : forall n e ts e1 r1 r, n <= 5 ->
  chainP n e ts (e1, r1) -> parses (MChain (6 - n) e1) r1 r -> parses (MChain 6 e) ts r.
Proof.
  induction n as [|n IH]; intros e ts e1 r1 r Hn Hc Hp.
  - cbn in Hc. inversion Hc; subst. exact Hp.
  - cbn [chainP] in Hc. destruct Hc as (e0 & r0 & Hc & Hl).
    apply (IH e ts e0 r0 r ltac:(lia) Hc).
    eapply chain_step; [lia| |].
    + replace (6 - n) with (7 - S n) by lia. exact Hl.
    + replace (pred (6 - n)) with (6 - S n) by lia. exact Hp.
Qed.

Lemma frombase_of_level0 x l r :
  parses (MLevel 0) (TId x :: l) r -> parses (MFromBase (Atom true x)) l r.
Proof.
  intros Hp. apply level0_inv_id in Hp.
  destruct (level_chain 6 x l r ltac:(lia) Hp) as (e' & r' & Hpost & Hc).
  eapply frombase_parse; [exact Hpost|].
  cbn [chainP] in Hc. destruct Hc as (e0 & r0 & Hc & Hl).
  apply (chain_of_chainP 5 e' r' e0 r0 r ltac:(lia) Hc). apply chain_last. exact Hl.
Qed.

(* ------------------------------------------------------------------ the round trip *)
Section RoundTrip.
Variable dec : expr -> side -> bool.

Lemma suff_node_side e s : suff_node dec e = true -> need dec e s = true -> dec e s = true.
Proof.
  unfold suff_node. rewrite forallb_forall. intros H Hn.
  assert (Hin : In s sides) by (destruct s; cbn; tauto).
  specialize (H s Hin). rewrite Hn in H. exact H.
Qed.

Lemma need_level_need e s : need_level e s = true -> need dec e s = true.
Proof. intros H. unfold need. rewrite H. reflexivity. Qed.

Lemma suff_unfold e : suff dec e = true ->
  suff_node dec e = true /\
  match e with
  | Atom _ _ => True
  | Field a _ | Blk a | Un _ a | Lam _ a => suff dec a = true
  | Call a b | Bin _ a b | Mat a _ b => suff dec a = true /\ suff dec b = true
  | If c a b => suff dec c = true /\ suff dec a = true /\ suff dec b = true
  end.
Proof.
  unfold suff. generalize (suff_node dec) as Q. intros Q.
  destruct e; cbn [all_nodes]; rewrite ?andb_true_iff; tauto.
Qed.

Lemma ltb_true a b : a < b -> (a <? b) = true.
Proof. intros. apply Nat.ltb_lt. assumption. Qed.

(* first token of a printed expression *)
Lemma gp_head : forall c, suff dec c = true ->
  exists t rest, gp dec c = t :: rest /\ level_of c <= hd_level t.
Proof.
  induction c as [l n|a IHa f|a IHa x IHx|a IHa|u a IHa|o a IHa b IHb|c IHc a IHa b IHb|s IHs p b IHb|x b IHb];
    intros Hs; apply suff_unfold in Hs; destruct Hs as [Hn Hc]; cbn [gp level_of].
  - destruct l; eexists _, _; split; try reflexivity; cbn; lia.
  - destruct (dec (Field a f) SBase) eqn:Ed; cbn [wrap app].
    + eexists _, _; split; [reflexivity|cbn; lia].
    + destruct (IHa Hc) as (t & rest & E & Hl). rewrite E. cbn [app]. eexists _, _; split; [reflexivity|].
      destruct (Nat.ltb_spec (level_of a) 8) as [Hlt|]; [|lia].
      rewrite (suff_node_side _ SBase Hn) in Ed; [discriminate|]. apply need_level_need. cbn [need_level]. apply ltb_true. exact Hlt.
  - destruct Hc as [Hca Hcx]. destruct (dec (Call a x) SBase) eqn:Ed; cbn [wrap app].
    + eexists _, _; split; [reflexivity|cbn; lia].
    + destruct (IHa Hca) as (t & rest & E & Hl). rewrite E. cbn [app]. eexists _, _; split; [reflexivity|].
      destruct (Nat.ltb_spec (level_of a) 8) as [Hlt|]; [|lia].
      rewrite (suff_node_side _ SBase Hn) in Ed; [discriminate|]. apply need_level_need. cbn [need_level]. apply ltb_true. exact Hlt.
  - eexists _, _; split; [reflexivity|cbn; lia].
  - destruct u; eexists _, _; split; try reflexivity; cbn; lia.
  - destruct Hc as [Hca Hcb]. pose proof (plevel_bounds o).
    destruct (dec (Bin o a b) SLeft) eqn:Ed; cbn [wrap app].
    + eexists _, _; split; [reflexivity|cbn; lia].
    + destruct (IHa Hca) as (t & rest & E & Hl). rewrite E. cbn [app]. eexists _, _; split; [reflexivity|].
      destruct (Nat.ltb_spec (level_of a) (plevel o)) as [Hlt|]; [|lia].
      rewrite (suff_node_side _ SLeft Hn) in Ed; [discriminate|]. apply need_level_need. cbn [need_level]. apply ltb_true. exact Hlt.
  - eexists _, _; split; [reflexivity|cbn; lia].
  - eexists _, _; split; [reflexivity|cbn; lia].
  - eexists _, _; split; [reflexivity|cbn; lia].
Qed.

(* a printed expression that starts with an identifier is that identifier alone, or goes on
   with something that is not `)` *)
Lemma gp_head_id : forall c x rest, gp dec c = TId x :: rest ->
  (c = Atom true x /\ rest = []) \/ (exists t rest', rest = t :: rest' /\ t <> RP).
Proof.
  induction c as [l n|a IHa f|a IHa y IHy|a IHa|u a IHa|o a IHa b IHb|c IHc a IHa b IHb|s IHs p b IHb|y b IHb];
    intros x rest E; cbn [gp] in E.
  - destruct l; inversion E; subst. left. split; reflexivity.
  - destruct (dec (Field a f) SBase); cbn [wrap app] in E; [discriminate|].
    destruct (gp dec a) as [|t0 l0] eqn:Ea; cbn [app] in E; [discriminate|].
    inversion E; subst. destruct (IHa x l0 eq_refl) as [[_ ->]|(t & r' & -> & Ht)]; right.
    + eexists _, _; split; [reflexivity|discriminate].
    + eexists _, _; split; [reflexivity|exact Ht].
  - destruct (dec (Call a y) SBase); cbn [wrap app] in E; [discriminate|].
    destruct (gp dec a) as [|t0 l0] eqn:Ea; cbn [app] in E; [discriminate|].
    inversion E; subst. destruct (IHa x l0 eq_refl) as [[_ ->]|(t & r' & -> & Ht)]; right.
    + eexists _, _; split; [reflexivity|discriminate].
    + eexists _, _; split; [reflexivity|exact Ht].
  - discriminate.
  - destruct u; discriminate.
  - destruct (dec (Bin o a b) SLeft); cbn [wrap app] in E; [discriminate|].
    destruct (gp dec a) as [|t0 l0] eqn:Ea; cbn [app] in E; [discriminate|].
    inversion E; subst. destruct (IHa x l0 eq_refl) as [[_ ->]|(t & r' & -> & Ht)]; right.
    + eexists _, _; split; [reflexivity|discriminate].
    + eexists _, _; split; [reflexivity|exact Ht].
  - discriminate.
  - discriminate.
  - discriminate.
Qed.

Lemma paren_parse c ts : suff dec c = true ->
  parses (MLevel 0) (gp dec c ++ RP :: ts) (c, RP :: ts) ->
  follow_ok 9 ts -> parses (MLevel 9) (LP :: gp dec c ++ RP :: ts) (c, ts).
Proof.
  intros Hs Hunp Hf. destruct (gp_head c Hs) as (t & rest & E & _).
  rewrite E in *. cbn [app] in *.
  assert (Hdec : (exists x, t = TId x) \/ (forall x, t <> TId x)).
  { destruct t; try (right; discriminate). left. eexists. reflexivity. }
  destruct Hdec as [[x ->]|Hne].
  - destruct (gp_head_id c x rest E) as [[-> ->]|(t' & rest' & -> & Ht')].
    + cbn [app]. apply base_paren_id. exact Hf.
    + cbn [app] in *. apply base_paren_frombase; [exact Ht'|]. apply frombase_of_level0. exact Hunp.
  - apply base_paren; assumption.
Qed.

(* the printed child ends with a field name *)
Definition efp (b : bool) (c : expr) : bool := negb b && ends_field dec c.

Definition A (c : expr) : Prop := forall k b ts, k <= 9 -> (level_of c < k -> b = true) ->
  follow_ok k ts -> (efp b c = true -> not_lt ts) -> parses (MLevel k) (wrap b (gp dec c) ++ ts) (c, ts).
Definition L (c : expr) : Prop := forall j b ts r, 1 <= j <= 6 -> (level_of c < j -> b = true) ->
  follow_ok (S j) ts -> (efp b c = true -> not_lt ts) -> parses (MLoop j c) ts r ->
  parses (MLevel j) (wrap b (gp dec c) ++ ts) r.
Definition P (c : expr) : Prop := forall b ts r, (level_of c < 8 -> b = true) ->
  follow_ok 9 ts -> (efp b c = true -> not_lt ts) -> parses (MPost c) ts r ->
  parses (MLevel 8) (wrap b (gp dec c) ++ ts) r.
Definition A0 (c : expr) : Prop := forall ts, follow_ok (level_of c) ts ->
  (ends_field dec c = true -> not_lt ts) -> parses (MLevel (level_of c)) (gp dec c ++ ts) (c, ts).

Lemma A_of_A0 c : suff dec c = true -> A0 c -> A c.
Proof.
  intros Hs H0 k b ts Hk Hb Hf Hlt. pose proof (level_of_bound c) as Hbound.
  destruct (gp_head c Hs) as (t & rest & E & Hh).
  assert (Hunp : forall k' ts', k' <= level_of c -> follow_ok k' ts' -> (ends_field dec c = true -> not_lt ts') ->
                 parses (MLevel k') (gp dec c ++ ts') (c, ts')).
  { intros k' ts' Hk' Hf' Hl'. specialize (H0 ts'). rewrite E in *. cbn [app] in *.
    apply (descend_to k' (level_of c)); auto. apply H0; [|exact Hl']. eapply follow_ok_mono; eauto. }
  destruct b; cbn [wrap].
  - cbn [app]. rewrite <- app_assoc. cbn [app].
    apply (descend_to k 9); [lia|lia|cbn; lia|exact Hf|].
    apply paren_parse; [exact Hs| |eapply follow_ok_mono; [|exact Hf]; lia].
    apply Hunp; [lia|exact I|intros _; exact I].
  - apply Hunp; [|exact Hf|exact Hlt]. destruct (Nat.lt_ge_cases (level_of c) k) as [Hl|]; [|assumption].
    specialize (Hb Hl). discriminate.
Qed.

Lemma P_of_A c : A c -> level_of c <> 8 -> P c.
Proof.
  intros HA Hne b ts r Hb Hf Hlt Hp. eapply level8_step; [|exact Hp].
  apply (HA 9 b ts); [lia| |exact Hf|exact Hlt]. intros Hl. apply Hb. lia.
Qed.

Lemma L_of_A c : A c -> (level_of c = 0 \/ 7 <= level_of c) -> L c.
Proof.
  intros HA Hl j b ts r Hj Hb Hf Hlt Hp. eapply level_step; [lia| |exact Hp].
  apply (HA (S j) b ts); [lia| |exact Hf|exact Hlt]. intros Hl'. apply Hb. lia.
Qed.

Lemma wrap_false l : wrap false l = l. Proof. reflexivity. Qed.
Lemma efp_true c : efp true c = true -> False. Proof. discriminate. Qed.

Theorem all_ALP : forall c, suff dec c = true -> A c /\ L c /\ P c.
Proof.
  induction c as [l n|a IHa f|a IHa x IHx|a IHa|u a IHa|o a IHa b IHb|c IHc a IHa b IHb|s IHs p b IHb|x b IHb];
    intros Hs; pose proof Hs as Hs'; apply suff_unfold in Hs'; destruct Hs' as [Hn Hc].
  - (* Atom *)
    assert (HA : A (Atom l n)).
    { apply A_of_A0; [exact Hs|]. intros ts _ _. exists 1. destruct l; reflexivity. }
    split; [exact HA|]. split; [apply L_of_A; [exact HA|cbn; lia]|apply P_of_A; [exact HA|cbn; lia]].
  - (* Field *)
    destruct (IHa Hc) as (Aa & La & Pa).
    assert (Hb1 : level_of a < 8 -> dec (Field a f) SBase = true).
    { intros Hlt. apply (suff_node_side _ SBase Hn). apply need_level_need. cbn [need_level]. apply ltb_true. exact Hlt. }
    assert (HA : A (Field a f)).
    { apply A_of_A0; [exact Hs|]. intros ts Hf Hlt. cbn [level_of gp] in *. rewrite <- app_assoc. cbn [app].
      apply Pa; [exact Hb1|cbn; lia|intros _; exact I|]. apply post_field; [apply Hlt; reflexivity|].
      apply post_exit. exact Hf. }
    split; [exact HA|]. split; [apply L_of_A; [exact HA|cbn; lia]|].
    intros b ts r Hb Hf Hlt Hp. destruct b.
    + eapply level8_step; [|exact Hp]. apply (HA 9 true ts); [lia|reflexivity|exact Hf|intros H; discriminate H].
    + rewrite wrap_false. cbn [gp]. rewrite <- app_assoc. cbn [app].
      apply Pa; [exact Hb1|cbn; lia|intros _; exact I|]. apply post_field; [apply Hlt; reflexivity|exact Hp].
  - (* Call *)
    destruct Hc as [Hca Hcx]. destruct (IHa Hca) as (Aa & La & Pa). destruct (IHx Hcx) as (Ax & _ & _).
    assert (Hb1 : level_of a < 8 -> dec (Call a x) SBase = true).
    { intros Hlt. apply (suff_node_side _ SBase Hn). apply need_level_need. cbn [need_level]. apply ltb_true. exact Hlt. }
    assert (Harg : forall ts, parses (MLevel 0) (gp dec x ++ RP :: ts) (x, RP :: ts)).
    { intros ts. apply (Ax 0 false (RP :: ts)); [lia|lia|exact I|intros _; exact I]. }
    assert (HA : A (Call a x)).
    { apply A_of_A0; [exact Hs|]. intros ts Hf _. cbn [level_of gp] in *. rewrite <- app_assoc. cbn [app].
      rewrite <- app_assoc. cbn [app].
      apply Pa; [exact Hb1|cbn; lia|intros _; exact I|]. eapply post_call; [apply Harg|]. apply post_exit. exact Hf. }
    split; [exact HA|]. split; [apply L_of_A; [exact HA|cbn; lia]|].
    intros b ts r Hb Hf Hlt Hp. destruct b.
    + eapply level8_step; [|exact Hp]. apply (HA 9 true ts); [lia|reflexivity|exact Hf|intros H; discriminate H].
    + rewrite wrap_false. cbn [gp]. rewrite <- app_assoc. cbn [app]. rewrite <- app_assoc. cbn [app].
      apply Pa; [exact Hb1|cbn; lia|intros _; exact I|]. eapply post_call; [apply Harg|exact Hp].
  - (* Blk *)
    destruct (IHa Hc) as (Aa & _ & _).
    assert (HA : A (Blk a)).
    { apply A_of_A0; [exact Hs|]. intros ts _ _. cbn [level_of gp]. cbn [app]. rewrite <- app_assoc. cbn [app].
      apply base_blk. apply (Aa 0 false (RB :: ts)); [lia|lia|exact I|intros _; exact I]. }
    split; [exact HA|]. split; [apply L_of_A; [exact HA|cbn; lia]|apply P_of_A; [exact HA|cbn; lia]].
  - (* Un *)
    destruct (IHa Hc) as (Aa & _ & _).
    assert (Hb1 : level_of a < 8 -> dec (Un u a) SArg = true).
    { intros Hlt. apply (suff_node_side _ SArg Hn). apply need_level_need. cbn [need_level]. apply ltb_true. exact Hlt. }
    assert (HA : A (Un u a)).
    { apply A_of_A0; [exact Hs|]. intros ts Hf Hlt. cbn [level_of gp] in *. cbn [app].
      apply unary_parse. apply Aa; [lia|exact Hb1| |exact Hlt]. eapply follow_ok_mono; [|exact Hf]. lia. }
    split; [exact HA|]. split; [apply L_of_A; [exact HA|cbn; lia]|apply P_of_A; [exact HA|cbn; lia]].
  - (* Bin *)
    destruct Hc as [Hca Hcb]. destruct (IHa Hca) as (Aa & La & _). destruct (IHb Hcb) as (Ab & _ & _).
    pose proof (plevel_bounds o) as Ho.
    assert (Hbl : level_of a < plevel o -> dec (Bin o a b) SLeft = true).
    { intros Hlt. apply (suff_node_side _ SLeft Hn). apply need_level_need. cbn [need_level]. apply ltb_true. exact Hlt. }
    assert (Hbl_lt : efp (dec (Bin o a b) SLeft) a = true -> not_lt (TOp o :: wrap (dec (Bin o a b) SRight) (gp dec b))).
    { intros He. destruct o; try exact I. unfold efp in He. apply andb_prop in He. destruct He as [He1 He2].
      rewrite (suff_node_side _ SLeft Hn) in He1; [discriminate|].
      unfold need. cbn [need_lt is_lt]. rewrite He2. apply orb_true_r. }
    assert (Hbr : level_of b < S (plevel o) -> dec (Bin o a b) SRight = true).
    { intros Hlt. apply (suff_node_side _ SRight Hn). apply need_level_need. cbn [need_level]. apply ltb_true. exact Hlt. }
    (* continuing the chain at the node's own level *)
    assert (Hchain : forall ts r, follow_ok (S (plevel o)) ts -> (ends_field dec (Bin o a b) = true -> not_lt ts) ->
                     parses (MLoop (plevel o) (Bin o a b)) ts r ->
                     parses (MLevel (plevel o)) (gp dec (Bin o a b) ++ ts) r).
    { intros ts r Hf Hlt Hp. cbn [gp]. rewrite <- app_assoc. cbn [app].
      apply La; [lia|exact Hbl|cbn; lia| |].
      - intros He. specialize (Hbl_lt He). destruct o; exact I || exact Hbl_lt.
      - eapply loop_step; [reflexivity| |exact Hp].
        apply Ab; [lia|exact Hbr|exact Hf|exact Hlt]. }
    assert (HA : A (Bin o a b)).
    { apply A_of_A0; [exact Hs|]. intros ts Hf Hlt. cbn [level_of] in *.
      apply Hchain; [eapply follow_ok_mono; [|exact Hf]; lia|exact Hlt|]. apply loop_exit. exact Hf. }
    split; [exact HA|]. split.
    + intros j bf ts r Hj Hb Hf Hlt Hp. cbn [level_of] in Hb.
      destruct bf.
      * eapply level_step; [lia| |exact Hp]. apply (HA (S j) true ts); [lia|reflexivity|exact Hf|intros H; discriminate H].
      * rewrite wrap_false.
        destruct (Nat.eq_dec (plevel o) j) as [<-|Hne].
        -- apply Hchain; assumption.
        -- eapply level_step; [lia| |exact Hp].
           assert (Hge : j <= plevel o).
           { destruct (Nat.lt_ge_cases (plevel o) j) as [Hl|]; [specialize (Hb Hl); discriminate|assumption]. }
           apply (HA (S j) false ts); [lia| |exact Hf|exact Hlt]. cbn [level_of]. intros. lia.
    + intros bf ts r Hb Hf Hlt Hp. cbn [level_of] in Hb. rewrite (Hb ltac:(lia)).
      eapply level8_step; [|exact Hp]. apply (HA 9 true ts); [lia|reflexivity|exact Hf|intros H; discriminate H].
  - (* If *)
    destruct Hc as (Hcc & Hca & Hcb).
    destruct (IHc Hcc) as (Ac & _ & _). destruct (IHa Hca) as (Aa & _ & _). destruct (IHb Hcb) as (Ab & _ & _).
    assert (HA : A (If c a b)).
    { apply A_of_A0; [exact Hs|]. intros ts _ _. cbn [level_of gp]. cbn [app].
      repeat (rewrite <- app_assoc; cbn [app]).
      eapply if_parse.
      - apply (Ac 0 false); [lia|lia|exact I|intros _; exact I].
      - apply (Aa 0 false); [lia|lia|exact I|intros _; exact I].
      - apply (Ab 0 false); [lia|lia|exact I|intros _; exact I]. }
    split; [exact HA|]. split; [apply L_of_A; [exact HA|cbn; lia]|apply P_of_A; [exact HA|cbn; lia]].
  - (* Mat *)
    destruct Hc as (Hcs & Hcb).
    destruct (IHs Hcs) as (As & _ & _). destruct (IHb Hcb) as (Ab & _ & _).
    assert (HA : A (Mat s p b)).
    { apply A_of_A0; [exact Hs|]. intros ts _ _. cbn [level_of gp]. cbn [app].
      repeat (rewrite <- app_assoc; cbn [app]).
      eapply match_parse.
      - apply (As 0 false); [lia|lia|exact I|intros _; exact I].
      - apply (Ab 0 false); [lia|lia|exact I|intros _; exact I]. }
    split; [exact HA|]. split; [apply L_of_A; [exact HA|cbn; lia]|apply P_of_A; [exact HA|cbn; lia]].
  - (* Lam *)
    destruct (IHb Hc) as (Ab & _ & _).
    assert (HA9 : forall ts, follow_ok 0 ts -> (ends_field dec (Lam x b) = true -> not_lt ts) ->
                  parses (MLevel 9) (gp dec (Lam x b) ++ ts) (Lam x b, ts)).
    { intros ts Hf Hlt. cbn [gp app]. apply base_lam. apply Ab; [lia|lia|exact Hf|exact Hlt]. }
    assert (HA : A (Lam x b)).
    { apply A_of_A0; [exact Hs|]. intros ts Hf Hlt. cbn [level_of] in *.
      specialize (HA9 ts Hf Hlt). cbn [gp app] in *. apply (descend_to 0 9); [lia|lia|cbn; lia|exact Hf|exact HA9]. }
    split; [exact HA|]. split; [apply L_of_A; [exact HA|cbn; lia]|apply P_of_A; [exact HA|cbn; lia]].
Qed.

Theorem gp_roundtrip e : suff dec e = true -> exists fuel, parse_expr fuel (gp dec e) = Some e.
Proof.
  intros Hs. destruct (all_ALP e Hs) as (HA & _ & _).
  destruct (HA 0 false [] ltac:(lia) ltac:(lia) I ltac:(intros _; exact I)) as [f H]. rewrite wrap_false, app_nil_r in H.
  exists f. unfold parse_expr. rewrite H. reflexivity.
Qed.
End RoundTrip.
