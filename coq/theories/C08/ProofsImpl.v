(* C08 — proofs, part 2: the implementation's parenthesisation against the grammar's needs;
   the known classes K1-K3 are exactly the nodes where a needed parenthesis is omitted. *)
From Coq Require Import List Arith Bool Lia.
Import ListNotations.
From SV Require Import C08.Syntax C08.Model C08.ProofsMono C08.Proofs.
From SVG Require Import PrecTable.

(* the reference printer round-trips *)
Lemma ends_field_ref e : ends_field dec_ref e = ends_ref e.
Proof.
  induction e; cbn [ends_field ends_ref]; try reflexivity.
  - rewrite IHe. unfold dec_ref. cbn [need_level]. rewrite orb_false_r. reflexivity.
  - rewrite IHe2. unfold dec_ref. cbn [need_level]. rewrite orb_false_r. reflexivity.
  - rewrite IHe. unfold dec_ref. cbn [need_level orb negb andb]. reflexivity.
Qed.

Lemma need_dec_ref e s : need dec_ref e s = dec_ref e s.
Proof.
  unfold need, dec_ref, need_lt. destruct e, s; try reflexivity. rewrite ends_field_ref. reflexivity.
Qed.

Lemma suff_node_need e : suff_node dec_ref e = true.
Proof. unfold suff_node. cbn [forallb sides]. rewrite !need_dec_ref. repeat rewrite Bool.implb_same. reflexivity. Qed.

Lemma all_nodes_true P e : (forall x, P x = true) -> all_nodes P e = true.
Proof. intros HP. induction e; cbn [all_nodes]; rewrite ?HP, ?IHe, ?IHe1, ?IHe2, ?IHe3; reflexivity. Qed.

Theorem roundtrip e : exists fuel, parse_expr fuel (pr e) = Some e.
Proof. apply gp_roundtrip. apply all_nodes_true. exact suff_node_need. Qed.

Theorem impl_roundtrip e : safe e = true -> exists fuel, parse_expr fuel (impl e) = Some e.
Proof. apply gp_roundtrip. Qed.

(* exact agreement: the implementation prints what the reference printer prints *)
Lemma gp_ext d1 d2 e : all_nodes (fun x => forallb (fun s => Bool.eqb (d1 x s) (d2 x s)) sides) e = true ->
  gp d1 e = gp d2 e.
Proof.
  induction e; cbn [all_nodes gp]; rewrite ?andb_true_iff; cbn [forallb sides]; rewrite ?andb_true_iff;
    intros H; repeat match goal with H : _ /\ _ |- _ => destruct H end;
    repeat match goal with H : Bool.eqb _ _ = true |- _ => apply eqb_prop in H; try rewrite H; clear H end;
    rewrite ?IHe, ?IHe1, ?IHe2, ?IHe3 by assumption; try reflexivity.
Qed.

Theorem impl_ideal e : agree e = true -> impl e = pr e.
Proof. intros H. symmetry. apply gp_ext. exact H. Qed.

(* ---- node-level characterisation: a needed parenthesis is missing iff the node is K1, K2 or K3 *)
Definition suff_node_level (dec : expr -> side -> bool) (e : expr) : bool :=
  forallb (fun s => implb (need_level e s) (dec e s)) sides.
Definition lt_ok (dec : expr -> side -> bool) (e : expr) : bool :=
  match e with
  | Bin o a _ => implb (is_lt o && ends_field dec a) (dec e SLeft)
  | _ => true
  end.

Lemma implb_orb_l x y d : implb (x || y) d = implb x d && implb y d.
Proof. destruct x, y, d; reflexivity. Qed.

Lemma suff_node_split dec e : suff_node dec e = suff_node_level dec e && lt_ok dec e.
Proof.
  unfold suff_node, suff_node_level, lt_ok, need. cbn [forallb sides]. rewrite !implb_orb_l.
  destruct e; cbn [need_lt implb]; rewrite ?andb_true_r; try reflexivity.
  generalize (implb (is_lt o && ends_field dec e1) (dec (Bin o e1 e2) SLeft)) as z.
  generalize (implb (need_level (Bin o e1 e2) SBase) (dec (Bin o e1 e2) SBase)) as a.
  generalize (implb (need_level (Bin o e1 e2) SArg) (dec (Bin o e1 e2) SArg)) as b.
  generalize (implb (need_level (Bin o e1 e2) SLeft) (dec (Bin o e1 e2) SLeft)) as c.
  generalize (implb (need_level (Bin o e1 e2) SRight) (dec (Bin o e1 e2) SRight)) as d.
  generalize (implb (need_level (Bin o e1 e2) SBody) (dec (Bin o e1 e2) SBody)) as f.
  intros [] [] [] [] [] []; reflexivity.
Qed.

Lemma node_char_level e : suff_node_level dec_impl e = negb (k1 e || k3 e).
Proof.
  destruct e as [l n|a f|a x|a|u a|o a b|c a b|s p b|x b]; try reflexivity.
  - destruct a as [| | | | |oa ? ?| | |]; try reflexivity; destruct oa; reflexivity.
  - destruct a as [| | | | |oa ? ?| | |]; try reflexivity; destruct oa; reflexivity.
  - destruct u; destruct a as [| | | | |oa ? ?| | |]; try reflexivity; destruct oa; reflexivity.
  - destruct (bop_eqb_spec o Lt) as [->|Hne].
    + unfold suff_node_level. cbn [forallb sides dec_impl is_lt andb]. generalize (may_end a). intros m.
      destruct a as [[]| | | | |oa ? ?| | |]; destruct b as [[]| | | | |ob ? ?| | |];
        try destruct oa; try destruct ob; destruct m; reflexivity.
    + assert (Hlt : is_lt o = false) by (destruct o; try reflexivity; congruence).
      unfold suff_node_level. cbn [forallb sides dec_impl]. rewrite Hlt. cbn [andb].
      destruct a as [[]| | | | |oa ? ?| | |]; destruct b as [[]| | | | |ob ? ?| | |];
        try destruct oa; try destruct ob; destruct o; try congruence; reflexivity.
Qed.

Lemma ends_field_may_end dec : forall e, ends_field dec e = true -> may_end e = true.
Proof.
  induction e; cbn [ends_field may_end]; intros H; try discriminate; try reflexivity;
    apply andb_prop in H; destruct H as [_ H]; auto.
Qed.

(* since 98c0b1b the guard covers every left operand of `<` whose printed form ends with a field name *)
Lemma node_char_lt e : lt_ok dec_impl e = true.
Proof.
  destruct e as [l n|a f|a x|a|u a|o a b|c a b|s p b|x b]; try reflexivity.
  unfold lt_ok. destruct o; try reflexivity. cbn [is_lt andb].
  destruct (ends_field dec_impl a) eqn:E; [|reflexivity].
  cbn [implb dec_impl is_lt andb]. rewrite (ends_field_may_end _ _ E). reflexivity.
Qed.

Lemma node_char e : suff_node dec_impl e = negb (known_node e).
Proof.
  rewrite suff_node_split, node_char_level, node_char_lt. unfold known_node. rewrite andb_true_r. reflexivity.
Qed.

Lemma all_any P e : all_nodes (fun x => negb (P x)) e = negb (any_node P e).
Proof. induction e; cbn [all_nodes any_node]; rewrite ?IHe, ?IHe1, ?IHe2, ?IHe3, ?negb_orb; reflexivity. Qed.

Lemma all_nodes_ext P Q e : (forall x, P x = Q x) -> all_nodes P e = all_nodes Q e.
Proof. intros H. induction e; cbn [all_nodes]; rewrite ?H, ?IHe, ?IHe1, ?IHe2, ?IHe3; reflexivity. Qed.

Theorem safe_known e : safe e = negb (known_C08 e).
Proof. unfold safe, suff, known_C08. rewrite <- all_any. apply all_nodes_ext. exact node_char. Qed.

Theorem impl_roundtrip_outside_known e : known_C08 e = false ->
  exists fuel, parse_expr fuel (impl e) = Some e.
Proof. intros H. apply impl_roundtrip. rewrite safe_known, H. reflexivity. Qed.

(* idempotence on the fragment (C09): printing what the printer's output parses to is a no-op *)
Theorem impl_idempotent e : known_C08 e = false ->
  exists fuel e', parse_expr fuel (impl e) = Some e' /\ impl e' = impl e.
Proof. intros H. destruct (impl_roundtrip_outside_known e H) as [f Hf]. exists f, e. split; [exact Hf|reflexivity]. Qed.

(* the one simplification of create_chainable_ir_docs in the model is justified by the table *)
Lemma chain_parent_prec : ctor_prec CCall = ctor_prec CFieldAccess /\ ctor_prec CMethodAccess = ctor_prec CFieldAccess.
Proof. split; reflexivity. Qed.

(* ---- witnesses: the output of the implementation re-parses to a different tree, or not at all *)
Definition xa := Atom true 0. Definition xb := Atom true 1. Definition xc := Atom true 2.

Lemma K1_witness : known_C08 (Bin Mul xa (Bin Div xb xc)) = true /\ k1 (Bin Mul xa (Bin Div xb xc)) = true /\
  parse_expr 60 (impl (Bin Mul xa (Bin Div xb xc))) = Some (Bin Div (Bin Mul xa xb) xc).
Proof. repeat split; vm_compute; reflexivity. Qed.

Lemma K1_witness_cmp : k1 (Bin Eq xa (Bin Lt xb xc)) = true /\
  parse_expr 60 (impl (Bin Eq xa (Bin Lt xb xc))) = Some (Bin Lt (Bin Eq xa xb) xc).
Proof. split; vm_compute; reflexivity. Qed.

(* repaired by 98d650f: !(!x) keeps its parentheses and is read back *)
Lemma K2_repaired : known_C08 (Un Not (Un Not xa)) = false /\
  impl (Un Not (Un Not xa)) = [TBang; LP; TBang; TId 0; RP] /\
  parse_expr 60 (impl (Un Not (Un Not xa))) = Some (Un Not (Un Not xa)).
Proof. repeat split; vm_compute; reflexivity. Qed.

Lemma K3_witness : known_C08 (Bin Concat (Bin Plus xa xb) xc) = true /\ k3 (Bin Concat (Bin Plus xa xb) xc) = true /\
  parse_expr 60 (impl (Bin Concat (Bin Plus xa xb) xc)) = Some (Bin Plus xa (Bin Concat xb xc)).
Proof. repeat split; vm_compute; reflexivity. Qed.

Lemma K3_witness_right : k3 (Bin Concat xa (Bin Mul xb xc)) = true /\
  parse_expr 60 (impl (Bin Concat xa (Bin Mul xb xc))) = Some (Bin Mul (Bin Concat xa xb) xc).
Proof. split; vm_compute; reflexivity. Qed.

(* repaired by 98c0b1b: (a.b) < c keeps its parentheses; the unguarded output a.b < c is still rejected by the parser model *)
Lemma K6_repaired : known_C08 (Bin Lt (Field xa 1) xb) = false /\
  impl (Bin Lt (Field xa 1) xb) = [LP; TId 0; TDot; TFld 1; RP; TOp Lt; TId 1] /\
  parse_expr 60 (impl (Bin Lt (Field xa 1) xb)) = Some (Bin Lt (Field xa 1) xb) /\
  parse_expr 60 [TId 0; TDot; TFld 1; TOp Lt; TId 1] = None.
Proof. repeat split; vm_compute; reflexivity. Qed.

(* ---- the answer of the parser does not depend on the fuel *)
Lemma parse_expr_mono f f' ts e : parse_expr f ts = Some e -> f <= f' -> parse_expr f' ts = Some e.
Proof.
  unfold parse_expr. intros H Hle. destruct (go f (MLevel 0) ts) as [[x r]|] eqn:E; [|discriminate].
  rewrite (go_mono _ _ _ _ E f' Hle). exact H.
Qed.

Lemma parse_expr_unique f1 f2 ts a b : parse_expr f1 ts = Some a -> parse_expr f2 ts = Some b -> a = b.
Proof.
  intros H1 H2. apply (parse_expr_mono _ (max f1 f2)) in H1; [|lia].
  apply (parse_expr_mono _ (max f1 f2)) in H2; [|lia]. congruence.
Qed.

(* the full-strength statement (no exclusion) is false of the faithful model *)
Theorem impl_roundtrip_refuted : exists e, forall fuel, parse_expr fuel (impl e) <> Some e.
Proof.
  exists (Bin Mul xa (Bin Div xb xc)). intros fuel H.
  destruct K1_witness as (_ & _ & Hw). pose proof (parse_expr_unique _ _ _ _ _ H Hw) as E. discriminate E.
Qed.

(* inside each class the output really is read back differently (per-class witnesses above);
   outside, printing the parse of the output gives the output again *)
Theorem format_idempotent_fragment e : known_C08 e = false ->
  forall fuel e', parse_expr fuel (impl e) = Some e' -> impl e' = impl e.
Proof.
  intros Hk fuel e' H. destruct (impl_roundtrip_outside_known e Hk) as [f Hf].
  rewrite (parse_expr_unique _ _ _ _ _ H Hf). reflexivity.
Qed.
