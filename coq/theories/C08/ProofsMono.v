(* C08 — proofs, part 0: fuel monotonicity of the parser model. *)
From Coq Require Import List Arith Bool Lia.
Import ListNotations.
From SV Require Import C08.Syntax C08.Model.

Lemma plevel_bounds o : 1 <= plevel o <= 6.
Proof. destruct o; cbn; lia. Qed.

Lemma level_of_bound e : level_of e <= 9.
Proof. destruct e; cbn; try lia. pose proof (plevel_bounds o). lia. Qed.

(* ------------------------------------------------------------------ fuel monotonicity *)
Ltac crunch IH f' Hle' H :=
  repeat (first
   [ match type of H with
     | context [match go ?f ?m ?ts with _ => _ end] =>
        let E := fresh "E" in
        destruct (go f m ts) as [[? ?]|] eqn:E; [rewrite (IH _ _ _ E f' Hle') | discriminate H]
     end
   | match type of H with
     | context [match ?x with _ => _ end] => is_var x; destruct x; try discriminate H
     end
   | match type of H with
     | context [if ?c then _ else _] => destruct c
     end ]);
  first [exact H | eapply IH; eassumption | discriminate H].

Lemma go_mono : forall f m ts r, go f m ts = Some r -> forall f', f <= f' -> go f' m ts = Some r.
Proof.
  induction f as [|f IH]; intros m ts r H f' Hle; [discriminate|].
  destruct f' as [|f']; [lia|]. assert (Hle' : f <= f') by lia.
  cbn [go] in *. destruct m as [k|k e|e|k e|e]; crunch IH f' Hle' H.
Qed.

Definition parses (m : mode) (ts : list tok) (r : expr * list tok) : Prop :=
  exists f, go f m ts = Some r.

