(* C08 — the property theorems.  Statements closed by `exact`, Print Assumptions, non-vacuity.
   Parsed by /verif/check.

   Full statement of the property on the model of the expression fragment:
     forall e, exists fuel, parse_expr fuel (impl e) = Some e
   It is FALSE of the faithful model (C08_impl_roundtrip_refuted); what is proved is the statement
   outside the decidable class Known_C08 (= a needed parenthesis is omitted = K1 or K3 node).
   K2 (unary under unary) and K6 (field name before `<`) were in the class until 98d650f / 98c0b1b. *)
From Coq Require Import List Arith Bool NArith ZArith String.
Import ListNotations.
(* the full model first: the names it shares with the fragment model (tok, TOp, not_lt, ..) then denote the fragment's *)
From SV Require Import C08.FSyntax C08.FModelTypes C08.FModelExpr C08.FModelDecl C08.FProofsGen C08.FProofsTypes C08.FProofsExprFuel
  C08.FProofsExpr C08.FProofsImpl C08.FProofsDecl C08.FProofsImage.
From SV Require Import C08.Syntax C08.Model C08.Proofs C08.ProofsImpl C08.Layout C08.LayoutProofs C08.Lit C08.LitProofs.

(* the grammar's own minimal-parenthesis printer is read back by the parser's level structure *)
Theorem C08_reference_roundtrip : forall e, exists fuel, parse_expr fuel (pr e) = Some e.
Proof. exact roundtrip. Qed.

(* any printer that puts at least the needed parentheses is read back *)
Theorem C08_sufficient_parentheses_roundtrip : forall dec e, suff dec e = true ->
  exists fuel, parse_expr fuel (gp dec e) = Some e.
Proof. exact gp_roundtrip. Qed.

(* the implementation's printer outside the known classes *)
Theorem C08_impl_roundtrip_outside_known : forall e, ~ Known_C08 e ->
  exists fuel, parse_expr fuel (impl e) = Some e.
Proof.
  intros e H. apply impl_roundtrip_outside_known. unfold Known_C08 in H.
  destruct (known_C08 e); [exfalso; apply H; reflexivity|reflexivity].
Qed.

Theorem C08_impl_roundtrip_refuted : exists e, forall fuel, parse_expr fuel (impl e) <> Some e.
Proof. exact impl_roundtrip_refuted. Qed.

(* the class is exactly "some node omits a parenthesis the grammar needs", and that is exactly
   "some node is K1 or K3" (known_C08 is defined as the latter) *)
Theorem C08_known_class_exact : forall e, safe e = negb (known_C08 e).
Proof. exact safe_known. Qed.

Theorem C08_agree_prints_reference : forall e, agree e = true -> impl e = pr e.
Proof. exact impl_ideal. Qed.

Theorem C08_K1_witness : known_C08 (Bin Mul xa (Bin Div xb xc)) = true /\ k1 (Bin Mul xa (Bin Div xb xc)) = true /\
  parse_expr 60 (impl (Bin Mul xa (Bin Div xb xc))) = Some (Bin Div (Bin Mul xa xb) xc).
Proof. exact K1_witness. Qed.

(* repaired classes, kept as regression statements *)
Theorem C08_K2_repaired : known_C08 (Un Not (Un Not xa)) = false /\
  impl (Un Not (Un Not xa)) = [TBang; LP; TBang; TId 0; RP] /\
  parse_expr 60 (impl (Un Not (Un Not xa))) = Some (Un Not (Un Not xa)).
Proof. exact K2_repaired. Qed.

Theorem C08_K3_witness : known_C08 (Bin Syntax.Concat (Bin Plus xa xb) xc) = true /\ k3 (Bin Syntax.Concat (Bin Plus xa xb) xc) = true /\
  parse_expr 60 (impl (Bin Syntax.Concat (Bin Plus xa xb) xc)) = Some (Bin Plus xa (Bin Syntax.Concat xb xc)).
Proof. exact K3_witness. Qed.

Theorem C08_K6_repaired : known_C08 (Bin Lt (Field xa 1) xb) = false /\
  impl (Bin Lt (Field xa 1) xb) = [LP; TId 0; TDot; TFld 1; RP; TOp Lt; TId 1] /\
  parse_expr 60 (impl (Bin Lt (Field xa 1) xb)) = Some (Bin Lt (Field xa 1) xb) /\
  parse_expr 60 [TId 0; TDot; TFld 1; TOp Lt; TId 1] = None.
Proof. exact K6_repaired. Qed.

(* the parser's answer does not depend on the fuel *)
Theorem C08_parse_fuel_independent : forall f1 f2 ts a b,
  parse_expr f1 ts = Some a -> parse_expr f2 ts = Some b -> a = b.
Proof. exact parse_expr_unique. Qed.

(* layout: for every width the rendering has exactly the document's non-blank content *)
Theorem C08_layout_preserves_tokens : forall w d, wf d -> visible (render w d) = content d.
Proof. exact layout_preserves_tokens. Qed.

Theorem C08_layout_width_independent : forall w1 w2 d, wf d -> visible (render w1 d) = visible (render w2 d).
Proof. exact layout_width_independent. Qed.

Theorem C08_group_wf : forall d, wf d -> wf (group d).
Proof. exact group_wf. Qed.

Theorem C08_bracket_wf : forall l sep d r, wf sep -> wf d -> wf (bracket_flexible l sep d r).
Proof. exact bracket_flexible_wf. Qed.

Theorem C08_render_total : forall w d, exists s, render_fuel (S (S (size d))) w d = Some s.
Proof. exact render_fuel_total. Qed.

(* literals: EVERY value a string literal can have (= unescape of an interior the lexer walks over)
   is printed as the text that was read and is read back unchanged *)
Theorem C08_string_roundtrip : forall r rest, valid_raw r ->
  reparse_str (print_str (unescape r)) rest = Some (unescape r, rest).
Proof. exact str_roundtrip. Qed.

Theorem C08_string_lexed_roundtrip : forall l r rest rest',
  lex_str (QUOTE :: l) = Some (r, rest) ->
  valid_raw r /\ reparse_str (print_str (unescape r)) rest' = Some (unescape r, rest').
Proof. exact str_lexed_roundtrip. Qed.

Theorem C08_string_print_parse_text : forall r, valid_raw r -> print_str (unescape r) = QUOTE :: r ++ [QUOTE].
Proof. exact str_print_parse_text. Qed.

Theorem C08_K4_repaired :
  reparse_str (print_str [97; 34; 98]%N) [] = Some ([97; 34; 98]%N, []) /\
  print_str [97; 34; 98]%N = [34; 97; 92; 34; 98; 34]%N /\
  reparse_str (print_str_pinned [97; 34; 98]%N) [] = Some ([97]%N, [98; 34]%N).
Proof. exact K4_repaired. Qed.

Theorem C08_int_print_parse : forall n, parse_int (print_int n) = Some n.
Proof. exact int_print_parse. Qed.

Theorem C08_int_literal_value : forall p n, (0 <= n <= MAX)%Z -> lit_value (gate p n) = Some n.
Proof. exact int_roundtrip_nonneg. Qed.

Theorem C08_int_min_literal : lit_value (gate PMinus (- MIN)%Z) = Some MIN /\ print_int MIN = "-2147483648"%string.
Proof. exact int_roundtrip_min. Qed.

(* no exclusion any more: an accepted literal has the value of its text *)
Theorem C08_int_text_preserved : forall p v t, (0 <= v)%Z -> gate p v = t ->
  match t with
  | IErr => True
  | ITok v' => v' = v /\ (v <= MAX)%Z /\ lit_value t = Some v
  | IMerged => v = (- MIN)%Z /\ p = PMinus /\ lit_value t = Some MIN
  end.
Proof. exact int_text_preserved. Qed.

Theorem C08_K5_repaired : gate POther 2147483648 = IErr /\ gate PNone 2147483648 = IErr /\ gate PMinus 2147483648 = IMerged /\
  gate_pinned POther 2147483648 = ITok 2147483648 /\ lit_value (gate_pinned POther 2147483648) = Some 0%Z.
Proof. exact K5_repaired. Qed.

(* ================================================================== the FULL model (F*.v)
   Expressions with n-ary calls, tuples (incl. the parser's `( id ..` cover grammar), multi-arm match with
   patterns, multi-parameter lambdas with optional annotations, blocks with `let` / expression statements,
   if / else-if chains with `if let`, field access with explicit type arguments, literals; patterns; type
   annotations.  The parser takes its fuel from the input; C08_parse_fuel_sufficient says every larger fuel
   gives the same answer (also when that answer is "syntax error").

   Full statement on this model:  forall tps e, fwf tps e = true -> parse_fexpr tps (fimpl e) = Some e
   (fwf = the trees the parser can produce).  FALSE (C08_full_impl_roundtrip_refuted); proved outside the same
   decidable class (some node is K1 or K3). *)

(* type annotations: the printed form is read back to the canonical form (Generic / Id decided by the type
   parameters in scope), for every annotation and every continuation that does not start with `<` *)
Theorem C08_annot_roundtrip : forall tps a rest, FProofsTypes.not_lt rest ->
  parse_annot tps (pr_annot a ++ rest) = Some (canon tps a, rest).
Proof. exact annot_roundtrip'. Qed.

Theorem C08_annot_fuel_sufficient : forall tps f ts, List.length ts < f -> annot_go tps f ts = parse_annot tps ts.
Proof. exact annot_fuel_sufficient. Qed.

(* patterns: wildcard, identifier, tuple, object with shorthand and `as`, variant with payload, or-patterns *)
Theorem C08_pattern_roundtrip : forall p rest, wf_pat p = true -> pat_fol rest ->
  parse_pat (pr_pat p ++ rest) = Some (p, rest).
Proof. exact pattern_roundtrip. Qed.

Theorem C08_pattern_fuel_sufficient : forall f ts, List.length ts < f -> pat_go f ts = parse_pat ts.
Proof. exact pat_fuel_sufficient. Qed.

(* expressions: explicit sufficient fuel, as a function of the token count (40 * tokens + rank of the entry
   point + 1, rank <= 30); the answer is the same for every fuel above it *)
Theorem C08_parse_fuel_sufficient : forall tps f m ts, mu m ts < f -> ego tps f m ts = pmode tps m ts.
Proof. exact parse_fuel_sufficient. Qed.

Theorem C08_parse_fuel_bound : forall m ts, mu m ts <= 40 * List.length ts + 30.
Proof. intros m ts. unfold mu. pose proof (rank_bound m). apply Nat.add_le_mono_l. assumption. Qed.

(* any printer that puts at least the needed parentheses is read back, on every tree the parser can produce *)
Theorem C08_full_sufficient_parentheses_roundtrip : forall tps dec e, fsuff dec e = true -> fwf tps e = true ->
  parse_fexpr tps (fpr dec e) = Some e.
Proof. exact fpr_roundtrip. Qed.

Theorem C08_full_reference_roundtrip : forall tps e, fwf tps e = true -> parse_fexpr tps (fpr fdec_ref e) = Some e.
Proof. exact fref_roundtrip. Qed.

Theorem C08_full_impl_roundtrip_outside_known : forall tps e, fknown e = false -> fwf tps e = true ->
  parse_fexpr tps (fimpl e) = Some e.
Proof. exact fimpl_roundtrip_outside_known. Qed.

Theorem C08_full_known_class_exact : forall e, fsafe e = negb (fknown e).
Proof. exact fsafe_known. Qed.

Theorem C08_full_impl_roundtrip_refuted : exists e, fwf [] e = true /\ parse_fexpr [] (fimpl e) <> Some e.
Proof. exact fimpl_roundtrip_refuted. Qed.

Theorem C08_full_K1_witness :
  fknown fwitness = true /\ fwf [] fwitness = true /\ parse_fexpr [] (fimpl fwitness) = Some fwitness_back.
Proof. exact fK1_witness. Qed.

Theorem C08_full_format_idempotent : forall tps e, fknown e = false -> fwf tps e = true ->
  forall e', parse_fexpr tps (fimpl e) = Some e' -> fimpl e' = fimpl e.
Proof. exact fimpl_idempotent. Qed.

(* ---- declarations and modules.  parse_module has no fuel of its own (loops over the input; expressions through
   parse_expression).  The formatted module is read back as the module with its import lines organised (merged per
   module, modules and members sorted) and the SAME toplevels: type parameters with bounds, extends / implements lists,
   struct fields with val / private val, enum variants, members (function / method, private, type parameters,
   parameters, return type, body), interfaces. *)
Theorem C08_module_roundtrip : forall dec m, module_ok m = true -> module_suff dec m = true ->
  parse_module (pr_module dec m) = Some (organise (fst m), snd m).
Proof. exact module_roundtrip. Qed.

Theorem C08_module_roundtrip_outside_known : forall m, module_ok m = true -> module_known m = false ->
  parse_module (fimpl_module m) = Some (organise (fst m), snd m).
Proof. exact module_roundtrip_outside_known. Qed.

(* the documented normalisation of imports is harmless: same names from the same modules, and - unless a name is
   imported from two different modules (K7) - every name resolves to the same module *)
Theorem C08_resolve_organise : forall imps, import_conflict imps = false -> forall n, resolve (organise imps) n = resolve imps n.
Proof. exact resolve_organise. Qed.

Theorem C08_module_denotation_preserved : forall m, module_ok m = true -> module_known m = false -> import_conflict (fst m) = false ->
  exists m', parse_module (fimpl_module m) = Some m' /\ snd m' = snd m
             /\ (forall n md, owns (fst m') n md <-> owns (fst m) n md)
             /\ (forall n, resolve (fst m') n = resolve (fst m) n).
Proof. exact module_denotation_preserved. Qed.

(* full statement without the K7 exclusion: FALSE of the faithful model *)
Theorem C08_module_denotation_refuted : exists m, module_ok m = true /\ module_known m = false /\
  forall m', parse_module (fimpl_module m) = Some m' -> exists n, resolve (fst m') n <> resolve (fst m) n.
Proof. exact module_denotation_refuted. Qed.

Theorem C08_K7_witness : module_ok k7_module = true /\ module_known k7_module = false /\ import_conflict (fst k7_module) = true /\
  parse_module (fimpl_module k7_module) = Some ([([10], [(false, 11)]); ([10], [(false, 12)])], []) /\
  resolve (fst k7_module) 10 = Some [(false, 11)] /\ resolve [([10], [(false, 11)]); ([10], [(false, 12)])] 10 = Some [(false, 12)].
Proof. exact K7_witness. Qed.

(* ---- the domain of the round-trip theorems contains everything the parser produces; hence the property for
   every token list that parses *)
Theorem C08_parse_module_in_domain : forall ts m, parse_module ts = Some m -> module_ok m = true.
Proof. exact parse_module_ok. Qed.

Theorem C08_parse_expression_in_domain : forall tps ts e, parse_fexpr tps ts = Some e -> fwf tps e = true.
Proof. exact parse_fexpr_ok. Qed.

Theorem C08_format_preserves_parsed_module : forall ts m, parse_module ts = Some m -> module_known m = false ->
  parse_module (fimpl_module m) = Some (organise (fst m), snd m).
Proof. exact format_preserves_parsed_module. Qed.

Theorem C08_format_preserves_parsed_expression : forall tps ts e, parse_fexpr tps ts = Some e -> fknown e = false ->
  parse_fexpr tps (fimpl e) = Some e.
Proof. exact format_preserves_parsed_expression. Qed.

(* repaired by 70138aa: 17 identifiers in parentheses are no tuple any more (they are still lambda parameters) *)
Theorem C08_tuple_limit_repaired :
  parse_fexpr [] tuple17_toks = None /\
  parse_fexpr [] (TP LParen :: commas (map (fun n => [TLow n]) (seq 0 16)) ++ [TP RParen]) = Some (XTuple (map XId (seq 0 16))) /\
  parse_fexpr [] (tuple17_toks ++ [TP Arrow; TLow 0]) = Some (XLam (map (fun n => (n, None)) ids17) (XId 0)) /\
  fwf [] (XTuple (map XId ids17)) = false.
Proof. exact tuple_limit_repaired. Qed.

(* ---- non-vacuity *)
Definition C08_sample_module : module :=
  ([([12; 11], [(false, 13); (true, 10)]); ([14], [(false, 12)]); ([10], [(false, 13); (true, 10)])],
   [TClass false 1 [(7, None); (8, Some (2, [AGen 7; AId 3 [AId 7 []]]))] (TDStruct [(true, 0, AGen 7); (false, 1, AFn [APrim PInt] (AGen 8))])
      [(4, [AGen 7]); (5, [])]
      [({| m_public := true; m_method := true; m_name := 2; m_tparams := [(9, None)]; m_params := [(3, AGen 9); (4, AId 6 [AGen 7])]; m_ret := AGen 8 |}, fsample);
       ({| m_public := false; m_method := false; m_name := 3; m_tparams := []; m_params := []; m_ret := AId 7 [] |}, XBlock [] None)];
    TInterface true 2 [] [(5, [APrim PBool])] [{| m_public := true; m_method := true; m_name := 1; m_tparams := []; m_params := [(0, APrim PInt)]; m_ret := APrim PUnit |}];
    TClass true 3 [] (TDEnum [(1, []); (2, [APrim PInt; AId 1 []])]) [] []]).
Example C08_nonvacuous_module :
  module_ok C08_sample_module = true /\ module_known C08_sample_module = false /\ import_conflict (fst C08_sample_module) = false /\
  parse_module (fimpl_module C08_sample_module) = Some (organise (fst C08_sample_module), snd C08_sample_module) /\
  organise (fst C08_sample_module) = [([14], [(false, 12)]); ([10; 11; 12], [(false, 13); (true, 10)])].
Proof. vm_compute. repeat split. Qed.

Example C08_nonvacuous_full :
  fknown fsample = false /\ fwf [7] fsample = true /\ parse_fexpr [7] (fimpl fsample) = Some fsample /\ List.length (fimpl fsample) = 112.
Proof. exact fsample_ok. Qed.

Example C08_nonvacuous_expr :
  let e := Bin Or (Bin And xa (Un Not (Field xb 1))) (Bin Lt (Bin Plus xa (Bin Mul (Call xb xc) xc)) (Bin Minus xa (Bin Minus xb xc))) in
  known_C08 e = false /\ parse_expr 200 (impl e) = Some e /\ List.length (impl e) = 23.
Proof. vm_compute. repeat split. Qed.

Example C08_nonvacuous_layout :
  let d := bracket_flexible [40%N] LineNil (concat [Text [97%N]; Text [44%N]; Line; Text [98%N]]) [41%N] in
  wfb d = true /\ render 80 d = [40; 97; 44; 32; 98; 41; 10]%N /\ render 3 d = [40; 10; 32; 32; 97; 44; 10; 32; 32; 98; 10; 41; 10]%N.
Proof. vm_compute. repeat split. Qed.

Print Assumptions C08_reference_roundtrip.
Print Assumptions C08_sufficient_parentheses_roundtrip.
Print Assumptions C08_impl_roundtrip_outside_known.
Print Assumptions C08_impl_roundtrip_refuted.
Print Assumptions C08_known_class_exact.
Print Assumptions C08_agree_prints_reference.
Print Assumptions C08_K1_witness.
Print Assumptions C08_K2_repaired.
Print Assumptions C08_K3_witness.
Print Assumptions C08_K6_repaired.
Print Assumptions C08_parse_fuel_independent.
Print Assumptions C08_layout_preserves_tokens.
Print Assumptions C08_layout_width_independent.
Print Assumptions C08_group_wf.
Print Assumptions C08_bracket_wf.
Print Assumptions C08_render_total.
Print Assumptions C08_string_roundtrip.
Print Assumptions C08_string_lexed_roundtrip.
Print Assumptions C08_string_print_parse_text.
Print Assumptions C08_K4_repaired.
Print Assumptions C08_int_print_parse.
Print Assumptions C08_int_literal_value.
Print Assumptions C08_int_min_literal.
Print Assumptions C08_int_text_preserved.
Print Assumptions C08_K5_repaired.
Print Assumptions C08_annot_roundtrip.
Print Assumptions C08_annot_fuel_sufficient.
Print Assumptions C08_pattern_roundtrip.
Print Assumptions C08_pattern_fuel_sufficient.
Print Assumptions C08_parse_fuel_sufficient.
Print Assumptions C08_parse_fuel_bound.
Print Assumptions C08_full_sufficient_parentheses_roundtrip.
Print Assumptions C08_full_reference_roundtrip.
Print Assumptions C08_full_impl_roundtrip_outside_known.
Print Assumptions C08_full_known_class_exact.
Print Assumptions C08_full_impl_roundtrip_refuted.
Print Assumptions C08_full_K1_witness.
Print Assumptions C08_full_format_idempotent.
Print Assumptions C08_module_roundtrip.
Print Assumptions C08_module_roundtrip_outside_known.
Print Assumptions C08_resolve_organise.
Print Assumptions C08_module_denotation_preserved.
Print Assumptions C08_module_denotation_refuted.
Print Assumptions C08_K7_witness.
Print Assumptions C08_parse_module_in_domain.
Print Assumptions C08_parse_expression_in_domain.
Print Assumptions C08_format_preserves_parsed_module.
Print Assumptions C08_format_preserves_parsed_expression.
Print Assumptions C08_tuple_limit_repaired.
