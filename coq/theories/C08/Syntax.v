(* C08 — syntax shared by the hand-written model and the generated precedence table
   (coq/generated/PrecTable.v imports this file).  Definitions only. *)
From Coq Require Import List Arith Bool.
Import ListNotations.

(* the 14 binary operators of samlang_ast::source::expr::BinaryOperator *)
Inductive bop := Mul | Div | Mod | Plus | Minus | Lt | Le | Gt | Ge | Eq | Ne | And | Or | Concat.
Inductive uop := Not | Neg.

(* the constructors of expr::E on which `precedence()` is defined *)
Inductive ector :=
  CLiteral | CLocalId | CClassId | CTuple | CFieldAccess | CMethodAccess | CUnary | CCall
| CIfElse | CMatch | CLambda | CBlock.

Definition bop_eqb (a b : bop) : bool :=
  match a, b with
  | Mul, Mul | Div, Div | Mod, Mod | Plus, Plus | Minus, Minus | Lt, Lt | Le, Le | Gt, Gt | Ge, Ge
  | Eq, Eq | Ne, Ne | And, And | Or, Or | Concat, Concat => true
  | _, _ => false
  end.

Lemma bop_eqb_spec a b : reflect (a = b) (bop_eqb a b).
Proof. destruct a, b; cbn; constructor; congruence. Qed.

(* The fragment of the expression language the model covers.  Atoms stand for everything the
   printer gives precedence 0 and the parser reads as a base expression without looking further
   (literals, `this`, class ids; lower-case identifiers are atoms too but take the parser's
   special `(id ...` path, hence the flag). *)
Inductive expr :=
| Atom (lower : bool) (n : nat)          (* lower = true: lower-case identifier *)
| Field (e : expr) (f : nat)             (* e.f *)
| Call (e : expr) (a : expr)             (* e(a) *)
| Blk (e : expr)                         (* { e } *)
| Un (u : uop) (e : expr)
| Bin (o : bop) (e1 e2 : expr)
| If (c a b : expr)                      (* if c { a } else { b } *)
| Mat (e : expr) (p : nat) (b : expr)    (* match e { P -> b, } *)
| Lam (x : nat) (e : expr).              (* (x) -> e *)

Inductive tok :=
| TId (n : nat) | TLit (n : nat) | TFld (n : nat) | TPat (n : nat)
| TOp (o : bop) | TBang | LP | RP | LB | RB | TDot | TComma | TArrow | TIf | TElse | TMatch.

Definition ctor_of (e : expr) : ector :=
  match e with
  | Atom true _ => CLocalId
  | Atom false _ => CLiteral
  | Field _ _ => CFieldAccess
  | Call _ _ => CCall
  | Blk _ => CBlock
  | Un _ _ => CUnary
  | Bin _ _ _ => CLiteral (* not used: binary nodes take binary_node_prec *)
  | If _ _ _ => CIfElse
  | Mat _ _ _ => CMatch
  | Lam _ _ => CLambda
  end.

Fixpoint expr_eqb (a b : expr) : bool :=
  match a, b with
  | Atom l n, Atom l' n' => Bool.eqb l l' && Nat.eqb n n'
  | Field e f, Field e' f' => expr_eqb e e' && Nat.eqb f f'
  | Call e x, Call e' x' => expr_eqb e e' && expr_eqb x x'
  | Blk e, Blk e' => expr_eqb e e'
  | Un u e, Un u' e' => (match u, u' with Not, Not | Neg, Neg => true | _, _ => false end) && expr_eqb e e'
  | Bin o x y, Bin o' x' y' => bop_eqb o o' && expr_eqb x x' && expr_eqb y y'
  | If c x y, If c' x' y' => expr_eqb c c' && expr_eqb x x' && expr_eqb y y'
  | Mat e p x, Mat e' p' x' => expr_eqb e e' && Nat.eqb p p' && expr_eqb x x'
  | Lam v e, Lam v' e' => Nat.eqb v v' && expr_eqb e e'
  | _, _ => false
  end.
