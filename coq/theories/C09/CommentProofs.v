(* C09 — proofs: the layout engine's choices on a block / doc comment document, for every width. *)
From Coq Require Import List Arith Bool NArith Lia.
Import ListNotations.
From SV Require Import C08.Layout C08.LayoutProofs C09.Model C09.Proofs.

(* tokens of the wrapped layout: after each word either a space or a line break + " * " *)
Fixpoint word_toks (prefix : str) (ws : list str) (ch : list bool) : list ltok :=
  match ws, ch with
  | w :: ws', c :: ch' =>
      TText w :: (if c then [TLine 0 true; TText prefix] else [TText [SP]]) ++ word_toks prefix ws' ch'
  | _, _ => []
  end.

Definition tail_doc (ws : list str) : doc := concat (map (word_choice SC) ws ++ [LineHard; Text EC]).

Lemma tail_doc_cons w ws : tail_doc (w :: ws) = Concat (word_choice SC w) (tail_doc ws).
Proof.
  unfold tail_doc. cbn [map app]. destruct (map (word_choice SC) ws ++ [LineHard; Text EC]) eqn:E.
  - destruct (map (word_choice SC) ws); discriminate.
  - reflexivity.
Qed.

Ltac gstep H fuel :=
  destruct fuel as [|fuel]; [discriminate H|]; cbn [gbd] in H;
  match type of H with
  | (if ?b then NoFit else _) = _ => destruct b; [discriminate H|]
  end.

Lemma gbd_tail : forall ws fuel wd c e acc ts,
  gbd fuel wd c e [(0, tail_doc ws)] acc = Fits ts ->
  exists ch, length ch = length ws /\ ts = rev acc ++ word_toks SC ws ch ++ [TLine 0 true; TText EC].
Proof.
  induction ws as [|w ws IH]; intros fuel wd c e acc ts H.
  - unfold tail_doc in H. cbn [map app concat] in H.
    gstep H fuel. gstep H fuel. gstep H fuel. gstep H fuel.
    inversion H; subst. exists []. split; [reflexivity|]. cbn [rev word_toks app]. rewrite <- !app_assoc. reflexivity.
  - rewrite tail_doc_cons in H. gstep H fuel. unfold word_choice in H at 1. gstep H fuel.
    destruct (gbd fuel wd c true [(0, Concat (Text w) (Text [SP])); (0, tail_doc ws)] acc) as [ts'| |] eqn:E.
    + inversion H; subst ts'. clear H.
      gstep E fuel. gstep E fuel. gstep E fuel.
      destruct (IH _ _ _ _ _ _ E) as (ch & Hl & ->).
      exists (false :: ch). split; [cbn; lia|]. cbn [rev word_toks app]. rewrite <- !app_assoc. reflexivity.
    + clear E. cbn [concat] in H. gstep H fuel. gstep H fuel. gstep H fuel. gstep H fuel. gstep H fuel.
      destruct (IH _ _ _ _ _ _ H) as (ch & Hl & ->).
      exists (true :: ch). split; [cbn; lia|]. cbn [rev word_toks app]. rewrite <- !app_assoc. reflexivity.
    + discriminate.
Qed.

Definition flat_toks (is_doc : bool) (text : str) : list ltok :=
  [TText (starter is_doc); TText [SP]; TText text; TText EC].
Definition ml_toks (is_doc : bool) (ws : list str) (ch : list bool) : list ltok :=
  [TText (starter is_doc); TLine 0 true; TText SC] ++ word_toks SC ws ch ++ [TLine 0 true; TText EC].

(* whatever the width: the one-line layout, or the wrapped layout for some choice of breaks *)
Theorem multiline_layouts : forall fuel w is_doc text ts,
  gbd fuel w 0 false [(0, multiline_comment is_doc text)] [] = Fits ts ->
  ts = flat_toks is_doc text \/
  exists ch, length ch = length (words text) /\ ts = ml_toks is_doc (words text) ch.
Proof.
  intros fuel w is_doc text ts H. unfold multiline_comment in H.
  gstep H fuel.
  destruct (gbd fuel w 0 true [(0, concat [Text (starter is_doc); Text [SP]; Text text; Text EC])] []) as [ts'| |] eqn:E.
  - inversion H; subst ts'. clear H. left. cbn [concat] in E.
    gstep E fuel. gstep E fuel. gstep E fuel. gstep E fuel. gstep E fuel. gstep E fuel. gstep E fuel. gstep E fuel.
    inversion E. reflexivity.
  - clear E. right.
    change (concat ([Text (starter is_doc); LineHard; Text SC] ++ map (word_choice SC) (words text) ++ [LineHard; Text EC]))
      with (concat (Text (starter is_doc) :: LineHard :: Text SC :: (map (word_choice SC) (words text) ++ [LineHard; Text EC]))) in H.
    assert (Hc : concat (Text (starter is_doc) :: LineHard :: Text SC :: (map (word_choice SC) (words text) ++ [LineHard; Text EC]))
               = Concat (Text (starter is_doc)) (Concat LineHard (Concat (Text SC) (tail_doc (words text))))).
    { unfold tail_doc. destruct (map (word_choice SC) (words text) ++ [LineHard; Text EC]) eqn:E.
      - destruct (map (word_choice SC) (words text)); discriminate.
      - reflexivity. }
    rewrite Hc in H. clear Hc.
    gstep H fuel. gstep H fuel. gstep H fuel. gstep H fuel. gstep H fuel. gstep H fuel.
    destruct (gbd_tail _ _ _ _ _ _ _ H) as (ch & Hl & ->).
    exists ch. split; [exact Hl|]. reflexivity.
  - discriminate.
Qed.

(* ---- from tokens to the rendered string *)
Fixpoint tstr (ts : list ltok) : str :=
  match ts with
  | [] => []
  | TText s :: r => s ++ tstr r
  | TLine _ _ :: r => NLc :: tstr r
  end.
Definition hard0 (t : ltok) : bool := match t with TLine 0 true => true | TLine _ _ => false | TText _ => true end.

Lemma build_hard : forall ts sb ph, forallb hard0 ts = true -> rev (build ts sb ph) = rev sb ++ tstr ts.
Proof.
  induction ts as [|t ts IH]; intros sb ph H; cbn [build tstr].
  - now rewrite app_nil_r.
  - cbn [forallb] in H. apply andb_prop in H. destruct H as [Ht H]. destruct t as [s|i h].
    + rewrite IH by exact H. rewrite rev_app_distr, rev_involutive, app_assoc. reflexivity.
    + destruct i; [|discriminate]. destruct h; [|discriminate]. cbn [negb andb repeat app].
      rewrite IH by exact H. cbn [rev]. rewrite <- app_assoc. reflexivity.
Qed.

Lemma split_nl_join : forall ls l cur, (forall x, In x (l :: ls) -> no_nl x) ->
  split_nl cur (join_nl (l :: ls)) = (rev cur ++ l) :: ls.
Proof.
  induction ls as [|l2 ls IH]; intros l cur H.
  - cbn [join_nl]. apply split_nl_no_nl. apply H. left. reflexivity.
  - change (join_nl (l :: l2 :: ls)) with (l ++ NLc :: join_nl (l2 :: ls)).
    assert (Hl : no_nl l) by (apply H; left; reflexivity).
    clear -IH H Hl. revert cur. induction l as [|c l IHl]; intros cur.
    + cbn [app split_nl]. rewrite N.eqb_refl. rewrite app_nil_r. f_equal.
      rewrite IH; [reflexivity|]. intros x Hx. apply H. right. exact Hx.
    + cbn [app split_nl]. destruct (N.eqb_spec c 10) as [->|Hne].
      * exfalso. apply (Hl NLc); [left; reflexivity|reflexivity].
      * rewrite IHl.
        -- cbn [rev]. rewrite <- app_assoc. reflexivity.
        -- intros x Hx. destruct Hx as [<-|Hx]; [intros y Hy; apply Hl; right; exact Hy|apply H; right; exact Hx].
        -- intros y Hy. apply Hl. right. exact Hy.
Qed.

Definition ends_nows (l : str) : Prop := match rev l with c :: _ => is_ws c = false | [] => False end.

Lemma trim_end_id l : ends_nows l -> trim_end l = l.
Proof.
  unfold ends_nows, trim_end. destruct (rev l) as [|c r] eqn:E; [tauto|]. intros H.
  rewrite (dropwhile_nows c r H). rewrite <- E. apply rev_involutive.
Qed.

Lemma join_nl_snoc : forall ls l x, join_nl ((l :: ls) ++ [x]) = join_nl (l :: ls) ++ NLc :: x.
Proof.
  induction ls as [|l2 ls IH]; intros l x.
  - reflexivity.
  - change (join_nl ((l :: l2 :: ls) ++ [x])) with (l ++ NLc :: join_nl ((l2 :: ls) ++ [x])).
    rewrite IH. change (join_nl (l :: l2 :: ls)) with (l ++ NLc :: join_nl (l2 :: ls)).
    rewrite <- app_assoc. reflexivity.
Qed.

(* the post-processing of pretty_print on a list of lines that ends with a non-blank line *)
Lemma post_lines : forall l ls x, (forall y, In y ((l :: ls) ++ [x]) -> no_nl y) -> ends_nows (trim_end x) ->
  post (join_nl ((l :: ls) ++ [x])) = join_nl (map trim_end (l :: ls)) ++ NLc :: trim_end x ++ [NLc].
Proof.
  intros l ls x Hn He. unfold post.
  change ((l :: ls) ++ [x]) with (l :: (ls ++ [x])) in *.
  rewrite (split_nl_join (ls ++ [x]) l []) by exact Hn. cbn [rev app].
  change (l :: ls ++ [x]) with ((l :: ls) ++ [x]). rewrite map_app. cbn [map].
  change (map trim_end (l :: ls)) with (trim_end l :: map trim_end ls).
  rewrite join_nl_snoc.
  assert (Hends : ends_nows (join_nl (trim_end l :: map trim_end ls) ++ NLc :: trim_end x)).
  { unfold ends_nows in *. rewrite rev_app_distr. cbn [rev]. rewrite <- app_assoc.
    destruct (rev (trim_end x)) as [|c r]; [tauto|]. cbn [app]. exact He. }
  rewrite (trim_end_id _ Hends).
  replace (join_nl (trim_end l :: map trim_end ls) ++ NLc :: trim_end x ++ [NLc])
    with ((join_nl (trim_end l :: map trim_end ls) ++ NLc :: trim_end x) ++ [NLc])
    by (rewrite <- app_assoc; reflexivity).
  destruct (join_nl (trim_end l :: map trim_end ls) ++ NLc :: trim_end x) eqn:E.
  - destruct (join_nl (trim_end l :: map trim_end ls)); discriminate.
  - reflexivity.
Qed.

(* ---- `*/` never appears by juxtaposition across a blank *)
Lemma has_close_cons_nostar c l : c <> STAR -> has_close (c :: l) = has_close l.
Proof.
  intros H. destruct l as [|b l]; [reflexivity|].
  change (has_close (c :: b :: l)) with (((c =? STAR) && (b =? SLASH))%N || has_close (b :: l)).
  destruct (N.eqb_spec c STAR); [contradiction|reflexivity].
Qed.

Lemma has_close_tail a l : has_close (a :: l) = false -> has_close l = false.
Proof.
  destruct l as [|b l]; [reflexivity|].
  change (has_close (a :: b :: l)) with (((a =? STAR) && (b =? SLASH))%N || has_close (b :: l)).
  intros H. apply orb_false_elim in H. apply H.
Qed.

Lemma has_close_suffix : forall x y, has_close (x ++ y) = false -> has_close y = false.
Proof. induction x as [|a x IH]; intros y H; [exact H|]. apply IH. eapply has_close_tail. exact H. Qed.

Lemma has_close_app_sep : forall x c y, has_close x = false -> has_close (c :: y) = false -> c <> SLASH ->
  has_close (x ++ c :: y) = false.
Proof.
  induction x as [|a [|b x] IH]; intros c y Hx Hy Hc.
  - exact Hy.
  - cbn [app]. change (has_close (a :: c :: y)) with (((a =? STAR) && (c =? SLASH))%N || has_close (c :: y)).
    destruct (N.eqb_spec c SLASH); [contradiction|]. rewrite andb_false_r. exact Hy.
  - change (has_close ((a :: b :: x) ++ c :: y)) with (((a =? STAR) && (b =? SLASH))%N || has_close ((b :: x) ++ c :: y)).
    change (has_close (a :: b :: x)) with (((a =? STAR) && (b =? SLASH))%N || has_close (b :: x)) in Hx.
    apply orb_false_elim in Hx. destruct Hx as [H1 H2]. rewrite H1. apply IH; assumption.
Qed.

Lemma has_close_prefix : forall x y, has_close (x ++ y) = false -> has_close x = false.
Proof.
  induction x as [|a [|b x] IH]; intros y H; try reflexivity.
  change (has_close ((a :: b :: x) ++ y)) with (((a =? STAR) && (b =? SLASH))%N || has_close ((b :: x) ++ y)) in H.
  change (has_close (a :: b :: x)) with (((a =? STAR) && (b =? SLASH))%N || has_close (b :: x)).
  apply orb_false_elim in H. destruct H as [H1 H2]. rewrite H1. apply (IH y). exact H2.
Qed.

Lemma dropwhile_suffix f : forall l, exists p, l = p ++ dropwhile f l.
Proof.
  induction l as [|c l [p IH]]; [exists []; reflexivity|]. cbn [dropwhile].
  destruct (f c); [exists (c :: p); cbn; f_equal; exact IH|exists []; reflexivity].
Qed.

Lemma trim_end_prefix l : exists t, l = trim_end l ++ t.
Proof.
  unfold trim_end. destruct (dropwhile_suffix is_ws (rev l)) as [p H].
  exists (rev p). rewrite <- rev_app_distr, <- H, rev_involutive. reflexivity.
Qed.

Lemma has_close_trim_end l : has_close l = false -> has_close (trim_end l) = false.
Proof. intros H. destruct (trim_end_prefix l) as [t E]. rewrite E in H. eapply has_close_prefix. exact H. Qed.

Lemma has_close_join_nl : forall ls, (forall l, In l ls -> has_close l = false) -> has_close (join_nl ls) = false.
Proof.
  induction ls as [|l [|l2 ls] IH]; intros H; try reflexivity.
  - apply H. left. reflexivity.
  - change (join_nl (l :: l2 :: ls)) with (l ++ NLc :: join_nl (l2 :: ls)).
    apply has_close_app_sep; [apply H; left; reflexivity| |discriminate].
    rewrite has_close_cons_nostar by discriminate. apply IH. intros x Hx. apply H. right. exact Hx.
Qed.

(* ---- words *)
Lemma split_sp_join : forall l cur, join_sp (split_sp cur l) = rev cur ++ l.
Proof.
  induction l as [|c l IH]; intros cur; cbn [split_sp].
  - cbn. now rewrite app_nil_r.
  - destruct (N.eqb_spec c SP) as [->|Hne].
    + specialize (IH []). cbn [rev app] in IH.
      destruct (split_sp [] l) as [|x xs] eqn:E.
      * destruct l; cbn in E; [discriminate|]. destruct (n =? SP)%N; discriminate.
      * change (join_sp (rev cur :: x :: xs)) with (rev cur ++ SP :: join_sp (x :: xs)). rewrite IH. reflexivity.
    + rewrite IH. cbn [rev]. rewrite <- app_assoc. reflexivity.
Qed.

Lemma words_join text : join_sp (words text) = text.
Proof. unfold words. apply (split_sp_join text []). Qed.

Definition good (ws : list str) : Prop := forall w, In w ws -> word_ok w = true.

Lemma word_ok_nonempty w : word_ok w = true -> w <> [].
Proof. destruct w; [discriminate|discriminate]. Qed.

Lemma word_ok_nows w c : word_ok w = true -> In c w -> is_ws c = false.
Proof.
  unfold word_ok. intros H Hc. apply andb_prop in H. destruct H as [_ H]. rewrite forallb_forall in H.
  specialize (H c Hc). destruct (is_ws c); [discriminate|reflexivity].
Qed.

Lemma join_sp_cons2 a b l : join_sp (a :: b :: l) = a ++ SP :: join_sp (b :: l).
Proof. reflexivity. Qed.

Lemma join_sp_app_nonempty : forall g w ws, join_sp (g ++ w :: ws) =
  match g with [] => join_sp (w :: ws) | _ => join_sp g ++ SP :: join_sp (w :: ws) end.
Proof.
  induction g as [|a [|b g] IH]; intros w ws; try reflexivity.
  change (join_sp ((a :: b :: g) ++ w :: ws)) with (a ++ SP :: join_sp ((b :: g) ++ w :: ws)).
  rewrite (IH w ws). rewrite join_sp_cons2. rewrite <- app_assoc. reflexivity.
Qed.

Lemma has_close_words : forall ws, has_close (join_sp ws) = false -> forall w, In w ws -> has_close w = false.
Proof.
  induction ws as [|a [|b ws] IH]; intros H w Hw.
  - destruct Hw.
  - destruct Hw as [<-|[]]. exact H.
  - rewrite join_sp_cons2 in H. destruct Hw as [<-|Hw].
    + eapply has_close_prefix. exact H.
    + apply IH; [|exact Hw]. apply has_close_suffix in H. eapply has_close_tail. exact H.
Qed.

(* ---- the lines of the wrapped layout *)
Fixpoint wlines (ws : list str) (ch : list bool) (cur : str) : list str :=
  match ws, ch with
  | w :: ws', c :: ch' => if c then (cur ++ w) :: wlines ws' ch' [] else wlines ws' ch' (cur ++ w ++ [SP])
  | _, _ => [cur]
  end.

Lemma wlines_nonempty ws ch cur : wlines ws ch cur <> [].
Proof. revert ch cur. induction ws as [|w ws IH]; intros [|[] ch] cur; cbn; try discriminate. apply IH. Qed.

Lemma tstr_word_toks : forall ws ch cur, length ch = length ws ->
  (SC ++ cur) ++ tstr (word_toks SC ws ch) = join_nl (map (app SC) (wlines ws ch cur)).
Proof.
  induction ws as [|w ws IH]; intros [|c ch] cur Hl; try discriminate.
  - cbn. now rewrite app_nil_r.
  - cbn [length] in Hl. cbn [word_toks wlines]. destruct c.
    + cbn [app tstr]. specialize (IH ch [] ltac:(lia)). rewrite app_nil_r in IH.
      cbn [map]. pose proof (wlines_nonempty ws ch []) as Hne.
      destruct (wlines ws ch []) as [|x xs] eqn:E; [congruence|].
      change (join_nl ((SC ++ cur ++ w) :: map (app SC) (x :: xs))) with
        ((SC ++ cur ++ w) ++ NLc :: join_nl (map (app SC) (x :: xs))).
      rewrite <- IH. rewrite <- !app_assoc. reflexivity.
    + cbn [app tstr]. rewrite <- (IH ch (cur ++ w ++ [SP]) ltac:(lia)). rewrite <- !app_assoc. reflexivity.
Qed.

Definition curOf (g : list str) : str := flat_map (fun w => w ++ [SP]) g.

Lemma curOf_snoc g w : curOf (g ++ [w]) = curOf g ++ w ++ [SP].
Proof. unfold curOf. rewrite flat_map_app. cbn. now rewrite app_nil_r. Qed.

Lemma curOf_join : forall g w, curOf g ++ w = join_sp (g ++ [w]).
Proof.
  induction g as [|a g IH]; intros w; [reflexivity|].
  cbn [curOf flat_map app]. fold (curOf g). rewrite <- app_assoc. rewrite IH.
  destruct (g ++ [w]) eqn:E; [destruct g; discriminate|]. rewrite join_sp_cons2. rewrite <- app_assoc. reflexivity.
Qed.

Lemma curOf_join_sp : forall g, g <> [] -> curOf g = join_sp g ++ [SP].
Proof.
  intros g Hg. destruct (exists_last Hg) as (g' & w & ->). rewrite curOf_snoc. rewrite app_assoc, curOf_join. reflexivity.
Qed.

(* a non-empty list of good words joined by single spaces starts and ends with a non-blank *)
Lemma join_good_first : forall g, good g -> g <> [] -> exists c r, join_sp g = c :: r /\ is_ws c = false.
Proof.
  intros [|a g] Hg Hne; [congruence|].
  assert (Ha : word_ok a = true) by (apply Hg; left; reflexivity).
  destruct a as [|c a]; [discriminate|]. exists c.
  destruct g; cbn [join_sp app]; eexists; (split; [reflexivity|]); apply (word_ok_nows _ c Ha); left; reflexivity.
Qed.

Lemma join_good_last : forall g, good g -> g <> [] -> ends_nows (join_sp g).
Proof.
  intros g Hg Hne. destruct (exists_last Hne) as (g' & w & ->).
  rewrite <- curOf_join. unfold ends_nows. rewrite rev_app_distr.
  assert (Hw : word_ok w = true) by (apply Hg; apply in_or_app; right; left; reflexivity).
  pose proof (word_ok_nonempty w Hw) as Hwn. destruct (exists_last Hwn) as (w' & c & ->).
  rewrite rev_app_distr. cbn [rev app]. apply (word_ok_nows _ c Hw). apply in_or_app. right. left. reflexivity.
Qed.

Definition strip (l : str) : str := process_line (trim_end (SC ++ l)).

Lemma ends_nows_app x y : ends_nows y -> ends_nows (x ++ y).
Proof. unfold ends_nows. rewrite rev_app_distr. destruct (rev y); [tauto|]. cbn [app]. tauto. Qed.

Lemma strip_join g : good g -> g <> [] -> strip (join_sp g) = join_sp g /\ strip (join_sp g ++ [SP]) = join_sp g.
Proof.
  intros Hg Hne. destruct (join_good_first g Hg Hne) as (c & r & E & Hc).
  pose proof (join_good_last g Hg Hne) as Hl.
  assert (Hcore : process_line (SC ++ join_sp g) = join_sp g).
  { unfold process_line, trim_start. cbn [SC app dropwhile]. change (is_ws SP) with true. change (is_ws STAR) with false. cbn iota.
    rewrite N.eqb_refl. unfold trim, trim_start.
    assert (E2 : trim_end (SP :: join_sp g) = SP :: join_sp g).
    { apply trim_end_id. change (SP :: join_sp g) with ([SP] ++ join_sp g). apply ends_nows_app. exact Hl. }
    rewrite E2. cbn [dropwhile]. change (is_ws SP) with true. cbn iota. rewrite E. apply dropwhile_nows. exact Hc. }
  split; unfold strip.
  - rewrite trim_end_id; [exact Hcore|]. apply ends_nows_app. exact Hl.
  - rewrite app_assoc. rewrite trim_end_keep; [exact Hcore|].
    unfold last_ok. pose proof (ends_nows_app SC _ Hl) as H. unfold ends_nows in H.
    destruct (rev (SC ++ join_sp g)); [tauto|exact H].
Qed.

Lemma strip_nil : strip [] = [].
Proof. vm_compute. reflexivity. Qed.

Lemma join_sp_nonempty g : good g -> g <> [] -> join_sp g <> [].
Proof. intros Hg Hne. destruct (join_good_first g Hg Hne) as (c & r & E & _). rewrite E. discriminate. Qed.

Lemma good_app g h : good g -> good h -> good (g ++ h).
Proof. intros Hg Hh w Hw. apply in_app_or in Hw. destruct Hw; auto. Qed.

Lemma nonempty_true l : l <> [] -> nonempty l = true.
Proof. destruct l; [congruence|reflexivity]. Qed.

(* what the lexer recovers from the lines *)
Lemma lines_text : forall ws ch g, good ws -> good g -> length ch = length ws ->
  join_sp (filter nonempty (map strip (wlines ws ch (curOf g)))) = join_sp (g ++ ws).
Proof.
  induction ws as [|w ws IH]; intros [|c ch] g Hws Hg Hl; try discriminate.
  - cbn [wlines map]. rewrite app_nil_r. destruct g as [|a g'].
    + cbn [curOf flat_map]. rewrite strip_nil. reflexivity.
    + rewrite curOf_join_sp by discriminate. destruct (strip_join (a :: g') Hg ltac:(discriminate)) as [_ H2].
      rewrite H2. cbn [filter]. rewrite (nonempty_true _ (join_sp_nonempty _ Hg ltac:(discriminate))). reflexivity.
  - cbn [length] in Hl.
    assert (Hw : good [w]) by (intros x [<-|[]]; apply Hws; left; reflexivity).
    assert (Hws' : good ws) by (intros x Hx; apply Hws; right; exact Hx).
    cbn [wlines]. destruct c.
    + cbn [map filter]. rewrite curOf_join.
      assert (Hgw : good (g ++ [w])) by (apply good_app; assumption).
      assert (Hne : g ++ [w] <> []) by (destruct g; discriminate).
      destruct (strip_join (g ++ [w]) Hgw Hne) as [H1 _]. rewrite H1.
      rewrite (nonempty_true _ (join_sp_nonempty _ Hgw Hne)).
      specialize (IH ch [] Hws' ltac:(intros x []) ltac:(lia)). cbn [curOf flat_map app] in IH.
      destruct ws as [|w2 ws2].
      * destruct ch; [|discriminate]. cbn [wlines map]. rewrite strip_nil. cbn [filter nonempty]. reflexivity.
      * destruct (filter nonempty (map strip (wlines (w2 :: ws2) ch []))) as [|x xs] eqn:E.
        -- exfalso. apply (join_sp_nonempty (w2 :: ws2) Hws' ltac:(discriminate)). symmetry. exact IH.
        -- rewrite join_sp_cons2. rewrite IH.
           replace (g ++ w :: w2 :: ws2) with ((g ++ [w]) ++ w2 :: ws2) by (rewrite <- app_assoc; reflexivity).
           rewrite (join_sp_app_nonempty (g ++ [w]) w2 ws2). destruct (g ++ [w]); [congruence|reflexivity].
    + rewrite <- curOf_snoc. rewrite (IH ch (g ++ [w]) Hws' (good_app _ _ Hg Hw) ltac:(lia)).
      rewrite <- app_assoc. reflexivity.
Qed.

(* ---- assembling *)
Lemma wlines_chars : forall ws ch cur l, In l (wlines ws ch cur) -> forall c, In c l ->
  In c cur \/ c = SP \/ exists w, In w ws /\ In c w.
Proof.
  induction ws as [|w ws IH]; intros [|b ch] cur l Hl c Hc; cbn [wlines] in Hl.
  - destruct Hl as [<-|[]]. left. exact Hc.
  - destruct Hl as [<-|[]]. left. exact Hc.
  - destruct Hl as [<-|[]]. left. exact Hc.
  - destruct b.
    + destruct Hl as [<-|Hl].
      * apply in_app_or in Hc. destruct Hc; [left; assumption|right; right; exists w; split; [left; reflexivity|assumption]].
      * destruct (IH ch [] l Hl c Hc) as [[]|[->|(x & Hx & Hcx)]]; [right; left; reflexivity|].
        right; right; exists x; split; [right; exact Hx|exact Hcx].
    + destruct (IH ch _ l Hl c Hc) as [Hin|[->|(x & Hx & Hcx)]].
      * apply in_app_or in Hin. destruct Hin as [Hin|Hin]; [left; exact Hin|].
        apply in_app_or in Hin. destruct Hin as [Hin|[<-|[]]]; [|right; left; reflexivity].
        right; right; exists w; split; [left; reflexivity|exact Hin].
      * right; left; reflexivity.
      * right; right; exists x; split; [right; exact Hx|exact Hcx].
Qed.

Lemma hc_curOf : forall g r, (forall w, In w g -> has_close w = false) -> has_close r = false ->
  has_close (curOf g ++ r) = false.
Proof.
  induction g as [|a g IH]; intros r Hg Hr; [exact Hr|].
  cbn [curOf flat_map]. fold (curOf g). rewrite <- !app_assoc. cbn [app].
  apply has_close_app_sep; [apply Hg; left; reflexivity| |discriminate].
  rewrite has_close_cons_nostar by discriminate. apply IH; [intros w Hw; apply Hg; right; exact Hw|exact Hr].
Qed.

Lemma has_close_wlines : forall ws ch g l, (forall w, In w ws -> has_close w = false) ->
  (forall w, In w g -> has_close w = false) -> In l (wlines ws ch (curOf g)) -> has_close l = false.
Proof.
  induction ws as [|w ws IH]; intros [|b ch] g l Hws Hg Hl; cbn [wlines] in Hl.
  - destruct Hl as [<-|[]]. rewrite <- (app_nil_r (curOf g)). apply hc_curOf; auto.
  - destruct Hl as [<-|[]]. rewrite <- (app_nil_r (curOf g)). apply hc_curOf; auto.
  - destruct Hl as [<-|[]]. rewrite <- (app_nil_r (curOf g)). apply hc_curOf; auto.
  - destruct b.
    + destruct Hl as [<-|Hl].
      * apply hc_curOf; [exact Hg|apply Hws; left; reflexivity].
      * apply (IH ch [] l); [intros x Hx; apply Hws; right; exact Hx|intros x []|exact Hl].
    + rewrite <- curOf_snoc in Hl. apply (IH ch (g ++ [w]) l); [intros x Hx; apply Hws; right; exact Hx| |exact Hl].
      intros x Hx. apply in_app_or in Hx. destruct Hx as [Hx|[<-|[]]]; [apply Hg; exact Hx|apply Hws; left; reflexivity].
Qed.

Lemma post_single l : no_nl l -> ends_nows l -> post l = l ++ [NLc].
Proof.
  intros Hn He. unfold post. rewrite (split_nl_no_nl l [] Hn). cbn [rev app map join_nl].
  rewrite (trim_end_id l He), (trim_end_id l He). destruct l; [destruct He|reflexivity].
Qed.

Lemma no_nl_trim_end l : no_nl l -> no_nl (trim_end l).
Proof. intros H c Hc. destruct (trim_end_prefix l) as [t E]. apply H. rewrite E. apply in_or_app. left. exact Hc. Qed.

Lemma split_sp_nonempty : forall l cur, split_sp cur l <> [].
Proof. induction l as [|c l IH]; intros cur; cbn [split_sp]; [discriminate|]. destruct (c =? SP)%N; [discriminate|apply IH]. Qed.

Lemma normalised_good text : normalised text = true -> good (words text).
Proof. unfold normalised. rewrite forallb_forall. intros H w Hw. apply H. exact Hw. Qed.

Definition star_free_start (text : str) : Prop := match text with c :: _ => c <> STAR | [] => True end.

(* the theorem: for EVERY width, a block / doc comment with normalised text is read back with the same text *)
Theorem block_comment_roundtrip_all_widths : forall w is_doc text,
  normalised text = true -> star_free_start text -> has_close text = false ->
  lex_block_comment (render w (multiline_comment is_doc text)) = Some (is_doc, text, [NLc]).
Proof.
  intros w is_doc text Hnorm Hstar Hclose.
  pose proof (normalised_good text Hnorm) as Hgood.
  pose proof (words_join text) as Hjoin.
  assert (Hwne : words text <> []) by apply split_sp_nonempty.
  (* character facts about text *)
  assert (Hnl : no_nl text).
  { intros c Hc ->. rewrite <- Hjoin in Hc. clear -Hgood Hc.
    induction (words text) as [|a [|b l] IH]; [destruct Hc| |].
    - cbn in Hc. pose proof (word_ok_nows a NLc (Hgood a (or_introl eq_refl)) Hc). discriminate.
    - rewrite join_sp_cons2 in Hc. apply in_app_or in Hc. destruct Hc as [Hc|[Hc|Hc]].
      + pose proof (word_ok_nows a NLc (Hgood a (or_introl eq_refl)) Hc). discriminate.
      + discriminate.
      + apply IH; [intros x Hx; apply Hgood; right; exact Hx|exact Hc]. }
  assert (Hfirst : first_ok text).
  { destruct (join_good_first (words text) Hgood Hwne) as (c & r & E & Hc). rewrite Hjoin in E. subst text.
    cbn [first_ok]. split; [exact Hc|exact Hstar]. }
  assert (Hlast : last_ok text).
  { pose proof (join_good_last (words text) Hgood Hwne) as H. rewrite Hjoin in H. unfold ends_nows in H. unfold last_ok.
    destruct (rev text); [exact I|exact H]. }
  unfold render. destruct (render_fuel_total w (multiline_comment is_doc text)) as [s Hs]. rewrite Hs.
  unfold render_fuel in Hs.
  destruct (gbd (S (S (size (multiline_comment is_doc text)))) w 0 false [(0, multiline_comment is_doc text)] []) as [ts| |] eqn:E;
    try discriminate.
  inversion Hs; subst s. clear Hs.
  destruct (multiline_layouts _ _ _ _ _ E) as [->|(ch & Hlen & ->)].
  - (* one line *)
    rewrite build_hard by reflexivity. cbn [rev app flat_toks tstr]. rewrite app_nil_r.
    rewrite post_single.
    + assert (E0 : (starter is_doc ++ SP :: text ++ EC) ++ [NLc] = starter is_doc ++ [SP] ++ text ++ EC ++ [NLc]).
      { cbn [app]. rewrite <- !app_assoc. cbn [app]. rewrite <- !app_assoc. reflexivity. }
      rewrite E0. apply block_comment_flat_roundtrip; assumption.
    + intros c Hc. apply in_app_or in Hc. destruct Hc as [Hc|[<-|Hc]].
      * destruct is_doc; cbn in Hc; intuition (subst c; discriminate).
      * discriminate.
      * apply in_app_or in Hc. destruct Hc as [Hc|Hc]; [apply Hnl; exact Hc|cbn in Hc; intuition (subst c; discriminate)].
    + change (SP :: text ++ EC) with ((SP :: text) ++ EC). apply ends_nows_app. apply ends_nows_app. vm_compute. reflexivity.
  - (* wrapped *)
    set (ws := words text) in *. set (lines := wlines ws ch []).
    assert (Hforall : forallb hard0 (ml_toks is_doc ws ch) = true).
    { unfold ml_toks. rewrite !forallb_app. cbn [forallb hard0 andb]. rewrite andb_true_r.
      clear. revert ch. induction ws as [|a ws IH]; intros [|[] ch]; cbn; auto. }
    rewrite build_hard by exact Hforall. cbn [rev app].
    assert (Htstr : tstr (ml_toks is_doc ws ch) = join_nl ((starter is_doc :: map (app SC) lines) ++ [EC])).
    { unfold ml_toks. cbn [app tstr].
      assert (G : forall a b, tstr (a ++ b) = tstr a ++ tstr b).
      { induction a as [|[s|i h] a IHa]; intros b; cbn [app tstr]; [reflexivity| |]; rewrite IHa; [rewrite app_assoc|]; reflexivity. }
      rewrite G. cbn [tstr]. rewrite app_nil_r.
      pose proof (tstr_word_toks ws ch [] Hlen) as Ht. rewrite app_nil_r in Ht.
      change (starter is_doc :: map (app SC) lines ++ [EC]) with ((starter is_doc :: map (app SC) lines) ++ [EC]).
      rewrite join_nl_snoc.
      pose proof (wlines_nonempty ws ch []) as Hne. fold lines in Ht, Hne.
      destruct lines as [|x xs] eqn:El; [congruence|].
      change (join_nl (starter is_doc :: map (app SC) (x :: xs))) with (starter is_doc ++ NLc :: join_nl (map (app SC) (x :: xs))).
      rewrite <- Ht. rewrite <- !app_assoc. cbn [app]. rewrite <- !app_assoc. reflexivity. }
    rewrite Htstr.
    assert (Hlines_chars : forall l, In l lines -> forall c, In c l -> c <> NLc).
    { intros l Hl c Hc ->. destruct (wlines_chars ws ch [] l Hl NLc Hc) as [[]|[H|(x & Hx & Hcx)]]; [discriminate|].
      pose proof (word_ok_nows x NLc (Hgood x Hx) Hcx). discriminate. }
    rewrite post_lines.
    2:{ intros y Hy. apply in_app_or in Hy. destruct Hy as [[<-|Hy]|[<-|[]]].
        - destruct is_doc; intros c Hc; cbn in Hc; intuition (subst c; discriminate).
        - apply in_map_iff in Hy. destruct Hy as (l & <- & Hl). apply no_nl_app; [intros c Hc; cbn in Hc; intuition (subst c; discriminate)|].
          intros c Hc. apply (Hlines_chars l Hl c Hc).
        - intros c Hc; cbn in Hc; intuition (subst c; discriminate). }
    2:{ vm_compute. reflexivity. }
    assert (Hts : trim_end (starter is_doc) = starter is_doc) by (destruct is_doc; vm_compute; reflexivity).
    assert (Hte : trim_end EC = EC) by (vm_compute; reflexivity).
    rewrite Hte. cbn [map]. rewrite Hts.
    set (X := map trim_end (map (app SC) lines)).
    assert (HXne : X <> []).
    { unfold X. pose proof (wlines_nonempty ws ch []) as Hne. fold lines in Hne. destruct lines; [congruence|discriminate]. }
    assert (Hjoin2 : join_nl (starter is_doc :: X) = starter is_doc ++ NLc :: join_nl X).
    { destruct X; [congruence|reflexivity]. }
    rewrite Hjoin2.
    (* the raw interior *)
    assert (HX_close : has_close (join_nl X) = false).
    { apply has_close_join_nl. intros l Hl. unfold X in Hl. apply in_map_iff in Hl. destruct Hl as (y & <- & Hy).
      apply in_map_iff in Hy. destruct Hy as (l & <- & Hl). apply has_close_trim_end.
      cbn [SC app]. rewrite has_close_cons_nostar by discriminate.
      change (has_close (STAR :: SP :: l)) with (((STAR =? STAR) && (SP =? SLASH))%N || has_close (SP :: l)).
      cbn [N.eqb]. change ((STAR =? STAR)%N && (SP =? SLASH)%N) with false. cbn [orb].
      rewrite has_close_cons_nostar by discriminate.
      apply (has_close_wlines ws ch [] l); [|intros x []|exact Hl].
      apply has_close_words. fold ws in Hjoin. rewrite Hjoin. exact Hclose. }
    assert (Hraw_close : has_close (NLc :: join_nl X ++ [NLc; SP]) = false).
    { rewrite has_close_cons_nostar by discriminate. apply has_close_app_sep; [exact HX_close|reflexivity|discriminate]. }
    assert (Hpp : post_process_block_comment (NLc :: join_nl X ++ [NLc; SP]) = text).
    { unfold post_process_block_comment.
      assert (Hshape : NLc :: join_nl X ++ [NLc; SP] = join_nl (([] :: X) ++ [[SP]])).
      { rewrite join_nl_snoc. destruct X; [congruence|]. reflexivity. }
      rewrite Hshape. change (([] :: X) ++ [[SP]]) with ([] :: (X ++ [[SP]])).
      rewrite (split_nl_join (X ++ [[SP]]) [] []).
      2:{ intros y [<-|Hy]; [intros c []|]. apply in_app_or in Hy. destruct Hy as [Hy|[<-|[]]]; [|intros c [<-|[]]; discriminate].
          unfold X in Hy. apply in_map_iff in Hy. destruct Hy as (z & <- & Hz). apply no_nl_trim_end.
          apply in_map_iff in Hz. destruct Hz as (l & <- & Hl).
          apply no_nl_app; [intros c Hc; cbn in Hc; intuition (subst c; discriminate)|]. intros c Hc. apply (Hlines_chars l Hl c Hc). }
      cbn [rev app map]. rewrite map_app. cbn [map].
      change (process_line []) with (@nil N). change (process_line [SP]) with (@nil N).
      cbn [filter nonempty]. rewrite filter_app. cbn [filter nonempty]. rewrite app_nil_r.
      unfold X. rewrite !map_map. change (fun x => process_line (trim_end (SC ++ x))) with strip.
      pose proof (lines_text ws ch [] Hgood ltac:(intros x []) Hlen) as Ht. cbn [curOf flat_map app] in Ht.
      fold lines in Ht. rewrite Ht. exact Hjoin. }
    destruct is_doc; cbn [starter app lex_block_comment]; rewrite !N.eqb_refl; cbn [andb].
    + assert (Eq : STAR :: NLc :: join_nl X ++ NLc :: EC ++ [NLc] = (STAR :: NLc :: join_nl X ++ [NLc; SP]) ++ STAR :: SLASH :: [NLc]).
      { cbn [EC app]. rewrite <- !app_assoc. reflexivity. }
      rewrite Eq. rewrite find_close_app.
      2:{ change (has_close (STAR :: NLc :: join_nl X ++ [NLc; SP])) with
            (((STAR =? STAR) && (NLc =? SLASH))%N || has_close (NLc :: join_nl X ++ [NLc; SP])).
          change ((STAR =? STAR)%N && (NLc =? SLASH)%N) with false. exact Hraw_close. }
      cbn [rev app]. rewrite N.eqb_refl. rewrite Hpp. reflexivity.
    + assert (Eq : NLc :: join_nl X ++ NLc :: EC ++ [NLc] = (NLc :: join_nl X ++ [NLc; SP]) ++ STAR :: SLASH :: [NLc]).
      { cbn [EC app]. rewrite <- !app_assoc. reflexivity. }
      rewrite Eq. rewrite find_close_app by exact Hraw_close.
      cbn [rev app]. change (NLc =? STAR)%N with false. cbn iota. rewrite Hpp. reflexivity.
Qed.
