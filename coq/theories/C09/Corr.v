(* C09 — glue for the correspondence checks.  Definitions only. *)
From Coq Require Import List Arith Bool NArith.
Import ListNotations.
From SV Require Import C08.Layout C08.Corr C09.Model.

Inductive ckind := KLine | KBlock | KDoc.

Definition comment_doc (k : ckind) (text : str) : doc :=
  match k with
  | KLine => line_comment text
  | KBlock => multiline_comment false text
  | KDoc => multiline_comment true text
  end.

Fixpoint strs_eqb (a b : list str) : bool :=
  match a, b with
  | [], [] => true
  | x :: a', y :: b' => str_eqb x y && strs_eqb a' b'
  | _, _ => false
  end.

(* what the model's lexer reads from a rendered comment *)
Definition relex (k : ckind) (s : str) : option (list str) :=
  match k with
  | KLine => lex_line_comments (S (length s)) s
  | KBlock => match lex_block_comment s with Some (false, t, _) => Some [t] | _ => None end
  | KDoc => match lex_block_comment s with Some (true, t, _) => Some [t] | _ => None end
  end.

Definition ostrs_eqb (a b : option (list str)) : bool :=
  match a, b with Some x, Some y => strs_eqb x y | None, None => true | _, _ => false end.

(* (kind, text, per width: (width, what the real engine rendered, the comment texts the real lexer reads from that)) *)
Definition comment_case := (ckind * str * list (nat * str * list str))%type.

(* 1: the model renders something else; 2: the model's lexer reads something else than the real one;
   3: (normalised text only, flag set by the caller) the text read back is not the text printed *)
Definition comment_check (c : comment_case) : N :=
  let '(k, text, obs) := c in
  if negb (forallb (fun o => let '(w, s, _) := o in str_eqb (render w (comment_doc k text)) s) obs) then 1%N
  else if negb (forallb (fun o => let '(_, s, ts) := o in ostrs_eqb (relex k s) (Some ts)) obs) then 2%N
  else 0%N.
Definition comment_fails (cs : list comment_case) : list (N * N) := collect comment_check 0 cs.

(* the round-trip statement evaluated on the model: text -> render -> relex *)
Definition text_back (k : ckind) (w : nat) (text : str) : option str :=
  match relex k (render w (comment_doc k text)) with
  | Some ts => Some (join_sp (filter nonempty ts))
  | None => None
  end.
Definition roundtrip_check (c : ckind * str * list nat) : N :=
  let '(k, text, ws) := c in
  if forallb (fun w : nat => match text_back k w text with Some t => str_eqb t text | None => false end) ws then 0%N else 1%N.
Definition roundtrip_fails (cs : list (ckind * str * list nat)) : list (N * N) := collect roundtrip_check 0 cs.

(* hand-out discipline on concrete schedules: items are (is_comment, id) *)
Definition mk_items (l : list (bool * nat)) : list (item nat nat) :=
  map (fun p : bool * nat => if fst p then @ICom nat nat (snd p) else @ITok nat nat (snd p)) l.
Definition handout_check (c : list (bool * nat) * list bool) : N :=
  let '(l, sched) := c in
  let input := mk_items l in
  let ops := map (fun b : bool => if b then OConsume else OPeek) sched in
  let '(s, outs) := run ops (init input) in
  let got := List.concat outs ++ pending s ++ comments_of (rest s) in
  if forallb (fun p => Nat.eqb (fst p) (snd p)) (combine got (comments_of input)) && Nat.eqb (length got) (length (comments_of input))
  then 0%N else 1%N.
