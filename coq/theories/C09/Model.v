(* C09 — model.  Definitions only.
   (1) comment documents: prettier.rs Document::line_comment / Document::multiline_comment
       (over the layout model of C08/Layout.v);
   (2) the lexer's comment scanners: lexer.rs lex_line_comment_opt, lex_block_comment_opt with
       post_process_block_comment;
   (3) the discipline by which comments travel in the parser: source_parser.rs SourceParser::peek
       (appends comment tokens to pending_comments) and SourceParser::consume (hands the pending
       list to the caller), and the final hand-out of parse_module (trailing_comments). *)
From Coq Require Import List Arith Bool NArith.
Import ListNotations.
From SV Require Import C08.Layout.

Definition SP : N := 32. Definition NLc : N := 10. Definition STAR : N := 42. Definition SLASH : N := 47.

(* ---- (1) documents *)
(* str::split(' ') *)
Fixpoint split_sp (cur : str) (l : str) : list str :=
  match l with
  | [] => [rev cur]
  | c :: l' => if (c =? SP)%N then rev cur :: split_sp [] l' else split_sp (c :: cur) l'
  end.
Definition words (text : str) : list str := split_sp [] text.

Definition LC : str := [SLASH; SLASH; SP].          (* "// " *)
Definition SC : str := [SP; STAR; SP].              (* " * " *)
Definition EC : str := [SP; STAR; SLASH].           (* " */" *)
Definition starter (is_doc : bool) : str := if is_doc then [SLASH; STAR; STAR] else [SLASH; STAR].

Definition word_choice (prefix : str) (w : str) : doc :=
  Union (Concat (Text w) (Text [SP])) (concat [Text w; LineHard; Text prefix]).

Definition line_comment (text : str) : doc :=
  Union (Concat (Text LC) (Text text))
        (concat (Text LC :: map (word_choice LC) (words text))).

Definition multiline_comment (is_doc : bool) (text : str) : doc :=
  Union (concat [Text (starter is_doc); Text [SP]; Text text; Text EC])
        (concat ([Text (starter is_doc); LineHard; Text SC] ++ map (word_choice SC) (words text)
                 ++ [LineHard; Text EC])).

(* ---- (2) the lexer *)
Definition trim_start (l : str) : str := dropwhile is_ws l.
Definition trim (l : str) : str := trim_start (trim_end l).

(* lex_line_comment_opt on text starting with "//": (comment text, rest from the newline on) *)
Fixpoint until_nl (l : str) (acc : str) : str * str :=
  match l with
  | [] => (rev acc, [])
  | c :: l' => if (c =? NLc)%N then (rev acc, l) else until_nl l' (c :: acc)
  end.
Definition lex_line_comment (l : str) : option (str * str) :=
  match l with
  | a :: b :: l' => if ((a =? SLASH) && (b =? SLASH))%N
                    then let '(body, rest) := until_nl l' [] in Some (trim body, rest) else None
  | _ => None
  end.

Definition process_line (line : str) : str :=
  let l := trim_start line in
  match l with
  | c :: l' => if (c =? STAR)%N then trim l' else trim_end l
  | [] => []
  end.
Definition nonempty (l : str) : bool := match l with [] => false | _ => true end.
Fixpoint join_sp (ls : list str) : str :=
  match ls with
  | [] => []
  | [l] => l
  | l :: ls' => l ++ SP :: join_sp ls'
  end.
Definition post_process_block_comment (interior : str) : str :=
  join_sp (filter nonempty (map process_line (split_nl [] interior))).

(* the text between "/*" and the first "*/" that starts at offset >= 2, and what follows *)
Fixpoint find_close (l : str) (acc : str) : option (str * str) :=
  match l with
  | a :: l' =>
      match l' with
      | b :: l'' => if ((a =? STAR) && (b =? SLASH))%N then Some (rev acc, l'') else find_close l' (a :: acc)
      | [] => None
      end
  | [] => None
  end.
Definition lex_block_comment (l : str) : option (bool * str * str) :=
  match l with
  | a :: b :: l' =>
      if ((a =? SLASH) && (b =? STAR))%N then
        match find_close l' [] with
        | Some (raw, rest) =>
            match raw with
            | c :: raw' => if (c =? STAR)%N then Some (true, post_process_block_comment raw', rest)
                           else Some (false, post_process_block_comment raw, rest)
            | [] => Some (false, post_process_block_comment raw, rest)
            end
        | None => None
        end
      else None
  | _ => None
  end.

(* every line comment found at the start of the lines of s *)
Fixpoint lex_line_comments (fuel : nat) (s : str) : option (list str) :=
  match fuel with
  | O => None
  | S f =>
      match dropwhile is_ws s with
      | [] => Some []
      | s' => match lex_line_comment s' with
              | Some (t, rest) => option_map (cons t) (lex_line_comments f rest)
              | None => None
              end
      end
  end.

(* normalised comment text: non-empty words without blanks, single spaces between them *)
Definition word_ok (w : str) : bool := nonempty w && forallb (fun c => negb (is_ws c)) w.
Definition normalised (text : str) : bool := forallb word_ok (words text).
Fixpoint has_close (l : str) : bool :=
  match l with
  | a :: l' => match l' with b :: _ => ((a =? STAR) && (b =? SLASH))%N || has_close l' | [] => false end
  | [] => false
  end.

(* ---- (3) the hand-out discipline *)
Section Handout.
Variables (T C : Type).
Inductive item := ITok (t : T) | ICom (c : C).
Inductive op := OPeek | OConsume.

Record pstate := mk { rest : list item; peeked : option (option T); pending : list C }.
(* peeked = Some None: the end-of-file token has been peeked *)

(* SourceParser::peek: pull tokens until one that is not a comment *)
Fixpoint pull (l : list item) (pend : list C) : list item * option T * list C :=
  match l with
  | [] => ([], None, pend)
  | ICom c :: l' => pull l' (pend ++ [c])
  | ITok t :: l' => (l', Some t, pend)
  end.

Definition peek (s : pstate) : pstate :=
  match peeked s with
  | Some _ => s
  | None => let '(l, t, p) := pull (rest s) (pending s) in mk l (Some t) p
  end.

(* SourceParser::consume: peek, hand the pending list out, forget the peeked token *)
Definition consume (s : pstate) : pstate * list C :=
  let s1 := peek s in (mk (rest s1) None [], pending s1).

(* a parser, as far as comments are concerned, is a schedule of peeks and consumes;
   `run` returns the final state and the lists handed out, in order *)
Fixpoint run (ops : list op) (s : pstate) : pstate * list (list C) :=
  match ops with
  | [] => (s, [])
  | OPeek :: ops' => run ops' (peek s)
  | OConsume :: ops' => let '(s1, out) := consume s in let '(s2, outs) := run ops' s1 in (s2, out :: outs)
  end.

(* parse_module's last step: peek, then take what is pending as trailing_comments *)
Definition finish (s : pstate) : list C := pending (peek s).

Fixpoint comments_of (l : list item) : list C :=
  match l with
  | [] => []
  | ICom c :: l' => c :: comments_of l'
  | ITok _ :: l' => comments_of l'
  end.
Fixpoint tokens_of (l : list item) : list T :=
  match l with
  | [] => []
  | ICom _ :: l' => tokens_of l'
  | ITok t :: l' => t :: tokens_of l'
  end.

Definition init (input : list item) : pstate := mk input None [].
End Handout.

Arguments ITok {T C} t. Arguments ICom {T C} c.
Arguments mk {T C} rest peeked pending.
Arguments rest {T C} p. Arguments peeked {T C} p. Arguments pending {T C} p.
Arguments pull {T C} l pend. Arguments peek {T C} s. Arguments consume {T C} s.
Arguments run {T C} ops s. Arguments finish {T C} s.
Arguments comments_of {T C} l. Arguments tokens_of {T C} l. Arguments init {T C} input.
