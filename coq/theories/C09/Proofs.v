(* C09 — proofs: the comment hand-out discipline loses and reorders nothing; flat comment
   documents are read back by the lexer; idempotence on the expression fragment (from C08). *)
From Coq Require Import List Arith Bool NArith Lia.
Import ListNotations.
From SV Require Import C08.Layout C08.LayoutProofs C09.Model.

Section HandoutProofs.
Variables (T C : Type).
Notation item := (item T C). Notation pstate := (pstate T C).

Definition held (s : pstate) : list C := pending s ++ comments_of (rest s).

Lemma pull_inv : forall (l : list item) p l' t p', pull l p = (l', t, p') ->
  p' ++ comments_of l' = p ++ comments_of l /\ (t = None -> l' = []).
Proof.
  induction l as [|[t0|c] l IH]; intros p l' t p' H; cbn [pull] in H.
  - inversion H; subst. split; auto.
  - inversion H; subst. split; [reflexivity|discriminate].
  - apply IH in H. destruct H as [H1 H2]. split; [|exact H2]. rewrite H1. cbn [comments_of].
    rewrite <- app_assoc. reflexivity.
Qed.

Lemma peek_held (s : pstate) : held (peek s) = held s.
Proof.
  unfold peek, held. destruct (peeked s); [reflexivity|].
  destruct (pull (rest s) (pending s)) as [[l t] p] eqn:E. cbn [pending rest].
  apply pull_inv in E. apply E.
Qed.

Lemma consume_held (s : pstate) : let '(s1, out) := consume s in out ++ held s1 = held s.
Proof.
  unfold consume. cbn. rewrite <- (peek_held s). unfold held. cbn [pending rest app]. reflexivity.
Qed.

(* whatever the parser does, the lists it was handed, then what is still pending, then the
   comments not yet read are exactly the comments of the input, in order *)
Theorem handout_exact : forall ops (s : pstate), let '(s', outs) := run ops s in List.concat outs ++ held s' = held s.
Proof.
  induction ops as [|[|] ops IH]; intros s; cbn [run].
  - reflexivity.
  - specialize (IH (peek s)). destruct (run ops (peek s)) as [s' outs]. rewrite IH. apply peek_held.
  - pose proof (consume_held s) as Hc. destruct (consume s) as [s1 out].
    specialize (IH s1). destruct (run ops s1) as [s2 outs]. cbn [List.concat].
    rewrite <- app_assoc, IH. exact Hc.
Qed.

Lemma peek_eof (s : pstate) : peeked (peek s) = Some None -> peeked s = None -> rest (peek s) = [].
Proof.
  unfold peek. intros H Hn. rewrite Hn in *. destruct (pull (rest s) (pending s)) as [[l t] p] eqn:E.
  cbn [peeked rest] in *. inversion H; subst. apply pull_inv in E. apply E. reflexivity.
Qed.

(* a parse that ends at end of file: the lists handed out plus the trailing comments are the
   comment sequence of the input *)
Theorem handout_complete : forall (input : list item) ops,
  let '(s', outs) := run ops (init input) in
  rest (peek s') = [] -> List.concat outs ++ finish s' = comments_of input.
Proof.
  intros input ops. pose proof (handout_exact ops (init input)) as H.
  destruct (run ops (init input)) as [s' outs]. intros Hr.
  unfold finish. rewrite <- (peek_held s') in H. unfold held in H. rewrite Hr in H.
  cbn [comments_of] in H. rewrite app_nil_r in H. exact H.
Qed.

(* tokens are delivered in order as well: comments never displace a token *)
Lemma pull_tokens : forall (l : list item) p l' t p', pull l p = (l', t, p') ->
  tokens_of l = match t with Some x => x :: tokens_of l' | None => [] end.
Proof.
  induction l as [|[t0|c] l IH]; intros p l' t p' H; cbn [pull] in H.
  - inversion H; subst. reflexivity.
  - inversion H; subst. reflexivity.
  - apply IH in H. exact H.
Qed.
End HandoutProofs.

(* ---- comment text: what the printer writes in one line, the lexer reads back *)
Definition first_ok (t : str) : Prop := match t with c :: _ => is_ws c = false /\ c <> STAR | [] => True end.
Definition last_ok (t : str) : Prop := match rev t with c :: _ => is_ws c = false | [] => True end.
Definition no_nl (t : str) : Prop := forall c, In c t -> c <> NLc.

Lemma find_close_app : forall a acc rest, has_close a = false ->
  find_close (a ++ STAR :: SLASH :: rest) acc = Some (rev acc ++ a, rest).
Proof.
  induction a as [|c a IH]; intros acc rest H.
  - cbn. rewrite app_nil_r. reflexivity.
  - cbn [app]. destruct a as [|b a'].
    + cbn [app find_close]. rewrite ?andb_false_r. rewrite !N.eqb_refl. cbn [andb rev]. reflexivity.
    + cbn [has_close] in H. apply orb_false_elim in H. destruct H as [Hcb H].
      change (find_close (c :: (b :: a') ++ STAR :: SLASH :: rest) acc) with
        (if ((c =? STAR) && (b =? SLASH))%N then Some (rev acc, a' ++ STAR :: SLASH :: rest)
         else find_close ((b :: a') ++ STAR :: SLASH :: rest) (c :: acc)).
      rewrite Hcb. rewrite (IH (c :: acc) rest H). cbn [rev]. rewrite <- app_assoc. reflexivity.
Qed.

Lemma dropwhile_nows c l : is_ws c = false -> dropwhile is_ws (c :: l) = c :: l.
Proof. intros H. cbn. rewrite H. reflexivity. Qed.

Lemma trim_end_keep l : last_ok l -> trim_end (l ++ [SP]) = l.
Proof.
  intros H. unfold trim_end. rewrite rev_app_distr. cbn [rev app dropwhile].
  change (is_ws SP) with true. cbn iota. unfold last_ok in H.
  destruct (rev l) as [|c r] eqn:E.
  - cbn. apply (f_equal (@rev N)) in E. rewrite rev_involutive in E. cbn in E. congruence.
  - rewrite (dropwhile_nows c r H). rewrite <- E. apply rev_involutive.
Qed.

Lemma split_nl_no_nl : forall l cur, no_nl l -> split_nl cur l = [rev cur ++ l].
Proof.
  induction l as [|c l IH]; intros cur H.
  - cbn. rewrite app_nil_r. reflexivity.
  - cbn [split_nl]. destruct (N.eqb_spec c NLc) as [->|Hne].
    + exfalso. apply (H NLc); [left; reflexivity|reflexivity].
    + change 10%N with NLc. destruct (N.eqb_spec c NLc); [contradiction|].
      rewrite IH; [|intros x Hx; apply H; right; exact Hx]. cbn [rev]. rewrite <- app_assoc. reflexivity.
Qed.

Lemma no_nl_app a b : no_nl a -> no_nl b -> no_nl (a ++ b).
Proof. intros Ha Hb c Hc. apply in_app_or in Hc. destruct Hc; auto. Qed.

Lemma post_process_flat text : no_nl text -> first_ok text -> last_ok text ->
  post_process_block_comment (SP :: text ++ [SP]) = text.
Proof.
  intros Hn Hf Hl. unfold post_process_block_comment.
  rewrite (split_nl_no_nl (SP :: text ++ [SP]) []).
  2:{ intros c [<-|Hc]; [discriminate|]. apply in_app_or in Hc. destruct Hc as [Hc|[<-|[]]]; [apply Hn; exact Hc|discriminate]. }
  cbn [rev app map]. unfold process_line, trim_start. cbn [dropwhile]. change (is_ws SP) with true. cbn iota.
  destruct text as [|c t].
  - cbn. reflexivity.
  - cbn [first_ok] in Hf. destruct Hf as [Hws Hstar]. cbn [app]. rewrite (dropwhile_nows c _ Hws).
    destruct (N.eqb_spec c STAR); [contradiction|].
    change (c :: t ++ [SP]) with ((c :: t) ++ [SP]). rewrite (trim_end_keep _ Hl). cbn. reflexivity.
Qed.

(* the one-line form of a block / doc comment is read back as the same comment *)
Theorem block_comment_flat_roundtrip : forall is_doc text rest,
  no_nl text -> first_ok text -> last_ok text -> has_close text = false ->
  lex_block_comment (starter is_doc ++ [SP] ++ text ++ EC ++ rest) = Some (is_doc, text, rest).
Proof.
  intros is_doc text rest Hn Hf Hl Hc.
  assert (Hraw : has_close (SP :: text ++ [SP]) = false).
  { clear -Hc. change (SP :: text ++ [SP]) with ((SP :: text) ++ [SP]).
    assert (G : forall l, has_close l = false -> has_close (l ++ [SP]) = false).
    { induction l as [|a [|b l] IH]; intros H; try reflexivity.
      - cbn. change (SP =? SLASH)%N with false. rewrite andb_false_r. reflexivity.
      - cbn [has_close] in H. apply orb_false_elim in H. destruct H as [H1 H2].
        change (has_close ((a :: b :: l) ++ [SP])) with (((a =? STAR) && (b =? SLASH))%N || has_close ((b :: l) ++ [SP])).
        rewrite H1. apply IH. exact H2. }
    apply G. destruct text as [|c t]; [reflexivity|].
    change (has_close (SP :: c :: t)) with (((SP =? STAR) && (c =? SLASH))%N || has_close (c :: t)).
    change (SP =? STAR)%N with false. exact Hc. }
  destruct is_doc; cbn [starter app lex_block_comment]; rewrite !N.eqb_refl; cbn [andb].
  - (* "/**" *)
    assert (E : STAR :: SP :: text ++ EC ++ rest = (STAR :: SP :: text ++ [SP]) ++ STAR :: SLASH :: rest).
    { cbn [app EC]. rewrite <- !app_assoc. reflexivity. }
    rewrite E. rewrite find_close_app.
    2:{ change (has_close (STAR :: (SP :: text ++ [SP]))) with (((STAR =? STAR) && (SP =? SLASH))%N || has_close (SP :: text ++ [SP])).
        change (SP =? SLASH)%N with false. rewrite andb_false_r. exact Hraw. }
    cbn [rev app]. rewrite N.eqb_refl. rewrite (post_process_flat text Hn Hf Hl). reflexivity.
  - (* "/*" *)
    assert (E : SP :: text ++ EC ++ rest = (SP :: text ++ [SP]) ++ STAR :: SLASH :: rest).
    { cbn [app EC]. rewrite <- !app_assoc. reflexivity. }
    rewrite E. rewrite find_close_app by exact Hraw.
    cbn [rev app]. change (SP =? STAR)%N with false. cbn iota.
    rewrite (post_process_flat text Hn Hf Hl). reflexivity.
Qed.

Lemma until_nl_no_nl : forall l acc rest, no_nl l -> until_nl (l ++ NLc :: rest) acc = (rev acc ++ l, NLc :: rest).
Proof.
  induction l as [|c l IH]; intros acc rest H.
  - cbn. rewrite app_nil_r. reflexivity.
  - cbn [app until_nl]. destruct (N.eqb_spec c NLc) as [->|Hne].
    + exfalso. apply (H NLc); [left; reflexivity|reflexivity].
    + rewrite IH; [|intros x Hx; apply H; right; exact Hx]. cbn [rev]. rewrite <- app_assoc. reflexivity.
Qed.

Theorem line_comment_flat_roundtrip : forall text rest,
  no_nl text -> first_ok text -> last_ok text ->
  lex_line_comment (LC ++ text ++ NLc :: rest) = Some (text, NLc :: rest).
Proof.
  intros text rest Hn Hf Hl. cbn [LC app lex_line_comment]. rewrite !N.eqb_refl. cbn [andb].
  change (SP :: text ++ NLc :: rest) with ((SP :: text) ++ NLc :: rest).
  rewrite until_nl_no_nl.
  2:{ intros c [<-|Hc]; [discriminate|apply Hn; exact Hc]. }
  cbn [rev app]. f_equal. f_equal. unfold trim, trim_start.
  destruct text as [|c t].
  - reflexivity.
  - assert (E : trim_end (SP :: c :: t) = SP :: c :: t).
    { unfold trim_end. cbn [rev]. unfold last_ok in Hl. cbn [rev] in Hl.
      destruct (rev t ++ [c]) as [|x r] eqn:Er.
      - destruct (rev t); discriminate.
      - change ((x :: r) ++ [SP]) with (x :: (r ++ [SP])). rewrite (dropwhile_nows x _ Hl).
        change (x :: (r ++ [SP])) with ((x :: r) ++ [SP]). rewrite <- Er.
        rewrite rev_app_distr. cbn [rev app]. rewrite rev_app_distr, rev_involutive. reflexivity. }
    rewrite E. cbn [dropwhile]. change (is_ws SP) with true. cbn iota.
    cbn [first_ok] in Hf. destruct Hf as [Hws _]. apply dropwhile_nows. exact Hws.
Qed.

