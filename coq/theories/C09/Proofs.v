(* C09 — proofs: the comment hand-out discipline loses and reorders nothing; flat comment
   documents are read back by the lexer; idempotence on the expression fragment (from C08). *)
From Coq Require Import List Arith Bool NArith Lia.
Import ListNotations.
From SV Require Import C08.Layout C08.LayoutProofs C09.Model.

Section HandoutProofs.
Variables (T C : Type).
Notation item := (item T C). Notation pstate := (pstate T C).

Definition held (s : pstate) : list C := pending s ++ comments_of (rest s).

Lemma pull_inv : forall (l : list item) p l' t p', pull l p = (l', t, p') ->
  p' ++ comments_of l' = p ++ comments_of l /\ (t = None -> l' = []).
Proof.
  induction l as [|[t0|c] l IH]; intros p l' t p' H; cbn [pull] in H.
  - inversion H; subst. split; auto.
  - inversion H; subst. split; [reflexivity|discriminate].
  - apply IH in H. destruct H as [H1 H2]. split; [|exact H2]. rewrite H1. cbn [comments_of].
    rewrite <- app_assoc. reflexivity.
Qed.

Lemma peek_held (s : pstate) : held (peek s) = held s.
Proof.
  unfold peek, held. destruct (peeked s); [reflexivity|].
  destruct (pull (rest s) (pending s)) as [[l t] p] eqn:E. cbn [pending rest].
  apply pull_inv in E. apply E.
Qed.

Lemma consume_held (s : pstate) : let '(s1, out) := consume s in out ++ held s1 = held s.
Proof.
  unfold consume. cbn. rewrite <- (peek_held s). unfold held. cbn [pending rest app]. reflexivity.
Qed.

(* whatever the parser does, the lists it was handed, then what is still pending, then the
   comments not yet read are exactly the comments of the input, in order *)
Theorem handout_exact : forall ops (s : pstate), let '(s', outs) := run ops s in List.concat outs ++ held s' = held s.
Proof.
  induction ops as [|[|] ops IH]; intros s; cbn [run].
  - reflexivity.
  - specialize (IH (peek s)). destruct (run ops (peek s)) as [s' outs]. rewrite IH. apply peek_held.
  - pose proof (consume_held s) as Hc. destruct (consume s) as [s1 out].
    specialize (IH s1). destruct (run ops s1) as [s2 outs]. cbn [List.concat].
    rewrite <- app_assoc, IH. exact Hc.
Qed.

Lemma peek_eof (s : pstate) : peeked (peek s) = Some None -> peeked s = None -> rest (peek s) = [].
Proof.
  unfold peek. intros H Hn. rewrite Hn in *. destruct (pull (rest s) (pending s)) as [[l t] p] eqn:E.
  cbn [peeked rest] in *. inversion H; subst. apply pull_inv in E. apply E. reflexivity.
Qed.

(* a parse that ends at end of file: the lists handed out plus the trailing comments are the
   comment sequence of the input *)
Theorem handout_complete : forall (input : list item) ops,
  let '(s', outs) := run ops (init input) in
  rest (peek s') = [] -> List.concat outs ++ finish s' = comments_of input.
Proof.
  intros input ops. pose proof (handout_exact ops (init input)) as H.
  destruct (run ops (init input)) as [s' outs]. intros Hr.
  unfold finish. rewrite <- (peek_held s') in H. unfold held in H. rewrite Hr in H.
  cbn [comments_of] in H. rewrite app_nil_r in H. exact H.
Qed.

(* tokens are delivered in order as well: comments never displace a token *)
Lemma pull_tokens : forall (l : list item) p l' t p', pull l p = (l', t, p') ->
  tokens_of l = match t with Some x => x :: tokens_of l' | None => [] end.
Proof.
  induction l as [|[t0|c] l IH]; intros p l' t p' H; cbn [pull] in H.
  - inversion H; subst. reflexivity.
  - inversion H; subst. reflexivity.
  - apply IH in H. exact H.
Qed.
End HandoutProofs.

(* ---- flat comment documents *)
Lemma dropwhile_app_nows l r : (forall c, In c l -> is_ws c = false) -> l <> [] ->
  dropwhile is_ws (l ++ r) = l ++ r.
Proof. destruct l as [|c l]; [congruence|]. intros H _. cbn. rewrite (H c (or_introl eq_refl)). reflexivity. Qed.
