(* C09 — the property theorems.  Statements closed by `exact`, Print Assumptions, non-vacuity.

   Not proved (monitored only): that every production of the parser STORES the comment list it is
   handed, and that every AST comment slot is printed - facts about ~150 call sites, not about
   this model.  The monitor finds many positions where they do not hold (see checks/c09.py). *)
From Coq Require Import List Arith Bool NArith.
Import ListNotations.
From SV Require Import C08.Syntax C08.Model C08.ProofsImpl C08.Layout C09.Model C09.Proofs C09.CommentProofs.

(* (i) idempotence on the expression fragment, outside Known_C08: whatever the printer's output
   parses to prints as the same token sequence again *)
Theorem C09_format_idempotent_fragment : forall e, known_C08 e = false ->
  forall fuel e', parse_expr fuel (impl e) = Some e' -> impl e' = impl e.
Proof. exact format_idempotent_fragment. Qed.

Theorem C09_format_idempotent_exists : forall e, known_C08 e = false ->
  exists fuel e', parse_expr fuel (impl e) = Some e' /\ impl e' = impl e.
Proof. exact impl_idempotent. Qed.

(* (ii) comment text.  Block and doc comments: for EVERY width, rendering the comment document and
   re-lexing gives the same comment (kind and text), for every normalised text (non-empty words
   without blanks separated by single spaces) that does not start with `*` and has no `*/` inside. *)
Theorem C09_block_comment_text_roundtrip : forall w is_doc text,
  normalised text = true -> star_free_start text -> has_close text = false ->
  lex_block_comment (render w (multiline_comment is_doc text)) = Some (is_doc, text, [NLc]).
Proof. exact block_comment_roundtrip_all_widths. Qed.

(* the layouts the engine can choose for such a document, whatever the width *)
Theorem C09_block_comment_layouts : forall fuel w is_doc text ts,
  gbd fuel w 0 false [(0, multiline_comment is_doc text)] [] = Fits ts ->
  ts = flat_toks is_doc text \/
  exists ch, length ch = length (words text) /\ ts = ml_toks is_doc (words text) ch.
Proof. exact multiline_layouts. Qed.

Theorem C09_block_comment_one_line_roundtrip : forall is_doc text rest,
  no_nl text -> first_ok text -> last_ok text -> has_close text = false ->
  lex_block_comment (starter is_doc ++ [SP] ++ text ++ EC ++ rest) = Some (is_doc, text, rest).
Proof. exact block_comment_flat_roundtrip. Qed.

(* Line comments.  Full statement (every width): the line comments read back from
   render w (line_comment text), empty ones dropped, joined by single spaces, are `text`.
   Proved for the one-line layout; the wrapped layouts are evaluated on the model at 45 widths per
   text by the check (C09/Corr.v roundtrip_check), and they leave a trailing empty `//` line when
   the last word does not fit (a finding, see checks/c09.py). *)
Theorem C09_line_comment_text_roundtrip_partial : forall text rest,
  no_nl text -> first_ok text -> last_ok text ->
  lex_line_comment (LC ++ text ++ NLc :: rest) = Some (text, NLc :: rest).
Proof. exact line_comment_flat_roundtrip. Qed.

(* (iii) the hand-out discipline: for every schedule of peeks and consumes, the lists handed out,
   then what is pending, then the comments not yet read are the input's comments in order *)
Theorem C09_handout_exact : forall (T C : Type) ops (s : pstate T C),
  let '(s', outs) := run ops s in
  List.concat outs ++ pending s' ++ comments_of (rest s') = pending s ++ comments_of (rest s).
Proof. exact handout_exact. Qed.

Theorem C09_handout_complete : forall (T C : Type) (input : list (item T C)) ops,
  let '(s', outs) := run ops (init input) in
  rest (peek s') = [] -> List.concat outs ++ finish s' = comments_of input.
Proof. exact handout_complete. Qed.

(* ---- non-vacuity *)
Example C09_nonvacuous_handout :
  let input := [ICom 1; ITok 10; ICom 2; ICom 3; ITok 11; ITok 12; ICom 4] : list (item nat nat) in
  run [OPeek; OConsume; OPeek; OPeek; OConsume; OConsume] (init input) =
    (mk [ICom 4] None [], [[1]; [2; 3]; []]) /\
  finish (fst (run [OPeek; OConsume; OPeek; OPeek; OConsume; OConsume] (init input))) = [4].
Proof. vm_compute. split; reflexivity. Qed.

Example C09_nonvacuous_comment :
  render 20 (multiline_comment true [116;104;105;115;32;105;115;32;97;32;116;101;115;116;32;104;97;104;97;32;102;111;111]%N)
    = [47;42;42;10;32;42;32;116;104;105;115;32;105;115;32;97;32;116;101;115;116;10;32;42;32;104;97;104;97;32;102;111;111;10;32;42;47;10]%N
  /\ lex_block_comment [47;42;42;10;32;42;32;116;104;105;115;32;105;115;32;97;32;116;101;115;116;10;32;42;32;104;97;104;97;32;102;111;111;10;32;42;47;10]%N
    = Some (true, [116;104;105;115;32;105;115;32;97;32;116;101;115;116;32;104;97;104;97;32;102;111;111]%N, [10%N]).
Proof. vm_compute. split; reflexivity. Qed.

Print Assumptions C09_format_idempotent_fragment.
Print Assumptions C09_format_idempotent_exists.
Print Assumptions C09_block_comment_text_roundtrip.
Print Assumptions C09_block_comment_layouts.
Print Assumptions C09_block_comment_one_line_roundtrip.
Print Assumptions C09_line_comment_text_roundtrip_partial.
Print Assumptions C09_handout_exact.
Print Assumptions C09_handout_complete.
