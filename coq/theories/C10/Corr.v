(* C10 — the dependency closure on concrete graphs (modules = nat), for the correspondence
   with DependencyGraph::affected_set.  Definitions only. *)
From Coq Require Import List Bool Arith NArith.
Import ListNotations.
From SV Require Import C10.Model.

(* a graph: (module, its imports) for every module that has a source *)
Definition graph := list (nat * list nat).
Fixpoint lookup_g (g : graph) (m : nat) : option (list nat) :=
  match g with [] => None | (k, v) :: g' => if Nat.eqb k m then Some v else lookup_g g' m end.

(* Content := list nat (the import list itself); imports m c := c *)
Definition affected_g (g : graph) (D : list nat) : option (list nat) :=
  affected nat Nat.eqb (list nat) (fun _ c => c) (map fst g) (lookup_g g) (S (S (length g + length (flat_map snd g) + length D))) D.

Fixpoint insert_sorted (x : nat) (l : list nat) : list nat :=
  match l with [] => [x] | y :: l' => if x <? y then x :: l else if Nat.eqb x y then l else y :: insert_sorted x l' end.
Definition sort_dedup (l : list nat) : list nat := fold_right insert_sorted [] l.

Definition affected_sorted (g : graph) (D : list nat) : option (list N) :=
  match affected_g g D with Some R => Some (map N.of_nat (sort_dedup R)) | None => None end.
