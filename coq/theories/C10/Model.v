(* C10 — model of crates/samlang-services/src/{server_state,dep_graph}.rs.
   The parser, the signature builder and the checker are Section variables (oracles);
   what is modelled is what the server does with them: which modules are re-parsed,
   which signatures are rebuilt, which modules are rechecked, which stored diagnostics
   are kept.  Definitions only. *)
From Coq Require Import List Bool.
Import ListNotations.

Section Server.
  Variable M : Type.
  Variable M_eqb : M -> M -> bool.
  Variables Content Sig Diag : Type.

  (* oracles: the real parser / signature builder / checker *)
  Variable imports : M -> Content -> list M.       (* import lines of the parsed module *)
  Variable syn : M -> Content -> list Diag.        (* syntax errors reported while parsing *)
  Variable sig_of : M -> Content -> Sig.           (* build_module_signature *)
  Variable refs : Sig -> list M.                   (* modules a signature mentions *)
  Variable check : M -> Content -> (M -> option Sig) -> list Diag.   (* type_check_module *)

  Definition sources := M -> option Content.
  Definition G_of (src : sources) : M -> option Sig :=
    fun m => match src m with Some c => Some (sig_of m c) | None => None end.
  (* what a freshly started server holds for module m: syntax errors and type errors *)
  Definition fresh (src : sources) (m : M) : list Diag * list Diag :=
    match src m with Some c => (syn m c, check m c (G_of src)) | None => ([], []) end.

  Definition mem (m : M) (l : list M) : bool := existsb (M_eqb m) l.

  (* the state the server keeps: global_cx and errors (split into the syntax and the type part) *)
  Record state := { sigs : M -> option Sig; errs : M -> list Diag * list Diag }.

  (* ServerState::recheck: for every module of the recheck set R that still has a source:
     type errors are recomputed; syntax errors come from this operation's parse if the module
     was parsed again, and are kept from the stored diagnostics otherwise *)
  Definition recheck (src' : sources) (sigs' : M -> option Sig) (st : state)
             (R : M -> bool) (reparsed : M -> bool) : M -> list Diag * list Diag :=
    fun m => if R m then
               match src' m with
               | Some c => ((if reparsed m then syn m c else fst (errs st m)), check m c sigs')
               | None => ([], [])
               end
             else errs st m.

  (* ---- update ---- *)
  Fixpoint find (m : M) (U : list (M * Content)) : option Content :=
    match U with [] => None | (m', c) :: U' => if M_eqb m m' then Some c else find m U' end.
  Definition src_update (src : sources) (U : list (M * Content)) : sources :=
    fun m => match find m U with Some c => Some c | None => src m end.
  Definition do_update (src : sources) (st : state) (U : list (M * Content)) (R : M -> bool) : state :=
    let src' := src_update src U in
    let sigs' := fun m => match find m U with Some c => Some (sig_of m c) | None => sigs st m end in
    {| sigs := sigs'; errs := recheck src' sigs' st R (fun m => mem m (map fst U)) |}.

  (* ---- remove ---- *)
  Definition src_remove (src : sources) (D : list M) : sources :=
    fun m => if mem m D then None else src m.
  Definition do_remove (src : sources) (st : state) (D : list M) (R : M -> bool) : state :=
    let src' := src_remove src D in
    let sigs' := fun m => if mem m D then None else sigs st m in
    {| sigs := sigs'; errs := recheck src' sigs' st R (fun _ => false) |}.

  (* ---- rename a to b (one pair): the text moves, is parsed again under the new name and its
     signature is rebuilt for the new name; nothing happens when a has no source ---- *)
  Definition src_rename (src : sources) (a b : M) : sources :=
    match src a with
    | None => src
    | Some c => fun m => if M_eqb m b then Some c else if M_eqb m a then None else src m
    end.
  Definition do_rename (src : sources) (st : state) (a b : M) (R : M -> bool) : state :=
    let src' := src_rename src a b in
    match src a with
    | None => {| sigs := sigs st; errs := recheck src' (sigs st) st R (fun _ => false) |}
    | Some c =>
        let sigs' := fun m => if M_eqb m b then Some (sig_of b c) else if M_eqb m a then None else sigs st m in
        {| sigs := sigs'; errs := recheck src' sigs' st R (fun m => M_eqb m b) |}
    end.

  (* ---- the dependency graph over a finite module list dom = keys of parsed_modules ---- *)
  Definition imports_of (src : sources) (m : M) : list M :=
    match src m with Some c => imports m c | None => [] end.

  Definition subset (a b : list M) : bool := forallb (fun x => mem x b) a.

  (* one round of DependencyGraph.reverse: modules that import something already in S *)
  Definition rev_step (dom : list M) (src : sources) (S : list M) : list M :=
    S ++ filter (fun m => negb (mem m S) && existsb (fun y => mem y S) (imports_of src m)) dom.
  (* one round of DependencyGraph.forward *)
  Definition fwd_step (src : sources) (S : list M) : list M :=
    S ++ filter (fun y => negb (mem y S)) (flat_map (imports_of src) S).

  Fixpoint saturate (stepf : list M -> list M) (fuel : nat) (W : list M) : option (list M) :=
    match fuel with
    | O => None
    | S f => let W' := stepf W in if subset W' W then Some W else saturate stepf f W'
    end.

  (* DependencyGraph::affected_set = forward closure of the reverse closure of the dirty set *)
  Definition affected (dom : list M) (src : sources) (fuel : nat) (D : list M) : option (list M) :=
    match saturate (rev_step dom src) fuel D with
    | None => None
    | Some W => saturate (fwd_step src) fuel W
    end.

  (* ---- histories ---- *)
  Inductive op :=
  | Update (U : list (M * Content)) (R : M -> bool)
  | Remove (D : list M) (R : M -> bool)
  | Rename (a b : M) (R : M -> bool).

  Definition step (p : sources * state) (o : op) : sources * state :=
    let '(src, st) := p in
    match o with
    | Update U R => (src_update src U, do_update src st U R)
    | Remove D R => (src_remove src D, do_remove src st D R)
    | Rename a b R => (src_rename src a b, do_rename src st a b R)
    end.
End Server.
