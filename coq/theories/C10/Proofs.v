(* C10 — proofs: incremental = fresh for every history, relative to the locality hypotheses
   on the checker (H-refs, H1) and to recheck sets that over-approximate "reaches the dirty
   set"; and the saturation-based dependency closure does over-approximate it. *)
From Coq Require Import List Bool Relations Relation_Operators Operators_Properties.
Import ListNotations.
From SV Require Import C10.Model.

Section Proofs.
  Variable M : Type.
  Variable M_eqb : M -> M -> bool.
  Hypothesis M_eqb_spec : forall a b, reflect (a = b) (M_eqb a b).
  Variables Content Sig Diag : Type.
  Variable imports : M -> Content -> list M.
  Variable syn : M -> Content -> list Diag.
  Variable sig_of : M -> Content -> Sig.
  Variable refs : Sig -> list M.
  Variable check : M -> Content -> (M -> option Sig) -> list Diag.

  (* H-refs: a signature only mentions modules its module imports *)
  Hypothesis refs_imports : forall m c y, In y (refs (sig_of m c)) -> In y (imports m c).
  (* H1: the checker reads the global signature only through the closure of what it can name *)
  Hypothesis check_local : forall m c (G G' : M -> option Sig) (S : M -> Prop),
    S m ->
    (forall y, In y (imports m c) -> S y) ->
    (forall x sg y, S x -> G x = Some sg -> In y (refs sg) -> S y) ->
    (forall x, S x -> G x = G' x) ->
    check m c G = check m c G'.

  Notation sources := (sources M Content).
  Notation G_of := (G_of M Content Sig sig_of).
  Notation fresh := (fresh M Content Sig Diag syn sig_of check).
  Notation mem := (mem M M_eqb).
  Notation state := (state M Sig Diag).
  Notation find := (find M M_eqb Content).
  Notation src_update := (src_update M M_eqb Content).
  Notation src_remove := (src_remove M M_eqb Content).
  Notation src_rename := (src_rename M M_eqb Content).
  Notation do_update := (do_update M M_eqb Content Sig Diag syn sig_of check).
  Notation do_remove := (do_remove M M_eqb Content Sig Diag syn check).
  Notation do_rename := (do_rename M M_eqb Content Sig Diag syn sig_of check).
  Notation step := (step M M_eqb Content Sig Diag syn sig_of check).

  Definition edge (src : sources) (x y : M) : Prop := exists c, src x = Some c /\ In y (imports x c).
  Definition reach (src : sources) : M -> M -> Prop := clos_refl_trans M (edge src).
  Definition reaches (src : sources) (D : list M) (m : M) : Prop := exists d, In d D /\ reach src m d.

  Lemma mem_spec m l : reflect (In m l) (mem m l).
  Proof.
    unfold Model.mem. destruct (existsb (M_eqb m) l) eqn:E; constructor.
    - apply existsb_exists in E. destruct E as [x [H1 H2]]. destruct (M_eqb_spec m x); [subst; auto|discriminate].
    - intros H. assert (existsb (M_eqb m) l = true); [|congruence].
      apply existsb_exists. exists m; split; auto. destruct (M_eqb_spec m m); auto.
  Qed.

  Lemma first_hit (src src' : sources) (D : list M) :
    (forall m, ~ In m D -> src' m = src m) ->
    forall m x, reach src m x -> In x D -> exists d, In d D /\ reach src' m d.
  Proof.
    intros Hagree m x Hr. apply clos_rt_rt1n in Hr.
    induction Hr as [m|m y x Hxy Hr IH]; intros Hx.
    - exists m; split; [auto|apply rt_refl].
    - destruct (mem_spec m D) as [Hm|Hm].
      + exists m; split; [auto|apply rt_refl].
      + destruct (IH Hx) as [d [Hd Hrd]]. exists d; split; auto.
        eapply rt_trans; [apply rt_step|exact Hrd].
        destruct Hxy as [c [Hc Hin]]. exists c. rewrite (Hagree m Hm). auto.
  Qed.

  Lemma reach_closed (src : sources) m c : src m = Some c ->
    reach src m m /\
    (forall y, In y (imports m c) -> reach src m y) /\
    (forall x sg y, reach src m x -> G_of src x = Some sg -> In y (refs sg) -> reach src m y).
  Proof.
    intros Hc. split; [apply rt_refl|]. split.
    - intros y Hy. apply rt_step. exists c; auto.
    - intros x sg y Hx Hg Hy. unfold Model.G_of in Hg. destruct (src x) as [cx|] eqn:Ex; [|discriminate].
      inversion Hg; subst. eapply rt_trans; [exact Hx|]. apply rt_step. exists cx. split; [auto|now apply refs_imports].
  Qed.

  Definition Inv (src : sources) (st : state) : Prop :=
    (forall m, sigs _ _ _ st m = G_of src m) /\ (forall m, errs _ _ _ st m = fresh src m).

  Lemma unaffected_same (src src' : sources) (D : list M) (R : M -> bool) :
    (forall m, ~ In m D -> src' m = src m) ->
    (forall m, reaches src D m -> R m = true) ->
    forall m, R m = false -> fresh src' m = fresh src m.
  Proof.
    intros Hagree HR m Hm.
    assert (HmD : ~ In m D).
    { intros H. rewrite HR in Hm; [discriminate|]. exists m; split; auto. apply rt_refl. }
    unfold Model.fresh. rewrite (Hagree m HmD). destruct (src m) as [c|] eqn:Ec; auto.
    f_equal. symmetry. destruct (reach_closed src m c Ec) as [H1 [H2 H3]].
    apply (check_local m c (G_of src) (G_of src') (reach src m)); auto.
    intros x Hx. unfold Model.G_of. rewrite Hagree; auto.
    intros HxD. rewrite HR in Hm; [discriminate|]. exists x; auto.
  Qed.

  Lemma check_ext m c G G' : (forall x, G x = G' x) -> check m c G = check m c G'.
  Proof. intros H. apply (check_local m c G G' (fun _ => True)); auto. Qed.

  (* the shared core of the three operations *)
  Lemma recheck_ok (src src' : sources) (st : state) (sigs' : M -> option Sig) (D : list M)
        (R reparsed : M -> bool) :
    Inv src st ->
    (forall m, ~ In m D -> src' m = src m) ->
    (forall m, sigs' m = G_of src' m) ->
    (forall m, reaches src D m -> R m = true) ->
    (forall m c, src' m = Some c -> reparsed m = false -> src m = Some c) ->
    forall m, recheck M Content Sig Diag syn check src' sigs' st R reparsed m = fresh src' m.
  Proof.
    intros [Hs He] Hagree Hsigs HR Hrep m. unfold recheck.
    destruct (R m) eqn:Rm.
    - unfold Model.fresh. destruct (src' m) as [c|] eqn:Ec; auto. f_equal.
      + destruct (reparsed m) eqn:Rp; auto. rewrite He. unfold Model.fresh.
        rewrite (Hrep m c Ec Rp). reflexivity.
      + apply check_ext. exact Hsigs.
    - rewrite He. symmetry. apply (unaffected_same src src' D R); auto.
  Qed.

  Lemma find_in m U c : find m U = Some c -> In m (map fst U).
  Proof.
    induction U as [|[m' c'] U IH]; cbn; [discriminate|].
    destruct (M_eqb_spec m m'); [left; auto|right; auto].
  Qed.

  (* ---- update: invalidation computed on the NEW graph ---- *)
  Theorem update_ok src st U R :
    Inv src st ->
    (forall m, reaches (src_update src U) (map fst U) m -> R m = true) ->
    Inv (src_update src U) (do_update src st U R).
  Proof.
    intros HI HR. set (src' := src_update src U). set (D := map fst U).
    assert (Hagree : forall m, ~ In m D -> src' m = src m).
    { intros m Hm. unfold src', Model.src_update. destruct (find m U) eqn:E; auto.
      exfalso. apply Hm. eapply find_in; eauto. }
    assert (Hsigs : forall m, sigs _ _ _ (do_update src st U R) m = G_of src' m).
    { intros m. cbn. unfold Model.G_of, src', Model.src_update. destruct (find m U); auto. apply (proj1 HI). }
    split; [exact Hsigs|]. intros m. cbn [errs Model.do_update].
    apply (recheck_ok src src' st _ D); auto.
    - intros m0 [d [Hd Hr]]. apply HR. eapply (first_hit src src' D); eauto.
    - intros m0 c Ec Rp. destruct (mem_spec m0 (map fst U)); [discriminate|]. rewrite <- Hagree; auto.
  Qed.

  (* ---- remove: invalidation computed on the OLD graph ---- *)
  Theorem remove_ok src st D R :
    Inv src st ->
    (forall m, reaches src D m -> R m = true) ->
    Inv (src_remove src D) (do_remove src st D R).
  Proof.
    intros HI HR. set (src' := src_remove src D).
    assert (Hagree : forall m, ~ In m D -> src' m = src m).
    { intros m Hm. unfold src', Model.src_remove. destruct (mem_spec m D); tauto. }
    assert (Hsigs : forall m, sigs _ _ _ (do_remove src st D R) m = G_of src' m).
    { intros m. cbn. unfold Model.G_of, src', Model.src_remove. destruct (mem m D); auto. apply (proj1 HI). }
    split; [exact Hsigs|]. intros m. cbn [errs Model.do_remove].
    apply (recheck_ok src src' st _ D); auto.
    intros m0 c Ec _. unfold src', Model.src_remove in Ec. destruct (mem m0 D); [discriminate|auto].
  Qed.

  (* ---- rename: invalidation computed on the OLD graph, dirty = {a, b} ---- *)
  Theorem rename_ok src st a b R :
    Inv src st ->
    (forall m, reaches src [a; b] m -> R m = true) ->
    Inv (src_rename src a b) (do_rename src st a b R).
  Proof.
    intros HI HR. set (src' := src_rename src a b). unfold Model.do_rename. fold src'.
    assert (Hagree : forall m, ~ In m [a; b] -> src' m = src m).
    { intros m Hm. unfold src', Model.src_rename. destruct (src a); auto.
      destruct (M_eqb_spec m b); [subst; exfalso; apply Hm; cbn; auto|].
      destruct (M_eqb_spec m a); [subst; exfalso; apply Hm; cbn; auto|]. reflexivity. }
    destruct (src a) as [c|] eqn:Ea.
    - assert (Hsigs : forall m, (if M_eqb m b then Some (sig_of b c) else if M_eqb m a then None else sigs _ _ _ st m) = G_of src' m).
      { intros m. unfold Model.G_of, src', Model.src_rename. rewrite Ea.
        destruct (M_eqb_spec m b); [subst; reflexivity|]. destruct (M_eqb m a); auto. apply (proj1 HI). }
      split; [exact Hsigs|]. intros m. cbn [errs].
      apply (recheck_ok src src' st _ [a; b]); auto.
      intros m0 c0 Ec Rp. unfold src', Model.src_rename in Ec. rewrite Ea, Rp in Ec.
      destruct (M_eqb m0 a); [discriminate|auto].
    - assert (E : src' = src) by (unfold src', Model.src_rename; now rewrite Ea).
      split; [rewrite E; apply (proj1 HI)|]. intros m. cbn [errs].
      apply (recheck_ok src src' st _ [a; b]); auto.
      + intros m0. rewrite E. apply (proj1 HI).
      + intros m0 c0 Ec _. now rewrite E in Ec.
  Qed.

  (* ---- histories ---- *)
  Notation op := (op M Content).
  Definition op_ok (src : sources) (o : op) : Prop :=
    match o with
    | Update _ _ U R => forall m, reaches (src_update src U) (map fst U) m -> R m = true
    | Remove _ _ D R => forall m, reaches src D m -> R m = true
    | Rename _ _ a b R => forall m, reaches src [a; b] m -> R m = true
    end.

  Fixpoint ops_ok (src : sources) (st : state) (ops : list op) : Prop :=
    match ops with
    | [] => True
    | o :: ops' => op_ok src o /\ ops_ok (fst (step (src, st) o)) (snd (step (src, st) o)) ops'
    end.

  Theorem incremental_eq_fresh : forall ops src st,
    Inv src st -> ops_ok src st ops ->
    let '(src', st') := fold_left step ops (src, st) in
    forall m, errs _ _ _ st' m = fresh src' m.
  Proof.
    induction ops as [|o ops IH]; intros src st HI Hok; cbn [fold_left].
    - apply HI.
    - destruct Hok as [Ho Hrest]. destruct o as [U R|D R|a b R]; cbn [Model.step] in *.
      + apply IH; auto. now apply update_ok.
      + apply IH; auto. now apply remove_ok.
      + apply IH; auto. now apply rename_ok.
  Qed.

  (* the initial state of a server started on src satisfies the invariant *)
  Lemma Inv_init src : Inv src {| sigs := G_of src; errs := fresh src |}.
  Proof. split; reflexivity. Qed.

  (* ---------------- the dependency closure over-approximates "reaches the dirty set" -------- *)
  Notation imports_of := (imports_of M Content imports).
  Notation subset := (subset M M_eqb).
  Notation rev_step := (rev_step M M_eqb Content imports).
  Notation fwd_step := (fwd_step M M_eqb Content imports).
  Notation saturate := (saturate M M_eqb).
  Notation affected := (affected M M_eqb Content imports).

  Lemma subset_spec a b : subset a b = true -> forall x, In x a -> In x b.
  Proof.
    unfold Model.subset. intros H x Hx. rewrite forallb_forall in H. specialize (H x Hx).
    destruct (mem_spec x b); [auto|discriminate].
  Qed.

  (* saturation returns a superset of its input that the step function does not enlarge *)
  Lemma saturate_spec stepf : (forall S x, In x S -> In x (stepf S)) ->
    forall fuel S0 S, saturate stepf fuel S0 = Some S ->
    (forall x, In x S0 -> In x S) /\ (forall x, In x (stepf S) -> In x S).
  Proof.
    intros Hmono. induction fuel as [|fuel IH]; intros S0 S H; [discriminate|]. cbn in H.
    destruct (subset (stepf S0) S0) eqn:E.
    - inversion H; subst. split; auto. now apply subset_spec.
    - destruct (IH _ _ H) as [H1 H2]. split; auto.
  Qed.

  Lemma rev_step_mono dom src S x : In x S -> In x (rev_step dom src S).
  Proof. intros H. unfold Model.rev_step. apply in_or_app; auto. Qed.
  Lemma fwd_step_mono src S x : In x S -> In x (fwd_step src S).
  Proof. intros H. unfold Model.fwd_step. apply in_or_app; auto. Qed.

  Theorem rev_closure_complete dom src fuel D S :
    (forall m c, src m = Some c -> In m dom) ->
    saturate (rev_step dom src) fuel D = Some S ->
    forall m, reaches src D m -> In m S.
  Proof.
    intros Hdom Hsat m [d [Hd Hr]].
    destruct (saturate_spec (rev_step dom src) (rev_step_mono dom src) fuel D S Hsat) as [Hsup Hclosed].
    apply clos_rt_rt1n in Hr. induction Hr as [m|m y d Hxy Hr IH]; [auto|].
    specialize (IH Hd). destruct Hxy as [c [Hc Hin]].
    destruct (mem_spec m S) as [Hm|Hm]; [auto|].
    apply Hclosed. unfold Model.rev_step. apply in_or_app. right. apply filter_In. split; [eapply Hdom; eauto|].
    apply andb_true_intro. split.
    - destruct (mem_spec m S); [contradiction|reflexivity].
    - apply existsb_exists. exists y. split.
      + unfold Model.imports_of. now rewrite Hc.
      + destruct (mem_spec y S); [reflexivity|contradiction].
  Qed.

  Theorem affected_over dom src fuel D R :
    (forall m c, src m = Some c -> In m dom) ->
    affected dom src fuel D = Some R ->
    forall m, reaches src D m -> mem m R = true.
  Proof.
    intros Hdom Ha m Hm. unfold Model.affected in Ha.
    destruct (saturate (rev_step dom src) fuel D) as [S|] eqn:E1; [|discriminate].
    pose proof (rev_closure_complete dom src fuel D S Hdom E1 m Hm) as HS.
    destruct (saturate_spec (fwd_step src) (fwd_step_mono src) fuel S R Ha) as [Hsup _].
    destruct (mem_spec m R); [reflexivity|]. exfalso; auto.
  Qed.
End Proofs.
