(* C10 — property theorems. *)
From Coq Require Import List Bool Relations NArith.
Import ListNotations.
From SV Require Import C10.Model C10.Proofs C10.Corr.

Section Statement.
  Variable M : Type.
  Variable M_eqb : M -> M -> bool.
  Hypothesis M_eqb_spec : forall a b, reflect (a = b) (M_eqb a b).
  Variables Content Sig Diag : Type.
  Variable imports : M -> Content -> list M.
  Variable syn : M -> Content -> list Diag.
  Variable sig_of : M -> Content -> Sig.
  Variable refs : Sig -> list M.
  Variable check : M -> Content -> (M -> option Sig) -> list Diag.
  (* the recorded hypotheses about the real parser / checker (tested, not proved) *)
  Definition H_refs := forall m c y, In y (refs (sig_of m c)) -> In y (imports m c).
  Definition H_local := forall m c (G G' : M -> option Sig) (S : M -> Prop),
    S m -> (forall y, In y (imports m c) -> S y) ->
    (forall x sg y, S x -> G x = Some sg -> In y (refs sg) -> S y) ->
    (forall x, S x -> G x = G' x) -> check m c G = check m c G'.
End Statement.

(* after any history of update / create / rename / remove whose recheck sets over-approximate
   "reaches the dirty set", the stored diagnostics of every module are those of a fresh server *)
Theorem C10_incremental_eq_fresh :
  forall M M_eqb, (forall a b : M, reflect (a = b) (M_eqb a b)) ->
  forall Content Sig Diag imports syn sig_of refs check,
  H_refs M Content Sig imports sig_of refs -> H_local M Content Sig Diag imports refs check ->
  forall ops src st,
  Inv M Content Sig Diag syn sig_of check src st ->
  ops_ok M M_eqb Content Sig Diag imports syn sig_of check src st ops ->
  let '(src', st') := fold_left (step M M_eqb Content Sig Diag syn sig_of check) ops (src, st) in
  forall m, errs M Sig Diag st' m = fresh M Content Sig Diag syn sig_of check src' m.
Proof. exact incremental_eq_fresh. Qed.

(* the set the dependency graph computes does over-approximate "reaches the dirty set" *)
Theorem C10_affected_set_complete :
  forall M M_eqb, (forall a b : M, reflect (a = b) (M_eqb a b)) ->
  forall Content (imports : M -> Content -> list M) dom src fuel D R,
  (forall m c, src m = Some c -> In m dom) ->
  affected M M_eqb Content imports dom src fuel D = Some R ->
  forall m, reaches M Content imports src D m -> mem M M_eqb m R = true.
Proof. exact affected_over. Qed.

(* a module that does not reach the dirty set keeps its diagnostics: no stale error survives
   and none is missed, whether the operation consults the old or the new graph *)
Theorem C10_first_hit :
  forall M M_eqb, (forall a b : M, reflect (a = b) (M_eqb a b)) ->
  forall Content (imports : M -> Content -> list M) (src src' : M -> option Content) D,
  (forall m, ~ In m D -> src' m = src m) ->
  forall m x, reach M Content imports src m x -> In x D -> exists d, In d D /\ reach M Content imports src' m d.
Proof. exact first_hit. Qed.

(* ---- non-vacuity: a 3-module cycle with a dependent outside it ---- *)
Example C10_nonvacuous :
  affected_sorted [(0, [1]); (1, [2]); (2, [0]); (3, [0; 9]); (4, [])] [1] = Some [0; 1; 2; 3; 9]%N.
Proof. vm_compute. reflexivity. Qed.

Print Assumptions C10_incremental_eq_fresh.
Print Assumptions C10_affected_set_complete.
Print Assumptions C10_first_hit.
