(* C11 — the incremental garbage-collection protocol of the language server
   (crates/samlang-services/src/gc.rs perform_gc_after_recheck_internal, driven from
   server_state.rs recheck) over the heap model of C17.  Definitions only. *)
From Coq Require Import List Arith Bool.
Import ListNotations.
From SV Require Import C17.Model.

Section Gc.
  (* which module references currently have a checked module (all_modules.get) *)
  Variable present : nat -> bool.
  (* the handles mark_module marks for a module *)
  Variable marks : nat -> list handle.
  (* HashSet iteration: which element pop_unmarked_module_reference returns; every choice is covered *)
  Variable choose : list nat -> option nat.

  Definition mark_all (h : heap) (hs : list handle) : heap := fold_left mark hs h.

  (* the `while remaining_slice > 0` loop; `iters` bounds the iterations spent on absent modules *)
  Fixpoint mark_loop (iters remaining : nat) (h : heap) : heap :=
    match iters with
    | O => h
    | S iters' =>
        match remaining with
        | O => h
        | S remaining' =>
            match choose (unmarked h) with
            | None => h
            | Some m =>
                let h1 := snd (pop_unmarked h (Some m)) in
                if present m then mark_loop iters' remaining' (mark_all h1 (marks m))
                else mark_loop iters' remaining h1
            end
        end
    end.

  Definition NUM_MODULE_MARKED_PER_SLICE := 100.
  Definition NUM_SWEEP_UNIT := 100 * 100.

  (* perform_gc_after_recheck *)
  Definition gc_after_recheck (h : heap) (changed : list nat) : heap :=
    let h1 := fold_left add_unmarked changed h in
    let h2 := mark_loop (length (unmarked h1) + NUM_MODULE_MARKED_PER_SLICE) NUM_MODULE_MARKED_PER_SLICE h1 in
    sweep h2 NUM_SWEEP_UNIT.
End Gc.
