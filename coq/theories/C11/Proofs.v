(* C11 — safety of the collection protocol relative to marker coverage (H-cover). *)
From Coq Require Import List Arith Bool Lia.
Import ListNotations.
From SV Require Import C17.Model C17.Proofs C11.Model.

Section GcProofs.
  Variable present : nat -> bool.
  Variable marks : nat -> list handle.
  Variable choose : list nat -> option nat.
  Hypothesis choose_in : forall l x, choose l = Some x -> In x l.
  Hypothesis choose_none : forall l, choose l = None -> l = [].

  (* a handle survives the next sweep: inline, permanent, or marked *)
  Definition safe (h : heap) (hd : handle) : Prop :=
    match hd with
    | HInline _ => True
    | HId i => get h i = Dead \/ protected (get h i)
    end.

  Lemma existsb_eqb_in x l : existsb (Nat.eqb x) l = true <-> In x l.
  Proof.
    rewrite existsb_exists. split.
    - intros [y [H E]]. apply Nat.eqb_eq in E. now subst.
    - intros H. exists x. split; auto. apply Nat.eqb_refl.
  Qed.

  (* marking never unprotects and never kills *)
  Lemma mark_get h hd i : get (mark h hd) i = get h i \/ (exists s m, get h i = Temp s m /\ get (mark h hd) i = Temp s true).
  Proof.
    destruct hd as [t|id]; cbn; auto.
    destruct (get h id) as [|s m|] eqn:G; auto.
    assert (Hlt : id < length (table h)) by (eapply get_lt; eauto; congruence).
    unfold get at 1 3; cbn. rewrite get_upd_cases by auto.
    destruct (Nat.eqb_spec i id) as [->|]; auto. right. exists s, m. split; auto.
  Qed.

  Lemma mark_keeps_safe h hd x : safe h x -> safe (mark h hd) x.
  Proof.
    destruct x as [t|i]; cbn; auto. intros [D|[s [P|P]]].
    - destruct (mark_get h hd i) as [E|[s [m [E _]]]]; [left; congruence|congruence].
    - destruct (mark_get h hd i) as [E|[s' [m [E _]]]]; [right; exists s; left; congruence|congruence].
    - destruct (mark_get h hd i) as [E|[s' [m [E1 E2]]]].
      + right. exists s. right. congruence.
      + right. exists s'. right. exact E2.
  Qed.

  Lemma mark_makes_safe h hd : safe (mark h hd) hd.
  Proof.
    destruct hd as [t|id]; cbn; auto.
    destruct (get h id) as [s|s m|] eqn:G.
    - right. exists s. left. exact G.
    - assert (Hlt : id < length (table h)) by (eapply get_lt; eauto; congruence).
      right. exists s. right. unfold get; cbn. now apply nth_upd_same.
    - left. exact G.
  Qed.

  Lemma mark_all_keeps_safe hs : forall h x, safe h x -> safe (mark_all h hs) x.
  Proof. unfold mark_all. induction hs as [|a hs IH]; intros h x S; cbn; auto. apply IH, mark_keeps_safe, S. Qed.

  Lemma mark_all_makes_safe hs : forall h x, In x hs -> safe (mark_all h hs) x.
  Proof.
    unfold mark_all. induction hs as [|a hs IH]; intros h x Hin; [destruct Hin|]. cbn.
    destruct Hin as [->|Hin]; [|auto]. apply (mark_all_keeps_safe hs). apply mark_makes_safe.
  Qed.

  Lemma unmarked_mark h hd : unmarked (mark h hd) = unmarked h.
  Proof. destruct hd as [t|id]; cbn; auto. destruct (get h id); auto. Qed.
  Lemma unmarked_mark_all hs : forall h, unmarked (mark_all h hs) = unmarked h.
  Proof. unfold mark_all. induction hs as [|a hs IH]; intros h; cbn; auto. rewrite IH. apply unmarked_mark. Qed.

  Lemma pop_some h m : In m (unmarked h) ->
    unmarked (snd (pop_unmarked h (Some m))) = filter (fun y => negb (Nat.eqb m y)) (unmarked h) /\
    forall i, get (snd (pop_unmarked h (Some m))) i = get h i.
  Proof.
    intros Hin. unfold pop_unmarked. destruct (unmarked h) as [|u us] eqn:U; [destruct Hin|].
    assert (E : existsb (Nat.eqb m) (u :: us) = true) by (apply existsb_eqb_in; exact Hin).
    rewrite E. cbn. split; auto.
  Qed.

  Lemma safe_ext h h' x : (forall i, get h' i = get h i) -> safe h x -> safe h' x.
  Proof. intros E. destruct x; cbn; auto. rewrite E. auto. Qed.

  (* the loop invariant: every module that is present and no longer in the unmarked set has all
     the handles its marker covers safe *)
  Definition covered (h : heap) (Q : nat -> Prop) : Prop :=
    forall m x, Q m -> present m = true -> ~ In m (unmarked h) -> In x (marks m) -> safe h x.

  Lemma filter_not_in m l x : In x (filter (fun y => negb (Nat.eqb m y)) l) <-> In x l /\ x <> m.
  Proof.
    rewrite filter_In, negb_true_iff, Nat.eqb_neq. intuition.
  Qed.

  Lemma mark_loop_covered Q : forall iters remaining h,
    covered h Q -> covered (mark_loop present marks choose iters remaining h) Q.
  Proof.
    induction iters as [|iters IH]; intros remaining h C; cbn [mark_loop]; auto.
    destruct remaining as [|remaining]; auto.
    destruct (choose (unmarked h)) as [m|] eqn:Ch; auto.
    pose proof (choose_in _ _ Ch) as Hin. destruct (pop_some h m Hin) as [U G].
    destruct (present m) eqn:Pm.
    - apply IH. intros m' x Qm Pm' Nin Hx.
      rewrite unmarked_mark_all, U in Nin.
      destruct (Nat.eq_dec m' m) as [->|Hne].
      + now apply mark_all_makes_safe.
      + apply mark_all_keeps_safe. apply (safe_ext h); auto. apply (C m' x); auto.
        intros Hm'. apply Nin. apply filter_not_in. auto.
    - apply IH. intros m' x Qm Pm' Nin Hx. rewrite U in Nin.
      apply (safe_ext h); auto. apply (C m' x); auto.
      intros Hm'. apply Nin. apply filter_not_in. split; auto. intros ->. congruence.
  Qed.

  (* sweeping keeps every safe handle alive with its string *)
  Lemma sweep_keeps h n x s : Inv h -> safe h x -> read h x = Some s -> read (sweep h n) x = Some s.
  Proof.
    intros HI S R. destruct x as [t|i]; cbn in *; auto.
    destruct S as [D|P]; [rewrite D in R; discriminate|].
    pose proof (never_reclaims_protected h n i) as N.
    destruct P as [s' P']. specialize (N (ex_intro _ s' P')).
    destruct (sweep_read_stable h n i s R) as [K|K]; [exact K|contradiction].
  Qed.

  Lemma get_add_unmarked h m i : get (add_unmarked h m) i = get h i.
  Proof. reflexivity. Qed.
  Lemma fold_add_unmarked_get ms : forall h i, get (fold_left add_unmarked ms h) i = get h i.
  Proof. induction ms as [|m ms IH]; intros h i; cbn; auto. rewrite IH. reflexivity. Qed.
  Lemma in_add_unmarked h m : In m (unmarked (add_unmarked h m)).
  Proof.
    unfold add_unmarked; cbn. destruct (existsb (Nat.eqb m) (unmarked h)) eqn:E; [apply existsb_eqb_in; auto|left; auto].
  Qed.
  Lemma add_unmarked_mono h m x : In x (unmarked h) -> In x (unmarked (add_unmarked h m)).
  Proof. unfold add_unmarked; cbn. destruct (existsb (Nat.eqb m) (unmarked h)); [auto|right; auto]. Qed.
  Lemma fold_add_unmarked_in ms : forall h m, In m ms \/ In m (unmarked h) -> In m (unmarked (fold_left add_unmarked ms h)).
  Proof.
    induction ms as [|a ms IH]; intros h m H; cbn.
    - destruct H as [[]|H]; exact H.
    - apply IH. destruct H as [[->|H]|H].
      + right. apply in_add_unmarked.
      + left. exact H.
      + right. now apply add_unmarked_mono.
  Qed.

  Lemma mark_read h hd x s : read h x = Some s -> read (mark h hd) x = Some s.
  Proof.
    destruct x as [t|i]; cbn; auto. intros R.
    destruct (mark_get h hd i) as [E|[s' [m [E1 E2]]]]; [now rewrite E|].
    rewrite E1 in R. rewrite E2. exact R.
  Qed.
  Lemma mark_all_read hs : forall h x s, read h x = Some s -> read (mark_all h hs) x = Some s.
  Proof. unfold mark_all. induction hs as [|a hs IH]; intros h x s R; cbn; auto. apply IH, mark_read, R. Qed.
  Lemma Inv_mark_all hs : forall h, Inv h -> Inv (mark_all h hs).
  Proof. unfold mark_all. induction hs as [|a hs IH]; intros h HI; cbn; auto. apply IH, Inv_mark, HI. Qed.
  Lemma read_ext h h' x : (forall i, get h' i = get h i) -> read h' x = read h x.
  Proof. intros E. destruct x; cbn; auto. now rewrite E. Qed.

  Lemma mark_loop_read_inv : forall iters remaining h,
    Inv h -> Inv (mark_loop present marks choose iters remaining h) /\
    forall x s, read h x = Some s -> read (mark_loop present marks choose iters remaining h) x = Some s.
  Proof.
    induction iters as [|iters IH]; intros remaining h HI; cbn [mark_loop]; [auto|].
    destruct remaining as [|remaining]; [auto|].
    destruct (choose (unmarked h)) as [m|] eqn:Ch; [|auto].
    pose proof (choose_in _ _ Ch) as Hin. destruct (pop_some h m Hin) as [U G].
    pose proof (Inv_pop_unmarked h (Some m) HI) as HI1.
    destruct (present m).
    - destruct (IH remaining _ (Inv_mark_all (marks m) _ HI1)) as [I2 R2]. split; auto.
      intros x s R. apply R2. apply mark_all_read. rewrite (read_ext h _ x G). exact R.
    - destruct (IH (S remaining) _ HI1) as [I2 R2]. split; auto.
      intros x s R. apply R2. rewrite (read_ext h _ x G). exact R.
  Qed.

  Lemma Inv_fold_add_unmarked ms : forall h, Inv h -> Inv (fold_left add_unmarked ms h).
  Proof. induction ms as [|m ms IH]; intros h HI; cbn; auto. apply IH, Inv_add_unmarked, HI. Qed.

  (* H-cover is the hypothesis [Hroots]: what a retained module can reach is marked by its marker *)
  Theorem gc_round_safe (roots : nat -> list handle) h changed :
    Inv h ->
    (forall m x, In x (roots m) -> In x (marks m)) ->
    (forall m, present m = true -> In m changed) ->
    forall m x s, present m = true -> In x (roots m) -> read h x = Some s ->
    read (gc_after_recheck present marks choose h changed) x = Some s.
  Proof.
    intros HI Hroots Hqueued m x s Pm Hx R. unfold gc_after_recheck.
    set (h1 := fold_left add_unmarked changed h).
    assert (HI1 : Inv h1) by (apply Inv_fold_add_unmarked, HI).
    assert (R1 : read h1 x = Some s) by (rewrite (read_ext h h1 x (fold_add_unmarked_get changed h)); exact R).
    set (h2 := mark_loop present marks choose _ NUM_MODULE_MARKED_PER_SLICE h1).
    destruct (mark_loop_read_inv (length (unmarked h1) + NUM_MODULE_MARKED_PER_SLICE) NUM_MODULE_MARKED_PER_SLICE h1 HI1) as [HI2 R2].
    fold h2 in HI2, R2. specialize (R2 x s R1).
    destruct (unmarked h2) as [|u us] eqn:U2.
    - apply sweep_keeps; auto.
      assert (C : covered h2 (fun m => In m changed)).
      { apply mark_loop_covered. intros m' x' Qm _ Nin _. exfalso. apply Nin.
        apply fold_add_unmarked_in. left. exact Qm. }
      apply (C m x); auto. rewrite U2. intros [].
    - rewrite sweep_gate by congruence. exact R2.
  Qed.
End GcProofs.
