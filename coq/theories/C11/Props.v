(* C11 — property theorem: the collection protocol is safe relative to marker coverage. *)
From Coq Require Import List Arith Bool NArith.
Import ListNotations.
From SV Require Import C17.Model C17.Proofs C11.Model C11.Proofs.

(* One collection slice after a recheck (queue all retained modules, mark at most 100 of them,
   sweep only when the queue is empty) never makes a string unreadable that a retained module can
   reach, whatever the HashSet iteration order, provided the marker of every retained module covers
   what the module can reach (H-cover) and every retained module is queued. *)
Theorem C11_gc_round_safe :
  forall (present : nat -> bool) (marks : nat -> list handle) (choose : list nat -> option nat),
  (forall l x, choose l = Some x -> In x l) ->
  forall (roots : nat -> list handle) h changed,
  Inv h ->
  (forall m x, In x (roots m) -> In x (marks m)) ->
  (forall m, present m = true -> In m changed) ->
  forall m x s, present m = true -> In x (roots m) -> read h x = Some s ->
  read (gc_after_recheck present marks choose h changed) x = Some s.
Proof. intros present marks choose Hc. exact (gc_round_safe present marks choose Hc). Qed.

(* the heap invariant is maintained by the marking loop, so rounds compose along any history *)
Theorem C11_gc_round_inv :
  forall (present : nat -> bool) (marks : nat -> list handle) (choose : list nat -> option nat),
  (forall l x, choose l = Some x -> In x l) ->
  forall iters remaining h, Inv h -> Inv (mark_loop present marks choose iters remaining h).
Proof. intros present marks choose Hc iters remaining h HI. exact (proj1 (mark_loop_read_inv present marks choose Hc iters remaining h HI)). Qed.

(* non-vacuity: a module whose marker covers its (long) name survives a full collection while an
   unreachable string is reclaimed *)
Definition n1 : str := repeat 97%N 20.
Definition n2 : str := repeat 98%N 20.
Definition h0 : heap := run [OAllocString n1; OAllocString n2].
Example C11_nonvacuous :
  let h := gc_after_recheck (fun m => Nat.eqb m 3) (fun _ => [HId 0]) (fun l => hd_error l) h0 [3] in
  read h (HId 0) = Some n1 /\ read h (HId 1) = None.
Proof. vm_compute. split; reflexivity. Qed.

Print Assumptions C11_gc_round_safe.
Print Assumptions C11_gc_round_inv.
