(* C11cov — glue for the correspondence check (checks/c11_cover.py): for a checked module dumped by `vh mark-run`
   as a term of Syntax.v, `mark ast` must be the sequence of strings the real `mark_module` passed to `Heap::mark`
   for that module (same order), every string of `strings ast` must be among the real marks, and the reliance
   predicate `wfb ast` must hold.  Definitions only. *)
From Coq Require Import List NArith Bool.
Import ListNotations.
From SV Require Import C11cov.Syntax C11cov.Strings C11cov.Marker.

(* ---- builders used by the generated case files: Rust Vec -> the cons-list types of Syntax.v ---- *)
Definition tys_of (l : list ty) : tys := fold_right YCons YNil l.
Definition annots_of (l : list annot) : annots := fold_right TCons TNil l.
Definition tpats_of (l : list (pat * ty)) : tpats := fold_right (fun a r => TPCons (fst a) (snd a) r) TPNil l.
Definition opats_of (l : list (ty * N * pat)) : opats :=
  fold_right (fun a r => OPCons (fst (fst a)) (snd (fst a)) (snd a) r) OPNil l.
Definition pats_of (l : list pat) : pats := fold_right PCons PNil l.
Definition exprs_of (l : list expr) : exprs := fold_right ECons ENil l.
Definition arms_of (l : list (pat * expr)) : arms := fold_right (fun a r => ACons (fst a) (snd a) r) ANil l.
(* a statement: inl (pattern, annotation, initialiser) = `let`, inr e = expression statement *)
Definition stmts_of (l : list (pat * option annot * expr + expr)) (final : option expr) : stmts :=
  fold_right (fun st r => match st with
                          | inl (p, a, e) => SLet p a e r
                          | inr e => SExpr e r
                          end)
             (match final with Some e => SFinal e | None => SEnd end) l.

(* the first index at which two sequences differ: (index, element of a + 1, element of b + 1); 0 = the sequence ended *)
Fixpoint first_diff (i : N) (a b : list N) : option (N * N * N) :=
  match a, b with
  | [], [] => None
  | x :: a', y :: b' => if N.eqb x y then first_diff (i + 1) a' b' else Some (i, x + 1, y + 1)%N
  | x :: _, [] => Some (i, x + 1, 0)%N
  | [], y :: _ => Some (i, 0, y + 1)%N
  end.

(* the first element of a that is not in b *)
Definition first_missing (a b : list N) : option N :=
  find (fun x => negb (existsb (N.eqb x) b)) a.

(* one case: the dumped module and the real marker's log for it *)
Definition ccase := (module * list N)%type.

Record cresult := mkRes {
  r_seq : option (N * N * N);        (* mark ast vs the real log, as sequences *)
  r_strings_real : option N;         (* a string of `strings ast` the real marker did not mark *)
  r_strings_model : option N;        (* a string of `strings ast` the modelled marker does not mark (then wfb is false) *)
  r_real_stray : option N;           (* a string the real marker marked that is not a string of the module *)
  r_wf : bool }.

Definition check_ccase (c : ccase) : cresult :=
  let '(m, real) := c in
  let ss := strings m in
  mkRes (first_diff 0 (mark m) real) (first_missing ss real) (first_missing ss (mark m)) (first_missing real ss) (wfb m).

Definition res_ok (r : cresult) : bool :=
  match r with
  | mkRes None None None None true => true
  | _ => false
  end.

Definition o3 (o : option (N * N * N)) : N * N * N * N :=
  match o with Some (i, a, b) => (1, i, a, b) | None => (0, 0, 0, 0) end%N.
Definition o1 (o : option N) : N * N := match o with Some x => (1, x) | None => (0, 0) end%N.

(* failing cases only: (case index, (seq, strings-vs-real, strings-vs-model, stray, wf)) *)
Fixpoint cfails (i : N) (cs : list ccase) : list (N * ((N * N * N * N) * (N * N) * (N * N) * (N * N) * bool)) :=
  match cs with
  | [] => []
  | c :: cs' =>
      let r := check_ccase c in
      if res_ok r then cfails (i + 1) cs'
      else (i, (o3 (r_seq r), o1 (r_strings_real r), o1 (r_strings_model r), o1 (r_real_stray r), r_wf r)) :: cfails (i + 1) cs'
  end.

(* sizes, for the evidence: (|mark ast|, |strings ast|) *)
Definition csizes (cs : list ccase) : list (N * N) :=
  map (fun c => (N.of_nat (length (mark (fst c))), N.of_nat (length (strings (fst c))))) cs.
