(* C11cov — `mark m`: the sequence of strings `mark_module` (crates/samlang-services/src/gc.rs) passes to `Heap::mark`
   for a checked module, function by function and statement by statement, in the same order (the tie compares it
   with the log of the real marker as a sequence).  Definitions only.

     gc.rs                     here
     -------------------------------------------
     mark_annot                mark_annot          (+ mark_id_annot, mark_fn_annot inlined as in the match arms)
     mark_type_arguments       mark_annots         (None marks nothing = TNil)
     mark_annotations          mark_annots
     mark_annot_opt            mark_annot_opt
     mark_type                 mark_ty             (+ mark_nominal_type, mark_fn_type)
     mark_types                mark_tys
     mark_id                   [id]
     mark_tuple_pattern        mark_tpats
     mark_matching_pattern     mark_pat, mark_opats (the Object loop), mark_pats (the Or loop)
     mark_if_else              mark_ifelse, mark_elsebr
     mark_block                mark_block, mark_stmts
     mark_expression           mark_expr, mark_exprs, mark_arms
     mark_type_parameters      mark_tparams
     mark_module               mark *)
From Coq Require Import List NArith Bool.
Import ListNotations.
From SV Require Import C11cov.Syntax.

Fixpoint mark_ty (t : ty) : list N :=
  match t with
  | YLeaf => []                                            (* Type::Any | Type::Primitive => {} *)
  | YNominal id args => id :: mark_tys args                (* heap.mark(type_.id); mark_types(type_arguments) *)
  | YGeneric id => [id]                                    (* heap.mark of the id *)
  | YFn args r => mark_tys args ++ mark_ty r               (* mark_types(argument_types); mark_type(return_type) *)
  end
with mark_tys (l : tys) : list N :=
  match l with
  | YNil => []
  | YCons t r => mark_ty t ++ mark_tys r
  end.

Fixpoint mark_annot (a : annot) : list N :=
  match a with
  | TPrim => []
  | TId id args => id :: mark_annots args                  (* mark_id_annot: heap.mark(annot.id.name); mark_type_arguments *)
  | TGeneric id => [id]                                    (* heap.mark(id.name) *)
  | TFn ps r => mark_annots ps ++ mark_annot r             (* mark_fn_annot *)
  end
with mark_annots (l : annots) : list N :=
  match l with
  | TNil => []
  | TCons a r => mark_annot a ++ mark_annots r
  end.

Definition mark_annot_opt (o : option annot) : list N :=
  match o with Some a => mark_annot a | None => [] end.

Fixpoint mark_pat (p : pat) : list N :=
  match p with
  | PTuple els => mark_tpats els
  | PObject els => mark_opats els
  | PVariant t tag dv => mark_ty t ++ tag :: mark_tpats dv       (* mark_type(type_); mark_id(tag); data_variables *)
  | PId id t => id :: mark_ty t                                  (* mark_id(id); mark_type(type_) *)
  | PWild => []
  | POr ps => mark_pats ps
  end
with mark_tpats (l : tpats) : list N :=                          (* mark_tuple_pattern *)
  match l with
  | TPNil => []
  | TPCons p t r => mark_pat p ++ mark_ty t ++ mark_tpats r      (* mark_matching_pattern(n.pattern); mark_type(n.type_) *)
  end
with mark_opats (l : opats) : list N :=
  match l with
  | OPNil => []
  | OPCons t f p r => mark_ty t ++ f :: mark_pat p ++ mark_opats r   (* mark_type; mark_id(field_name); mark_matching_pattern *)
  end
with mark_pats (l : pats) : list N :=
  match l with
  | PNil => []
  | PCons p r => mark_pat p ++ mark_pats r
  end.

(* the loop over the parameters of a lambda: mark_id(&param.name); mark_annot_opt(&param.annotation).
   `param.type_` is NOT visited. *)
Definition mark_lparam (p : lparam) : list N :=
  let '(x, _, a) := p in x :: mark_annot_opt a.

Fixpoint mark_expr (e : expr) : list N :=
  (* mark_type(heap, &expr.common().type_) comes first for every expression *)
  match e with
  | ELit t s => mark_ty t ++ match s with Some x => [x] | None => [] end
  | EId t id => mark_ty t ++ [id]
  | EClassId t id => mark_ty t ++ [id]
  | ETuple t es => mark_ty t ++ mark_exprs es
  | EField t o f ex inf => mark_ty t ++ mark_expr o ++ f :: mark_annots ex ++ mark_tys inf
  | EMethod t o f ex inf => mark_ty t ++ mark_expr o ++ f :: mark_annots ex ++ mark_tys inf
  | EUnary t a => mark_ty t ++ mark_expr a
  | ECall t f args => mark_ty t ++ mark_expr f ++ mark_exprs args
  | EBinary t a b => mark_ty t ++ mark_expr a ++ mark_expr b
  | EIf i => mark_ty (if_ty i) ++ mark_ifelse i
  | EMatch t m cases => mark_ty t ++ mark_expr m ++ mark_arms cases
  | ELambda t ps _ body => mark_ty t ++ flat_map mark_lparam ps ++ mark_expr body      (* `captured` is NOT visited *)
  | EBlock b => mark_ty (block_ty b) ++ mark_block b
  end
with mark_exprs (l : exprs) : list N :=
  match l with
  | ENil => []
  | ECons e r => mark_expr e ++ mark_exprs r
  end
(* mark_if_else: condition, e1, e2.  The `common.type_` of the IfElse itself is NOT visited here (for the outermost one
   mark_expression has done it; for an `else if` nobody does) *)
with mark_ifelse (i : ifelse) : list N :=
  match i with
  | IfBool _ g b1 e2 => mark_expr g ++ mark_block b1 ++ mark_elsebr e2
  | IfLet _ p g b1 e2 => mark_pat p ++ mark_expr g ++ mark_block b1 ++ mark_elsebr e2
  end
with mark_elsebr (e : elsebr) : list N :=
  match e with
  | ElseIf i => mark_ifelse i
  | ElseBlock b => mark_block b
  end
(* mark_block: the statements, the final expression.  The `common.type_` of the Block is NOT visited here *)
with mark_block (b : block) : list N :=
  match b with
  | Block _ ss => mark_stmts ss
  end
with mark_stmts (s : stmts) : list N :=
  match s with
  | SEnd => []
  | SFinal e => mark_expr e
  | SLet p a e rest => mark_expr e ++ mark_annot_opt a ++ mark_pat p ++ mark_stmts rest   (* assigned_expression; annotation; pattern *)
  | SExpr e rest => mark_expr e ++ mark_stmts rest
  end
with mark_arms (l : arms) : list N :=
  match l with
  | ANil => []
  | ACons p body rest => mark_pat p ++ mark_expr body ++ mark_arms rest
  end.

(* mark_type_parameters: mark_id(&tparam.name); if let Some(annot) = &tparam.bound { mark_id_annot } *)
Definition mark_bound (b : N * annots) : list N := fst b :: mark_annots (snd b).
Definition mark_tparam (t : tparam) : list N :=
  tp_name t :: match tp_bound t with Some b => mark_bound b | None => [] end.
Definition mark_tparams (l : list tparam) : list N := flat_map mark_tparam l.

Definition mark_param (p : N * annot) : list N := fst p :: mark_annot (snd p).

(* the body of `for m in toplevel.members_iter()` *)
Definition mark_mdecl (d : mdecl) : list N :=
  md_name d :: mark_tparams (md_tparams d) ++ flat_map mark_param (md_params d) ++ mark_annot (md_ret d).

Definition mark_variant (v : N * annots) : list N := fst v :: mark_annots (snd v).
Definition mark_typedef (d : option typedef) : list N :=
  match d with
  | Some (TDStruct fields) => flat_map mark_param fields        (* mark_id(&field.name); mark_annot(&field.annotation) *)
  | Some (TDEnum variants) => flat_map mark_variant variants
  | None => []
  end.

(* the body of `for toplevel in &module.toplevels` *)
Definition mark_toplevel (t : toplevel) : list N :=
  match t with
  | TInterface x tps ext members =>
      x :: mark_tparams tps ++ flat_map mark_bound ext ++ flat_map mark_mdecl members
  | TClass x tps ext def members =>
      x :: mark_tparams tps ++ flat_map mark_bound ext ++ flat_map (fun m => mark_mdecl (fst m)) members ++
      (* if let Toplevel::Class(c) = toplevel *)
      mark_typedef def ++ flat_map (fun m => mark_expr (snd m)) members
  end.

(* mark_module: comments, imported members, toplevels *)
Definition mark (m : module) : list N :=
  m_comments m ++ flat_map imp_members (m_imports m) ++ flat_map mark_toplevel (m_tops m).

(* ---------------------------------------------------------------------------------------------------------------
   What the marker does not visit, and which sibling it relies on instead.  Four fields of the structure are never
   passed to Heap::mark by themselves; the strings in them survive a collection only because the type checker builds
   them from values that sit in a visited field next to them (main_checker.rs):
     W1  OptionallyAnnotatedId.type_ of a lambda parameter   check_lambda: the lambda's own type is
                                                              Fn(argument_types = these very types, ..)
     W2  Lambda.captured (names and types)                    get_captured: a captured variable is used in the body,
                                                              the LocalId there carries the same type
     W3  Block.common.type_ of the branches of an if-else     check_block: the type of the final expression, or unit
     W4  IfElse.common.type_ of an `else if`                  check_if_else: the type of its first branch
   `wfb` is that reliance as a decidable predicate on the syntax: each unvisited field only holds strings that the
   marker emits for the designated sibling.  The tie evaluates it on every real checked module. *)

Definition inclb (a b : list N) : bool :=
  forallb (fun x => existsb (N.eqb x) b) a.

Definition lparam_ty (p : lparam) : ty := snd (fst p).
Definition captured_names_types (c : N * ty) : list N := fst c :: mark_ty (snd c).

Fixpoint wf_expr (e : expr) : bool :=
  match e with
  | ELit _ _ | EId _ _ | EClassId _ _ => true
  | ETuple _ es => wf_exprs es
  | EField _ o _ _ _ | EMethod _ o _ _ _ => wf_expr o
  | EUnary _ a => wf_expr a
  | ECall _ f args => wf_expr f && wf_exprs args
  | EBinary _ a b => wf_expr a && wf_expr b
  | EIf i => wf_ifelse i
  | EMatch _ m cases => wf_expr m && wf_arms cases
  | ELambda t ps cap body =>
      inclb (flat_map (fun p => mark_ty (lparam_ty p)) ps) (mark_ty t) &&        (* W1 *)
      inclb (flat_map captured_names_types cap) (mark_expr body) &&             (* W2 *)
      wf_expr body
  | EBlock b => wf_block b
  end
with wf_exprs (l : exprs) : bool :=
  match l with
  | ENil => true
  | ECons e r => wf_expr e && wf_exprs r
  end
with wf_ifelse (i : ifelse) : bool :=
  match i with
  | IfBool _ g b1 e2 =>
      wf_expr g && inclb (mark_ty (block_ty b1)) (mark_block b1) && wf_block b1 && wf_elsebr e2      (* W3 *)
  | IfLet _ _ g b1 e2 =>
      wf_expr g && inclb (mark_ty (block_ty b1)) (mark_block b1) && wf_block b1 && wf_elsebr e2      (* W3 *)
  end
with wf_elsebr (e : elsebr) : bool :=
  match e with
  | ElseIf i => inclb (mark_ty (if_ty i)) (mark_ifelse i) && wf_ifelse i                            (* W4 *)
  | ElseBlock b => inclb (mark_ty (block_ty b)) (mark_block b) && wf_block b                        (* W3 *)
  end
with wf_block (b : block) : bool :=
  match b with
  | Block _ ss => wf_stmts ss
  end
with wf_stmts (s : stmts) : bool :=
  match s with
  | SEnd => true
  | SFinal e => wf_expr e
  | SLet _ _ e rest => wf_expr e && wf_stmts rest
  | SExpr e rest => wf_expr e && wf_stmts rest
  end
with wf_arms (l : arms) : bool :=
  match l with
  | ANil => true
  | ACons _ body rest => wf_expr body && wf_arms rest
  end.

Definition wf_toplevel (t : toplevel) : bool :=
  match t with
  | TInterface _ _ _ _ => true
  | TClass _ _ _ _ members => forallb (fun m => wf_expr (snd m)) members
  end.

Definition wfb (m : module) : bool := forallb wf_toplevel (m_tops m).

(* ---------------------------------------------------------------------------------------------------------------
   `erase m`: m with the four unvisited fields emptied (types replaced by YLeaf, `captured` by the empty map).
   `strings (erase m)` is therefore the list of the strings of m that sit in any OTHER field. *)

Definition set_if_ty (t : ty) (i : ifelse) : ifelse :=
  match i with IfBool _ g b1 e2 => IfBool t g b1 e2 | IfLet _ p g b1 e2 => IfLet t p g b1 e2 end.
Definition set_block_ty (t : ty) (b : block) : block := match b with Block _ ss => Block t ss end.
Definition erase_lparam (p : lparam) : lparam := let '(x, _, a) := p in (x, YLeaf, a).

(* erase_ifelse / erase_block keep the node's own type: whether it is visited depends on where the node sits *)
Fixpoint erase_expr (e : expr) : expr :=
  match e with
  | ELit t s => ELit t s
  | EId t id => EId t id
  | EClassId t id => EClassId t id
  | ETuple t es => ETuple t (erase_exprs es)
  | EField t o f ex inf => EField t (erase_expr o) f ex inf
  | EMethod t o f ex inf => EMethod t (erase_expr o) f ex inf
  | EUnary t a => EUnary t (erase_expr a)
  | ECall t f args => ECall t (erase_expr f) (erase_exprs args)
  | EBinary t a b => EBinary t (erase_expr a) (erase_expr b)
  | EIf i => EIf (erase_ifelse i)
  | EMatch t m cases => EMatch t (erase_expr m) (erase_arms cases)
  | ELambda t ps _ body => ELambda t (map erase_lparam ps) [] (erase_expr body)
  | EBlock b => EBlock (erase_block b)
  end
with erase_exprs (l : exprs) : exprs :=
  match l with
  | ENil => ENil
  | ECons e r => ECons (erase_expr e) (erase_exprs r)
  end
with erase_ifelse (i : ifelse) : ifelse :=
  match i with
  | IfBool t g b1 e2 => IfBool t (erase_expr g) (set_block_ty YLeaf (erase_block b1)) (erase_elsebr e2)
  | IfLet t p g b1 e2 => IfLet t p (erase_expr g) (set_block_ty YLeaf (erase_block b1)) (erase_elsebr e2)
  end
with erase_elsebr (e : elsebr) : elsebr :=
  match e with
  | ElseIf i => ElseIf (set_if_ty YLeaf (erase_ifelse i))
  | ElseBlock b => ElseBlock (set_block_ty YLeaf (erase_block b))
  end
with erase_block (b : block) : block :=
  match b with
  | Block t ss => Block t (erase_stmts ss)
  end
with erase_stmts (s : stmts) : stmts :=
  match s with
  | SEnd => SEnd
  | SFinal e => SFinal (erase_expr e)
  | SLet p a e rest => SLet p a (erase_expr e) (erase_stmts rest)
  | SExpr e rest => SExpr (erase_expr e) (erase_stmts rest)
  end
with erase_arms (l : arms) : arms :=
  match l with
  | ANil => ANil
  | ACons p body rest => ACons p (erase_expr body) (erase_arms rest)
  end.

Definition erase_toplevel (t : toplevel) : toplevel :=
  match t with
  | TInterface x tps ext members => TInterface x tps ext members
  | TClass x tps ext def members => TClass x tps ext def (map (fun m => (fst m, erase_expr (snd m))) members)
  end.

Definition erase (m : module) : module :=
  mkModule (m_comments m) (m_imports m) (map erase_toplevel (m_tops m)).
