(* C11cov — the marker covers the strings of a module (H-cover of C11), and marks nothing else. *)
From Coq Require Import List NArith Bool Arith.
Import ListNotations.
From SV Require Import C17.Model C17.Proofs C11.Model C11.Proofs.
From SV Require Import C11cov.Syntax C11cov.Strings C11cov.Marker.

(* ---- list inclusion, by syntactic position ---- *)

(* [incl a X] where a occurs as a segment of the appends / conses of X *)
Ltac sub :=
  solve [ apply incl_refl
        | apply incl_appl; sub
        | apply incl_appr; sub
        | apply incl_tl; sub ].
(* [In x X] where x occurs at a cons of X *)
Ltac inn :=
  solve [ apply in_eq
        | apply in_cons; inn
        | apply in_or_app; left; inn
        | apply in_or_app; right; inn ].
(* split the left-hand side; every atom is a segment of the right-hand side, or included (hypothesis) in one *)
Ltac inc0 :=
  match goal with
  | |- incl [] _ => apply incl_nil_l
  | |- incl (_ ++ _) _ => apply incl_app; inc0
  | |- incl (_ :: _) _ => apply incl_cons; [ inn | inc0 ]
  | |- incl _ _ => sub
  end.
Ltac inc :=
  match goal with
  | |- incl [] _ => apply incl_nil_l
  | |- incl (_ ++ _) _ => apply incl_app; inc
  | |- incl (_ :: _) _ => apply incl_cons; [ inn | inc ]
  | |- incl _ _ => first [ sub | eapply incl_tran; [ eassumption | inc0 ] ]
  end.

Lemma inclb_spec a b : inclb a b = true <-> incl a b.
Proof.
  unfold inclb, incl. rewrite forallb_forall. split; intros H x Hx.
  - apply H in Hx. apply existsb_exists in Hx. destruct Hx as [y [Hy E]]. apply N.eqb_eq in E. now subst.
  - apply existsb_exists. exists x. split; [now apply H | apply N.eqb_refl].
Qed.

Lemma incl_flat_map {A} (f g : A -> list N) l :
  (forall a, In a l -> incl (f a) (g a)) -> incl (flat_map f l) (flat_map g l).
Proof.
  intros H x Hx. apply in_flat_map in Hx. destruct Hx as [a [Ha Hx]].
  apply in_flat_map. exists a. split; auto. now apply (H a).
Qed.

(* ---- the visited parts: the marker emits exactly the strings, in the order of Strings.v ---- *)

Lemma mark_ty_eq : (forall t, mark_ty t = ty_strings t) /\ (forall l, mark_tys l = tys_strings l).
Proof. apply ty_mutind; cbn; intros; congruence. Qed.
Definition mark_ty_strings := proj1 mark_ty_eq.
Definition mark_tys_strings := proj2 mark_ty_eq.

Lemma mark_annot_eq : (forall a, mark_annot a = annot_strings a) /\ (forall l, mark_annots l = annots_strings l).
Proof. apply annot_mutind; cbn; intros; congruence. Qed.
Definition mark_annot_strings := proj1 mark_annot_eq.
Definition mark_annots_strings := proj2 mark_annot_eq.

Lemma mark_pat_eq :
  (forall p, mark_pat p = pat_strings p) /\ (forall l, mark_tpats l = tpats_strings l) /\
  (forall l, mark_opats l = opats_strings l) /\ (forall l, mark_pats l = pats_strings l).
Proof. apply pat_mutind; cbn; intros; rewrite ?mark_ty_strings; congruence. Qed.
Definition mark_pat_strings := proj1 mark_pat_eq.

(* the two sides are convertible function by function; keep the unifier from seeing through them *)
Local Opaque mark_ty mark_tys ty_strings tys_strings mark_annot mark_annots annot_strings annots_strings
  mark_pat mark_tpats mark_opats mark_pats pat_strings tpats_strings opats_strings pats_strings.

Lemma mark_annot_opt_strings o : mark_annot_opt o = opt_strings annot_strings o.
Proof. destruct o; cbn; auto using mark_annot_strings. Qed.
Local Opaque mark_annot_opt.

Lemma mark_bound_strings b : mark_bound b = bound_strings b.
Proof. unfold mark_bound, bound_strings. now rewrite mark_annots_strings. Qed.
Lemma mark_tparam_strings t : mark_tparam t = tparam_strings t.
Proof. unfold mark_tparam, tparam_strings. destruct (tp_bound t); cbn; now rewrite ?mark_bound_strings. Qed.
Lemma mark_tparams_strings l : mark_tparams l = flat_map tparam_strings l.
Proof. unfold mark_tparams. apply flat_map_ext. intros; apply mark_tparam_strings. Qed.
Lemma mark_param_strings p : mark_param p = param_strings p.
Proof. unfold mark_param, param_strings. now rewrite mark_annot_strings. Qed.
Lemma mark_variant_strings v : mark_variant v = variant_strings v.
Proof. unfold mark_variant, variant_strings. now rewrite mark_annots_strings. Qed.
Lemma mark_mdecl_strings d : mark_mdecl d = mdecl_strings d.
Proof.
  unfold mark_mdecl, mdecl_strings.
  now rewrite (mark_tparams_strings (md_tparams d)), (mark_annot_strings (md_ret d)), (flat_map_ext _ _ mark_param_strings (md_params d)).
Qed.
Lemma mark_typedef_strings d : mark_typedef d = opt_strings typedef_strings d.
Proof.
  destruct d as [[fs|vs]|]; cbn; [ | | reflexivity].
  - apply flat_map_ext. intros; apply mark_param_strings.
  - apply flat_map_ext. intros; apply mark_variant_strings.
Qed.

(* ---- expressions: coverage under the reliance predicate ---- *)

Lemma lparams_cover ps :
  incl (flat_map lparam_strings ps)
       (flat_map (fun p => mark_ty (lparam_ty p)) ps ++ flat_map mark_lparam ps).
Proof.
  induction ps as [|[[x t] a] ps IH]; cbn [flat_map]; [apply incl_nil_l|].
  unfold lparam_strings at 1, mark_lparam at 1, lparam_ty at 1. cbn [fst snd].
  rewrite (mark_annot_opt_strings a), (mark_ty_strings t). inc.
Qed.

Lemma captured_eq cap : flat_map captured_strings cap = flat_map captured_names_types cap.
Proof.
  apply flat_map_ext. intros [x t]. unfold captured_strings, captured_names_types. cbn. now rewrite (mark_ty_strings t).
Qed.

Ltac wfsplit :=
  repeat match goal with
         | H : _ && _ = true |- _ => apply andb_prop in H; destruct H
         | H : inclb _ _ = true |- _ => apply inclb_spec in H
         end.

Lemma expr_cover :
  (forall e, wf_expr e = true -> incl (expr_strings e) (mark_expr e)) /\
  (forall l, wf_exprs l = true -> incl (exprs_strings l) (mark_exprs l)) /\
  (forall i, wf_ifelse i = true -> incl (ifelse_strings i) (mark_ty (if_ty i) ++ mark_ifelse i)) /\
  (forall e, wf_elsebr e = true -> incl (elsebr_strings e) (mark_elsebr e)) /\
  (forall b, wf_block b = true -> incl (block_strings b) (mark_ty (block_ty b) ++ mark_block b)) /\
  (forall s, wf_stmts s = true -> incl (stmts_strings s) (mark_stmts s)) /\
  (forall l, wf_arms l = true -> incl (arms_strings l) (mark_arms l)).
Proof.
  apply expr_mutind; cbn [expr_strings exprs_strings ifelse_strings elsebr_strings block_strings stmts_strings arms_strings
                          mark_expr mark_exprs mark_ifelse mark_elsebr mark_block mark_stmts mark_arms
                          wf_expr wf_exprs wf_ifelse wf_elsebr wf_block wf_stmts wf_arms if_ty block_ty opt_strings];
    intros; wfsplit;
    repeat match goal with
           | IH : ?c = true -> _, H : ?c = true |- _ => specialize (IH H)
           end;
    rewrite <- ?mark_ty_strings, <- ?mark_tys_strings, <- ?mark_annots_strings, <- ?mark_pat_strings, <- ?mark_annot_opt_strings.
  - (* ELit *) destruct s; inc.
  - inc.
  - inc.
  - inc.
  - inc.
  - inc.
  - inc.
  - inc.
  - inc.
  - (* EIf *) assumption.
  - inc.
  - (* ELambda *)
    rewrite captured_eq.
    apply incl_app; [sub|]. apply incl_app; [|apply incl_app].
    + eapply incl_tran; [apply lparams_cover|]. apply incl_app; [|sub].
      eapply incl_tran; [eassumption|sub].
    + eapply incl_tran; [eassumption|sub].
    + eapply incl_tran; [eassumption|sub].
  - (* EBlock *) assumption.
  - inc.
  - inc.
  - (* IfBool: the branch's own type is covered by the branch (W3) *)
    assert (incl (block_strings e1) (mark_block e1)) by (eapply incl_tran; [eassumption|]; inc).
    inc.
  - assert (incl (block_strings e1) (mark_block e1)) by (eapply incl_tran; [eassumption|]; inc).
    inc.
  - (* ElseIf (W4) *) eapply incl_tran; [eassumption|]. inc.
  - (* ElseBlock (W3) *) eapply incl_tran; [eassumption|]. inc.
  - (* Block *) inc.
  - inc.
  - inc.
  - inc.
  - inc.
  - inc.
  - inc.
Qed.

Lemma members_cover (members : list (mdecl * expr)) :
  forallb (fun m => wf_expr (snd m)) members = true ->
  incl (flat_map mdef_strings members)
       (flat_map (fun m => mark_mdecl (fst m)) members ++ flat_map (fun m => mark_expr (snd m)) members).
Proof.
  induction members as [|[d e] ms IH]; cbn [flat_map forallb fst snd]; intros H; [apply incl_nil_l|].
  apply andb_prop in H. destruct H as [He Hms]. specialize (IH Hms).
  pose proof (proj1 expr_cover e He) as Ce.
  unfold mdef_strings at 1. cbn [fst snd]. rewrite (mark_mdecl_strings d). inc.
Qed.

Lemma toplevel_cover t : wf_toplevel t = true -> incl (toplevel_strings t) (mark_toplevel t).
Proof.
  destruct t as [x tps ext members|x tps ext def members]; cbn [toplevel_strings mark_toplevel wf_toplevel]; intros H.
  - rewrite (mark_tparams_strings tps), (flat_map_ext _ _ mark_bound_strings ext), (flat_map_ext _ _ mark_mdecl_strings members). inc.
  - pose proof (members_cover members H) as Cm.
    rewrite (mark_tparams_strings tps), (flat_map_ext _ _ mark_bound_strings ext), (mark_typedef_strings def).
    apply incl_cons; [inn|]. apply incl_app; [sub|]. apply incl_app; [sub|]. apply incl_app; [sub|].
    eapply incl_tran; [exact Cm|]. inc.
Qed.

(* H-cover for the modelled AST, relative to the four reliances on the type checker *)
Theorem marker_covers_wf m : wfb m = true -> incl (strings m) (mark m).
Proof.
  unfold wfb, strings, mark. intros H.
  apply incl_app; [sub|]. apply incl_app; [sub|].
  apply incl_appr, incl_appr. apply incl_flat_map. intros t Ht.
  apply toplevel_cover. rewrite forallb_forall in H. now apply H.
Qed.

(* ---- no stray marks: everything the marker emits is a string of the module (unconditionally) ---- *)

Lemma lparams_only ps : incl (flat_map mark_lparam ps) (flat_map lparam_strings ps).
Proof.
  apply incl_flat_map. intros [[x t] a] _. unfold mark_lparam, lparam_strings.
  rewrite mark_annot_opt_strings. inc.
Qed.

Lemma if_ty_in i : incl (ty_strings (if_ty i)) (ifelse_strings i).
Proof. destruct i; cbn; sub. Qed.
Lemma block_ty_in b : incl (ty_strings (block_ty b)) (block_strings b).
Proof. destruct b; cbn; sub. Qed.

Lemma expr_only :
  (forall e, incl (mark_expr e) (expr_strings e)) /\
  (forall l, incl (mark_exprs l) (exprs_strings l)) /\
  (forall i, incl (mark_ifelse i) (ifelse_strings i)) /\
  (forall e, incl (mark_elsebr e) (elsebr_strings e)) /\
  (forall b, incl (mark_block b) (block_strings b)) /\
  (forall s, incl (mark_stmts s) (stmts_strings s)) /\
  (forall l, incl (mark_arms l) (arms_strings l)).
Proof.
  apply expr_mutind; cbn [expr_strings exprs_strings ifelse_strings elsebr_strings block_strings stmts_strings arms_strings
                          mark_expr mark_exprs mark_ifelse mark_elsebr mark_block mark_stmts mark_arms opt_strings];
    intros;
    rewrite ?mark_ty_strings, ?mark_tys_strings, ?mark_annots_strings, ?mark_pat_strings, ?mark_annot_opt_strings.
  - destruct s; inc.
  - inc.
  - inc.
  - inc.
  - inc.
  - inc.
  - inc.
  - inc.
  - inc.
  - apply incl_app; [apply if_ty_in | assumption].
  - inc.
  - pose proof (lparams_only parameters). inc.
  - apply incl_app; [apply block_ty_in | assumption].
  - inc.
  - inc.
  - inc.
  - inc.
  - assumption.
  - assumption.
  - inc.
  - inc.
  - inc.
  - inc.
  - inc.
  - inc.
  - inc.
Qed.

Lemma members_only_decl (members : list (mdecl * expr)) :
  incl (flat_map (fun m => mark_mdecl (fst m)) members) (flat_map mdef_strings members).
Proof.
  apply incl_flat_map; intros [d e] _; unfold mdef_strings; cbn [fst snd]. rewrite (mark_mdecl_strings d). sub.
Qed.
Lemma members_only_body (members : list (mdecl * expr)) :
  incl (flat_map (fun m => mark_expr (snd m)) members) (flat_map mdef_strings members).
Proof.
  apply incl_flat_map; intros [d e] _; unfold mdef_strings; cbn [fst snd]. pose proof (proj1 expr_only e). inc.
Qed.

Lemma toplevel_only t : incl (mark_toplevel t) (toplevel_strings t).
Proof.
  destruct t as [x tps ext members|x tps ext def members]; cbn [toplevel_strings mark_toplevel].
  - rewrite (mark_tparams_strings tps), (flat_map_ext _ _ mark_bound_strings ext), (flat_map_ext _ _ mark_mdecl_strings members). inc.
  - pose proof (members_only_decl members). pose proof (members_only_body members).
    rewrite (mark_tparams_strings tps), (flat_map_ext _ _ mark_bound_strings ext), (mark_typedef_strings def). inc.
Qed.

Theorem marker_only_module_strings m : incl (mark m) (strings m).
Proof.
  unfold strings, mark. apply incl_app; [sub|]. apply incl_app; [sub|].
  apply incl_appr, incl_appr. apply incl_flat_map. intros t _. apply toplevel_only.
Qed.

(* ---- the visited fields are covered for EVERY module: erase the four unvisited fields, nothing else changes ---- *)
Local Transparent mark_ty mark_tys mark_annot_opt.

Lemma mark_set_if_ty t i : mark_ifelse (set_if_ty t i) = mark_ifelse i.
Proof. destruct i; reflexivity. Qed.
Lemma mark_set_block_ty t b : mark_block (set_block_ty t b) = mark_block b.
Proof. destruct b; reflexivity. Qed.
Lemma if_ty_erase i : if_ty (erase_ifelse i) = if_ty i.
Proof. destruct i; reflexivity. Qed.
Lemma block_ty_erase b : block_ty (erase_block b) = block_ty b.
Proof. destruct b; reflexivity. Qed.
Lemma mark_erase_lparams ps : flat_map mark_lparam (map erase_lparam ps) = flat_map mark_lparam ps.
Proof. induction ps as [|[[x t] a] ps IH]; cbn; congruence. Qed.

Lemma erase_mark :
  (forall e, mark_expr (erase_expr e) = mark_expr e) /\
  (forall l, mark_exprs (erase_exprs l) = mark_exprs l) /\
  (forall i, mark_ifelse (erase_ifelse i) = mark_ifelse i) /\
  (forall e, mark_elsebr (erase_elsebr e) = mark_elsebr e) /\
  (forall b, mark_block (erase_block b) = mark_block b) /\
  (forall s, mark_stmts (erase_stmts s) = mark_stmts s) /\
  (forall l, mark_arms (erase_arms l) = mark_arms l).
Proof.
  apply expr_mutind; intros;
    cbn [erase_expr erase_exprs erase_ifelse erase_elsebr erase_block erase_stmts erase_arms
         mark_expr mark_exprs mark_ifelse mark_elsebr mark_block mark_stmts mark_arms];
    rewrite ?mark_set_if_ty, ?mark_set_block_ty, ?if_ty_erase, ?block_ty_erase, ?mark_erase_lparams; congruence.
Qed.

Lemma erased_lparam_types ps : flat_map (fun p => mark_ty (lparam_ty p)) (map erase_lparam ps) = [].
Proof. induction ps as [|[[x t] a] ps IH]; cbn; auto. Qed.
Lemma wf_set_if_ty t i : wf_ifelse (set_if_ty t i) = wf_ifelse i.
Proof. destruct i; reflexivity. Qed.
Lemma wf_set_block_ty t b : wf_block (set_block_ty t b) = wf_block b.
Proof. destruct b; reflexivity. Qed.
Lemma block_ty_set t b : block_ty (set_block_ty t b) = t.
Proof. destruct b; reflexivity. Qed.
Lemma if_ty_set t i : if_ty (set_if_ty t i) = t.
Proof. destruct i; reflexivity. Qed.

Lemma erase_wf :
  (forall e, wf_expr (erase_expr e) = true) /\
  (forall l, wf_exprs (erase_exprs l) = true) /\
  (forall i, wf_ifelse (erase_ifelse i) = true) /\
  (forall e, wf_elsebr (erase_elsebr e) = true) /\
  (forall b, wf_block (erase_block b) = true) /\
  (forall s, wf_stmts (erase_stmts s) = true) /\
  (forall l, wf_arms (erase_arms l) = true).
Proof.
  apply expr_mutind; intros;
    cbn [erase_expr erase_exprs erase_ifelse erase_elsebr erase_block erase_stmts erase_arms
         wf_expr wf_exprs wf_ifelse wf_elsebr wf_block wf_stmts wf_arms];
    rewrite ?block_ty_set, ?if_ty_set, ?wf_set_if_ty, ?wf_set_block_ty, ?erased_lparam_types;
    cbn [mark_ty inclb forallb flat_map];
    repeat match goal with H : _ = true |- _ => rewrite H end; reflexivity.
Qed.

Lemma mark_erase m : mark (erase m) = mark m.
Proof.
  unfold mark, erase. cbn [m_comments m_imports m_tops]. do 2 f_equal.
  rewrite flat_map_concat_map, map_map, <- flat_map_concat_map. apply flat_map_ext.
  intros [x tps ext members|x tps ext def members]; cbn [erase_toplevel mark_toplevel]; auto.
  do 4 f_equal.
  - rewrite flat_map_concat_map, map_map, <- flat_map_concat_map. reflexivity.
  - f_equal. rewrite flat_map_concat_map, map_map, <- flat_map_concat_map. apply flat_map_ext.
    intros [d e]. cbn [fst snd]. apply (proj1 erase_mark).
Qed.

Lemma wfb_erase m : wfb (erase m) = true.
Proof.
  unfold wfb, erase. cbn [m_tops]. apply forallb_forall. intros t Ht. apply in_map_iff in Ht.
  destruct Ht as [t0 [<- _]]. destruct t0 as [x tps ext members|x tps ext def members]; cbn [erase_toplevel wf_toplevel]; auto.
  apply forallb_forall. intros m' Hm'. apply in_map_iff in Hm'. destruct Hm' as [[d e] [<- _]]. cbn [snd].
  apply (proj1 erase_wf).
Qed.

Theorem marker_covers_visited m : incl (strings (erase m)) (mark m).
Proof. rewrite <- mark_erase. apply marker_covers_wf, wfb_erase. Qed.

(* ---- composition with the collection protocol of C11 ---- *)

Theorem gc_round_safe_cover
  (present : nat -> bool) (mods : nat -> module) (pstr : N -> handle) (choose : list nat -> option nat) :
  (forall l x, choose l = Some x -> In x l) ->
  forall h changed,
  Inv h ->
  (forall m, present m = true -> wfb (mods m) = true) ->
  (forall m, present m = true -> In m changed) ->
  forall m x s, present m = true -> In x (map pstr (strings (mods m))) -> read h x = Some s ->
  read (gc_after_recheck present (fun m => map pstr (mark (mods m))) choose h changed) x = Some s.
Proof.
  intros Hc h changed HI Hwf Hq m x s Pm Hx R.
  apply (gc_round_safe present (fun m => map pstr (mark (mods m))) choose Hc
           (fun m => if present m then map pstr (strings (mods m)) else []) h changed HI) with (m := m); auto.
  - intros m' x' Hx'. destruct (present m') eqn:P; [|destruct Hx'].
    apply in_map_iff in Hx'. destruct Hx' as [n [<- Hn]]. apply in_map.
    now apply (marker_covers_wf (mods m') (Hwf m' P)).
  - now rewrite Pm.
Qed.

(* the same for the visited fields of arbitrary modules: no hypothesis on the modules at all *)
Theorem gc_round_safe_visited
  (present : nat -> bool) (mods : nat -> module) (pstr : N -> handle) (choose : list nat -> option nat) :
  (forall l x, choose l = Some x -> In x l) ->
  forall h changed,
  Inv h ->
  (forall m, present m = true -> In m changed) ->
  forall m x s, present m = true -> In x (map pstr (strings (erase (mods m)))) -> read h x = Some s ->
  read (gc_after_recheck present (fun m => map pstr (mark (mods m))) choose h changed) x = Some s.
Proof.
  intros Hc h changed HI Hq m x s Pm Hx R.
  apply (gc_round_safe present (fun m => map pstr (mark (mods m))) choose Hc
           (fun m => map pstr (strings (erase (mods m)))) h changed HI) with (m := m); auto.
  intros m' x' Hx'. apply in_map_iff in Hx'. destruct Hx' as [n [<- Hn]]. apply in_map.
  now apply marker_covers_visited.
Qed.
