(* C11cov — property theorems: the marker of the language server's collector (gc.rs mark_module) covers the
   strings of a retained checked module: H-cover of C11, for the modelled AST (Syntax.v = every PStr field of
   Module<Arc<Type>>). *)
From Coq Require Import List NArith Bool Arith.
Import ListNotations.
From SV Require Import C17.Model C17.Proofs C11.Model C11.Proofs.
From SV Require Import C11cov.Syntax C11cov.Strings C11cov.Marker C11cov.Proofs.

(* Full-strength statement:   forall m, incl (strings m) (mark m).
   It is FALSE of the faithful model: four fields are never visited by the marker (Marker.v, W1-W4).  Witness: a
   lambda whose parameter has a type naming string 9 while the lambda's own type does not. *)
Definition lam_W1 : expr := ELambda (YFn YNil YLeaf) [(3, YNominal 9 YNil, None)]%N [] (ELit YLeaf None).
Definition lam_W2 : expr := ELambda (YFn YNil YLeaf) [] [(9, YLeaf)]%N (ELit YLeaf None).
Definition if_W3 : expr :=
  EIf (IfBool YLeaf (ELit YLeaf None) (Block (YGeneric 9) SEnd) (ElseBlock (Block YLeaf SEnd))).
Definition if_W4 : expr :=
  EIf (IfBool YLeaf (ELit YLeaf None) (Block YLeaf SEnd)
         (ElseIf (IfBool (YGeneric 9) (ELit YLeaf None) (Block YLeaf SEnd) (ElseBlock (Block YLeaf SEnd))))).
Definition mod_of (body : expr) : module :=
  mkModule [] [] [TClass 1 [] [] None [(mkDecl 2 [] [] TPrim, body)]]%N.

Theorem C11cov_marker_covers_refuted : exists m, ~ incl (strings m) (mark m).
Proof.
  exists (mod_of lam_W1). intros H. apply inclb_spec in H. vm_compute in H. discriminate.
Qed.

(* one witness per unvisited field *)
Example C11cov_unvisited_fields :
  map (fun e => (inclb (strings (mod_of e)) (mark (mod_of e)), wfb (mod_of e))) [lam_W1; lam_W2; if_W3; if_W4]
  = [(false, false); (false, false); (false, false); (false, false)].
Proof. vm_compute. reflexivity. Qed.

(* What holds: every string of a module whose four unvisited fields only repeat strings of the sibling the type
   checker builds them from (wfb, decidable; evaluated on every real checked module by the tie) is marked. *)
Theorem C11cov_marker_covers_wf : forall m, wfb m = true -> incl (strings m) (mark m).
Proof. exact marker_covers_wf. Qed.

(* ... and for EVERY module, every string in any field other than those four is marked: H-cover at full strength
   for the comment store, imports, toplevel / member / parameter / field / variant / type-parameter names, every
   annotation, every expression's type, literals, identifiers, field and method names, type arguments, patterns. *)
Theorem C11cov_marker_covers_visited : forall m, incl (strings (erase m)) (mark m).
Proof. exact marker_covers_visited. Qed.

(* no stray marks: the marker only ever marks strings of the module *)
Theorem C11cov_marker_only_module_strings : forall m, incl (mark m) (strings m).
Proof. exact marker_only_module_strings. Qed.

(* Composition with the protocol theorem of C11 (C11_gc_round_safe): its hypothesis H-cover
   `forall m x, In x (roots m) -> In x (marks m)` is discharged by instantiating marks with the modelled marker and
   roots with the strings of the module; pstr maps an interned name to its PStr value.

   The statement without `wfb`,
     C11cov_gc_round_safe_unconditional : ... -> In x (map pstr (strings (mods m))) -> read h x = Some s ->
                                           read (gc_after_recheck ...) x = Some s,
   is false (refuted below); the two statements that hold: *)
Theorem C11cov_gc_round_safe_wf :
  forall (present : nat -> bool) (mods : nat -> module) (pstr : N -> handle) (choose : list nat -> option nat),
  (forall l x, choose l = Some x -> In x l) ->
  forall h changed,
  Inv h ->
  (forall m, present m = true -> wfb (mods m) = true) ->
  (forall m, present m = true -> In m changed) ->
  forall m x s, present m = true -> In x (map pstr (strings (mods m))) -> read h x = Some s ->
  read (gc_after_recheck present (fun m => map pstr (mark (mods m))) choose h changed) x = Some s.
Proof. exact gc_round_safe_cover. Qed.

Theorem C11cov_gc_round_safe_visited_unconditional :
  forall (present : nat -> bool) (mods : nat -> module) (pstr : N -> handle) (choose : list nat -> option nat),
  (forall l x, choose l = Some x -> In x l) ->
  forall h changed,
  Inv h ->
  (forall m, present m = true -> In m changed) ->
  forall m x s, present m = true -> In x (map pstr (strings (erase (mods m)))) -> read h x = Some s ->
  read (gc_after_recheck present (fun m => map pstr (mark (mods m))) choose h changed) x = Some s.
Proof. exact gc_round_safe_visited. Qed.

(* the unconditional statement over all fields fails on the heap model: the string only the parameter type of
   lam_W1 names is reclaimed by one round *)
Definition s_a : str := repeat 97%N 20.
Definition s_b : str := repeat 98%N 20.
Definition heap2 : heap := run [OAllocString s_a; OAllocString s_b].
Definition mod_W1 : module :=
  mkModule [] [] [TClass 0 [] [] None
    [(mkDecl 0 [] [] TPrim, ELambda (YFn YNil YLeaf) [(0, YNominal 1 YNil, None)] [] (ELit YLeaf None))]]%N.
Definition pstr_id (n : N) : handle := HId (N.to_nat n).

Theorem C11cov_gc_round_safe_unconditional_refuted :
  exists (present : nat -> bool) (mods : nat -> module) (pstr : N -> handle) (choose : list nat -> option nat)
         h changed m x s,
  (forall l y, choose l = Some y -> In y l) /\ Inv h /\ (forall m, present m = true -> In m changed) /\
  present m = true /\ In x (map pstr (strings (mods m))) /\ read h x = Some s /\
  read (gc_after_recheck present (fun m => map pstr (mark (mods m))) choose h changed) x = None.
Proof.
  exists (fun m => Nat.eqb m 3), (fun _ => mod_W1), pstr_id, (fun l => hd_error l), heap2, [3], 3, (HId 1), s_b.
  split; [|split; [|split; [|split; [|split; [|split]]]]].
  - intros [|a l] y E; inversion E. now left.
  - apply Inv_run.
  - intros m E. apply Nat.eqb_eq in E. subst. now left.
  - reflexivity.
  - vm_compute. auto.
  - vm_compute. reflexivity.
  - vm_compute. reflexivity.
Qed.

(* non-vacuity: a module with a long class name, a lambda whose parameter type is repeated by the lambda's type, an
   if-else chain; wfb holds, the marker emits the strings, and a full collection keeps the covered string alive
   while an unreachable one is reclaimed *)
Definition mod_ok : module :=
  mkModule [5]%N [mkImport [6] [7]]%N
    [TInterface 8 [mkTParam 9 (Some (10, TNil))] [] [mkDecl 11 [] [(12, TId 13 TNil)] TPrim];
     TClass 0 [] [] (Some (TDStruct [(14, TGeneric 15)]))
       [(mkDecl 16 [] [] TPrim,
         ELambda (YFn (YCons (YNominal 0 YNil) YNil) YLeaf) [(17, YNominal 0 YNil, None)] [(17, YNominal 0 YNil)]
           (EIf (IfBool (YGeneric 18) (EId (YNominal 0 YNil) 17)
                   (Block (YGeneric 18) (SFinal (EId (YGeneric 18) 19)))
                   (ElseIf (IfBool (YGeneric 18) (ELit YLeaf None) (Block (YGeneric 18) (SFinal (EId (YGeneric 18) 19)))
                                   (ElseBlock (Block YLeaf SEnd)))))))]]%N.

Example C11cov_nonvacuous :
  wfb mod_ok = true /\ inclb (strings mod_ok) (mark mod_ok) = true /\ length (mark mod_ok) = 21 /\ length (strings mod_ok) = 27 /\
  let h := gc_after_recheck (fun m => Nat.eqb m 3) (fun _ => map pstr_id (mark mod_ok)) (fun l => hd_error l) heap2 [3] in
  read h (HId 0) = Some s_a /\ read h (HId 1) = None.
Proof. vm_compute. repeat split; reflexivity. Qed.

Print Assumptions C11cov_marker_covers_refuted.
Print Assumptions C11cov_marker_covers_wf.
Print Assumptions C11cov_marker_covers_visited.
Print Assumptions C11cov_marker_only_module_strings.
Print Assumptions C11cov_gc_round_safe_wf.
Print Assumptions C11cov_gc_round_safe_visited_unconditional.
Print Assumptions C11cov_gc_round_safe_unconditional_refuted.
