(* C11cov — `strings m`: every heap string (PStr) a retained checked module can hand to a reader.  Definitions only.

   Readers of retained modules and the fields they read (every `as_str` / `pretty_print` call site):

   crates/samlang-printer/src/source_printer.rs (format, rename; run on the parsed module, same fields with `()` types)
     45-51   Comment.text of the CommentsNode of every associated / start / ending comment reference   m_comments
     152     annotation::T::Generic id.name                                                           TGeneric
     211     annotation::Id id.name (annotations, bounds, extends / implements nodes)                 TId, tp_bound, ext
     460/472 FieldAccess.field_name / MethodAccess.method_name                                        EField / EMethod
     617     Literal::String                                                                          ELit (Some s)
     620     LocalId / ClassId id.name                                                                EId / EClassId
     758/763 lambda parameter name                                                                    ELambda parameters
     839/842 ObjectPatternElement.field_name                                                          OPCons
     863/872 VariantPattern.tag                                                                       PVariant
     880     MatchingPattern::Id                                                                      PId
     970/975 TypeParameter.name                                                                       tp_name
     1027    ClassMemberDeclaration.name, 1043 parameter name                                         md_name, md_params
     1102    interface name, 1154 class name                                                          tname
     1175    FieldDefinition.name, 1199/1214 VariantDefinition.name                                   TDStruct / TDEnum
     1283/1329 ModuleMembersImport.imported_members                                                   imp_members
     1286/1321 imported_module.pretty_print (permanent strings, see `module_paths`)                   imp_path
   crates/samlang-services/src/lib.rs hover / signature_help (on the checked module, through location_cover.rs)
     pretty_print of: the type_ of a Literal, of a LocalId, of a MatchingPattern::Id, of an unannotated lambda
     parameter (OptionallyAnnotatedId.type_), of a FieldAccess / MethodAccess (InterfaceMemberName), the callee type
     of a Call, Type::from_annotation of any annotation; class / field / member names; the last DOC comment of a
     toplevel / member / field.
   samlang-compiler (not the server) additionally reads Lambda.captured and Block / IfElse common.type_.

   `strings` lists ALL of them: every PStr field of the structure (Syntax.v), not only the ones a reader of
   today's server reaches. *)
From Coq Require Import List NArith Bool.
Import ListNotations.
From SV Require Import C11cov.Syntax.

Definition opt_strings {A} (f : A -> list N) (o : option A) : list N :=
  match o with Some a => f a | None => [] end.

Fixpoint ty_strings (t : ty) : list N :=
  match t with
  | YLeaf => []
  | YNominal id args => id :: tys_strings args
  | YGeneric id => [id]
  | YFn args r => tys_strings args ++ ty_strings r
  end
with tys_strings (l : tys) : list N :=
  match l with
  | YNil => []
  | YCons t r => ty_strings t ++ tys_strings r
  end.

Fixpoint annot_strings (a : annot) : list N :=
  match a with
  | TPrim => []
  | TId id args => id :: annots_strings args
  | TGeneric id => [id]
  | TFn ps r => annots_strings ps ++ annot_strings r
  end
with annots_strings (l : annots) : list N :=
  match l with
  | TNil => []
  | TCons a r => annot_strings a ++ annots_strings r
  end.

Fixpoint pat_strings (p : pat) : list N :=
  match p with
  | PTuple els => tpats_strings els
  | PObject els => opats_strings els
  | PVariant t tag dv => ty_strings t ++ tag :: tpats_strings dv
  | PId id t => id :: ty_strings t
  | PWild => []
  | POr ps => pats_strings ps
  end
with tpats_strings (l : tpats) : list N :=
  match l with
  | TPNil => []
  | TPCons p t r => pat_strings p ++ ty_strings t ++ tpats_strings r
  end
with opats_strings (l : opats) : list N :=
  match l with
  | OPNil => []
  | OPCons t f p r => ty_strings t ++ f :: pat_strings p ++ opats_strings r
  end
with pats_strings (l : pats) : list N :=
  match l with
  | PNil => []
  | PCons p r => pat_strings p ++ pats_strings r
  end.

(* the three fields of a lambda parameter *)
Definition lparam_strings (p : lparam) : list N :=
  let '(x, t, a) := p in x :: ty_strings t ++ opt_strings annot_strings a.
(* an entry of Lambda.captured *)
Definition captured_strings (c : N * ty) : list N := fst c :: ty_strings (snd c).

Fixpoint expr_strings (e : expr) : list N :=
  match e with
  | ELit t s => ty_strings t ++ opt_strings (fun x => [x]) s
  | EId t id => ty_strings t ++ [id]
  | EClassId t id => ty_strings t ++ [id]
  | ETuple t es => ty_strings t ++ exprs_strings es
  | EField t o f ex inf => ty_strings t ++ expr_strings o ++ f :: annots_strings ex ++ tys_strings inf
  | EMethod t o f ex inf => ty_strings t ++ expr_strings o ++ f :: annots_strings ex ++ tys_strings inf
  | EUnary t a => ty_strings t ++ expr_strings a
  | ECall t f args => ty_strings t ++ expr_strings f ++ exprs_strings args
  | EBinary t a b => ty_strings t ++ expr_strings a ++ expr_strings b
  | EIf i => ifelse_strings i
  | EMatch t m cases => ty_strings t ++ expr_strings m ++ arms_strings cases
  | ELambda t ps cap body =>
      ty_strings t ++ flat_map lparam_strings ps ++ flat_map captured_strings cap ++ expr_strings body
  | EBlock b => block_strings b
  end
with exprs_strings (l : exprs) : list N :=
  match l with
  | ENil => []
  | ECons e r => expr_strings e ++ exprs_strings r
  end
with ifelse_strings (i : ifelse) : list N :=
  match i with
  | IfBool t g b1 e2 => ty_strings t ++ expr_strings g ++ block_strings b1 ++ elsebr_strings e2
  | IfLet t p g b1 e2 => ty_strings t ++ pat_strings p ++ expr_strings g ++ block_strings b1 ++ elsebr_strings e2
  end
with elsebr_strings (e : elsebr) : list N :=
  match e with
  | ElseIf i => ifelse_strings i
  | ElseBlock b => block_strings b
  end
with block_strings (b : block) : list N :=
  match b with
  | Block t ss => ty_strings t ++ stmts_strings ss
  end
with stmts_strings (s : stmts) : list N :=
  match s with
  | SEnd => []
  | SFinal e => expr_strings e
  | SLet p a e rest => pat_strings p ++ opt_strings annot_strings a ++ expr_strings e ++ stmts_strings rest
  | SExpr e rest => expr_strings e ++ stmts_strings rest
  end
with arms_strings (l : arms) : list N :=
  match l with
  | ANil => []
  | ACons p body rest => pat_strings p ++ expr_strings body ++ arms_strings rest
  end.

Definition bound_strings (b : N * annots) : list N := fst b :: annots_strings (snd b).
Definition tparam_strings (t : tparam) : list N := tp_name t :: opt_strings bound_strings (tp_bound t).
Definition param_strings (p : N * annot) : list N := fst p :: annot_strings (snd p).
Definition mdecl_strings (d : mdecl) : list N :=
  md_name d :: flat_map tparam_strings (md_tparams d) ++ flat_map param_strings (md_params d) ++ annot_strings (md_ret d).
Definition variant_strings (v : N * annots) : list N := fst v :: annots_strings (snd v).
Definition typedef_strings (d : typedef) : list N :=
  match d with
  | TDStruct fields => flat_map param_strings fields
  | TDEnum variants => flat_map variant_strings variants
  end.
Definition mdef_strings (m : mdecl * expr) : list N := mdecl_strings (fst m) ++ expr_strings (snd m).

Definition toplevel_strings (t : toplevel) : list N :=
  match t with
  | TInterface x tps ext members =>
      x :: flat_map tparam_strings tps ++ flat_map bound_strings ext ++ flat_map mdecl_strings members
  | TClass x tps ext def members =>
      x :: flat_map tparam_strings tps ++ flat_map bound_strings ext ++ opt_strings typedef_strings def ++
      flat_map mdef_strings members
  end.

(* every collectable string reachable from the module *)
Definition strings (m : module) : list N :=
  m_comments m ++ flat_map imp_members (m_imports m) ++ flat_map toplevel_strings (m_tops m).

(* the parts of the imported module references: permanent slots, never swept *)
Definition module_paths (m : module) : list N := flat_map imp_path (m_imports m).
