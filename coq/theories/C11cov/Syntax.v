(* C11cov — the string-carrying structure of a CHECKED samlang module, `Module<Arc<Type>>`
   (crates/samlang-ast/src/source.rs, crates/samlang-checker/src/type_.rs).  Definitions only.

   C15v/Syntax.v keeps what the scoping analysis looks at and drops literal values, field / method / tag names,
   comments and inferred types; the collector's marker (crates/samlang-services/src/gc.rs) looks at exactly those,
   so this is a richer AST of the same shape: EVERY field of type `PStr` reachable from a `Module<Arc<Type>>` is a
   constructor argument here (named after the Rust field), and nothing else is (locations, comment references,
   operators, flags, orders are dropped).  A name is an interned string: N.

   Rust `Vec<T>` of a type that is mutually recursive with T is an explicit cons-list type of the mutual block.

     Rust                                                       here
     -----------------------------------------------------------------------------------------------------------
     checker Type::Any / Type::Primitive / the `()` of Module<()>   YLeaf
     Type::Nominal(NominalType{id, type_arguments})             YNominal id type_arguments
     Type::Generic(_, id)                                       YGeneric id
     Type::Fn(FunctionType{argument_types, return_type})        YFn argument_types return_type
     annotation::T::Primitive                                   TPrim
     annotation::T::Id(Id{id, type_arguments})                  TId id.name type_arguments   (None = TNil)
     annotation::T::Generic(_, id)                              TGeneric id.name
     annotation::T::Fn(Function{parameters, return_type})       TFn parameters.annotations return_type
     pattern::MatchingPattern::Tuple(TuplePattern{elements})    PTuple elements          (element = pattern, type_)
     MatchingPattern::Object{elements}                          PObject elements         (element = type_, field_name, pattern)
     MatchingPattern::Variant{type_, tag, data_variables}       PVariant type_ tag data_variables   (None = TPNil)
     MatchingPattern::Id(id, type_)                             PId id.name type_
     MatchingPattern::Wildcard                                  PWild
     MatchingPattern::Or{patterns}                              POr patterns
     expr::E::Literal(common, Literal::String(s))               ELit common.type_ (Some s)
     expr::E::Literal(common, Bool / Int)                       ELit common.type_ None
     expr::E::LocalId(common, id) / ClassId(common, _, id)      EId / EClassId common.type_ id.name
     expr::E::Tuple(common, es)                                 ETuple common.type_ es
     expr::E::FieldAccess{common, object, field_name, explicit_type_arguments, inferred_type_arguments}
                                                                EField common.type_ object field_name explicit inferred
     expr::E::MethodAccess{..., method_name, ...}               EMethod (same shape)
     expr::E::Unary / Call / Binary                             EUnary / ECall / EBinary, each with common.type_
     expr::E::IfElse(IfElse{common, condition, e1, e2})         EIf (IfBool common.type_ g e1 e2) / EIf (IfLet common.type_ p g e1 e2)
     expr::IfElseOrBlock::IfElse(i) / Block(b)                  ElseIf i / ElseBlock b
     expr::E::Match{common, matched, cases}                     EMatch common.type_ matched cases   (case = pattern, body)
     expr::E::Lambda{common, parameters, captured, body}        ELambda common.type_ parameters captured body
                                                                  parameter = OptionallyAnnotatedId{name, type_, annotation}
                                                                  captured  = HashMap<PStr, Arc<Type>> as an association list
     expr::E::Block(Block{common, statements, expression})      EBlock (Block common.type_ stmts)
     expr::Statement::Declaration{pattern, annotation, assigned_expression}   SLet pattern annotation assigned rest
     expr::Statement::Expression(e)                             SExpr e rest
     Block.expression = Some(e) / None                          SFinal e / SEnd

   `ModuleReference` fields (imports, annotation::Id, ClassId, NominalType) are indices into
   `Heap::module_reference_pointer_table`, which is never collected and whose parts `alloc_module_reference` turns
   into Permanent slots (C17: make_permanent), so they are not collectable strings of the module; the path of an
   import is nevertheless kept (`imp_path`, the printer prints it) and listed separately (`Strings.module_paths`). *)
From Coq Require Import List NArith Bool.
Import ListNotations.

Notation name := N (only parsing).

(* samlang_checker::type_::Type behind the Arc *)
Inductive ty :=
| YLeaf
| YNominal (id : name) (type_arguments : tys)
| YGeneric (id : name)
| YFn (argument_types : tys) (return_type : ty)
with tys :=
| YNil
| YCons (t : ty) (r : tys).

Inductive annot :=
| TPrim
| TId (id : name) (type_arguments : annots)
| TGeneric (id : name)
| TFn (parameters : annots) (return_type : annot)
with annots :=
| TNil
| TCons (a : annot) (r : annots).

Inductive pat :=
| PTuple (elements : tpats)
| PObject (elements : opats)
| PVariant (type_ : ty) (tag : name) (data_variables : tpats)
| PId (id : name) (type_ : ty)
| PWild
| POr (patterns : pats)
(* TuplePatternElement{pattern, type_} *)
with tpats :=
| TPNil
| TPCons (pattern : pat) (type_ : ty) (r : tpats)
(* ObjectPatternElement{field_name, pattern, type_} *)
with opats :=
| OPNil
| OPCons (type_ : ty) (field_name : name) (pattern : pat) (r : opats)
with pats :=
| PNil
| PCons (p : pat) (r : pats).

(* OptionallyAnnotatedId<Arc<Type>>: name, type_, annotation *)
Definition lparam := (N * ty * option annot)%type.

Inductive expr :=
| ELit (type_ : ty) (s : option name)
| EId (type_ : ty) (id : name)
| EClassId (type_ : ty) (id : name)
| ETuple (type_ : ty) (es : exprs)
| EField (type_ : ty) (object : expr) (field_name : name) (explicit_type_arguments : annots) (inferred_type_arguments : tys)
| EMethod (type_ : ty) (object : expr) (method_name : name) (explicit_type_arguments : annots) (inferred_type_arguments : tys)
| EUnary (type_ : ty) (argument : expr)
| ECall (type_ : ty) (callee : expr) (arguments : exprs)
| EBinary (type_ : ty) (e1 e2 : expr)
| EIf (i : ifelse)
| EMatch (type_ : ty) (matched : expr) (cases : arms)
| ELambda (type_ : ty) (parameters : list lparam) (captured : list (N * ty)) (body : expr)
| EBlock (b : block)
with exprs :=
| ENil
| ECons (e : expr) (es : exprs)
with ifelse :=
| IfBool (type_ : ty) (g : expr) (e1 : block) (e2 : elsebr)
| IfLet (type_ : ty) (p : pat) (g : expr) (e1 : block) (e2 : elsebr)
with elsebr :=
| ElseIf (i : ifelse)
| ElseBlock (b : block)
with block :=
| Block (type_ : ty) (ss : stmts)
with stmts :=
| SEnd
| SFinal (e : expr)
| SLet (p : pat) (a : option annot) (e : expr) (rest : stmts)
| SExpr (e : expr) (rest : stmts)
with arms :=
| ANil
| ACons (p : pat) (body : expr) (rest : arms).

Scheme ty_mind := Induction for ty Sort Prop
  with tys_mind := Induction for tys Sort Prop.
Combined Scheme ty_mutind from ty_mind, tys_mind.

Scheme annot_mind := Induction for annot Sort Prop
  with annots_mind := Induction for annots Sort Prop.
Combined Scheme annot_mutind from annot_mind, annots_mind.

Scheme pat_mind := Induction for pat Sort Prop
  with tpats_mind := Induction for tpats Sort Prop
  with opats_mind := Induction for opats Sort Prop
  with pats_mind := Induction for pats Sort Prop.
Combined Scheme pat_mutind from pat_mind, tpats_mind, opats_mind, pats_mind.

Scheme expr_mind := Induction for expr Sort Prop
  with exprs_mind := Induction for exprs Sort Prop
  with ifelse_mind := Induction for ifelse Sort Prop
  with elsebr_mind := Induction for elsebr Sort Prop
  with block_mind := Induction for block Sort Prop
  with stmts_mind := Induction for stmts Sort Prop
  with arms_mind := Induction for arms Sort Prop.
Combined Scheme expr_mutind from expr_mind, exprs_mind, ifelse_mind, elsebr_mind, block_mind, stmts_mind, arms_mind.

(* the `common.type_` of an if-else and of a block *)
Definition if_ty (i : ifelse) : ty :=
  match i with IfBool t _ _ _ => t | IfLet t _ _ _ _ => t end.
Definition block_ty (b : block) : ty := match b with Block t _ => t end.

(* ---- declarations ---- *)

(* annotation::TypeParameter{name, bound}: bound = annotation::Id (id.name, type arguments) *)
Record tparam := mkTParam {
  tp_name : name;
  tp_bound : option (N * annots) }.

(* ClassMemberDeclaration: name, type_parameters, parameters (AnnotatedId<()>: name, annotation), return_type *)
Record mdecl := mkDecl {
  md_name : name;
  md_tparams : list tparam;
  md_params : list (N * annot);
  md_ret : annot }.

Inductive typedef :=
| TDStruct (fields : list (N * annot))          (* FieldDefinition: name, annotation *)
| TDEnum (variants : list (N * annots)).        (* VariantDefinition: name, associated_data_types (None = TNil) *)

(* Toplevel<Arc<Type>>.  Interface members are declarations, class members are definitions (declaration + body). *)
Inductive toplevel :=
| TInterface (tname : name) (tparams : list tparam) (ext : list (N * annots)) (members : list mdecl)
| TClass (tname : name) (tparams : list tparam) (ext : list (N * annots)) (def : option typedef)
         (members : list (mdecl * expr)).

(* ModuleMembersImport: imported_module (its parts), imported_members *)
Record import := mkImport {
  imp_path : list name;
  imp_members : list name }.

(* Module<Arc<Type>>: comment_store (the text of every comment of every CommentsNode, in store order), imports, toplevels *)
Record module := mkModule {
  m_comments : list name;
  m_imports : list import;
  m_tops : list toplevel }.
