(* Glue evaluated with vm_compute on the cases that harness/src/c12_run.rs ran on the implementation. *)
From Coq Require Import List Arith Bool NArith.
From SV Require Import C12.Model.
From SV Require C17.Model.
Import ListNotations.

(* a reduction tree over group indices *)
Inductive itree := ILeaf (g : nat) | INode (a b : itree).
Fixpoint to_mtree (groups : list (list nat)) (t : itree) : mtree nat :=
  match t with
  | ILeaf g => Leaf (nth g groups [])
  | INode a b => Node (to_mtree groups a) (to_mtree groups b)
  end.

Definition outN (l : list nat) : list N := map N.of_nat l.

(* groups of item ranks, merge orders (group indices), trees -> the sequences the model predicts *)
Definition corr_merge (groups : list (list nat)) (orders : list (list nat)) (trees : list itree)
  : list (list N) * list (list N) :=
  (map (fun o => outN (merge_all nat_cmp (map (fun g => nth g groups []) o))) orders,
   map (fun t => outN (eval nat_cmp (to_mtree groups t))) trees).

(* the names handed out by n fetch_adds starting at [start] under the schedule that lets thread 0 run alone
   (C12_ids_schedule_independent: the set is the same under every schedule) *)
Definition corr_names (start : N) (n : nat) : list C17.Model.str :=
  names (fst (run_sched start (repeat 0 n))).

(* heap side: the counter starts at the table length; after the sync the next heap name is the one after the last
   name the counter handed out *)
Definition corr_heap (len0 : N) (k : nat) : C17.Model.str * C17.Model.str * C17.Model.str :=
  let cf := snd (run_sched len0 (repeat 0 k)) in
  let len1 := table_len_after_sync len0 cf in
  (name_of len0, name_of len1, name_of (len1 + 1)).

(* ---- comparison with what the implementation returned ---- *)
Fixpoint list_eqb {A} (e : A -> A -> bool) (a b : list A) : bool :=
  match a, b with
  | [], [] => true
  | x :: a', y :: b' => e x y && list_eqb e a' b'
  | _, _ => false
  end.
Definition str_eqb := list_eqb N.eqb.
Definition mem_str (s : C17.Model.str) (l : list C17.Model.str) : bool := existsb (str_eqb s) l.

Definition check_merge (groups orders : list (list nat)) (trees : list itree)
           (code_orders code_trees : list (list N)) : bool :=
  let '(mo, mt) := corr_merge groups orders trees in
  list_eqb (list_eqb N.eqb) mo code_orders && list_eqb (list_eqb N.eqb) mt code_trees.

(* the implementation's threads together received exactly the model's names, each once *)
Definition check_names (start : N) (code : list C17.Model.str) : bool :=
  let m := corr_names start (length code) in
  forallb (fun s => mem_str s code) m && forallb (fun s => mem_str s m) code && Nat.eqb (length m) (length code).

Definition check_heap (len0 : N) (k : nat) (first after next : C17.Model.str) : bool :=
  let '(a, b, c) := corr_heap len0 k in str_eqb a first && str_eqb b after && str_eqb c next.
