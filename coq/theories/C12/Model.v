(* C12 — compilation results depend only on the sources, not on hashing or scheduling.
   Models of the three places where an order chosen by the hasher / the scheduler enters the
   compiler.  Definitions only.

   1. crates/samlang-checker/src/lib.rs type_check_sources: modules are checked with rayon
      `par_iter` over a HashMap (enumeration order = hash order), every module reports into its
      own ErrorSet, the local sets are then merged with `error_set.merge(local_errors)`;
      crates/samlang-errors/src/lib.rs: ErrorSet = BTreeSet<CompileTimeError>,
      report_error = BTreeSet::insert, merge = BTreeSet::extend, error_messages renders the
      elements in set order followed by "Found <len> error(s).".
   2. crates/samlang-optimization/src/lib.rs optimize_functions_for_rounds: `par_iter_mut` over the
      functions, all threads take temporaries from one TempPStrCounter
      (crates/samlang-heap/src/lib.rs: alloc_temp_str = fetch_add(1) on an AtomicU32, name
      "_t{id}"; create_temp_counter starts at str_pointer_table.len(); sync_temp_counter pads the
      table up to the final counter value).
   3. crates/samlang-compiler/src/mir_generics_specialization.rs rewrite_id_type: type
      definitions are specialised on demand (depth first from whichever type is reached first);
      the enum representation decision (C01 choose_layout) consults the definitions finished
      so far (specialized_type_definitions). *)
From Coq Require Import List Arith Bool NArith ZArith Sorted Permutation.
From SV Require Import C01.Model C01.Typing C01.Corr.
From SV Require C17.Model.
Import ListNotations.

(* ------------------------------------------------------------------------------------------ *)
(* 1. error sets                                                                                *)
(* ------------------------------------------------------------------------------------------ *)

(* the derived `Ord` of CompileTimeError: a decidable total order *)
Definition total_order {A : Type} (cmp : A -> A -> comparison) : Prop :=
  (forall x y, cmp x y = Eq <-> x = y) /\
  (forall x y, cmp y x = CompOpp (cmp x y)) /\
  (forall x y z, cmp x y = Lt -> cmp y z = Lt -> cmp x z = Lt).

Section ErrorSets.
  Variable A : Type.
  Variable cmp : A -> A -> comparison.

  Definition lt_of (x y : A) : Prop := cmp x y = Lt.
  (* the state of a BTreeSet, as the sequence its iterator yields *)
  Definition is_set (s : list A) : Prop := StronglySorted lt_of s.

  (* BTreeSet::insert (an equal element already present is kept) *)
  Fixpoint insert (x : A) (s : list A) : list A :=
    match s with
    | [] => [x]
    | y :: s' => match cmp x y with
                 | Lt => x :: s
                 | Eq => s
                 | Gt => y :: insert x s'
                 end
    end.

  (* Extend::extend: the elements of [other], in the order its iterator yields them, are inserted *)
  Definition extend (self : list A) (other : list A) : list A :=
    fold_left (fun acc x => insert x acc) other self.

  (* ErrorSet::new() followed by one report_error per reported error, in report order *)
  Definition of_reports (reports : list A) : list A := extend [] reports.

  (* ErrorSet::merge *)
  Definition merge (self other : list A) : list A := extend self other.

  (* the loop at the end of type_check_sources: `results` in whatever order the parallel
     iterator over the HashMap delivered them, merged one after the other into the (empty)
     error set of the caller *)
  Definition merge_all (results : list (list A)) : list A := fold_left merge results [].

  (* any other way of combining the local sets with `merge` (a reduction tree, as a
     work-stealing reduce would build it) *)
  Inductive mtree := Leaf (reports : list A) | Node (a b : mtree).
  Fixpoint eval (t : mtree) : list A :=
    match t with
    | Leaf r => of_reports r
    | Node a b => merge (eval a) (eval b)
    end.
  Fixpoint leaves (t : mtree) : list (list A) :=
    match t with
    | Leaf r => [r]
    | Node a b => leaves a ++ leaves b
    end.

  (* ErrorSet::has_errors / error_messages: rendered text of every element in set order plus the
     count used by the "Found n error(s)." trailer *)
  Definition has_errors (s : list A) : bool := match s with [] => false | _ => true end.
  Definition rendered (B : Type) (pr : A -> list B) (s : list A) : list B * nat :=
    (flat_map pr s, length s).
End ErrorSets.

Arguments insert {A}. Arguments extend {A}. Arguments of_reports {A}. Arguments merge {A}.
Arguments merge_all {A}. Arguments eval {A}. Arguments leaves {A}. Arguments Leaf {A}.
Arguments Node {A}. Arguments is_set {A}. Arguments lt_of {A}. Arguments has_errors {A}.
Arguments rendered {A B}.

(* ------------------------------------------------------------------------------------------ *)
(* 2. the shared temporary-name counter                                                         *)
(* ------------------------------------------------------------------------------------------ *)

Definition wrap : N := 4294967296%N.            (* AtomicU32 *)

(* fetch_add(1): returns the previous value, the addition wraps *)
Definition fetch_add (c : N) : N * N := (c, ((c + 1) mod wrap)%N).

(* A schedule is the sequence of threads performing the successive fetch_adds (atomicity: the
   read-modify-write operations on one atomic are totally ordered).  The log records which
   thread got which id. *)
Fixpoint run_sched (c : N) (sched : list nat) : list (nat * N) * N :=
  match sched with
  | [] => ([], c)
  | t :: sched' =>
      let (id, c') := fetch_add c in
      let (log, cf) := run_sched c' sched' in
      ((t, id) :: log, cf)
  end.

Definition ids (log : list (nat * N)) : list N := map snd log.
Definition ids_of_thread (t : nat) (log : list (nat * N)) : list N :=
  map snd (filter (fun p => Nat.eqb (fst p) t) log).

(* c, c+1, ..., c+n-1 *)
Fixpoint nseq (c : N) (n : nat) : list N :=
  match n with
  | O => []
  | S n' => (c :: nseq (c + 1)%N n')
  end.

(* format!("_t{id}") *)
Definition name_of (id : N) : C17.Model.str := 95%N :: 116%N :: C17.Model.dec id.
Definition names (log : list (nat * N)) : list C17.Model.str := map (fun p => name_of (snd p)) log.

(* sync_temp_counter: the table is padded up to the counter's final value; the next
   Heap::alloc_temp_str uses the table length as id *)
Definition table_len_after_sync (len : N) (cf : N) : N := N.max len cf.

(* the range of u32 ids is far inside the range on which [dec] (fuel 40) is exact *)
Definition dec_exact_bound : N := (10 ^ 40)%N.

(* ------------------------------------------------------------------------------------------ *)
(* 3. order of specialisation                                                                   *)
(* ------------------------------------------------------------------------------------------ *)

(* specialized_type_definitions: what is finished, with the layout of the finished enums *)
Definition table := list (nat * known).
Definition fin_of (T : table) (n : nat) : option known := lookup T n.

(* the final layout of every enum, read off the table *)
Definition L_of_table (T : table) (n : nat) : list vrepr :=
  match lookup T n with Some (KEnum ls) => ls | _ => [] end.
Definition layouts_of_table (T : table) : layouts :=
  flat_map (fun p => match snd p with KEnum ls => [(fst p, ls)] | KStruct => [] end) T.

(* 3a. Abstract view: the definitions are finished in SOME order (any order, not only the
   post-orders a depth-first traversal can produce); each one is decided against what was
   finished before it. *)
Definition finish_one (defs : nat -> option tdef) (T : table) (e : nat) : table :=
  match defs e with
  | Some (DStruct _) => (e, KStruct) :: T
  | Some (DEnum vs) => (e, KEnum (choose_layout (fin_of T) vs)) :: T
  | None => T
  end.
Definition process (defs : nat -> option tdef) (order : list nat) : table :=
  fold_left (finish_one defs) order [].
Definition L_final (defs : nat -> option tdef) (order : list nat) : nat -> list vrepr :=
  L_of_table (process defs order).

(* 3b. The traversal of rewrite_id_type itself.  One id per type instance.
     pre t  = the instances occurring as type arguments of t: they are rewritten BEFORE t is
              looked up in specialized_type_definition_names;
     clo t  = for a closure type (defs t = None): the instances in its function type, rewritten
              after t was registered; closure types never enter specialized_type_definitions.
   For an enum the fields of the variants are rewritten variant by variant, and
   type_permit_enum_boxed_optimization is asked (at most once: only while
   permit_unboxed_optimization is still true, i.e. at the first data-carrying variant) right
   after the fields of that variant were rewritten and before the later variants are looked at:
   [snap] below.  Fuel bounds the recursion depth; running out of fuel leaves a type unvisited. *)
Record dstate := mkd { reg : list nat; tab : table }.

Definition ty_ids (tys : list ty) : list nat :=
  flat_map (fun t => match t with TId n => [n] | _ => [] end) tys.

Fixpoint first_data (vs : list (list ty)) : list ty :=
  match vs with
  | [] => []
  | [] :: vs' => first_data vs'
  | tys :: _ => tys
  end.
Fixpoint after_first_data (vs : list (list ty)) : list (list ty) :=
  match vs with
  | [] => []
  | [] :: vs' => after_first_data vs'
  | _ :: vs' => vs'
  end.

Definition memb (n : nat) (l : list nat) : bool := existsb (Nat.eqb n) l.

Section Dfs.
  Variable defs : nat -> option tdef.
  Variable pre : nat -> list nat.
  Variable clo : nat -> list nat.

  Fixpoint visit (fuel : nat) (t : nat) (st : dstate) : dstate :=
    match fuel with
    | O => st
    | S f =>
        let many := fun (l : list nat) (s : dstate) => fold_left (fun s n => visit f n s) l s in
        let st0 := many (pre t) st in
        if memb t (reg st0) then st0
        else
          let st1 := mkd (t :: reg st0) (tab st0) in
          match defs t with
          | None => many (clo t) st1
          | Some (DStruct tys) =>
              let st2 := many (ty_ids tys) st1 in
              mkd (reg st2) ((t, KStruct) :: tab st2)
          | Some (DEnum vs) =>
              let st2 := many (ty_ids (first_data vs)) st1 in
              let snap := tab st2 in
              let st3 := many (ty_ids (concat (after_first_data vs))) st2 in
              mkd (reg st3) ((t, KEnum (choose_layout (fin_of snap) vs)) :: tab st3)
          end
    end.

  (* the top-level rewrite_type calls (types in the signatures and bodies of the functions
     reached from the entry points), in the order they happen *)
  Definition dfs (fuel : nat) (roots : list nat) : dstate :=
    fold_left (fun s n => visit fuel n s) roots (mkd [] []).
End Dfs.

(* the definitions of the types that were specialised *)
Definition restrict (defs : nat -> option tdef) (T : table) (n : nat) : option tdef :=
  match lookup T n with Some _ => defs n | None => None end.

(* ---- the witness:  0 = class E(A(F)),  1 = class F(B(E), C(int)) ---- *)
Definition w_E : env := [(0, DEnum [[TId 1]]); (1, DEnum [[TId 0]; [TInt]])].
Definition w_defs : nat -> option tdef := defs_of w_E.
Definition w_none (_ : nat) : list nat := [].
(* E reached first / F reached first *)
Definition w_tab_E_first : table := tab (dfs w_defs w_none w_none 10 [0; 1]).
Definition w_tab_F_first : table := tab (dfs w_defs w_none w_none 10 [1; 0]).
(* values used to observe the two tables: E.A(F.C(7)) and F.B(E.A(F.C(7))) *)
Definition w_fc : val := VEnum 1 1 [VInt 7%Z].
Definition w_ea : val := VEnum 0 0 [w_fc].
Definition w_fb : val := VEnum 1 0 [w_ea].

(* ---- a small instance of 1 and 2 for the non-vacuity examples ---- *)
Definition nat_cmp : nat -> nat -> comparison := Nat.compare.
