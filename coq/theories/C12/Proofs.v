(* C12 — lemmas for the error-set merge (part 1) and the shared temporary counter (part 2). *)
From Coq Require Import List Arith Bool NArith ZArith Sorted Permutation Lia.
From SV Require Import C12.Model.
From SV Require C17.Model.
Import ListNotations.

(* ------------------------------------------------------------------------------------------ *)
(* 1. error sets                                                                                *)
(* ------------------------------------------------------------------------------------------ *)
Section MergeProofs.
  Variable A : Type.
  Variable cmp : A -> A -> comparison.
  Hypothesis TO : total_order cmp.

  Let cmp_eq : forall x y, cmp x y = Eq <-> x = y. Proof. exact (proj1 TO). Qed.
  Let cmp_opp : forall x y, cmp y x = CompOpp (cmp x y). Proof. exact (proj1 (proj2 TO)). Qed.
  Let cmp_trans : forall x y z, cmp x y = Lt -> cmp y z = Lt -> cmp x z = Lt.
  Proof. exact (proj2 (proj2 TO)). Qed.

  Lemma cmp_refl : forall x, cmp x x = Eq.
  Proof. intro x. apply cmp_eq. reflexivity. Qed.

  Lemma cmp_gt_lt : forall x y, cmp x y = Gt -> cmp y x = Lt.
  Proof. intros x y H. rewrite cmp_opp, H. reflexivity. Qed.

  Lemma lt_irrefl : forall x, ~ lt_of cmp x x.
  Proof. intros x H. unfold lt_of in H. rewrite cmp_refl in H. discriminate. Qed.

  Lemma insert_In : forall x s z, In z (insert cmp x s) <-> z = x \/ In z s.
  Proof.
    intros x s z. induction s as [|y s IH]; simpl.
    - intuition.
    - destruct (cmp x y) eqn:E; simpl.
      + apply cmp_eq in E. subst y. intuition.
      + intuition.
      + rewrite IH. intuition.
  Qed.

  Lemma insert_set : forall x s, is_set cmp s -> is_set cmp (insert cmp x s).
  Proof.
    intros x s H. induction H as [|y s Hs IH Hy]; simpl.
    - constructor; constructor.
    - destruct (cmp x y) eqn:E.
      + constructor; assumption.
      + constructor.
        * constructor; assumption.
        * constructor; [exact E|].
          rewrite Forall_forall in *. intros z Hz. unfold lt_of in *.
          eapply cmp_trans; [exact E | apply Hy; exact Hz].
      + constructor; [exact IH|].
        rewrite Forall_forall in *. intros z Hz. apply insert_In in Hz. destruct Hz as [->|Hz].
        * apply cmp_gt_lt. exact E.
        * apply Hy. exact Hz.
  Qed.

  Lemma extend_In : forall other self z, In z (extend cmp self other) <-> In z self \/ In z other.
  Proof.
    unfold extend. induction other as [|x other IH]; intros self z; simpl.
    - intuition.
    - rewrite IH, insert_In. intuition.
  Qed.

  Lemma extend_set : forall other self, is_set cmp self -> is_set cmp (extend cmp self other).
  Proof.
    unfold extend. induction other as [|x other IH]; intros self H; simpl.
    - exact H.
    - apply IH. apply insert_set. exact H.
  Qed.

  Lemma nil_set : is_set cmp [].
  Proof. constructor. Qed.

  Lemma of_reports_set : forall r, is_set cmp (of_reports cmp r).
  Proof. intro r. apply extend_set. apply nil_set. Qed.

  Lemma of_reports_In : forall r z, In z (of_reports cmp r) <-> In z r.
  Proof. intros r z. unfold of_reports. rewrite extend_In. simpl. intuition. Qed.

  (* a set has exactly one iteration sequence *)
  Lemma set_unique : forall s1 s2, is_set cmp s1 -> is_set cmp s2 ->
    (forall x, In x s1 <-> In x s2) -> s1 = s2.
  Proof.
    intros s1 s2 H1. revert s2. induction H1 as [|a s1 Hs1 IH Ha]; intros s2 H2 Hin.
    - destruct s2 as [|b s2]; [reflexivity|].
      exfalso. apply (proj2 (Hin b)). left. reflexivity.
    - destruct s2 as [|b s2].
      + exfalso. apply (proj1 (Hin a)). left. reflexivity.
      + inversion H2 as [|b' s2' Hs2 Hb]; subst.
        rewrite Forall_forall in Ha, Hb.
        assert (Hab : a = b).
        { destruct (proj1 (Hin a) (or_introl eq_refl)) as [E|E]; [symmetry; exact E|].
          destruct (proj2 (Hin b) (or_introl eq_refl)) as [E'|E']; [exact E'|].
          exfalso. apply (lt_irrefl a). unfold lt_of.
          eapply cmp_trans; [apply Ha; exact E' | apply Hb; exact E]. }
        subst b. f_equal. apply IH; [exact Hs2|].
        intro x. split; intro Hx.
        * destruct (proj1 (Hin x) (or_intror Hx)) as [E|E]; [|exact E].
          subst x. exfalso. apply (lt_irrefl a). apply Ha. exact Hx.
        * destruct (proj2 (Hin x) (or_intror Hx)) as [E|E]; [|exact E].
          subst x. exfalso. apply (lt_irrefl a). apply Hb. exact Hx.
  Qed.

  Lemma fold_merge_spec : forall rs acc, is_set cmp acc ->
    is_set cmp (fold_left (merge cmp) rs acc) /\
    forall z, In z (fold_left (merge cmp) rs acc) <-> In z acc \/ In z (concat rs).
  Proof.
    induction rs as [|r rs IH]; intros acc H; simpl.
    - split; [exact H|]. intuition.
    - destruct (IH (merge cmp acc r) (extend_set r acc H)) as [S I]. split; [exact S|].
      intro z. rewrite I. unfold merge. rewrite extend_In, in_app_iff. intuition.
  Qed.

  Lemma merge_all_set : forall rs, is_set cmp (merge_all cmp rs).
  Proof. intro rs. apply (fold_merge_spec rs [] nil_set). Qed.

  Lemma merge_all_In : forall rs z, In z (merge_all cmp rs) <-> In z (concat rs).
  Proof.
    intros rs z. unfold merge_all. rewrite (proj2 (fold_merge_spec rs [] nil_set)). simpl. intuition.
  Qed.

  Lemma eval_spec : forall t,
    is_set cmp (eval cmp t) /\ forall z, In z (eval cmp t) <-> In z (concat (leaves t)).
  Proof.
    induction t as [r|a [Sa Ia] b [Sb Ib]]; simpl.
    - split; [apply of_reports_set|]. intro z. rewrite of_reports_In, app_nil_r. reflexivity.
    - split; [apply extend_set; exact Sa|].
      intro z. unfold merge. rewrite extend_In, concat_app, in_app_iff, Ia, Ib. reflexivity.
  Qed.

  Lemma concat_perm_In : forall (rs rs' : list (list A)), Permutation rs rs' ->
    forall z, In z (concat rs) <-> In z (concat rs').
  Proof.
    intros rs rs' P z. rewrite !in_concat. split; intros [r [Hr Hz]]; exists r; split; try exact Hz.
    - eapply Permutation_in; [exact P | exact Hr].
    - eapply Permutation_in; [apply Permutation_sym; exact P | exact Hr].
  Qed.

  (* the merged set is a function of the SET of reported errors *)
  Lemma merge_all_same_reports : forall rs rs',
    (forall z, In z (concat rs) <-> In z (concat rs')) -> merge_all cmp rs = merge_all cmp rs'.
  Proof.
    intros rs rs' H. apply set_unique; try apply merge_all_set.
    intro z. rewrite !merge_all_In. apply H.
  Qed.

  Lemma merge_order_irrelevant : forall rs rs',
    Permutation rs rs' -> merge_all cmp rs = merge_all cmp rs'.
  Proof. intros rs rs' P. apply merge_all_same_reports. apply concat_perm_In. exact P. Qed.

  Lemma eval_is_merge_all : forall t, eval cmp t = merge_all cmp (leaves t).
  Proof.
    intro t. apply set_unique; [apply eval_spec | apply merge_all_set |].
    intro z. rewrite (proj2 (eval_spec t)), merge_all_In. reflexivity.
  Qed.

  Lemma merge_association_irrelevant : forall t t',
    Permutation (leaves t) (leaves t') -> eval cmp t = eval cmp t'.
  Proof.
    intros t t' P. rewrite !eval_is_merge_all. apply merge_order_irrelevant. exact P.
  Qed.

  Lemma merge_all_is_sorted_dedup : forall rs, merge_all cmp rs = of_reports cmp (concat rs).
  Proof.
    intro rs. apply set_unique; [apply merge_all_set | apply of_reports_set |].
    intro z. rewrite merge_all_In, of_reports_In. reflexivity.
  Qed.

  Lemma merge_comm : forall a b, is_set cmp a -> is_set cmp b -> merge cmp a b = merge cmp b a.
  Proof.
    intros a b Ha Hb. apply set_unique; try (apply extend_set; assumption).
    intro z. unfold merge. rewrite !extend_In. intuition.
  Qed.

  Lemma merge_assoc : forall a b c, is_set cmp a -> is_set cmp b ->
    merge cmp (merge cmp a b) c = merge cmp a (merge cmp b c).
  Proof.
    intros a b c Ha Hb. apply set_unique.
    - apply extend_set. apply extend_set. exact Ha.
    - apply extend_set. exact Ha.
    - intro z. unfold merge. rewrite !extend_In. intuition.
  Qed.

  (* no duplicates are rendered: the iteration sequence has no repeated element *)
  Lemma set_NoDup : forall s, is_set cmp s -> NoDup s.
  Proof.
    intros s H. induction H as [|a s Hs IH Ha]; constructor; [|exact IH].
    intro Hin. rewrite Forall_forall in Ha. apply (lt_irrefl a). apply Ha. exact Hin.
  Qed.
  Lemma merged_is_sorted_union : forall rs : list (list A),
    is_set cmp (merge_all cmp rs) /\ NoDup (merge_all cmp rs) /\
    (forall z, In z (merge_all cmp rs) <-> In z (concat rs)) /\
    merge_all cmp rs = of_reports cmp (concat rs).
  Proof.
    intro rs. split; [apply merge_all_set|]. split; [apply set_NoDup, merge_all_set|].
    split; [apply merge_all_In | apply merge_all_is_sorted_dedup].
  Qed.

  Lemma diagnostics_order_irrelevant : forall (B : Type) (pr : A -> list B) (rs rs' : list (list A)),
    (forall z, In z (concat rs) <-> In z (concat rs')) ->
    has_errors (merge_all cmp rs) = has_errors (merge_all cmp rs') /\
    rendered pr (merge_all cmp rs) = rendered pr (merge_all cmp rs').
  Proof.
    intros B pr rs rs' H. rewrite (merge_all_same_reports rs rs' H). split; reflexivity.
  Qed.
End MergeProofs.

(* Nat.compare is an instance *)
Lemma nat_cmp_total : total_order nat_cmp.
Proof.
  unfold nat_cmp. repeat split.
  - apply Nat.compare_eq.
  - intros ->. apply Nat.compare_refl.
  - intros x y. apply Nat.compare_antisym.
  - intros x y z. rewrite !Nat.compare_lt_iff. lia.
Qed.

(* ------------------------------------------------------------------------------------------ *)
(* 2. the shared counter                                                                        *)
(* ------------------------------------------------------------------------------------------ *)
Local Open Scope N_scope.

Lemma nseq_In : forall n c x, In x (nseq c n) <-> c <= x < c + N.of_nat n.
Proof.
  induction n as [|n IH]; intros c x.
  - simpl. lia.
  - cbn [nseq In]. rewrite IH. lia.
Qed.

Lemma nseq_NoDup : forall n c, NoDup (nseq c n).
Proof.
  induction n as [|n IH]; intro c; simpl; constructor.
  - rewrite nseq_In. lia.
  - apply IH.
Qed.

Lemma nseq_length : forall n c, length (nseq c n) = n.
Proof. induction n; intro c; simpl; [reflexivity | f_equal; apply IHn]. Qed.

Lemma wrap_pos : 0 < wrap.
Proof. reflexivity. Qed.

Lemma run_sched_threads : forall sched c, map fst (fst (run_sched c sched)) = sched.
Proof.
  induction sched as [|t sched IH]; intro c; simpl; [reflexivity|].
  specialize (IH ((c + 1) mod wrap)). destruct (run_sched ((c + 1) mod wrap) sched) as [log cf].
  simpl in *. f_equal. exact IH.
Qed.

Lemma run_sched_ids : forall sched c, c + N.of_nat (length sched) <= wrap ->
  ids (fst (run_sched c sched)) = nseq c (length sched).
Proof.
  induction sched as [|t sched IH]; intros c H; [reflexivity|].
  cbn [run_sched fetch_add length nseq].
  destruct sched as [|t' sched'].
  - reflexivity.
  - assert (Hs : (c + 1) mod wrap = c + 1).
    { apply N.mod_small. cbn [length] in H. lia. }
    rewrite Hs. specialize (IH (c + 1)).
    destruct (run_sched (c + 1) (t' :: sched')) as [log cf]. unfold ids in *. simpl in *.
    f_equal. apply IH. lia.
Qed.

Lemma run_sched_final : forall sched c,
  snd (run_sched c sched) = (c + N.of_nat (length sched)) mod wrap \/
  (sched = [] /\ snd (run_sched c sched) = c).
Proof.
  induction sched as [|t sched IH]; intro c; [right; split; reflexivity|].
  left. cbn [run_sched fetch_add length].
  specialize (IH ((c + 1) mod wrap)).
  destruct (run_sched ((c + 1) mod wrap) sched) as [log cf]. simpl in *.
  destruct IH as [IH|[-> IH]].
  - rewrite IH. rewrite N.add_mod_idemp_l by (intro E; discriminate E). f_equal. lia.
  - rewrite IH. simpl. f_equal.
Qed.

Lemma run_sched_final_small : forall sched c, c + N.of_nat (length sched) < wrap ->
  snd (run_sched c sched) = c + N.of_nat (length sched).
Proof.
  intros sched c H. destruct (run_sched_final sched c) as [E|[-> E]].
  - rewrite E. apply N.mod_small. exact H.
  - rewrite E. simpl. lia.
Qed.

(* ---- the decimal rendering ---- *)
Definition undec_step (a d : N) : N := 10 * a + (d - 48).
Definition undec (l : list N) (a : N) : N := fold_left undec_step l a.

Lemma dec_digits_spec : forall fuel n acc, n < 10 ^ N.of_nat fuel ->
  exists ds, C17.Model.dec_digits fuel n acc = ds ++ acc /\
             forall a, undec ds a = a * 10 ^ N.of_nat (length ds) + n.
Proof.
  induction fuel as [|f IH]; intros n acc H.
  - exists []. split; [reflexivity|]. intro a. simpl in *. lia.
  - cbn [C17.Model.dec_digits].
    assert (H10 : n = 10 * (n / 10) + n mod 10) by (apply N.div_mod; lia).
    assert (Hm : n mod 10 < 10) by (apply N.mod_lt; lia).
    destruct (n <? 10) eqn:E.
    + apply N.ltb_lt in E. exists [48 + n mod 10]. split; [reflexivity|].
      intro a. unfold undec. cbn [fold_left length]. unfold undec_step.
      change (N.of_nat 1) with 1. rewrite N.pow_1_r.
      rewrite (N.mod_small n 10 E). lia.
    + apply N.ltb_ge in E.
      assert (Hd : n / 10 < 10 ^ N.of_nat f).
      { apply N.div_lt_upper_bound; [lia|].
        replace (N.of_nat (S f)) with (N.succ (N.of_nat f)) in H by lia.
        rewrite N.pow_succ_r' in H. exact H. }
      destruct (IH (n / 10) ((48 + n mod 10) :: acc) Hd) as [ds [E1 E2]].
      exists (ds ++ [48 + n mod 10]). split.
      * rewrite E1, <- app_assoc. reflexivity.
      * intro a. unfold undec. rewrite fold_left_app. fold (undec ds a). rewrite E2.
        cbn [fold_left]. unfold undec_step. rewrite app_length. cbn [length].
        replace (N.of_nat (length ds + 1)) with (N.succ (N.of_nat (length ds))) by lia.
        rewrite N.pow_succ_r'.
        generalize dependent (n mod 10). generalize (n / 10). generalize (10 ^ N.of_nat (length ds)).
        intros p d m H10 _ _. rewrite H10. nia.
Qed.

Lemma dec_left_inverse : forall n, n < dec_exact_bound -> undec (C17.Model.dec n) 0 = n.
Proof.
  intros n H. unfold C17.Model.dec.
  destruct (dec_digits_spec 40 n [] H) as [ds [E1 E2]].
  rewrite E1, app_nil_r, E2. lia.
Qed.

Lemma dec_injective : forall a b, a < dec_exact_bound -> b < dec_exact_bound ->
  C17.Model.dec a = C17.Model.dec b -> a = b.
Proof.
  intros a b Ha Hb E. rewrite <- (dec_left_inverse a Ha), <- (dec_left_inverse b Hb), E. reflexivity.
Qed.

Lemma name_of_injective : forall a b, a < dec_exact_bound -> b < dec_exact_bound ->
  name_of a = name_of b -> a = b.
Proof.
  intros a b Ha Hb E. unfold name_of in E. injection E as E. apply dec_injective; assumption.
Qed.

Lemma wrap_below_bound : wrap <= dec_exact_bound.
Proof. unfold wrap, dec_exact_bound. vm_compute. discriminate. Qed.

Lemma temp_name_is_name_of : forall id, C17.Model.temp_name id = name_of (N.of_nat id).
Proof. reflexivity. Qed.

(* ---- no two fetch_adds return the same name ---- *)
Lemma NoDup_map_inj_in : forall (X Y : Type) (f : X -> Y) (l : list X),
  (forall x y, In x l -> In y l -> f x = f y -> x = y) -> NoDup l -> NoDup (map f l).
Proof.
  intros X Y f l Hinj H. induction H as [|x l Hx Hl IH]; simpl; constructor.
  - intro Hin. apply in_map_iff in Hin. destruct Hin as [y [E Hy]].
    assert (y = x) by (apply Hinj; [right; exact Hy | left; reflexivity | exact E]).
    subst y. exact (Hx Hy).
  - apply IH. intros a b Ha Hb. apply Hinj; right; assumption.
Qed.

Lemma NoDup_snd_fst : forall (X Y : Type) (l : list (X * Y)) p q,
  NoDup (map snd l) -> In p l -> In q l -> snd p = snd q -> p = q.
Proof.
  intros X Y l p q H. induction l as [|r l IH]; simpl; [tauto|].
  inversion H as [|y l' Hr Hl]; subst.
  intros [->|Hp] [->|Hq] E.
  - reflexivity.
  - exfalso. apply Hr. rewrite E. apply in_map. exact Hq.
  - exfalso. apply Hr. rewrite <- E. apply in_map. exact Hp.
  - apply IH; assumption.
Qed.

Lemma ids_of_thread_In : forall t log i, In i (ids_of_thread t log) <-> In (t, i) log.
Proof.
  intros t log i. unfold ids_of_thread. rewrite in_map_iff. split.
  - intros [[t' i'] [E H]]. apply filter_In in H. destruct H as [H Ht]. simpl in *.
    apply Nat.eqb_eq in Ht. subst. exact H.
  - intro H. exists (t, i). split; [reflexivity|]. apply filter_In. split; [exact H|].
    simpl. apply Nat.eqb_refl.
Qed.

Lemma NoDup_filter : forall (X : Type) (f : X -> bool) (l : list X), NoDup l -> NoDup (filter f l).
Proof.
  intros X f l H. induction H as [|x l Hx Hl IH]; simpl; [constructor|].
  destruct (f x); [constructor|]; try exact IH.
  intro Hin. apply filter_In in Hin. exact (Hx (proj1 Hin)).
Qed.

Lemma NoDup_map_snd_filter : forall (X Y : Type) (f : X * Y -> bool) (l : list (X * Y)),
  NoDup (map snd l) -> NoDup (map snd (filter f l)).
Proof.
  intros X Y f l. induction l as [|p l IH]; simpl; intro H; [constructor|].
  inversion H as [|y l' Hp Hl]; subst.
  destruct (f p); simpl; [constructor|]; try (apply IH; exact Hl).
  intro Hin. apply Hp. apply in_map_iff in Hin. destruct Hin as [q [E Hq]].
  apply filter_In in Hq. rewrite <- E. apply in_map. exact (proj1 Hq).
Qed.

Lemma fresh_names : forall start sched,
  start + N.of_nat (length sched) <= wrap ->
  let log := fst (run_sched start sched) in
  map fst log = sched /\
  ids log = nseq start (length sched) /\
  NoDup (ids log) /\
  NoDup (names log) /\
  (forall p q, In p log -> In q log -> name_of (snd p) = name_of (snd q) -> p = q) /\
  (forall t, NoDup (ids_of_thread t log)) /\
  (forall t1 t2 i1 i2, t1 <> t2 -> In i1 (ids_of_thread t1 log) -> In i2 (ids_of_thread t2 log) ->
                       name_of i1 <> name_of i2) /\
  (forall id, In id (ids log) <-> start <= id < start + N.of_nat (length sched)).
Proof.
  intros start sched H log.
  assert (Hids : ids log = nseq start (length sched)) by (apply run_sched_ids; exact H).
  assert (Hnd : NoDup (ids log)) by (rewrite Hids; apply nseq_NoDup).
  assert (Hrange : forall id, In id (ids log) <-> start <= id < start + N.of_nat (length sched)).
  { intro id. rewrite Hids. apply nseq_In. }
  assert (Hsmall : forall p, In p log -> snd p < dec_exact_bound).
  { intros p Hp. assert (In (snd p) (ids log)) by (apply in_map; exact Hp).
    apply Hrange in H0. pose proof wrap_below_bound. lia. }
  assert (Hinj : forall p q, In p log -> In q log -> name_of (snd p) = name_of (snd q) -> p = q).
  { intros p q Hp Hq E. apply (NoDup_snd_fst _ _ log); try assumption.
    apply name_of_injective; auto. }
  split; [apply run_sched_threads|].
  split; [exact Hids|].
  split; [exact Hnd|].
  split.
  { unfold names. apply NoDup_map_inj_in; [exact Hinj|].
    apply (NoDup_map_inv snd). exact Hnd. }
  split; [exact Hinj|].
  split.
  { intro t. unfold ids_of_thread. apply NoDup_map_snd_filter. exact Hnd. }
  split; [|exact Hrange].
  intros t1 t2 i1 i2 Hne H1 H2 E. apply ids_of_thread_In in H1, H2.
  specialize (Hinj _ _ H1 H2 E). injection Hinj as E1 _. exact (Hne E1).
Qed.

(* the ids (hence the names) handed out do not depend on the schedule, only who gets them does *)
Lemma ids_schedule_independent : forall start sched sched',
  length sched = length sched' -> start + N.of_nat (length sched) <= wrap ->
  ids (fst (run_sched start sched)) = ids (fst (run_sched start sched')).
Proof.
  intros start sched sched' L H. rewrite !run_sched_ids; [rewrite L; reflexivity | rewrite <- L; exact H | exact H].
Qed.

(* after sync_temp_counter the table is longer than every id handed out (and than every id the
   heap handed out before, those being below [start] = the table length at creation) *)
Lemma sync_covers : forall start sched,
  start + N.of_nat (length sched) < wrap ->
  let (log, cf) := run_sched start sched in
  forall id, In id (ids log) -> id < table_len_after_sync start cf.
Proof.
  intros start sched H.
  pose proof (run_sched_final_small sched start H) as Hf.
  pose proof (fresh_names start sched (N.lt_le_incl _ _ H)) as F. cbv zeta in F.
  destruct (run_sched start sched) as [log cf]. simpl in *.
  destruct F as (_ & _ & _ & _ & _ & _ & _ & Hr).
  intros id Hin. apply Hr in Hin. unfold table_len_after_sync. lia.
Qed.
