(* C12 — lemmas for the order of specialisation (part 3). *)
From Coq Require Import List Arith Bool NArith ZArith Permutation Lia.
From SV Require Import C01.Model C01.Typing C01.Corr C01.Proofs C01.CorrProofs C12.Model.
Import ListNotations.

Definition sub (T T' : table) : Prop := forall n k, lookup T n = Some k -> lookup T' n = Some k.

Lemma sub_refl : forall T, sub T T.
Proof. intros T n k H. exact H. Qed.

Lemma sub_trans : forall T1 T2 T3, sub T1 T2 -> sub T2 T3 -> sub T1 T3.
Proof. intros T1 T2 T3 H1 H2 n k H. apply H2, H1, H. Qed.

Lemma lookup_cons_ne : forall (T : table) e k n, n <> e -> lookup ((e, k) :: T) n = lookup T n.
Proof.
  intros T e k n H. simpl. destruct (Nat.eqb e n) eqn:E; [|reflexivity].
  apply Nat.eqb_eq in E. congruence.
Qed.

Lemma lookup_cons_eq : forall (T : table) e k, lookup ((e, k) :: T) e = Some k.
Proof. intros T e k. simpl. rewrite Nat.eqb_refl. reflexivity. Qed.

Lemma sub_cons : forall T e k, lookup T e = None -> sub T ((e, k) :: T).
Proof.
  intros T e k H n k' Hn. rewrite lookup_cons_ne; [exact Hn|].
  intros ->. rewrite H in Hn. discriminate Hn.
Qed.

(* every entry of the table was decided the way the compiler decides: an enum's layout is the
   loop's answer against a snapshot that did not contain the enum itself and all of whose
   entries are still in the table, unchanged *)
Definition entry_ok (defs : nat -> option tdef) (T : table) (e : nat) (k : known) : Prop :=
  match k with
  | KStruct => exists tys, defs e = Some (DStruct tys)
  | KEnum ls => exists vs snap,
      defs e = Some (DEnum vs) /\ ls = choose_layout (fin_of snap) vs /\
      lookup snap e = None /\ sub snap T
  end.
Definition PInv (defs : nat -> option tdef) (T : table) : Prop :=
  forall e k, lookup T e = Some k -> entry_ok defs T e k.

Lemma entry_ok_mono : forall defs T T' e k, sub T T' -> entry_ok defs T e k -> entry_ok defs T' e k.
Proof.
  intros defs T T' e [|ls] S H; simpl in *; [exact H|].
  destruct H as (vs & snap & Hd & Hl & Hs & Hsub). exists vs, snap. repeat split; try assumption.
  eapply sub_trans; eassumption.
Qed.

Lemma PInv_nil : forall defs, PInv defs [].
Proof. intros defs e k H. discriminate H. Qed.

Lemma PInv_add : forall defs T e k,
  PInv defs T -> lookup T e = None -> entry_ok defs T e k -> PInv defs ((e, k) :: T).
Proof.
  intros defs T e k HI He Hk n k' Hn.
  pose proof (sub_cons T e k He) as S.
  destruct (Nat.eq_dec n e) as [->|Hne].
  - rewrite lookup_cons_eq in Hn. injection Hn as <-. eapply entry_ok_mono; eassumption.
  - rewrite lookup_cons_ne in Hn by exact Hne. eapply entry_ok_mono; [exact S|]. apply HI. exact Hn.
Qed.

(* the invariant is the hypothesis of the C01 theorems, for the types that were specialised *)
Lemma PInv_wf : forall defs T, PInv defs T -> wf_layouts (restrict defs T) (L_of_table T).
Proof.
  intros defs T HI e vs Hd. unfold restrict in Hd.
  destruct (lookup T e) as [k|] eqn:Hl; [|discriminate Hd].
  pose proof (HI e k Hl) as Hk. destruct k as [|ls]; simpl in Hk.
  - destruct Hk as [tys Ht]. congruence.
  - destruct Hk as (vs0 & snap & Hd0 & Hls & Hs & Hsub).
    assert (vs0 = vs) by congruence. subst vs0.
    exists (fin_of snap). split; [|split].
    + unfold L_of_table. rewrite Hl, Hls. apply choose_layout_spec.
    + exact Hs.
    + intro n. unfold fin_of. split.
      * intro Hn. apply Hsub in Hn. pose proof (HI n _ Hn) as [tys Ht]. simpl.
        exists tys. unfold restrict. rewrite Hn. exact Ht.
      * intros ls' Hn. apply Hsub in Hn. split.
        -- unfold L_of_table. rewrite Hn. reflexivity.
        -- pose proof (HI n _ Hn) as (vs' & snap' & Ht & _). exists vs'.
           unfold restrict. rewrite Hn. exact Ht.
Qed.

Lemma wf_unrestrict : forall defs T L,
  wf_layouts (restrict defs T) L ->
  (forall e vs, defs e = Some (DEnum vs) -> lookup T e <> None) ->
  wf_layouts defs L.
Proof.
  intros defs T L H Hc e vs Hd.
  assert (Hr : restrict defs T e = Some (DEnum vs)).
  { unfold restrict. specialize (Hc e vs Hd). destruct (lookup T e); [exact Hd|congruence]. }
  destruct (H e vs Hr) as (fin & HL & Hs & Hf). exists fin. split; [exact HL|]. split; [exact Hs|].
  intro n. destruct (Hf n) as [H1 H2]. split.
  - intro Hn. destruct (H1 Hn) as [tys Ht]. exists tys. unfold restrict in Ht.
    destruct (lookup T n); [exact Ht|discriminate Ht].
  - intros ls Hn. destruct (H2 ls Hn) as [E [vs' Ht]]. split; [exact E|]. exists vs'.
    unfold restrict in Ht. destruct (lookup T n); [exact Ht|discriminate Ht].
Qed.

(* ---------------- 3a: any finishing order ---------------- *)

Lemma finish_one_entry : forall defs T e, PInv defs T -> lookup T e = None ->
  PInv defs (finish_one defs T e) /\ sub T (finish_one defs T e) /\
  (forall n, n <> e -> lookup (finish_one defs T e) n = lookup T n) /\
  (defs e <> None -> lookup (finish_one defs T e) e <> None).
Proof.
  intros defs T e HI He. unfold finish_one. destruct (defs e) as [[tys|vs]|] eqn:Hd.
  - split; [|split; [|split]].
    + apply PInv_add; try assumption. simpl. exists tys. exact Hd.
    + apply sub_cons. exact He.
    + intros n Hn. apply lookup_cons_ne. exact Hn.
    + intros _. rewrite lookup_cons_eq. discriminate.
  - split; [|split; [|split]].
    + apply PInv_add; try assumption. simpl. exists vs, T. repeat split; try assumption.
      apply sub_refl.
    + apply sub_cons. exact He.
    + intros n Hn. apply lookup_cons_ne. exact Hn.
    + intros _. rewrite lookup_cons_eq. discriminate.
  - split; [exact HI|]. split; [apply sub_refl|]. split; [reflexivity|]. intro H. congruence.
Qed.

Lemma process_from : forall defs order T,
  NoDup order -> (forall e, In e order -> lookup T e = None) -> PInv defs T ->
  let T' := fold_left (finish_one defs) order T in
  PInv defs T' /\ sub T T' /\
  (forall e, In e order -> defs e <> None -> lookup T' e <> None).
Proof.
  intros defs order. induction order as [|e order IH]; intros T Hnd Hfree HI; simpl.
  - split; [exact HI|]. split; [apply sub_refl|]. intros e [].
  - inversion Hnd as [|e' o' Hnotin Hnd']; subst.
    destruct (finish_one_entry defs T e HI (Hfree e (or_introl eq_refl))) as (HI1 & S1 & Hne & Hcov).
    assert (Hfree1 : forall e0, In e0 order -> lookup (finish_one defs T e) e0 = None).
    { intros e0 H0. rewrite Hne; [apply Hfree; right; exact H0|]. intros ->. exact (Hnotin H0). }
    destruct (IH (finish_one defs T e) Hnd' Hfree1 HI1) as (HI2 & S2 & Hcov2).
    split; [exact HI2|]. split; [eapply sub_trans; eassumption|].
    intros e0 [->|H0] Hd.
    + specialize (Hcov Hd). destruct (lookup (finish_one defs T e0) e0) as [k|] eqn:Hk; [|congruence].
      rewrite (S2 _ _ Hk). discriminate.
    + apply Hcov2; assumption.
Qed.

Lemma any_order_wf : forall defs order,
  NoDup order -> (forall e vs, defs e = Some (DEnum vs) -> In e order) ->
  wf_layouts defs (L_final defs order).
Proof.
  intros defs order Hnd Hall.
  destruct (process_from defs order [] Hnd (fun _ _ => eq_refl) (PInv_nil defs)) as (HI & _ & Hcov).
  unfold L_final, process. eapply wf_unrestrict.
  - apply PInv_wf. exact HI.
  - intros e vs Hd. apply Hcov; [eapply Hall; exact Hd | congruence].
Qed.

(* two well-formed layout tables cannot be told apart by a compiled match *)
Lemma wf_unobservable : forall defs L1 L2, wf_layouts defs L1 -> wf_layouts defs L2 ->
  forall e k args vs, defs e = Some (DEnum vs) ->
  has_type defs (VEnum e k args) (TId e) ->
  forall j, j < length vs ->
  test_variant L1 e j (encode L1 (VEnum e k args)) = test_variant L2 e j (encode L2 (VEnum e k args)) /\
  test_variant_emitted L1 e j (encode L1 (VEnum e k args)) =
    test_variant_emitted L2 e j (encode L2 (VEnum e k args)) /\
  test_variant_emitted L1 e j (encode L1 (VEnum e k args)) = Some (Nat.eqb j k).
Proof.
  intros defs L1 L2 W1 W2 e k args vs Hd Hty j Hj.
  pose proof (discriminate_correct defs L1 W1 e k args vs Hd Hty j Hj) as D1.
  pose proof (discriminate_correct defs L2 W2 e k args vs Hd Hty j Hj) as D2.
  destruct (emitted_test_correct defs L1 W1 e k args vs Hd Hty j Hj) as (b1 & E1 & B1).
  destruct (emitted_test_correct defs L2 W2 e k args vs Hd Hty j Hj) as (b2 & E2 & B2).
  assert (Hb : forall b, (b = true <-> j = k) -> b = Nat.eqb j k).
  { intros b Hb. destruct (Nat.eqb j k) eqn:E.
    - apply Nat.eqb_eq in E. apply Hb. exact E.
    - apply Nat.eqb_neq in E. destruct b; [|reflexivity]. exfalso. apply E. apply Hb. reflexivity. }
  split; [|split].
  - rewrite (Hb _ D1), (Hb _ D2). reflexivity.
  - rewrite E1, E2, (Hb _ B1), (Hb _ B2). reflexivity.
  - rewrite E1, (Hb _ B1). reflexivity.
Qed.

Lemma any_order_unobservable : forall defs order1 order2,
  NoDup order1 -> NoDup order2 ->
  (forall e vs, defs e = Some (DEnum vs) -> In e order1 /\ In e order2) ->
  forall e k args vs, defs e = Some (DEnum vs) ->
  has_type defs (VEnum e k args) (TId e) ->
  forall j, j < length vs ->
  let L1 := L_final defs order1 in
  let L2 := L_final defs order2 in
  test_variant L1 e j (encode L1 (VEnum e k args)) = test_variant L2 e j (encode L2 (VEnum e k args)) /\
  test_variant_emitted L1 e j (encode L1 (VEnum e k args)) =
    test_variant_emitted L2 e j (encode L2 (VEnum e k args)) /\
  test_variant_emitted L1 e j (encode L1 (VEnum e k args)) = Some (Nat.eqb j k).
Proof.
  intros defs o1 o2 N1 N2 Hall e k args vs Hd Hty j Hj L1 L2.
  apply (wf_unobservable defs L1 L2) with (vs := vs); try assumption.
  - apply any_order_wf; [exact N1|]. intros e0 vs0 H0. apply (Hall e0 vs0 H0).
  - apply any_order_wf; [exact N2|]. intros e0 vs0 H0. apply (Hall e0 vs0 H0).
Qed.

(* ---------------- 3b: the depth-first traversal ---------------- *)
Section DfsProofs.
  Variable defs : nat -> option tdef.
  Variable pre : nat -> list nat.
  Variable clo : nat -> list nat.

  Definition keys_reg (st : dstate) : Prop :=
    forall n k, lookup (tab st) n = Some k -> In n (reg st).
  Definition DInv (st : dstate) : Prop := keys_reg st /\ PInv defs (tab st).
  (* what a visit may do: register more, finish more, never touch an entry of a type that was
     already registered when it started *)
  Definition ext (st st' : dstate) : Prop :=
    incl (reg st) (reg st') /\ sub (tab st) (tab st') /\
    (forall n, In n (reg st) -> lookup (tab st') n = lookup (tab st) n).

  Lemma ext_refl : forall st, ext st st.
  Proof. intro st. split; [apply incl_refl|]. split; [apply sub_refl|]. reflexivity. Qed.

  Lemma ext_trans : forall a b c, ext a b -> ext b c -> ext a c.
  Proof.
    intros a b c (I1 & S1 & F1) (I2 & S2 & F2). split; [eapply incl_tran; eassumption|].
    split; [eapply sub_trans; eassumption|].
    intros n Hn. rewrite F2 by (apply I1; exact Hn). apply F1. exact Hn.
  Qed.

  Definition step_ok (F : nat -> dstate -> dstate) : Prop :=
    forall t st, DInv st -> DInv (F t st) /\ ext st (F t st).

  Lemma many_ok : forall F, step_ok F -> forall l st, DInv st ->
    DInv (fold_left (fun s n => F n s) l st) /\ ext st (fold_left (fun s n => F n s) l st).
  Proof.
    intros F HF l. induction l as [|n l IH]; intros st HI; simpl.
    - split; [exact HI | apply ext_refl].
    - destruct (HF n st HI) as [HI1 E1]. destruct (IH (F n st) HI1) as [HI2 E2].
      split; [exact HI2 | eapply ext_trans; eassumption].
  Qed.

  Lemma memb_false : forall n l, memb n l = false -> ~ In n l.
  Proof.
    intros n l H Hin. unfold memb in H.
    assert (existsb (Nat.eqb n) l = true).
    { apply existsb_exists. exists n. split; [exact Hin | apply Nat.eqb_refl]. }
    congruence.
  Qed.

  Lemma unregistered_unfinished : forall st t, keys_reg st -> ~ In t (reg st) -> lookup (tab st) t = None.
  Proof.
    intros st t K H. destruct (lookup (tab st) t) as [k|] eqn:E; [|reflexivity].
    exfalso. apply H. eapply K. exact E.
  Qed.

  (* finishing t on top of a state reached from "t just registered" *)
  Lemma finish_ok : forall st0 st2 t k,
    DInv st0 -> ~ In t (reg st0) ->
    DInv st2 -> ext (mkd (t :: reg st0) (tab st0)) st2 ->
    entry_ok defs (tab st2) t k ->
    let st' := mkd (reg st2) ((t, k) :: tab st2) in
    DInv st' /\ ext st0 st'.
  Proof.
    intros st0 st2 t k [K0 P0] Hnot [K2 P2] (I & S & Fz) Hk st'. simpl in I, S, Fz.
    assert (Ht0 : lookup (tab st0) t = None) by (apply unregistered_unfinished; assumption).
    assert (Ht2 : lookup (tab st2) t = None).
    { rewrite Fz; [exact Ht0 | left; reflexivity]. }
    split; [split|].
    - unfold st'. intros n k' Hn. simpl in *. destruct (Nat.eqb t n) eqn:E.
      + apply Nat.eqb_eq in E. subst n. apply I. left. reflexivity.
      + eapply K2. exact Hn.
    - unfold st'. cbn [tab]. apply PInv_add; assumption.
    - unfold st'. split; [|split]; cbn [reg tab].
      + intros n Hn. apply I. right. exact Hn.
      + eapply sub_trans; [exact S|]. apply sub_cons. exact Ht2.
      + intros n Hn. assert (n <> t) by (intros ->; exact (Hnot Hn)).
        rewrite lookup_cons_ne by assumption. apply Fz. right. exact Hn.
  Qed.

  Lemma visit_ok : forall fuel, step_ok (visit defs pre clo fuel).
  Proof.
    induction fuel as [|f IH]; intros t st HI.
    - simpl. split; [exact HI | apply ext_refl].
    - cbn [visit].
      destruct (many_ok _ IH (pre t) st HI) as [HI0 E0].
      set (st0 := fold_left (fun s n => visit defs pre clo f n s) (pre t) st) in *.
      destruct (memb t (reg st0)) eqn:Hm.
      + split; assumption.
      + apply memb_false in Hm.
        set (st1 := mkd (t :: reg st0) (tab st0)).
        assert (HI1 : DInv st1).
        { destruct HI0 as [K0 P0]. split; [|exact P0].
          intros n k Hn. right. eapply K0. exact Hn. }
        assert (E01 : ext st0 st1).
        { split; [intros n Hn; right; exact Hn|]. split; [apply sub_refl|]. reflexivity. }
        destruct (defs t) as [[tys|vs]|] eqn:Hd.
        * destruct (many_ok _ IH (ty_ids tys) st1 HI1) as [HI2 E2].
          set (st2 := fold_left (fun s n => visit defs pre clo f n s) (ty_ids tys) st1) in *.
          destruct (finish_ok st0 st2 t KStruct HI0 Hm HI2 E2) as [HI' E'].
          { simpl. exists tys. exact Hd. }
          split; [exact HI' | eapply ext_trans; eassumption].
        * destruct (many_ok _ IH (ty_ids (first_data vs)) st1 HI1) as [HI2 E2].
          set (st2 := fold_left (fun s n => visit defs pre clo f n s) (ty_ids (first_data vs)) st1) in *.
          destruct (many_ok _ IH (ty_ids (concat (after_first_data vs))) st2 HI2) as [HI3 E3].
          set (st3 := fold_left (fun s n => visit defs pre clo f n s)
                                (ty_ids (concat (after_first_data vs))) st2) in *.
          destruct (finish_ok st0 st3 t (KEnum (choose_layout (fin_of (tab st2)) vs)) HI0 Hm HI3)
            as [HI' E'].
          { eapply ext_trans; eassumption. }
          { simpl. exists vs, (tab st2). split; [exact Hd|]. split; [reflexivity|]. split.
            - destruct E2 as (_ & _ & Fz). rewrite Fz by (left; reflexivity). simpl.
              apply unregistered_unfinished; [exact (proj1 HI0) | exact Hm].
            - exact (proj1 (proj2 E3)). }
          split; [exact HI' | eapply ext_trans; eassumption].
        * destruct (many_ok _ IH (clo t) st1 HI1) as [HI2 E2].
          split; [exact HI2|]. eapply ext_trans; [exact E0|]. eapply ext_trans; eassumption.
  Qed.

  Lemma dfs_inv : forall fuel roots, DInv (dfs defs pre clo fuel roots).
  Proof.
    intros fuel roots. unfold dfs.
    apply (many_ok _ (visit_ok fuel) roots (mkd [] [])).
    split; [intros n k H; discriminate H | apply PInv_nil].
  Qed.

  Lemma dfs_wf : forall fuel roots,
    let T := tab (dfs defs pre clo fuel roots) in
    wf_layouts (restrict defs T) (L_of_table T).
  Proof. intros fuel roots T. apply PInv_wf. apply (dfs_inv fuel roots). Qed.
End DfsProofs.

Lemma wf_layouts_ext : forall d1 d2 L, (forall n, d1 n = d2 n) -> wf_layouts d1 L -> wf_layouts d2 L.
Proof.
  intros d1 d2 L E H e vs Hd. rewrite <- E in Hd. destruct (H e vs Hd) as (fin & HL & Hs & Hf).
  exists fin. split; [exact HL|]. split; [exact Hs|]. intro n. rewrite <- E. apply Hf.
Qed.

(* two traversals (different entry order, different type-argument / closure structure handed to
   them, different fuel) that specialised the same set of types cannot be told apart *)
Lemma dfs_unobservable : forall defs pre1 clo1 fuel1 roots1 pre2 clo2 fuel2 roots2,
  let T1 := tab (dfs defs pre1 clo1 fuel1 roots1) in
  let T2 := tab (dfs defs pre2 clo2 fuel2 roots2) in
  (forall n, lookup T1 n = None <-> lookup T2 n = None) ->
  let sdefs := restrict defs T1 in
  forall e k args vs, sdefs e = Some (DEnum vs) ->
  has_type sdefs (VEnum e k args) (TId e) ->
  forall j, j < length vs ->
  let L1 := L_of_table T1 in
  let L2 := L_of_table T2 in
  test_variant L1 e j (encode L1 (VEnum e k args)) = test_variant L2 e j (encode L2 (VEnum e k args)) /\
  test_variant_emitted L1 e j (encode L1 (VEnum e k args)) =
    test_variant_emitted L2 e j (encode L2 (VEnum e k args)) /\
  test_variant_emitted L1 e j (encode L1 (VEnum e k args)) = Some (Nat.eqb j k).
Proof.
  intros defs pre1 clo1 fuel1 roots1 pre2 clo2 fuel2 roots2 T1 T2 Hsame sdefs e k args vs Hd Hty j Hj L1 L2.
  apply (wf_unobservable sdefs L1 L2) with (vs := vs); try assumption.
  - apply dfs_wf.
  - apply (wf_layouts_ext (restrict defs T2)); [|apply dfs_wf].
    intro n. unfold sdefs, restrict. specialize (Hsame n).
    destruct (lookup T1 n), (lookup T2 n); try reflexivity.
    + destruct Hsame as [_ H]. specialize (H eq_refl). discriminate H.
    + destruct Hsame as [H _]. specialize (H eq_refl). discriminate H.
Qed.

(* ---------------- the witness ---------------- *)

Lemma witness_tables :
  w_tab_E_first = [(0, KEnum [RUnboxed 1]); (1, KEnum [RBoxed [TId 0]; RBoxed [TInt]])] /\
  w_tab_F_first = [(1, KEnum [RBoxed [TId 0]; RBoxed [TInt]]); (0, KEnum [RBoxed [TId 1]])] /\
  w_tab_E_first = process w_defs [1; 0] /\
  w_tab_F_first = process w_defs [0; 1].
Proof. vm_compute. repeat split; reflexivity. Qed.

Lemma layout_order_dependent :
  L_of_table w_tab_E_first 0 = [RUnboxed 1] /\
  L_of_table w_tab_F_first 0 = [RBoxed [TId 1]] /\
  L_of_table w_tab_E_first 1 = L_of_table w_tab_F_first 1 /\
  has_type w_defs w_ea (TId 0) /\
  encode (L_of_table w_tab_E_first) w_ea <> encode (L_of_table w_tab_F_first) w_ea.
Proof.
  split; [vm_compute; reflexivity|]. split; [vm_compute; reflexivity|].
  split; [vm_compute; reflexivity|]. split.
  - eapply HT_enum; [reflexivity | reflexivity |].
    constructor; [|constructor].
    eapply HT_enum; [reflexivity | reflexivity |].
    constructor; [constructor | constructor].
  - vm_compute. discriminate.
Qed.

Lemma witness_checked :
  wf_layoutsb w_E (layouts_of_table w_tab_E_first) = true /\
  wf_layoutsb w_E (layouts_of_table w_tab_F_first) = true /\
  (forall n, L_of (layouts_of_table w_tab_E_first) n = L_of_table w_tab_E_first n) /\
  (forall n, L_of (layouts_of_table w_tab_F_first) n = L_of_table w_tab_F_first n).
Proof.
  split; [vm_compute; reflexivity|]. split; [vm_compute; reflexivity|].
  split; intro n; (destruct n as [|[|n]]; vm_compute; reflexivity).
Qed.

Lemma layout_order_harmless :
  forall T, T = w_tab_E_first \/ T = w_tab_F_first ->
  wf_layoutsb w_E (layouts_of_table T) = true /\
  wf_layouts w_defs (L_of (layouts_of_table T)) /\
  (forall e k args vs, w_defs e = Some (DEnum vs) ->
     has_type w_defs (VEnum e k args) (TId e) ->
     forall j, j < length vs ->
     (test_variant (L_of (layouts_of_table T)) e j
        (encode (L_of (layouts_of_table T)) (VEnum e k args)) = true <-> j = k)) /\
  (forall t v1 v2, has_type w_defs v1 t -> has_type w_defs v2 t ->
     encode (L_of (layouts_of_table T)) v1 = encode (L_of (layouts_of_table T)) v2 -> v1 = v2).
Proof.
  intros T HT.
  assert (Hb : wf_layoutsb w_E (layouts_of_table T) = true).
  { destruct HT as [->| ->]; vm_compute; reflexivity. }
  split; [exact Hb|]. split; [apply wf_layoutsb_sound; exact Hb|]. split.
  - apply discriminate_correct_checked. exact Hb.
  - apply encode_injective_checked. exact Hb.
Qed.

Lemma witness_differs :
  L_of_table (tab (dfs w_defs w_none w_none 10 [0; 1])) 0 <>
  L_of_table (tab (dfs w_defs w_none w_none 10 [1; 0])) 0.
Proof. vm_compute. discriminate. Qed.

Lemma layout_order_independent_refuted :
  exists defs pre clo fuel roots1 roots2 e,
    Permutation roots1 roots2 /\
    L_of_table (tab (dfs defs pre clo fuel roots1)) e <>
    L_of_table (tab (dfs defs pre clo fuel roots2)) e.
Proof.
  exists w_defs, w_none, w_none, 10, [0; 1], [1; 0], 0. split; [apply perm_swap | exact witness_differs].
Qed.

Lemma witness_typed : has_type w_defs w_ea (TId 0) /\ has_type w_defs w_fb (TId 1).
Proof.
  assert (Hfc : has_type w_defs w_fc (TId 1)).
  { eapply HT_enum; [reflexivity | reflexivity |]. constructor; [constructor | constructor]. }
  assert (Hea : has_type w_defs w_ea (TId 0)).
  { eapply HT_enum; [reflexivity | reflexivity |]. constructor; [exact Hfc | constructor]. }
  split; [exact Hea|].
  eapply HT_enum; [reflexivity | reflexivity |]. constructor; [exact Hea | constructor].
Qed.

Lemma witness_values :
  has_type w_defs w_ea (TId 0) /\ has_type w_defs w_fb (TId 1) /\
  encode (L_of_table w_tab_E_first) w_fb =
    RRef (NSub 1 0) [RInt 1; RRef (NSub 1 1) [RInt 3; RInt 7]] /\
  encode (L_of_table w_tab_F_first) w_fb =
    RRef (NSub 1 0) [RInt 1; RRef (NSub 0 0) [RInt 1; RRef (NSub 1 1) [RInt 3; RInt 7]]] /\
  map (fun j => test_variant (L_of_table w_tab_E_first) 1 j (encode (L_of_table w_tab_E_first) w_fb)) [0; 1]
    = [true; false] /\
  map (fun j => test_variant (L_of_table w_tab_F_first) 1 j (encode (L_of_table w_tab_F_first) w_fb)) [0; 1]
    = [true; false] /\
  test_variant (L_of_table w_tab_E_first) 0 0 (encode (L_of_table w_tab_E_first) w_ea) = true /\
  test_variant (L_of_table w_tab_F_first) 0 0 (encode (L_of_table w_tab_F_first) w_ea) = true.
Proof.
  split; [exact (proj1 witness_typed)|]. split; [exact (proj2 witness_typed)|].
  vm_compute. repeat split; reflexivity.
Qed.

(* ---------------- the loop asks type_permit_enum_boxed_optimization at most once ---------------- *)
(* ... namely about the single field of the first data-carrying variant; this is why deciding the
   whole enum against the snapshot taken right after that variant's fields were rewritten
   ([snap] in Model.visit) is the same as the compiler's interleaved evaluation *)
Lemma decide_noquery : forall pm pm' vs acc pending,
  decide_with pm vs acc false pending = decide_with pm' vs acc false pending.
Proof.
  intros pm pm' vs. induction vs as [|tys vs IH]; intros acc pending; [reflexivity|].
  destruct tys as [|t tl]; [apply IH|].
  destruct pending as [[i t0]|]; simpl; apply IH.
Qed.

Lemma layout_query_once : forall pm pm' vs,
  (forall t, first_data vs = [TId t] -> pm (TId t) = pm' (TId t)) ->
  choose_layout_with pm vs = choose_layout_with pm' vs.
Proof.
  intros pm pm' vs. unfold choose_layout_with. generalize (@nil vrepr).
  induction vs as [|tys vs IH]; intros acc H; [reflexivity|].
  destruct tys as [|t tl].
  - apply IH. exact H.
  - destruct t as [| |n]; try (simpl; apply decide_noquery).
    destruct tl as [|t' tl']; [|simpl; apply decide_noquery].
    simpl. rewrite <- (H n eq_refl). destruct (pm (TId n)); apply decide_noquery.
Qed.
