(* C12 — compilation results depend only on the sources, not on hashing or scheduling: the
   property theorems (model: Model.v).  Nothing but statements closed by `exact`, non-vacuity
   examples and the Print Assumptions.  Parsed by /verif/check. *)
From Coq Require Import List Arith Bool NArith ZArith Sorted Permutation.
Import ListNotations.
From SV Require Import C01.Model C01.Typing C01.Corr.
From SV Require C01.Examples.
From SV Require C17.Model.
From SV Require Import C12.Model C12.Proofs C12.ProofsLayout.

(* ------------------------------------------------------------------------------------------ *)
(* 1. diagnostics: the merged error set does not depend on the order the modules were checked  *)
(* ------------------------------------------------------------------------------------------ *)

(* whatever order the parallel iterator over the HashMap delivered the per-module results in,
   merging them one after the other gives the same BTreeSet iteration sequence *)
Theorem C12_merge_order_irrelevant : forall (A : Type) (cmp : A -> A -> comparison),
  total_order cmp ->
  forall rs rs' : list (list A), Permutation rs rs' -> merge_all cmp rs = merge_all cmp rs'.
Proof. exact merge_order_irrelevant. Qed.

(* ... and so does any reduction tree of `merge`s over any permutation of the local sets *)
Theorem C12_merge_association_irrelevant : forall (A : Type) (cmp : A -> A -> comparison),
  total_order cmp ->
  forall t t' : mtree A, Permutation (leaves t) (leaves t') -> eval cmp t = eval cmp t'.
Proof. exact merge_association_irrelevant. Qed.

Theorem C12_merge_tree_is_sequential : forall (A : Type) (cmp : A -> A -> comparison),
  total_order cmp -> forall t : mtree A, eval cmp t = merge_all cmp (leaves t).
Proof. exact eval_is_merge_all. Qed.

(* the result is the strictly sorted, duplicate-free sequence of exactly the reported errors:
   the sorted dedup of the concatenation; such a sequence is unique, so the rendered text is a
   function of the set of reported errors *)
Theorem C12_merged_is_sorted_union : forall (A : Type) (cmp : A -> A -> comparison),
  total_order cmp ->
  forall rs : list (list A),
  is_set cmp (merge_all cmp rs) /\ NoDup (merge_all cmp rs) /\
  (forall z, In z (merge_all cmp rs) <-> In z (concat rs)) /\
  merge_all cmp rs = of_reports cmp (concat rs).
Proof. exact merged_is_sorted_union. Qed.

Theorem C12_set_sequence_unique : forall (A : Type) (cmp : A -> A -> comparison),
  total_order cmp ->
  forall s1 s2 : list A, is_set cmp s1 -> is_set cmp s2 ->
  (forall x, In x s1 <-> In x s2) -> s1 = s2.
Proof. exact set_unique. Qed.

(* verdict and rendered text *)
Theorem C12_diagnostics_order_irrelevant : forall (A : Type) (cmp : A -> A -> comparison),
  total_order cmp ->
  forall (B : Type) (pr : A -> list B) (rs rs' : list (list A)),
  (forall z, In z (concat rs) <-> In z (concat rs')) ->
  has_errors (merge_all cmp rs) = has_errors (merge_all cmp rs') /\
  rendered pr (merge_all cmp rs) = rendered pr (merge_all cmp rs').
Proof. exact diagnostics_order_irrelevant. Qed.

(* ------------------------------------------------------------------------------------------ *)
(* 2. temporaries taken from the shared counter by concurrently optimised functions            *)
(* ------------------------------------------------------------------------------------------ *)

(* under EVERY schedule (as long as the u32 does not wrap): the log assigns the fetch_adds to the
   threads of the schedule; the ids are start, start+1, ... in order; ids and names are pairwise
   distinct; a name determines the log entry; every thread's names are distinct from every
   other thread's; the ids handed out are exactly {start, ..., start+n-1} *)
Theorem C12_fresh_names_injective : forall start sched,
  (start + N.of_nat (length sched) <= wrap)%N ->
  let log := fst (run_sched start sched) in
  map fst log = sched /\
  ids log = nseq start (length sched) /\
  NoDup (ids log) /\
  NoDup (names log) /\
  (forall p q, In p log -> In q log -> name_of (snd p) = name_of (snd q) -> p = q) /\
  (forall t, NoDup (ids_of_thread t log)) /\
  (forall t1 t2 i1 i2, t1 <> t2 -> In i1 (ids_of_thread t1 log) -> In i2 (ids_of_thread t2 log) ->
                       name_of i1 <> name_of i2) /\
  (forall id, In id (ids log) <-> (start <= id < start + N.of_nat (length sched))%N).
Proof. exact fresh_names. Qed.

(* "_t{id}" is injective on ids below 10^40 (the model's [dec] has fuel 40), in particular on
   all u32 ids; C17's temp_name is the same function *)
Theorem C12_temp_name_injective : forall a b : N,
  (a < dec_exact_bound)%N -> (b < dec_exact_bound)%N -> name_of a = name_of b -> a = b.
Proof. exact name_of_injective. Qed.

Theorem C12_dec_injective : forall a b : N,
  (a < dec_exact_bound)%N -> (b < dec_exact_bound)%N -> C17.Model.dec a = C17.Model.dec b -> a = b.
Proof. exact dec_injective. Qed.

Theorem C12_temp_name_is_C17 : forall id : nat, C17.Model.temp_name id = name_of (N.of_nat id).
Proof. exact temp_name_is_name_of. Qed.

Theorem C12_u32_ids_in_exact_range : (wrap <= dec_exact_bound)%N.
Proof. exact wrap_below_bound. Qed.

(* which names exist after the parallel phase does not depend on the schedule *)
Theorem C12_ids_schedule_independent : forall start sched sched',
  length sched = length sched' -> (start + N.of_nat (length sched) <= wrap)%N ->
  ids (fst (run_sched start sched)) = ids (fst (run_sched start sched')).
Proof. exact ids_schedule_independent. Qed.

(* after sync_temp_counter every id handed out is below the table length, so the heap's own
   alloc_temp_str cannot repeat one of them *)
Theorem C12_sync_covers : forall start sched,
  (start + N.of_nat (length sched) < wrap)%N ->
  let (log, cf) := run_sched start sched in
  forall id, In id (ids log) -> (id < table_len_after_sync start cf)%N.
Proof. exact sync_covers. Qed.

(* ------------------------------------------------------------------------------------------ *)
(* 3. order of specialisation                                                                   *)
(* ------------------------------------------------------------------------------------------ *)

(* "choose_layout gives the same representation for every specialisation order" is FALSE:
   class E(A(F)), class F(B(E), C(int)); reaching E first makes E = [Unboxed F], reaching F
   first makes E = [Boxed [F]] *)
Theorem C12_layout_order_independent_refuted :
  exists defs pre clo fuel roots1 roots2 e,
    Permutation roots1 roots2 /\
    L_of_table (tab (dfs defs pre clo fuel roots1)) e <>
    L_of_table (tab (dfs defs pre clo fuel roots2)) e.
Proof. exact layout_order_independent_refuted. Qed.

Theorem C12_layout_order_dependent :
  L_of_table w_tab_E_first 0 = [RUnboxed 1] /\
  L_of_table w_tab_F_first 0 = [RBoxed [TId 1]] /\
  L_of_table w_tab_E_first 1 = L_of_table w_tab_F_first 1 /\
  has_type w_defs w_ea (TId 0) /\
  encode (L_of_table w_tab_E_first) w_ea <> encode (L_of_table w_tab_F_first) w_ea.
Proof. exact layout_order_dependent. Qed.

(* both tables of the witness pass the C01 dump check, hence under either discrimination is
   exact and the encoding is injective *)
Theorem C12_layout_order_harmless :
  forall T, T = w_tab_E_first \/ T = w_tab_F_first ->
  wf_layoutsb w_E (layouts_of_table T) = true /\
  wf_layouts w_defs (L_of (layouts_of_table T)) /\
  (forall e k args vs, w_defs e = Some (DEnum vs) ->
     has_type w_defs (VEnum e k args) (TId e) ->
     forall j, j < length vs ->
     (test_variant (L_of (layouts_of_table T)) e j
        (encode (L_of (layouts_of_table T)) (VEnum e k args)) = true <-> j = k)) /\
  (forall t v1 v2, has_type w_defs v1 t -> has_type w_defs v2 t ->
     encode (L_of (layouts_of_table T)) v1 = encode (L_of (layouts_of_table T)) v2 -> v1 = v2).
Proof. exact layout_order_harmless. Qed.

(* in general: finishing the definitions in ANY order, each decided against what was finished
   before it, yields layouts that satisfy the hypothesis of the C01 theorems *)
Theorem C12_any_order_wf : forall defs order,
  NoDup order -> (forall e vs, defs e = Some (DEnum vs) -> In e order) ->
  wf_layouts defs (L_final defs order).
Proof. exact any_order_wf. Qed.

(* ... so no compiled match can tell two orders apart: the test of variant j on a variant-k
   value answers (j = k) under both *)
Theorem C12_any_order_unobservable : forall defs order1 order2,
  NoDup order1 -> NoDup order2 ->
  (forall e vs, defs e = Some (DEnum vs) -> In e order1 /\ In e order2) ->
  forall e k args vs, defs e = Some (DEnum vs) ->
  has_type defs (VEnum e k args) (TId e) ->
  forall j, j < length vs ->
  let L1 := L_final defs order1 in
  let L2 := L_final defs order2 in
  test_variant L1 e j (encode L1 (VEnum e k args)) = test_variant L2 e j (encode L2 (VEnum e k args)) /\
  test_variant_emitted L1 e j (encode L1 (VEnum e k args)) =
    test_variant_emitted L2 e j (encode L2 (VEnum e k args)) /\
  test_variant_emitted L1 e j (encode L1 (VEnum e k args)) = Some (Nat.eqb j k).
Proof. exact any_order_unobservable. Qed.

(* the same for the depth-first traversal of rewrite_id_type itself, from any sequence of
   entry types, with any fuel: the table it builds satisfies the hypothesis of the C01 theorems
   for the types it specialised *)
Theorem C12_dfs_wf : forall defs pre clo fuel roots,
  let T := tab (dfs defs pre clo fuel roots) in
  wf_layouts (restrict defs T) (L_of_table T).
Proof. exact dfs_wf. Qed.

Theorem C12_dfs_unobservable : forall defs pre1 clo1 fuel1 roots1 pre2 clo2 fuel2 roots2,
  let T1 := tab (dfs defs pre1 clo1 fuel1 roots1) in
  let T2 := tab (dfs defs pre2 clo2 fuel2 roots2) in
  (forall n, lookup T1 n = None <-> lookup T2 n = None) ->
  let sdefs := restrict defs T1 in
  forall e k args vs, sdefs e = Some (DEnum vs) ->
  has_type sdefs (VEnum e k args) (TId e) ->
  forall j, j < length vs ->
  let L1 := L_of_table T1 in
  let L2 := L_of_table T2 in
  test_variant L1 e j (encode L1 (VEnum e k args)) = test_variant L2 e j (encode L2 (VEnum e k args)) /\
  test_variant_emitted L1 e j (encode L1 (VEnum e k args)) =
    test_variant_emitted L2 e j (encode L2 (VEnum e k args)) /\
  test_variant_emitted L1 e j (encode L1 (VEnum e k args)) = Some (Nat.eqb j k).
Proof. exact dfs_unobservable. Qed.

(* the variant loop asks type_permit_enum_boxed_optimization at most once, about the single
   field of the first data-carrying variant: deciding the whole enum against the snapshot taken
   right after that variant's fields were rewritten (Model.visit) equals the compiler's
   interleaved evaluation *)
Theorem C12_layout_query_once : forall pm pm' vs,
  (forall t, first_data vs = [TId t] -> pm (TId t) = pm' (TId t)) ->
  choose_layout_with pm vs = choose_layout_with pm' vs.
Proof. exact layout_query_once. Qed.

(* ---- non-vacuity ---- *)

Example C12_nonvacuous_order : total_order nat_cmp.
Proof. exact nat_cmp_total. Qed.

(* three modules reporting [5;1], [3;1], [9;3;2] in report order: the six delivery orders and
   two reduction trees all give [1;2;3;5;9] *)
Example C12_nonvacuous_merge :
  let a := of_reports nat_cmp [5; 1] in
  let b := of_reports nat_cmp [3; 1] in
  let c := of_reports nat_cmp [9; 3; 2] in
  map (merge_all nat_cmp) [[a; b; c]; [a; c; b]; [b; a; c]; [b; c; a]; [c; a; b]; [c; b; a]] =
    repeat [1; 2; 3; 5; 9] 6 /\
  eval nat_cmp (Node (Leaf [9; 3; 2]) (Node (Leaf [3; 1]) (Leaf [5; 1]))) = [1; 2; 3; 5; 9] /\
  eval nat_cmp (Node (Node (Leaf [3; 1]) (Leaf [9; 3; 2])) (Leaf [5; 1])) = [1; 2; 3; 5; 9] /\
  has_errors (merge_all nat_cmp [a; b; c]) = true /\
  rendered (fun n => [n; 0]) (merge_all nat_cmp [a; b; c]) = ([1; 0; 2; 0; 3; 0; 5; 0; 9; 0], 5).
Proof. vm_compute. repeat split; reflexivity. Qed.

(* the same five fetch_adds under two schedules: same names, different owners *)
Example C12_nonvacuous_sched :
  fst (run_sched 17 [0; 1; 0; 2; 1]) = [(0, 17%N); (1, 18%N); (0, 19%N); (2, 20%N); (1, 21%N)] /\
  fst (run_sched 17 [2; 2; 1; 0; 0]) = [(2, 17%N); (2, 18%N); (1, 19%N); (0, 20%N); (0, 21%N)] /\
  snd (run_sched 17 [0; 1; 0; 2; 1]) = 22%N /\
  ids_of_thread 1 (fst (run_sched 17 [0; 1; 0; 2; 1])) = [18; 21]%N /\
  names (fst (run_sched 17 [0; 1])) = [[95; 116; 49; 55]; [95; 116; 49; 56]]%N /\
  table_len_after_sync 17 22 = 22%N.
Proof. vm_compute. repeat split; reflexivity. Qed.

(* the bounds in the statements are needed: at the u32 boundary the counter wraps (id 0 is
   handed out again, and sync_temp_counter pads nothing), and [dec] truncates at 10^40 *)
Example C12_nonvacuous_bounds :
  ids (fst (run_sched (wrap - 1) [0; 1])) = [wrap - 1; 0]%N /\
  snd (run_sched (wrap - 1) [0]) = 0%N /\
  table_len_after_sync (wrap - 1) 0 = (wrap - 1)%N /\
  C17.Model.dec dec_exact_bound = C17.Model.dec (2 * dec_exact_bound)%N /\
  name_of 4294967295 = [95; 116; 52; 50; 57; 52; 57; 54; 55; 50; 57; 53]%N.
Proof. vm_compute. repeat split; reflexivity. Qed.

(* the two tables of the witness; they are also what the abstract model computes for the two
   finishing orders *)
Example C12_nonvacuous_tables :
  w_tab_E_first = [(0, KEnum [RUnboxed 1]); (1, KEnum [RBoxed [TId 0]; RBoxed [TInt]])] /\
  w_tab_F_first = [(1, KEnum [RBoxed [TId 0]; RBoxed [TInt]]); (0, KEnum [RBoxed [TId 1]])] /\
  w_tab_E_first = process w_defs [1; 0] /\
  w_tab_F_first = process w_defs [0; 1].
Proof. exact witness_tables. Qed.

(* the values E.A(F.C(7)) and F.B(E.A(F.C(7))) are well typed, are represented differently
   under the two tables, and every test answers the same *)
Example C12_nonvacuous_values :
  has_type w_defs w_ea (TId 0) /\ has_type w_defs w_fb (TId 1) /\
  encode (L_of_table w_tab_E_first) w_fb =
    RRef (NSub 1 0) [RInt 1; RRef (NSub 1 1) [RInt 3; RInt 7]] /\
  encode (L_of_table w_tab_F_first) w_fb =
    RRef (NSub 1 0) [RInt 1; RRef (NSub 0 0) [RInt 1; RRef (NSub 1 1) [RInt 3; RInt 7]]] /\
  map (fun j => test_variant (L_of_table w_tab_E_first) 1 j (encode (L_of_table w_tab_E_first) w_fb)) [0; 1]
    = [true; false] /\
  map (fun j => test_variant (L_of_table w_tab_F_first) 1 j (encode (L_of_table w_tab_F_first) w_fb)) [0; 1]
    = [true; false] /\
  test_variant (L_of_table w_tab_E_first) 0 0 (encode (L_of_table w_tab_E_first) w_ea) = true /\
  test_variant (L_of_table w_tab_F_first) 0 0 (encode (L_of_table w_tab_F_first) w_ea) = true.
Proof. exact witness_values. Qed.

(* the traversal on the C01 example environment (struct, self and mutual recursion through i31
   variants, nested options, all-boxed payload, reverted first variant) from two entry orders
   reproduces the layouts of C01.Examples (here the order makes no difference) *)
Example C12_nonvacuous_dfs :
  map (L_of_table (tab (dfs C01.Examples.ex_defs w_none w_none 20 [1; 2; 3; 4; 5; 6; 7; 8])))
      [1; 2; 3; 4; 5; 6; 7; 8] = map C01.Examples.ex_L [1; 2; 3; 4; 5; 6; 7; 8] /\
  map (L_of_table (tab (dfs C01.Examples.ex_defs w_none w_none 20 [8; 7; 6; 5; 4; 3; 2; 1])))
      [1; 2; 3; 4; 5; 6; 7; 8] = map C01.Examples.ex_L [1; 2; 3; 4; 5; 6; 7; 8] /\
  map fst (tab (dfs C01.Examples.ex_defs w_none w_none 20 [5])) = [5; 4; 0].
Proof. vm_compute. repeat split; reflexivity. Qed.

Print Assumptions C12_merge_order_irrelevant.
Print Assumptions C12_merge_association_irrelevant.
Print Assumptions C12_merge_tree_is_sequential.
Print Assumptions C12_merged_is_sorted_union.
Print Assumptions C12_set_sequence_unique.
Print Assumptions C12_diagnostics_order_irrelevant.
Print Assumptions C12_fresh_names_injective.
Print Assumptions C12_temp_name_injective.
Print Assumptions C12_dec_injective.
Print Assumptions C12_temp_name_is_C17.
Print Assumptions C12_u32_ids_in_exact_range.
Print Assumptions C12_ids_schedule_independent.
Print Assumptions C12_sync_covers.
Print Assumptions C12_layout_order_independent_refuted.
Print Assumptions C12_layout_order_dependent.
Print Assumptions C12_layout_order_harmless.
Print Assumptions C12_any_order_wf.
Print Assumptions C12_any_order_unobservable.
Print Assumptions C12_dfs_wf.
Print Assumptions C12_dfs_unobservable.
Print Assumptions C12_layout_query_once.
