(* C13 — type inference is stable under meaning-preserving rewrites of the source.
   Model of the part of the checker that makes the order of declarations irrelevant:
   crates/samlang-checker/src/global_signature.rs, build_module_signature / build_global_signature.

   Definitions only.

   What the code does.  Signatures are collected into hash maps BEFORE any body is checked:
     for toplevel in &module.toplevels {
       let mut functions = HashMap::new();  let mut methods = HashMap::new();
       for member in toplevel.members_iter() {
         if member.is_method { methods.insert(name, sig) } else if is_class { functions.insert(name, sig) }
       }
       // struct class: functions.insert(init, ctor)       enum class: for variant { functions.insert(variant, ctor) }
       interfaces.insert(toplevel_name, InterfaceSignature { functions, methods, <rest> });
     }
   and build_global_signature maps this over the modules (a HashMap keyed by module reference; module
   references are unique keys by construction of the source map).
   `HashMap::insert` REPLACES the value of a key that is already present: the LAST declaration of a
   name wins.  Every entry is a function of its own declaration only (checked against the real code by
   checks/c13.py, layer B: the signature of a module is compared with the fold below applied to the
   signatures the real function computes for each declaration alone).

   What is abstracted: names are numbers (PStr / ModuleReference are only compared and hashed); the
   signature of a member (MemberSignature) and the non-map part of an InterfaceSignature (private flag,
   type definition, type parameters, super types) are opaque values of arbitrary types `Sg` and `R`. *)
From Coq Require Import List Arith Bool Permutation.
Import ListNotations.
From SV Require Import TypeKernel.Model.

(* ------------------------------------------------------------------ HashMap<name, V> *)

Section Map.
  Context {V : Type}.

  Definition amap := list (nat * V).

  Fixpoint get (m : amap) (k : nat) : option V :=
    match m with
    | [] => None
    | (k', v) :: m' => if Nat.eqb k k' then Some v else get m' k
    end.

  Fixpoint remove_key (k : nat) (m : amap) : amap :=
    match m with
    | [] => []
    | (k', v) :: m' => if Nat.eqb k k' then remove_key k m' else (k', v) :: remove_key k m'
    end.

  (* HashMap::insert: the old value of the key, if any, is replaced; a map never holds a key twice *)
  Definition insert (k : nat) (v : V) (m : amap) : amap := (k, v) :: remove_key k m.

  (* `for d in decls { map.insert(name(d), sig(d)) }` *)
  Definition build (ds : list (nat * V)) : amap :=
    fold_left (fun m d => insert (fst d) (snd d) m) ds [].

  Definition keys (m : amap) : list nat := map fst m.

  (* the last declaration of a name in source order *)
  Fixpoint last_decl (ds : list (nat * V)) (k : nat) : option V :=
    match ds with
    | [] => None
    | (k', v) :: ds' =>
        match last_decl ds' k with
        | Some w => Some w
        | None => if Nat.eqb k k' then Some v else None
        end
    end.
End Map.

Arguments amap V : clear implicits.

(* two maps with the same content (what every later lookup of the checker can observe) *)
Definition map_equiv {V} (a b : amap V) : Prop := forall k, get a k = get b k.

(* ------------------------------------------------------------------ declarations *)

Section Sig.
  Context {Sg R : Type}.

  Record member := Member { m_name : nat; m_is_method : bool; m_sig : Sg }.

  (* t_ctors: the constructor entries the type definition contributes (`init` of a struct class, one
     per variant of an enum class, none for an interface or a class without type definition), in the
     order the code inserts them — AFTER the members *)
  Record toplevel := Toplevel {
    t_name : nat; t_is_class : bool; t_members : list member; t_ctors : list (nat * Sg); t_rest : R }.

  Record isig := ISig { functions : amap Sg; methods : amap Sg; rest : R }.

  Definition fn_entries (t : toplevel) : list (nat * Sg) :=
    if t_is_class t
    then map (fun m => (m_name m, m_sig m)) (filter (fun m => negb (m_is_method m)) (t_members t))
    else [].

  Definition method_entries (t : toplevel) : list (nat * Sg) :=
    map (fun m => (m_name m, m_sig m)) (filter m_is_method (t_members t)).

  Definition build_interface (t : toplevel) : isig :=
    ISig (build (fn_entries t ++ t_ctors t)) (build (method_entries t)) (t_rest t).

  Definition build_module (ts : list toplevel) : amap isig :=
    build (map (fun t => (t_name t, build_interface t)) ts).

  (* observational equality of interface signatures *)
  Definition isig_equiv (a b : isig) : Prop :=
    map_equiv (functions a) (functions b) /\ map_equiv (methods a) (methods b) /\ rest a = rest b.

  Definition opt_isig_equiv (a b : option isig) : Prop :=
    match a, b with
    | Some x, Some y => isig_equiv x y
    | None, None => True
    | _, _ => False
    end.

  (* same toplevel up to the order of its members *)
  Definition same_up_to_member_order (t t' : toplevel) : Prop :=
    t_name t = t_name t' /\ t_is_class t = t_is_class t' /\ t_ctors t = t_ctors t' /\ t_rest t = t_rest t' /\
    Permutation (t_members t) (t_members t').

  Definition fn_names (t : toplevel) : list nat := map fst (fn_entries t).
  Definition method_names (t : toplevel) : list nat := map fst (method_entries t).
  Definition member_names (t : toplevel) : list nat := map m_name (t_members t).
End Sig.

Arguments member Sg : clear implicits.
Arguments toplevel Sg R : clear implicits.
Arguments isig Sg R : clear implicits.

(* ------------------------------------------------------------------ the duplicate-name diagnostic
   ssa_analysis.rs, visit_module: toplevel names are hoisted into the outermost scope with define_id,
   and for every toplevel ALL member names (functions and methods together) are defined in one fresh
   scope "for conflict test".  define_id reports NameAlreadyBound when the name is already bound in
   some frame.  Restricted to one frame this is: one report per declaration whose name occurred
   before. *)

Fixpoint memn (x : nat) (l : list nat) : bool :=
  match l with [] => false | y :: l' => Nat.eqb x y || memn x l' end.

Fixpoint dup_reports (seen : list nat) (names : list nat) : nat :=
  match names with
  | [] => 0
  | x :: rest => (if memn x seen then 1 else 0) + dup_reports (x :: seen) rest
  end.

Fixpoint nodupb (l : list nat) : bool :=
  match l with [] => true | x :: l' => negb (memn x l') && nodupb l' end.

(* ------------------------------------------------------------------ evaluation glue (layer B)
   A case: the declarations of one map in source order with the (numbered) signature the real code
   computes for each declaration ALONE, and the map the real code builds for all of them (sorted by
   name).  `sig_bad` returns the names on which the fold and the real map disagree. *)

Definition opt_nat_eqb (a b : option nat) : bool :=
  match a, b with
  | Some x, Some y => Nat.eqb x y
  | None, None => true
  | _, _ => false
  end.

Definition sig_bad (decls impl : list (nat * nat)) : list nat :=
  filter (fun k => negb (opt_nat_eqb (get (build decls) k) (get impl k)))
         (map fst decls ++ map fst impl).

Definition sig_case_ok (c : list (nat * nat) * list (nat * nat)) : bool :=
  match sig_bad (fst c) (snd c) with [] => Nat.eqb (length (build (fst c))) (length (snd c)) | _ => false end.

Fixpoint sig_bad_cases (i : nat) (cs : list (list (nat * nat) * list (nat * nat))) : list nat :=
  match cs with
  | [] => []
  | c :: cs' => if sig_case_ok c then sig_bad_cases (S i) cs' else i :: sig_bad_cases (S i) cs'
  end.

(* ------------------------------------------------------------------ the kernel part of C13
   A source rewrite that moves text (renaming to a longer name, added parentheses, reordered or
   split declarations) changes the locations stored in the reasons of every type the checker
   builds.  `map_reasons f` is an arbitrary change of all reasons of a type. *)

Fixpoint map_reasons (f : reason -> reason) (t : ty) : ty :=
  match t with
  | Any r b => Any (f r) b
  | Prim r k => Prim (f r) k
  | Nominal r s m i args => Nominal (f r) s m i (map (map_reasons f) args)
  | Generic r x => Generic (f r) x
  | Fn r args ret => Fn (f r) (map (map_reasons f) args) (map_reasons f ret)
  end.

Definition map_reasons_map (f : reason -> reason) (s : subst_map) : subst_map :=
  map (fun p => (fst p, map_reasons f (snd p))) s.
