(* C13 — lemmas about the signature-map model (Model.v) and the kernel corollaries. *)
From Coq Require Import List Arith Bool Permutation Lia.
Import ListNotations.
From SV Require Import TypeKernel.Model TypeKernel.Proofs C13.Model.

(* ------------------------------------------------------------------ the map *)

Section MapFacts.
  Context {V : Type}.
  Implicit Types (m : amap V) (ds : list (nat * V)).

  Lemma get_remove_key k m k' :
    get (remove_key k m) k' = if Nat.eqb k' k then None else get m k'.
  Proof.
    induction m as [|[k0 v] m IH]; cbn.
    - destruct (Nat.eqb k' k); reflexivity.
    - destruct (Nat.eqb k k0) eqn:E.
      + apply Nat.eqb_eq in E. subst k0. rewrite IH.
        destruct (Nat.eqb k' k); reflexivity.
      + cbn. rewrite IH. destruct (Nat.eqb k' k0) eqn:E0; auto.
        apply Nat.eqb_eq in E0. subst k0.
        rewrite Nat.eqb_sym, E. reflexivity.
  Qed.

  Lemma get_insert k v m k' :
    get (insert k v m) k' = if Nat.eqb k' k then Some v else get m k'.
  Proof.
    unfold insert. cbn. destruct (Nat.eqb k' k) eqn:E; auto.
    rewrite get_remove_key, E. reflexivity.
  Qed.

  Lemma get_fold ds : forall m k,
    get (fold_left (fun m d => insert (fst d) (snd d) m) ds m) k =
    match last_decl ds k with Some w => Some w | None => get m k end.
  Proof.
    induction ds as [|[k0 v] ds IH]; intros m k; cbn; auto.
    rewrite IH. destruct (last_decl ds k); auto.
    rewrite get_insert. destruct (Nat.eqb k k0); reflexivity.
  Qed.

  (* a lookup in the built map returns the LAST declaration of the name *)
  Lemma get_build ds k : get (build ds) k = last_decl ds k.
  Proof. unfold build. rewrite get_fold. destruct (last_decl ds k); reflexivity. Qed.

  Lemma last_decl_In ds k v : last_decl ds k = Some v -> In (k, v) ds.
  Proof.
    induction ds as [|[k0 w] ds IH]; cbn; [discriminate|].
    destruct (last_decl ds k) eqn:E.
    - intros H. inversion H; subst. right. auto.
    - destruct (Nat.eqb k k0) eqn:E0; [|discriminate].
      apply Nat.eqb_eq in E0. subst. intros H. inversion H. left. reflexivity.
  Qed.

  Lemma in_fst ds k v : In (k, v) ds -> In k (map fst ds).
  Proof. intros H. apply (in_map fst) in H. exact H. Qed.

  Lemma last_decl_None ds k : last_decl ds k = None <-> ~ In k (map fst ds).
  Proof.
    induction ds as [|[k0 w] ds IH]; cbn.
    - split; auto.
    - destruct (last_decl ds k) eqn:E.
      + split; [discriminate|]. intros H. exfalso. apply H. right.
        apply last_decl_In in E. eapply in_fst. exact E.
      + destruct (Nat.eqb k k0) eqn:E0.
        * apply Nat.eqb_eq in E0. subst. split; [discriminate|]. intros H. exfalso. apply H. left. reflexivity.
        * apply Nat.eqb_neq in E0. split; auto. intros _ [H|H]; [congruence|]. apply IH in H; auto.
  Qed.

  Lemma last_decl_app (a b : list (nat * V)) k :
    last_decl (a ++ b) k = match last_decl b k with Some w => Some w | None => last_decl a k end.
  Proof.
    induction a as [|[k0 w] a IH]; cbn.
    - destruct (last_decl b k); reflexivity.
    - rewrite IH. destruct (last_decl b k); reflexivity.
  Qed.

  Lemma last_decl_snoc (a : list (nat * V)) k v : last_decl (a ++ [(k, v)]) k = Some v.
  Proof. rewrite last_decl_app. cbn. rewrite Nat.eqb_refl. reflexivity. Qed.

  (* with pairwise distinct names the last declaration is THE declaration *)
  Lemma last_decl_unique ds k v : NoDup (map fst ds) -> In (k, v) ds -> last_decl ds k = Some v.
  Proof.
    induction ds as [|[k0 w] ds IH]; cbn; [tauto|].
    intros ND [H|H]; inversion ND as [|? ? Hn ND']; subst.
    - inversion H; subst. destruct (last_decl ds k) eqn:E.
      + exfalso. apply Hn. apply last_decl_In in E. eapply in_fst. exact E.
      + rewrite Nat.eqb_refl. reflexivity.
    - rewrite (IH ND' H). reflexivity.
  Qed.

  (* all declarations of one name carry the same signature *)
  Definition consistent ds : Prop := forall k v w, In (k, v) ds -> In (k, w) ds -> v = w.

  Lemma NoDup_consistent ds : NoDup (map fst ds) -> consistent ds.
  Proof.
    intros ND k v w Hv Hw.
    pose proof (last_decl_unique ds k v ND Hv). pose proof (last_decl_unique ds k w ND Hw). congruence.
  Qed.

  Lemma consistent_perm ds ds' : consistent ds -> Permutation ds ds' -> map_equiv (build ds) (build ds').
  Proof.
    intros C P k. rewrite !get_build.
    destruct (last_decl ds k) eqn:E; destruct (last_decl ds' k) eqn:E'; auto.
    - apply last_decl_In in E. apply last_decl_In in E'.
      f_equal. apply (C k); auto. apply (Permutation_in _ (Permutation_sym P)). exact E'.
    - exfalso. apply last_decl_None in E'. apply E'. apply last_decl_In in E.
      eapply in_fst. apply (Permutation_in _ P). exact E.
    - exfalso. apply last_decl_None in E. apply E. apply last_decl_In in E'.
      eapply in_fst. apply (Permutation_in _ (Permutation_sym P)). exact E'.
  Qed.

  Lemma perm_invariant ds ds' :
    NoDup (map fst ds) -> Permutation ds ds' -> map_equiv (build ds) (build ds').
  Proof. intros ND. apply consistent_perm. apply NoDup_consistent. exact ND. Qed.

  Lemma In_move_last (x : nat * V) ds : In x ds -> exists ds1, Permutation ds (ds1 ++ [x]).
  Proof.
    intros H. apply in_split in H. destruct H as [l1 [l2 ->]].
    exists (l1 ++ l2). rewrite <- app_assoc.
    apply Permutation_app_head. apply Permutation_cons_append.
  Qed.

  (* the exact side condition: every order of the declarations gives the same map iff declarations of
     the same name agree *)
  Lemma perm_invariant_iff ds :
    (forall ds', Permutation ds ds' -> map_equiv (build ds) (build ds')) <-> consistent ds.
  Proof.
    split.
    - intros H k v w Hv Hw.
      destruct (In_move_last _ _ Hv) as [d1 P1]. destruct (In_move_last _ _ Hw) as [d2 P2].
      pose proof (H _ P1 k) as E1. pose proof (H _ P2 k) as E2.
      rewrite get_build in E1, E2. rewrite get_build, last_decl_snoc in E1. rewrite get_build, last_decl_snoc in E2.
      congruence.
    - intros C ds'. apply consistent_perm. exact C.
  Qed.

  (* a map never holds a key twice, and holds exactly the declared names *)
  Lemma remove_key_keys k m x : In x (keys (remove_key k m)) <-> In x (keys m) /\ x <> k.
  Proof.
    induction m as [|[k0 v] m IH]; cbn; [tauto|].
    destruct (Nat.eqb k k0) eqn:E.
    - apply Nat.eqb_eq in E. subst. rewrite IH. split; [tauto|]. intros [[H|H] N]; [congruence|tauto].
    - apply Nat.eqb_neq in E. cbn. rewrite IH. split.
      + intros [H|H]; [subst; split; auto|tauto].
      + tauto.
  Qed.

  Lemma remove_key_NoDup k m : NoDup (keys m) -> NoDup (keys (remove_key k m)).
  Proof.
    induction m as [|[k0 v] m IH]; cbn; auto.
    intros ND. inversion ND; subst. destruct (Nat.eqb k k0); auto.
    cbn. constructor; auto. intros Hx. apply (proj1 (remove_key_keys k m k0)) in Hx. tauto.
  Qed.

  Lemma fold_keys ds : forall m, NoDup (keys m) ->
    NoDup (keys (fold_left (fun m d => insert (fst d) (snd d) m) ds m)).
  Proof.
    induction ds as [|[k v] ds IH]; intros m ND; cbn; auto.
    apply IH. unfold insert. cbn. constructor.
    - intros Hx. apply (proj1 (remove_key_keys k m k)) in Hx. tauto.
    - apply remove_key_NoDup. exact ND.
  Qed.

  Lemma build_keys_NoDup ds : NoDup (keys (build ds)).
  Proof. apply fold_keys. constructor. Qed.

  Lemma get_None_keys m k : get m k = None <-> ~ In k (keys m).
  Proof.
    induction m as [|[k0 v] m IH]; cbn; [tauto|].
    destruct (Nat.eqb k k0) eqn:E.
    - apply Nat.eqb_eq in E. subst. split; [discriminate|]. intros H. exfalso. apply H. auto.
    - apply Nat.eqb_neq in E. rewrite IH. split; [intros H [H'|H']; [congruence|auto]|tauto].
  Qed.

  Lemma build_keys ds k : In k (keys (build ds)) <-> In k (map fst ds).
  Proof.
    destruct (in_dec Nat.eq_dec k (keys (build ds))) as [H|H];
    destruct (in_dec Nat.eq_dec k (map fst ds)) as [H'|H']; try tauto; exfalso.
    - apply last_decl_None in H'. rewrite <- get_build in H'. apply get_None_keys in H'. auto.
    - apply get_None_keys in H. rewrite get_build in H. apply last_decl_None in H. auto.
  Qed.
End MapFacts.

(* the refutation without the side condition: two declarations of one name with different signatures *)
Lemma perm_invariant_dup_refuted :
  exists (ds ds' : list (nat * nat)) k,
    Permutation ds ds' /\ ~ NoDup (map fst ds) /\ get (build ds) k <> get (build ds') k.
Proof.
  exists [(0, 1); (0, 2)], [(0, 2); (0, 1)], 0. split; [apply perm_swap|]. split.
  - intros H. inversion H; subst. apply H2. left. reflexivity.
  - vm_compute. discriminate.
Qed.

(* ------------------------------------------------------------------ members and toplevels *)

Section SigFacts.
  Context {Sg R : Type}.
  Implicit Types (t : toplevel Sg R) (ts : list (toplevel Sg R)).

  Lemma Permutation_filter {A} (f : A -> bool) (l l' : list A) :
    Permutation l l' -> Permutation (filter f l) (filter f l').
  Proof.
    induction 1; cbn; auto.
    - destruct (f x); auto.
    - destruct (f x), (f y); auto. apply perm_swap.
    - eapply perm_trans; eauto.
  Qed.

  Lemma members_perm_invariant t t' :
    same_up_to_member_order t t' -> NoDup (fn_names t) -> NoDup (method_names t) ->
    isig_equiv (build_interface t) (build_interface t').
  Proof.
    intros (Hn & Hc & Hk & Hr & P) NDf NDm. unfold isig_equiv, build_interface. cbn. repeat split; auto.
    - intros k. rewrite !get_build, !last_decl_app. rewrite <- Hk.
      destruct (last_decl (t_ctors t) k); auto.
      rewrite <- !get_build. apply perm_invariant; auto.
      unfold fn_entries. rewrite <- Hc. destruct (t_is_class t); auto.
      apply Permutation_map. apply Permutation_filter. exact P.
    - apply perm_invariant; auto. unfold method_entries.
      apply Permutation_map. apply Permutation_filter. exact P.
  Qed.

  Lemma isig_equiv_refl (a : isig Sg R) : isig_equiv a a.
  Proof. repeat split. Qed.

  Lemma same_refl t : same_up_to_member_order t t.
  Proof. repeat split; auto. Qed.

  Definition entry t := (t_name t, build_interface t).

  Lemma last_decl_related (l l' : list (toplevel Sg R)) k :
    Forall2 (fun a b => t_name a = t_name b /\ isig_equiv (build_interface a) (build_interface b)) l l' ->
    opt_isig_equiv (last_decl (map entry l) k) (last_decl (map entry l') k).
  Proof.
    induction 1 as [|a b l l' [Hn He] F IH]; cbn; auto.
    destruct (last_decl (map entry l) k), (last_decl (map entry l') k); cbn in IH; try contradiction; auto.
    rewrite <- Hn. destruct (Nat.eqb k (t_name a)); cbn; auto.
  Qed.

  (* any reordering of the toplevels combined with any reordering of the members inside each of them *)
  Definition reordered ts ts' : Prop :=
    exists ts1, Permutation ts ts1 /\ Forall2 same_up_to_member_order ts1 ts'.

  Definition names_distinct ts : Prop :=
    NoDup (map t_name ts) /\ Forall (fun t => NoDup (fn_names t) /\ NoDup (method_names t)) ts.

  Lemma module_perm_invariant ts ts' :
    names_distinct ts -> reordered ts ts' ->
    forall k, opt_isig_equiv (get (build_module ts) k) (get (build_module ts') k).
  Proof.
    intros [ND FA] (ts1 & P & F2) k.
    assert (E : get (build_module ts) k = get (build_module ts1) k).
    { unfold build_module. apply perm_invariant.
      - rewrite map_map. cbn. exact ND.
      - apply Permutation_map. exact P. }
    rewrite E. unfold build_module. rewrite !get_build.
    apply (last_decl_related ts1 ts' k).
    assert (FA1 : Forall (fun t => NoDup (fn_names t) /\ NoDup (method_names t)) ts1).
    { rewrite Forall_forall in *. intros x Hx. apply FA. apply (Permutation_in _ (Permutation_sym P)). exact Hx. }
    clear -F2 FA1. induction F2 as [|a b l l' H F IH]; constructor.
    - inversion FA1; subst. destruct H2 as [A B]. split; [apply H|]. apply members_perm_invariant; auto.
    - apply IH. inversion FA1; auto.
  Qed.

  Lemma toplevels_perm_invariant ts ts' :
    NoDup (map t_name ts) -> Permutation ts ts' -> map_equiv (build_module ts) (build_module ts').
  Proof.
    intros ND P. unfold build_module. apply perm_invariant.
    - rewrite map_map. exact ND.
    - apply Permutation_map. exact P.
  Qed.

  (* a member function that has the name of a constructor is hidden by it, in every member order:
     the constructors are inserted last *)
  Lemma ctor_hides_function t k s :
    last_decl (t_ctors t) k = Some s -> get (functions (build_interface t)) k = Some s.
  Proof. intros H. cbn. rewrite get_build, last_decl_app, H. reflexivity. Qed.
End SigFacts.

(* ------------------------------------------------------------------ the duplicate-name diagnostic *)

Lemma memn_In x l : memn x l = true <-> In x l.
Proof.
  induction l as [|y l IH]; cbn; [split; [discriminate|tauto]|].
  rewrite orb_true_iff, Nat.eqb_eq, IH. split; intros [H|H]; auto.
Qed.

Lemma nodupb_NoDup l : nodupb l = true <-> NoDup l.
Proof.
  induction l as [|x l IH]; cbn; [split; auto; constructor|].
  rewrite andb_true_iff, negb_true_iff, IH. split.
  - intros [H1 H2]. constructor; auto. rewrite <- memn_In. congruence.
  - intros H. inversion H; subst. split; auto. destruct (memn x l) eqn:E; auto. apply memn_In in E. tauto.
Qed.

Lemma dup_reports_ext names : forall s1 s2,
  (forall x, memn x s1 = memn x s2) -> dup_reports s1 names = dup_reports s2 names.
Proof.
  induction names as [|x names IH]; intros s1 s2 H; cbn; auto.
  rewrite (H x). f_equal. apply IH. intros y. cbn. rewrite (H y). reflexivity.
Qed.

(* the number of NameAlreadyBound reports does not depend on the order of the declarations, duplicates or not *)
Lemma dup_reports_perm names names' : Permutation names names' ->
  forall seen, dup_reports seen names = dup_reports seen names'.
Proof.
  induction 1 as [|x l l' P IH|x y l|l l' l'' P1 IH1 P2 IH2]; intros seen; cbn.
  - reflexivity.
  - rewrite IH. reflexivity.
  - rewrite (dup_reports_ext l (x :: y :: seen) (y :: x :: seen)).
    2:{ intros z. cbn. destruct (Nat.eqb z x), (Nat.eqb z y); reflexivity. }
    destruct (Nat.eqb y x) eqn:E.
    + apply Nat.eqb_eq in E. subst. rewrite Nat.eqb_refl. reflexivity.
    + rewrite Nat.eqb_sym in E. rewrite E. cbn. lia.
  - rewrite IH1. apply IH2.
Qed.

Lemma dup_reports_zero names : forall seen,
  dup_reports seen names = 0 <-> (NoDup names /\ forall x, In x names -> ~ In x seen).
Proof.
  induction names as [|x names IH]; intros seen; cbn.
  - split; auto. intros _. split; [constructor|tauto].
  - destruct (memn x seen) eqn:E.
    + split; [discriminate|]. intros [_ H]. exfalso. apply (H x); auto. apply memn_In. exact E.
    + cbn. rewrite IH. split.
      * intros [ND H]. split.
        -- constructor; auto. intros Hx. apply (H x Hx). left. reflexivity.
        -- intros y [->|Hy] Hs.
           ++ apply memn_In in Hs. congruence.
           ++ apply (H y Hy). right. exact Hs.
      * intros [ND H]. inversion ND; subst. split; auto.
        intros y Hy [->|Hs]; auto. apply (H y); auto.
Qed.

Lemma dup_reported_iff names : dup_reports [] names = 0 <-> NoDup names.
Proof. rewrite dup_reports_zero. split; [tauto|]. intros H. split; auto. Qed.

(* ------------------------------------------------------------------ kernel corollaries *)

Lemma erase_map_reasons f t : erase (map_reasons f t) = erase t.
Proof.
  ty_induction t; cbn; auto.
  - f_equal. rewrite map_map. apply map_ext_Forall. exact IH.
  - rewrite IHr. f_equal. rewrite map_map. apply map_ext_Forall. exact IH.
Qed.

Lemma erase_map_map_reasons f s : erase_map (map_reasons_map f s) = erase_map s.
Proof.
  unfold erase_map, map_reasons_map. rewrite map_map. apply map_ext. intros [y t]. cbn.
  rewrite erase_map_reasons. reflexivity.
Qed.

Lemma kernel_assignable_relocate f g l u :
  assignable (map_reasons f l) (map_reasons g u) = assignable l u.
Proof. apply assignable_reasons; apply erase_map_reasons. Qed.

Lemma kernel_meet_relocate f g l u :
  option_map erase (meet (map_reasons f l) (map_reasons g u)) = option_map erase (meet l u).
Proof. apply meet_reasons; apply erase_map_reasons. Qed.

Lemma kernel_placeholder_relocate f t : contains_placeholder (map_reasons f t) = contains_placeholder t.
Proof. apply contains_placeholder_reasons. apply erase_map_reasons. Qed.

Lemma kernel_subst_relocate f g s t :
  erase (subst (map_reasons_map f s) (map_reasons g t)) = erase (subst s t).
Proof. apply subst_reasons; [apply erase_map_map_reasons|apply erase_map_reasons]. Qed.

Lemma kernel_solve_relocate f g c gen tps :
  erase_map (solve (map_reasons f c) (map_reasons g gen) tps) = erase_map (solve c gen tps).
Proof. apply solve_reasons; apply erase_map_reasons. Qed.

(* the verdict of a whole assignability check made after instantiating a generic signature:
   relocating every type involved changes neither the solution (up to reasons) nor the verdict *)
Lemma kernel_call_check_relocate f g h concrete generic tps arg :
  assignable (map_reasons h arg) (subst (solve (map_reasons f concrete) (map_reasons g generic) tps) (map_reasons g generic)) =
  assignable arg (subst (solve concrete generic tps) generic).
Proof.
  apply assignable_reasons; [apply erase_map_reasons|].
  apply subst_reasons; [apply kernel_solve_relocate|apply erase_map_reasons].
Qed.
