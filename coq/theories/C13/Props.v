(* C13 — type inference is stable under meaning-preserving rewrites of the source: the property theorems.
   Nothing but statements closed by `exact`, non-vacuity examples and Print Assumptions.

   Three mechanisms make the checker insensitive to the rewrites of C13:
   (a) declarations are collected into maps keyed by name BEFORE bodies are checked
       (global_signature.rs; Model.v `build_module`): reordering classes / interfaces / members;
   (b) the type-system kernel never looks at a location or at the spelling of a type-variable name
       (type_system.rs; theories/TypeKernel): every rewrite moves text, hence changes the reasons of
       every type the checker builds;
   (c) local variables are resolved on the scope-stack machine of ssa_analysis.rs
       (theories/C15, theorem C15_rename_preserves_resolution): renaming to a fresh name.
   What is NOT modelled: the bidirectional checker itself (main_checker.rs, 1 900 lines), i.e. that
   adding parentheses / a block / an annotation / explicit type arguments leaves the verdict unchanged.
   That part is covered only by the monitor of checks/c13.py (testing, not proof). *)
From Coq Require Import List Arith Bool Permutation.
Import ListNotations.
From SV Require Import TypeKernel.Model C13.Model C13.Proofs.

(* ------------------------------------------------------------------ (a) declaration order *)

(* a lookup in a built map returns the LAST declaration of the name: HashMap::insert overwrites *)
Theorem C13_last_declaration_wins : forall (V : Type) (ds : list (nat * V)) k,
  get (build ds) k = last_decl ds k.
Proof. exact (@get_build). Qed.

(* the built map holds exactly the declared names, each once *)
Theorem C13_map_keys : forall (V : Type) (ds : list (nat * V)),
  NoDup (keys (build ds)) /\ forall k, In k (keys (build ds)) <-> In k (map fst ds).
Proof. intros V ds. exact (conj (build_keys_NoDup ds) (build_keys ds)). Qed.

(* perm_invariant: declarations with pairwise distinct names build the same map in every order *)
Theorem C13_perm_invariant : forall (V : Type) (ds ds' : list (nat * V)),
  NoDup (map fst ds) -> Permutation ds ds' -> map_equiv (build ds) (build ds').
Proof. exact (@perm_invariant). Qed.

(* the exact side condition: all orders agree iff declarations of the same name carry the same signature *)
Theorem C13_perm_invariant_iff : forall (V : Type) (ds : list (nat * V)),
  (forall ds', Permutation ds ds' -> map_equiv (build ds) (build ds')) <-> consistent ds.
Proof. exact (@perm_invariant_iff). Qed.

(* FULL statement without the side condition:
     forall ds ds', Permutation ds ds' -> map_equiv (build ds) (build ds')
   is false of the model (and of the code, replayed by checks/c13.py `dup_witness`):
   two declarations of one name with different signatures. *)
Theorem C13_perm_invariant_dup_refuted :
  exists (ds ds' : list (nat * nat)) k,
    Permutation ds ds' /\ ~ NoDup (map fst ds) /\ get (build ds) k <> get (build ds') k.
Proof. exact perm_invariant_dup_refuted. Qed.

(* ... and in exactly that case the checker rejects the program, in every order, with the same number of
   NameAlreadyBound diagnostics (ssa_analysis.rs define_id over the hoisted toplevel names, and over
   all member names of a toplevel) *)
Theorem C13_duplicates_reported : forall names,
  dup_reports [] names = 0 <-> NoDup names.
Proof. exact dup_reported_iff. Qed.

Theorem C13_duplicate_reports_order_independent : forall names names',
  Permutation names names' -> dup_reports [] names = dup_reports [] names'.
Proof. intros names names' P. exact (dup_reports_perm names names' P []). Qed.

(* members of one class / interface in any order *)
Theorem C13_members_perm_invariant : forall (Sg R : Type) (t t' : toplevel Sg R),
  same_up_to_member_order t t' -> NoDup (fn_names t) -> NoDup (method_names t) ->
  isig_equiv (build_interface t) (build_interface t').
Proof. exact (@members_perm_invariant). Qed.

(* a member function with the name of a constructor (`init`, a variant name) is hidden by the
   constructor whatever the member order: constructors are inserted after the members *)
Theorem C13_constructor_hides_function : forall (Sg R : Type) (t : toplevel Sg R) k s,
  last_decl (t_ctors t) k = Some s -> get (functions (build_interface t)) k = Some s.
Proof. exact (@ctor_hides_function). Qed.

(* toplevels in any order *)
Theorem C13_toplevels_perm_invariant : forall (Sg R : Type) (ts ts' : list (toplevel Sg R)),
  NoDup (map t_name ts) -> Permutation ts ts' -> map_equiv (build_module ts) (build_module ts').
Proof. exact (@toplevels_perm_invariant). Qed.

(* both at once: any reordering of the toplevels combined with any reordering of the members inside
   each of them yields an observationally equal module signature *)
Theorem C13_module_signature_order_independent : forall (Sg R : Type) (ts ts' : list (toplevel Sg R)),
  names_distinct ts -> reordered ts ts' ->
  forall k, opt_isig_equiv (get (build_module ts) k) (get (build_module ts') k).
Proof. exact (@module_perm_invariant). Qed.

(* ------------------------------------------------------------------ (b) the kernel: locations and
   type-variable names never influence a verdict.  `map_reasons f` replaces every reason of a type by
   an arbitrary other one; f, g, h are independent. *)

Theorem C13_kernel_assignable_relocate : forall (f g : reason -> reason) l u,
  assignable (map_reasons f l) (map_reasons g u) = assignable l u.
Proof. exact kernel_assignable_relocate. Qed.

Theorem C13_kernel_meet_relocate : forall (f g : reason -> reason) l u,
  option_map erase (meet (map_reasons f l) (map_reasons g u)) = option_map erase (meet l u).
Proof. exact kernel_meet_relocate. Qed.

Theorem C13_kernel_placeholder_relocate : forall (f : reason -> reason) t,
  contains_placeholder (map_reasons f t) = contains_placeholder t.
Proof. exact kernel_placeholder_relocate. Qed.

Theorem C13_kernel_subst_relocate : forall (f g : reason -> reason) s t,
  erase (subst (map_reasons_map f s) (map_reasons g t)) = erase (subst s t).
Proof. exact kernel_subst_relocate. Qed.

Theorem C13_kernel_solve_relocate : forall (f g : reason -> reason) c gen tps,
  erase_map (solve (map_reasons f c) (map_reasons g gen) tps) = erase_map (solve c gen tps).
Proof. exact kernel_solve_relocate. Qed.

(* the check made at a generic call (solve the type arguments from one argument, instantiate, compare
   another argument with the instantiated parameter type) has the same verdict after relocating
   everything *)
Theorem C13_kernel_call_check_relocate : forall (f g h : reason -> reason) concrete generic tps arg,
  assignable (map_reasons h arg)
             (subst (solve (map_reasons f concrete) (map_reasons g generic) tps) (map_reasons g generic)) =
  assignable arg (subst (solve concrete generic tps) generic).
Proof. exact kernel_call_check_relocate. Qed.

(* consistently renaming type variables commutes with all five kernel functions *)
Theorem C13_kernel_rename_equivariant : forall f : nat -> nat, (forall x y, f x = f y -> x = y) ->
  (forall t, contains_placeholder (rename f t) = contains_placeholder t) /\
  (forall l u, assignable (rename f l) (rename f u) = assignable l u) /\
  (forall l u, meet (rename f l) (rename f u) = option_map (rename f) (meet l u)) /\
  (forall s t, subst (rename_map f s) (rename f t) = rename f (subst s t)) /\
  (forall c g tps, solve (rename f c) (rename f g) (map f tps) = rename_map f (solve c g tps)).
Proof. exact TypeKernel.Proofs.rename_equivariant. Qed.

(* ------------------------------------------------------------------ non-vacuity *)

(* class A { function f  method g  function h }  with constructor init, class B, interface I *)
Example C13_order_nonvacuous :
  let a  := Toplevel 1 true [Member 10 false 100; Member 11 true 101; Member 12 false 102] [(99, 900)] 7 in
  let a' := Toplevel 1 true [Member 12 false 102; Member 10 false 100; Member 11 true 101] [(99, 900)] 7 in
  let b  := Toplevel 2 true [Member 10 false 200] [] 8 in
  let i  := Toplevel 3 false [Member 20 true 300; Member 21 false 301] [] 9 in
  names_distinct [a; b; i] /\ reordered [a; b; i] [i; a'; b] /\
  build_module [a; b; i] <> build_module [i; a'; b] /\
  get (build_module [i; a'; b]) 1 =
    Some (ISig [(99, 900); (10, 100); (12, 102)] [(11, 101)] 7) /\
  get (build_module [a; b; i]) 1 =
    Some (ISig [(99, 900); (12, 102); (10, 100)] [(11, 101)] 7) /\
  (* functions declared in an interface are dropped *)
  get (build_module [a; b; i]) 3 = Some (ISig [] [(20, 300)] 9).
Proof.
  cbn. repeat split; try discriminate.
  - repeat constructor; cbn; intuition congruence.
  - repeat constructor; cbn; intuition congruence.
  - exists [Toplevel 3 false [Member 20 true 300; Member 21 false 301] [] 9;
            Toplevel 1 true [Member 10 false 100; Member 11 true 101; Member 12 false 102] [(99, 900)] 7;
            Toplevel 2 true [Member 10 false 200] [] 8].
    split.
    + eapply perm_trans; [apply perm_skip; apply perm_swap|apply perm_swap].
    + repeat constructor; cbn.
      eapply perm_trans; [apply perm_skip; apply perm_swap|apply perm_swap].
Qed.

(* duplicates: the later declaration wins, the order matters, and both orders are reported *)
Example C13_duplicates_nonvacuous :
  get (build [(5, 1); (6, 9); (5, 2)]) 5 = Some 2 /\ get (build [(5, 2); (6, 9); (5, 1)]) 5 = Some 1 /\
  dup_reports [] [5; 6; 5] = 1 /\ dup_reports [] [5; 5; 6] = 1 /\ dup_reports [] [5; 5; 5] = 2 /\
  consistent [(5, 1); (6, 9); (5, 1)] /\ ~ consistent [(5, 1); (6, 9); (5, 2)].
Proof.
  cbn. repeat split; auto.
  - intros k v w [H|[H|[H|[]]]] [H'|[H'|[H'|[]]]]; congruence.
  - intros C. specialize (C 5 1 2). cbn in C. assert (1 = 2) by (apply C; auto). discriminate.
Qed.

(* a struct class with a member function called `init`: the constructor hides it *)
Example C13_constructor_hides_nonvacuous :
  let t := Toplevel 1 true [Member 99 false 100] [(99, 900)] 0 in
  get (functions (build_interface t)) 99 = Some 900.
Proof. reflexivity. Qed.

(* relocation changes the type but not the verdict *)
Example C13_relocate_nonvacuous :
  let f := fun r => Rsn (use_loc r + 100) (Some 7) in
  let l := Fn (Rsn 1 None) [Nominal (Rsn 2 None) false 0 0 [Prim (Rsn 3 None) PInt]] (Generic (Rsn 4 None) 0) in
  map_reasons f l <> l /\ assignable (map_reasons f l) l = true /\
  assignable (map_reasons f l) (Prim (Rsn 9 None) PInt) = false.
Proof. cbn. repeat split; congruence. Qed.

Print Assumptions C13_last_declaration_wins.
Print Assumptions C13_map_keys.
Print Assumptions C13_perm_invariant.
Print Assumptions C13_perm_invariant_iff.
Print Assumptions C13_perm_invariant_dup_refuted.
Print Assumptions C13_duplicates_reported.
Print Assumptions C13_duplicate_reports_order_independent.
Print Assumptions C13_members_perm_invariant.
Print Assumptions C13_constructor_hides_function.
Print Assumptions C13_toplevels_perm_invariant.
Print Assumptions C13_module_signature_order_independent.
Print Assumptions C13_kernel_assignable_relocate.
Print Assumptions C13_kernel_meet_relocate.
Print Assumptions C13_kernel_placeholder_relocate.
Print Assumptions C13_kernel_subst_relocate.
Print Assumptions C13_kernel_solve_relocate.
Print Assumptions C13_kernel_call_check_relocate.
Print Assumptions C13_kernel_rename_equivariant.
