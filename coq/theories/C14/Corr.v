(* C14 — glue for the correspondence check (checks/c14.py): the loc.rs functions of the model
   evaluated on a full grid of locations and on single cases, in the encoding that
   `vh lex-run loc-grid` / `vh lex-run loc` use.  Definitions only. *)
From Coq Require Import List NArith Arith Bool.
Import ListNotations.
From SV Require Import C05.Model C14.Model.

Definition pos_eqb (a b : position) : bool := (fst a =? fst b) && (snd a =? snd b).

(* all positions (l, c) with l, c < n, in lexicographic order *)
Definition grid_positions (n : nat) : list position :=
  flat_map (fun l => map (fun c => (l, c)) (seq 0 n)) (seq 0 n).

(* all (start, end) pairs, well formed or not *)
Definition grid_locations (n : nat) : list location :=
  flat_map (fun s => map (fun e => mkLoc 0 s e) (grid_positions n)) (grid_positions n).

(* one hex digit per ordered pair of locations:
   8 = a.contains(b), 4 = b.contains(a), 2 = a.union(b).start == a.start, 1 = a.union(b).end == a.end *)
Definition pair_digit (a b : location) : N :=
  ((if contains a b then 8 else 0) + (if contains b a then 4 else 0) +
   match union a b with
   | Some u => (if pos_eqb (l_start u) (l_start a) then 2 else 0) +
               (if pos_eqb (l_end u) (l_end a) then 1 else 0)
   | None => 0
   end)%N.

Definition grid_digits (n : nat) : list N :=
  flat_map (fun a => map (pair_digit a) (grid_locations n)) (grid_locations n).

(* one bit per (location, position): a.contains_position(p) *)
Definition grid_cp_digits (n : nat) : list N :=
  flat_map (fun a => map (fun p => if contains_position a p then 1%N else 0%N) (grid_positions n))
           (grid_locations n).

(* a single case: locations a, b (same module), position p.
   result: (pair digit, contains_position a p, a.start < a.end, a.start <= a.end,
            union start line/col, union end line/col) *)
Definition case_result (c : (nat * nat * nat * nat) * (nat * nat * nat * nat) * (nat * nat))
  : N * bool * bool * bool * (nat * nat * nat * nat) :=
  let '((a1, a2, a3, a4), (b1, b2, b3, b4), (p1, p2)) := c in
  let a := mkLoc 0 (a1, a2) (a3, a4) in
  let b := mkLoc 0 (b1, b2) (b3, b4) in
  let u := match union a b with Some u => u | None => a end in
  (pair_digit a b, contains_position a (p1, p2),
   pos_ltb (l_start a) (l_end a), pos_leb (l_start a) (l_end a),
   (fst (l_start u), snd (l_start u), fst (l_end u), snd (l_end u))).

(* compare the grid digits with the digits the harness printed (as numbers 0..15) *)
Fixpoint first_mismatch (i : N) (a b : list N) : option N :=
  match a, b with
  | [], [] => None
  | x :: a', y :: b' => if (x =? y)%N then first_mismatch (i + 1) a' b' else Some i
  | _, _ => Some i
  end.

Definition hexdigit (c : N) : N := if (c <? 58)%N then (c - 48)%N else (c - 87)%N.

(* the harness digits arrive as a byte list of ASCII hex characters *)
Definition grid_check (n : nat) (impl : list N) : option N :=
  first_mismatch 0 (grid_digits n) (map hexdigit impl).
Definition grid_cp_check (n : nat) (impl : list N) : option N :=
  first_mismatch 0 (grid_cp_digits n) (map hexdigit impl).
