(* C14 — model of crates/samlang-ast/src/loc.rs (Position, Location, contains_position, contains,
   union) and of the relation between positions and byte offsets.  Definitions only.

   Position(line, column): both 0-based; `#[derive(PartialOrd, Ord)]` on a tuple struct is the
   lexicographic order.  COLUMNS ARE BYTE COLUMNS: every column the lexer produces is a count of
   UTF-8 bytes since the last line feed (lexer.rs adds `len()`s of byte slices; see C05.Model).
   A '\r' is an ordinary byte of its line.  Module references are natural numbers here;
   [union] returns None where the Rust code's `assert!(self.module_reference ==
   other.module_reference)` panics. *)
From Coq Require Import List NArith Arith Bool Lia.
Import ListNotations.
From SV Require Import C05.Model.

Definition position := pos.      (* = nat * nat, from C05.Model *)

Definition pos_leb (a b : position) : bool :=
  (fst a <? fst b) || ((fst a =? fst b) && (snd a <=? snd b)).
(* pos_ltb is C05.Model.pos_ltb *)

Definition pos_le (a b : position) : Prop :=
  fst a < fst b \/ (fst a = fst b /\ snd a <= snd b).
Definition pos_lt (a b : position) : Prop :=
  fst a < fst b \/ (fst a = fst b /\ snd a < snd b).

Record location : Type := mkLoc { l_mod : nat; l_start : position; l_end : position }.

(* self.start <= position && self.end >= position *)
Definition contains_position (l : location) (p : position) : bool :=
  pos_leb (l_start l) p && pos_leb p (l_end l).

(* self.contains_position(other.start) && self.contains_position(other.end) *)
Definition contains (l o : location) : bool :=
  contains_position l (l_start o) && contains_position l (l_end o).

(* let start = if self.start < other.start { self.start } else { other.start };
   let end = if self.end > other.end { self.end } else { other.end }; *)
Definition union (a b : location) : option location :=
  if l_mod a =? l_mod b then
    Some (mkLoc (l_mod a)
                (if pos_ltb (l_start a) (l_start b) then l_start a else l_start b)
                (if pos_ltb (l_end b) (l_end a) then l_end a else l_end b))
  else None.

Definition wf (l : location) : Prop := pos_le (l_start l) (l_end l).

(* b starts where a ends or later: the two do not overlap and are in source order *)
Definition before (a b : location) : Prop := pos_le (l_end a) (l_start b).

Fixpoint ordered (ls : list location) : Prop :=
  match ls with
  | [] => True
  | a :: rest => match rest with
                 | [] => True
                 | b :: _ => before a b /\ ordered rest
                 end
  end.

(* ---------------------------------------------------------------- positions and byte offsets *)

(* the position reached from p after reading the bytes bs (next_line_or_column, byte by byte) *)
Definition advance (p : position) (bs : list N) : position :=
  fold_left next_line_or_column bs p.

(* the position of byte offset k of the text s *)
Definition pos_at (s : list N) (k : nat) : position := advance (0, 0) (firstn k s).

(* number of bytes before the first line feed *)
Definition line_len (s : list N) : nat := count_to_nl s.

(* the byte offset of Position(l, c) in s: defined iff line l exists and has at least c bytes *)
Fixpoint offset_of (s : list N) (l c : nat) {struct s} : option nat :=
  match l, s with
  | 0, _ => if c <=? line_len s then Some c else None
  | S l', [] => None
  | S l', b :: s' =>
    option_map S (if (b =? NL)%N then offset_of s' l' c else offset_of s' (S l') c)
  end.

Definition offset_of_pos (s : list N) (p : position) : option nat := offset_of s (fst p) (snd p).

(* the text between two positions *)
Definition text_between (s : list N) (a b : position) : option (list N) :=
  match offset_of_pos s a, offset_of_pos s b with
  | Some x, Some y => slice s x y
  | _, _ => None
  end.

(* a position lies inside the document *)
Definition in_document (s : list N) (p : position) : Prop := offset_of_pos s p <> None.
