(* C14 — lemmas: the location algebra of loc.rs, positions vs byte offsets, and the exactness of
   the positions the modelled lexer attaches to its tokens. *)
From Coq Require Import List NArith Arith Bool Lia.
Import ListNotations.
From SV Require Import C05.Model C05.Proofs C14.Model.

(* ---------------------------------------------------------------- the order on positions *)

Lemma pos_leb_le : forall a b, pos_leb a b = true <-> pos_le a b.
Proof.
  intros [l1 c1] [l2 c2]. unfold pos_leb, pos_le. simpl.
  rewrite orb_true_iff, andb_true_iff, Nat.ltb_lt, Nat.eqb_eq, Nat.leb_le. tauto.
Qed.

Lemma pos_ltb_lt : forall a b, pos_ltb a b = true <-> pos_lt a b.
Proof.
  intros [l1 c1] [l2 c2]. unfold pos_ltb, pos_lt. simpl.
  rewrite orb_true_iff, andb_true_iff, Nat.ltb_lt, Nat.eqb_eq, Nat.ltb_lt. tauto.
Qed.

Lemma pos_ltb_false : forall a b, pos_ltb a b = false <-> pos_le b a.
Proof.
  intros a b. split.
  - intros H. destruct a as [l1 c1], b as [l2 c2]. unfold pos_le. simpl.
    destruct (pos_ltb (l1, c1) (l2, c2)) eqn:E; [discriminate|].
    unfold pos_ltb in E. simpl in E. apply orb_false_iff in E. destruct E as [E1 E2].
    apply Nat.ltb_ge in E1. apply andb_false_iff in E2.
    destruct E2 as [E2|E2]; [apply Nat.eqb_neq in E2 | apply Nat.ltb_ge in E2]; lia.
  - intros H. destruct (pos_ltb a b) eqn:E; [|reflexivity].
    apply pos_ltb_lt in E. destruct a, b. unfold pos_le, pos_lt in *. simpl in *. lia.
Qed.

Ltac pos_solve :=
  repeat match goal with
         | p : position |- _ => destruct p
         | p : (nat * nat)%type |- _ => destruct p
         end;
  unfold pos_le, pos_lt in *; simpl in *; try lia.

Lemma pos_le_refl : forall a, pos_le a a.
Proof. intros. pos_solve. Qed.

Lemma pos_le_trans : forall a b c, pos_le a b -> pos_le b c -> pos_le a c.
Proof. intros. pos_solve. Qed.

Lemma pos_le_antisym : forall a b, pos_le a b -> pos_le b a -> a = b.
Proof. intros. pos_solve. f_equal; lia. Qed.

Lemma pos_le_total : forall a b, pos_le a b \/ pos_le b a.
Proof. intros. pos_solve. Qed.

Lemma pos_lt_le : forall a b, pos_lt a b -> pos_le a b.
Proof. intros. pos_solve. Qed.

(* ---------------------------------------------------------------- contains *)

Lemma contains_position_iff : forall l p,
  contains_position l p = true <-> pos_le (l_start l) p /\ pos_le p (l_end l).
Proof.
  intros. unfold contains_position. rewrite andb_true_iff, !pos_leb_le. tauto.
Qed.

Lemma contains_iff : forall l o,
  contains l o = true <->
  pos_le (l_start l) (l_start o) /\ pos_le (l_start o) (l_end l) /\
  pos_le (l_start l) (l_end o) /\ pos_le (l_end o) (l_end l).
Proof.
  intros. unfold contains. rewrite andb_true_iff, !contains_position_iff. tauto.
Qed.

Lemma contains_refl : forall l, wf l -> contains l l = true.
Proof.
  intros l H. apply contains_iff. unfold wf in H.
  repeat split; try apply pos_le_refl; exact H.
Qed.

(* without start <= end a location does not even contain itself *)
Lemma contains_refl_needs_wf : contains (mkLoc 0 (1, 0) (0, 0)) (mkLoc 0 (1, 0) (0, 0)) = false.
Proof. reflexivity. Qed.

Lemma contains_trans : forall a b c,
  contains a b = true -> contains b c = true -> contains a c = true.
Proof.
  intros a b c H1 H2. apply contains_iff in H1. apply contains_iff in H2. apply contains_iff.
  destruct H1 as [A1 [A2 [A3 A4]]]. destruct H2 as [B1 [B2 [B3 B4]]].
  repeat split; eauto using pos_le_trans.
Qed.

Lemma contains_antisym : forall a b,
  contains a b = true -> contains b a = true -> l_start a = l_start b /\ l_end a = l_end b.
Proof.
  intros a b H1 H2. apply contains_iff in H1. apply contains_iff in H2.
  destruct H1 as [A1 [A2 [A3 A4]]]. destruct H2 as [B1 [B2 [B3 B4]]].
  split; apply pos_le_antisym; assumption.
Qed.

Lemma contains_antisym_eq : forall a b, l_mod a = l_mod b ->
  contains a b = true -> contains b a = true -> a = b.
Proof.
  intros [m1 s1 e1] [m2 s2 e2] Hm H1 H2. destruct (contains_antisym _ _ H1 H2) as [Hs He].
  simpl in *. subst. reflexivity.
Qed.

(* ---------------------------------------------------------------- union *)

Lemma union_some : forall a b, l_mod a = l_mod b -> exists u, union a b = Some u.
Proof. intros a b H. unfold union. rewrite H, Nat.eqb_refl. eauto. Qed.

Lemma union_none : forall a b, l_mod a <> l_mod b -> union a b = None.
Proof. intros a b H. unfold union. apply Nat.eqb_neq in H. rewrite H. reflexivity. Qed.

Lemma union_spec : forall a b u, union a b = Some u ->
  l_mod u = l_mod a /\
  pos_le (l_start u) (l_start a) /\ pos_le (l_start u) (l_start b) /\
  (l_start u = l_start a \/ l_start u = l_start b) /\
  pos_le (l_end a) (l_end u) /\ pos_le (l_end b) (l_end u) /\
  (l_end u = l_end a \/ l_end u = l_end b).
Proof.
  intros a b u H. unfold union in H. destruct (l_mod a =? l_mod b); [|discriminate].
  inversion H; subst; clear H. simpl.
  destruct (pos_ltb (l_start a) (l_start b)) eqn:E1;
  destruct (pos_ltb (l_end b) (l_end a)) eqn:E2;
    try apply pos_ltb_lt in E1; try apply pos_ltb_lt in E2;
    try apply pos_ltb_false in E1; try apply pos_ltb_false in E2;
    repeat split; auto using pos_le_refl, pos_lt_le.
Qed.

(* the union of well-formed locations is well formed *)
Lemma union_wf : forall a b u, wf a -> wf b -> union a b = Some u -> wf u.
Proof.
  intros a b u Wa Wb H. destruct (union_spec _ _ _ H) as [_ [S1 [S2 [S3 [E1 [E2 E3]]]]]].
  unfold wf in *. destruct S3 as [S3|S3]; rewrite S3.
  - eapply pos_le_trans; [exact Wa | exact E1].
  - eapply pos_le_trans; [exact Wb | exact E2].
Qed.

(* upper bound *)
Lemma union_upper : forall a b u, wf a -> wf b -> union a b = Some u ->
  contains u a = true /\ contains u b = true.
Proof.
  intros a b u Wa Wb H. destruct (union_spec _ _ _ H) as [_ [S1 [S2 [_ [E1 [E2 _]]]]]].
  unfold wf in *. split; apply contains_iff; repeat split; eauto using pos_le_trans.
Qed.

(* least: anything that contains both contains the union *)
Lemma union_least : forall a b u c, union a b = Some u ->
  contains c a = true -> contains c b = true -> contains c u = true.
Proof.
  intros a b u c H Ha Hb. destruct (union_spec _ _ _ H) as [_ [_ [_ [S3 [_ [_ E3]]]]]].
  apply contains_iff in Ha. apply contains_iff in Hb. apply contains_iff.
  destruct Ha as [A1 [A2 [A3 A4]]]. destruct Hb as [B1 [B2 [B3 B4]]].
  destruct S3 as [S3|S3]; destruct E3 as [E3|E3]; rewrite S3, E3; repeat split; assumption.
Qed.

Lemma union_comm : forall a b, union a b = union b a.
Proof.
  intros a b. unfold union. rewrite (Nat.eqb_sym (l_mod b)).
  destruct (l_mod a =? l_mod b) eqn:Em; [|reflexivity]. apply Nat.eqb_eq in Em. rewrite Em.
  f_equal. f_equal.
  - destruct (pos_ltb (l_start a) (l_start b)) eqn:E1;
    destruct (pos_ltb (l_start b) (l_start a)) eqn:E2; try reflexivity.
    + apply pos_ltb_lt in E1. apply pos_ltb_lt in E2.
      destruct (l_start a), (l_start b). unfold pos_lt in *. simpl in *. lia.
    + apply pos_ltb_false in E1. apply pos_ltb_false in E2. apply pos_le_antisym; assumption.
  - destruct (pos_ltb (l_end b) (l_end a)) eqn:E1;
    destruct (pos_ltb (l_end a) (l_end b)) eqn:E2; try reflexivity.
    + apply pos_ltb_lt in E1. apply pos_ltb_lt in E2.
      destruct (l_end a), (l_end b). unfold pos_lt in *. simpl in *. lia.
    + apply pos_ltb_false in E1. apply pos_ltb_false in E2. apply pos_le_antisym; assumption.
Qed.

(* ---------------------------------------------------------------- union of first and last child *)

Lemma ordered_starts : forall rest a, ordered (a :: rest) -> Forall wf (a :: rest) ->
  Forall (fun c => pos_le (l_start a) (l_start c)) (a :: rest).
Proof.
  induction rest as [|b rest IH]; intros a Ho Hw.
  - constructor; [apply pos_le_refl | constructor].
  - constructor; [apply pos_le_refl|].
    destruct Ho as [Hab Ho]. inversion Hw as [|? ? Wa Hw']; subst.
    specialize (IH b Ho Hw').
    assert (Hsb : pos_le (l_start a) (l_start b)).
    { unfold before in Hab. eapply pos_le_trans; [exact Wa | exact Hab]. }
    eapply Forall_impl; [|exact IH]. intros c Hc. simpl in Hc.
    eapply pos_le_trans; [exact Hsb | exact Hc].
Qed.

Lemma last_cons : forall (rest : list location) a b, last (b :: rest) a = last rest b.
Proof.
  induction rest as [|c rest IH]; intros a b; [reflexivity|].
  change (last (b :: c :: rest) a) with (last (c :: rest) a).
  rewrite (IH a c), (IH b c). reflexivity.
Qed.

Lemma ordered_ends : forall rest a, ordered (a :: rest) -> Forall wf (a :: rest) ->
  Forall (fun c => pos_le (l_end c) (l_end (last rest a))) (a :: rest).
Proof.
  induction rest as [|b rest IH]; intros a Ho Hw.
  - constructor; [apply pos_le_refl | constructor].
  - destruct Ho as [Hab Ho]. inversion Hw as [|? ? Wa Hw']; subst.
    specialize (IH b Ho Hw').
    rewrite last_cons. constructor; [|exact IH].
    inversion IH as [|? ? Hb _]; subst. inversion Hw' as [|? ? Wb _]; subst.
    unfold before in Hab. unfold wf in Wb.
    eapply pos_le_trans; [exact Hab|]. eapply pos_le_trans; [exact Wb | exact Hb].
Qed.

Lemma union_encloses_children : forall a rest,
  ordered (a :: rest) -> Forall wf (a :: rest) ->
  Forall (fun c => l_mod c = l_mod a) (a :: rest) ->
  exists u, union a (last rest a) = Some u /\
            Forall (fun c => contains u c = true) (a :: rest).
Proof.
  intros a rest Ho Hw Hm.
  assert (Hml : l_mod a = l_mod (last rest a)).
  { assert (In (last rest a) (a :: rest)).
    { clear. revert a. induction rest as [|b rest IH]; intros a; [left; reflexivity|].
      right. rewrite last_cons. apply (IH b). }
    rewrite Forall_forall in Hm. symmetry. apply Hm. assumption. }
  destruct (union_some _ _ Hml) as [u Hu]. exists u. split; [exact Hu|].
  destruct (union_spec _ _ _ Hu) as [_ [S1 [S2 [_ [E1 [E2 _]]]]]].
  pose proof (ordered_starts rest a Ho Hw) as Hs.
  pose proof (ordered_ends rest a Ho Hw) as He.
  rewrite Forall_forall in *. intros c Hc.
  specialize (Hs c Hc). specialize (He c Hc). specialize (Hw c Hc). simpl in Hs, He.
  unfold wf in Hw. apply contains_iff.
  assert (A1 : pos_le (l_start u) (l_start c)) by (exact (pos_le_trans _ _ _ S1 Hs)).
  assert (A4 : pos_le (l_end c) (l_end u)) by (exact (pos_le_trans _ _ _ He E2)).
  split; [exact A1|]. split; [exact (pos_le_trans _ _ _ Hw A4)|].
  split; [exact (pos_le_trans _ _ _ A1 Hw) | exact A4].
Qed.

(* ---------------------------------------------------------------- positions and byte offsets *)

Lemma advance_app : forall a b p, advance p (a ++ b) = advance (advance p a) b.
Proof. intros. unfold advance. apply fold_left_app. Qed.

Lemma advance_cons : forall c bs p, advance p (c :: bs) = advance (next_line_or_column p c) bs.
Proof. reflexivity. Qed.

Lemma advance_no_nl : forall bs p, Forall (fun c => c <> NL) bs ->
  advance p bs = next_n_column p (length bs).
Proof.
  induction bs as [|c bs IH]; intros p H.
  - destruct p. reflexivity.
  - inversion H; subst. rewrite advance_cons, IH by assumption.
    unfold next_line_or_column. destruct (c =? NL)%N eqn:E; [apply N.eqb_eq in E; contradiction|].
    unfold next_n_column. simpl. rewrite Nat.add_succ_r. reflexivity.
Qed.

(* reading bytes never moves backwards; reading at least one byte moves forward *)
Lemma advance_le : forall bs p, pos_le p (advance p bs).
Proof.
  induction bs as [|c bs IH]; intros p; [apply pos_le_refl|].
  rewrite advance_cons. eapply pos_le_trans; [|apply IH].
  unfold next_line_or_column. destruct (c =? NL)%N; destruct p; unfold pos_le; simpl; lia.
Qed.

Lemma advance_lt : forall bs p, bs <> [] -> pos_lt p (advance p bs).
Proof.
  intros [|c bs] p H; [contradiction|]. rewrite advance_cons.
  pose proof (advance_le bs (next_line_or_column p c)) as L.
  unfold next_line_or_column in *. destruct (c =? NL)%N; destruct p;
    destruct (advance _ bs); unfold pos_le, pos_lt in *; simpl in *; lia.
Qed.

(* starting somewhere else shifts the line; the column is shifted only while on the first line *)
Lemma advance_shift : forall bs l0 c0,
  advance (l0, c0) bs =
  (l0 + fst (advance (0, 0) bs),
   if fst (advance (0, 0) bs) =? 0 then c0 + snd (advance (0, 0) bs) else snd (advance (0, 0) bs)).
Proof.
  induction bs as [|b bs IH]; intros l0 c0.
  - simpl. f_equal; lia.
  - rewrite !advance_cons. unfold next_line_or_column. simpl fst. simpl snd.
    destruct (b =? NL)%N.
    + rewrite (IH (S l0) 0), (IH 1 0).
      destruct (advance (0, 0) bs) as [L C]. simpl.
      destruct (L =? 0); f_equal; lia.
    + rewrite (IH l0 (S c0)), (IH 0 1).
      destruct (advance (0, 0) bs) as [L C]. simpl.
      destruct (L =? 0) eqn:E; simpl; rewrite ?E; f_equal; lia.
Qed.

Lemma firstn_add : forall (l : list N) a b,
  firstn (a + b) l = firstn a l ++ firstn b (skipn a l).
Proof.
  intros l a. revert l. induction a as [|a IH]; intros l b; [reflexivity|].
  destruct l as [|x l]; simpl; [rewrite firstn_nil; reflexivity|]. f_equal. apply IH.
Qed.

Lemma skipn_add : forall (l : list N) a b, skipn b (skipn a l) = skipn (a + b) l.
Proof.
  intros l a. revert l. induction a as [|a IH]; intros l b; [reflexivity|].
  destruct l as [|x l]; simpl; [apply skipn_nil|]. apply IH.
Qed.

Lemma pos_at_add : forall s a b,
  pos_at s (a + b) = advance (pos_at s a) (firstn b (skipn a s)).
Proof. intros. unfold pos_at. rewrite firstn_add, advance_app. reflexivity. Qed.

Lemma pos_at_mono : forall s a b, a <= b -> pos_le (pos_at s a) (pos_at s b).
Proof.
  intros s a b H. replace b with (a + (b - a)) by lia. rewrite pos_at_add. apply advance_le.
Qed.

Lemma offset_of_0 : forall s c, offset_of s 0 c = if c <=? line_len s then Some c else None.
Proof. intros [|b s] c; reflexivity. Qed.

(* Position -> offset inverts offset -> Position *)
Lemma offset_pos_at : forall s k, k <= length s -> offset_of_pos s (pos_at s k) = Some k.
Proof.
  unfold offset_of_pos, pos_at.
  induction s as [|b s IH]; intros k H.
  - simpl in H. assert (k = 0) by lia. subst. reflexivity.
  - destruct k as [|k]; [reflexivity|].
    simpl firstn. rewrite advance_cons. unfold next_line_or_column. simpl fst. simpl snd.
    specialize (IH k). simpl in H. assert (Hk : k <= length s) by lia. specialize (IH Hk).
    destruct (b =? NL)%N eqn:E.
    + rewrite (advance_shift _ 1 0).
      destruct (advance (0, 0) (firstn k s)) as [L C]. simpl in *.
      rewrite E. replace (if L =? 0 then C else C) with C by (destruct (L =? 0); reflexivity).
      rewrite IH. reflexivity.
    + rewrite (advance_shift _ 0 1).
      destruct (advance (0, 0) (firstn k s)) as [L C]. simpl in *.
      destruct L as [|L]; simpl.
      * rewrite offset_of_0 in IH. unfold line_len in *. simpl. rewrite E.
        destruct (C <=? count_to_nl s) eqn:E2; [|discriminate].
        inversion IH; subst. reflexivity.
      * rewrite E. rewrite IH. reflexivity.
Qed.

(* ---------------------------------------------------------------- scanners and positions *)

Lemma skip_ws_advance : forall s p n p', skip_ws s p = (n, p') -> p' = advance p (firstn n s).
Proof.
  induction s as [|c s IH]; intros p n p' H; simpl in H.
  - inversion H; subst. reflexivity.
  - destruct (is_ws c).
    + destruct (skip_ws s (next_line_or_column p c)) as [m q] eqn:E.
      inversion H; subst. simpl firstn. rewrite advance_cons. apply IH. exact E.
    + inversion H; subst. reflexivity.
Qed.

Lemma skipn_get : forall (s : list N) k c, get s k = Some c -> skipn k s = c :: skipn (S k) s.
Proof.
  induction s as [|x s IH]; intros k c H; [destruct k; discriminate|].
  destruct k as [|k]; simpl in *; [inversion H; reflexivity|]. apply IH. exact H.
Qed.

Lemma block_loop_advance : forall s f cl p n p',
  block_loop s f cl p = Ok (Some (n, p')) ->
  cl <= n /\ p' = advance p (firstn (n - cl) (skipn cl s)).
Proof.
  intros s f. induction f as [|f IH]; intros cl p n p' H; [discriminate|].
  cbn [block_loop] in H.
  destruct (length s <? cl + 2); [discriminate|].
  destruct (get s cl) as [c|] eqn:Hc; [|discriminate].
  assert (Hrec : block_loop s f (S cl) (next_line_or_column p c) = Ok (Some (n, p')) ->
                 cl <= n /\ p' = advance p (firstn (n - cl) (skipn cl s))).
  { intros R. apply IH in R. destruct R as [R1 R2]. split; [lia|].
    rewrite (skipn_get _ _ _ Hc). replace (n - cl) with (S (n - S cl)) by lia.
    simpl firstn. rewrite advance_cons. exact R2. }
  destruct (c =? STAR)%N eqn:Es; [|exact (Hrec H)].
  destruct (get s (cl + 1)) as [d|] eqn:Hd; [|discriminate].
  destruct (d =? SLASH)%N eqn:Ed; [|exact (Hrec H)].
  inversion H; subst. split; [lia|].
  apply N.eqb_eq in Es. apply N.eqb_eq in Ed. subst.
  rewrite (skipn_get _ _ _ Hc). replace (cl + 1) with (S cl) in Hd by lia.
  rewrite (skipn_get _ _ _ Hd). replace (cl + 2 - cl) with 2 by lia.
  simpl firstn. destruct p as [pl pc]. reflexivity.
Qed.

Lemma lex_block_comment_advance : forall s p d n p',
  lex_block_comment s p = Ok (Some (d, n, p')) -> p' = advance p (firstn n s).
Proof.
  intros s p d n p' H. unfold lex_block_comment in H.
  destruct (starts_with2 s SLASH STAR) eqn:E; [|discriminate].
  destruct (starts_with2_cons _ _ _ E) as [rest Hs].
  destruct (block_loop s (length s) 2 (next_n_column p 2)) as [[[m q]|]| |] eqn:R; try discriminate.
  assert (Hnm : n = m /\ p' = q).
  { destruct (slice s 0 m); [|discriminate].
    destruct (4 <? length l).
    - destruct (get l 2); [|discriminate].
      destruct (n0 =? STAR)%N;
        match type of H with context [slice ?a ?b ?c] => destruct (slice a b c) end;
        inversion H; auto.
    - match type of H with context [slice ?a ?b ?c] => destruct (slice a b c) end;
        inversion H; auto. }
  destruct Hnm; subst n p'. apply block_loop_advance in R. destruct R as [R1 R2].
  rewrite R2. rewrite Hs. replace m with (2 + (m - 2)) at 2 by lia.
  simpl firstn. simpl skipn. rewrite !advance_cons. destruct p as [pl pc].
  reflexivity.
Qed.

(* ---------------------------------------------------------------- tokens without line feeds *)

Lemma forall_get_firstn : forall (P : N -> Prop) n (r : list N),
  (forall j c, j < n -> get r j = Some c -> P c) -> Forall P (firstn n r).
Proof.
  intros P n. induction n as [|n IH]; intros r H; [constructor|].
  destruct r as [|x r]; [constructor|]. simpl. constructor.
  - apply (H 0 x); [lia | reflexivity].
  - apply IH. intros j c Hj Hg. apply (H (S j) c); [lia | exact Hg].
Qed.

Lemma str_no_nl : forall r n, lex_str r = Ok (Some n) -> Forall (fun c => c <> NL) (firstn n r).
Proof.
  intros r n H. apply lex_str_accept_iff in H. destruct H as [E [q [-> [Hq [[Hg _] Hb]]]]].
  destruct (starts_with1_cons _ _ E) as [body Hr].
  apply forall_get_firstn. intros j c Hj Hc.
  destruct (Nat.eq_dec j 0) as [->|H0].
  - rewrite Hr in Hc. inversion Hc. unfold QUOTE, NL. discriminate.
  - destruct (Nat.eq_dec j q) as [->|Hne].
    + rewrite Hg in Hc. inversion Hc. unfold QUOTE, NL. discriminate.
    + destruct (Hb j) as [_ Hn]; [lia|lia|]. intros ->. contradiction.
Qed.

Lemma line_no_nl : forall r n, lex_line_comment r = Ok (Some n) ->
  Forall (fun c => c <> NL) (firstn n r).
Proof.
  intros r n H. destruct (lex_line_comment_spec r) as [[_ R]|[rest [-> R]]];
    rewrite R in H; inversion H; subst.
  simpl. constructor; [unfold SLASH, NL; discriminate|].
  constructor; [unfold SLASH, NL; discriminate|]. apply count_to_nl_spec.
Qed.

Lemma span_forall : forall f s, Forall (fun c => f c = true) (firstn (span f s) s).
Proof.
  induction s as [|c s IH]; simpl; [constructor|].
  destruct (f c) eqn:E; simpl; [constructor; assumption | constructor].
Qed.

Lemma operators_no_nl : forall o, In o operators -> Forall (fun c => c <> NL) o.
Proof.
  assert (H : forallb (forallb (fun c => negb (c =? NL)%N)) operators = true) by reflexivity.
  intros o Ho. rewrite forallb_forall in H. specialize (H o Ho).
  rewrite forallb_forall in H. apply Forall_forall. intros c Hc. specialize (H c Hc).
  apply negb_true_iff in H. apply N.eqb_neq in H. exact H.
Qed.

Lemma simple_no_nl : forall r k n, lex_simple r = Some (k, n) ->
  Forall (fun c => c <> NL) (firstn n r).
Proof.
  intros [|c r] k n H; [discriminate|]. unfold lex_simple in H.
  assert (Halnum : Forall (fun x => x <> NL) (firstn (span is_alnum r) r)).
  { eapply Forall_impl; [|apply span_forall]. intros x Hx ->. discriminate Hx. }
  assert (Hdigit : Forall (fun x => x <> NL) (firstn (span is_digit r) r)).
  { eapply Forall_impl; [|apply span_forall]. intros x Hx ->. discriminate Hx. }
  destruct (is_upper c) eqn:E1.
  { inversion H; subst. simpl. constructor; [intros ->; discriminate E1 | exact Halnum]. }
  destruct (is_lower c) eqn:E2.
  { inversion H; subst. simpl. constructor; [intros ->; discriminate E2 | exact Halnum]. }
  destruct (c =? 48)%N eqn:E3.
  { inversion H; subst. simpl. apply N.eqb_eq in E3. subst.
    constructor; [unfold NL; discriminate | constructor]. }
  destruct (is_digit c) eqn:E4.
  { inversion H; subst. simpl. constructor; [intros ->; discriminate E4 | exact Hdigit]. }
  destruct (op_len_spec (c :: r)) as [Z|[o [Ho [Hp Hl]]]].
  - rewrite Z in H. discriminate.
  - destruct (op_len (c :: r)) eqn:E5; [discriminate|]. inversion H; subst.
    rewrite <- Hl. rewrite (is_prefix_firstn _ _ Hp). apply operators_no_nl. exact Ho.
Qed.

Lemma err_no_nl : forall c r, is_ws c = false ->
  Forall (fun x => x <> NL) (firstn (err_len (c :: r)) (c :: r)).
Proof.
  intros c r H. simpl. constructor; [intros ->; discriminate H|].
  eapply Forall_impl; [|apply span_forall]. intros x Hx ->. discriminate Hx.
Qed.

(* ---------------------------------------------------------------- every token's location is exact *)

(* the token is the byte range [t_off, t_off + len) of the text, its start position is the
   position of its first byte and its end position the position just after its last byte *)
Definition tok_exact (s0 : list N) (t : tok) : Prop :=
  1 <= length (t_raw t) /\
  t_off t + length (t_raw t) <= length s0 /\
  t_raw t = firstn (length (t_raw t)) (skipn (t_off t) s0) /\
  t_start t = pos_at s0 (t_off t) /\
  t_end t = pos_at s0 (t_off t + length (t_raw t)).

Lemma tok_exact_intro : forall s0 a m k,
  1 <= m -> a + m <= length s0 ->
  tok_exact s0 (mkTok k (pos_at s0 a) (advance (pos_at s0 a) (firstn m (skipn a s0))) a
                      (firstn m (skipn a s0))) /\
  advance (pos_at s0 a) (firstn m (skipn a s0)) = pos_at s0 (a + m).
Proof.
  intros s0 a m k H1 H2.
  assert (Hl : length (firstn m (skipn a s0)) = m).
  { rewrite firstn_length, skipn_length. lia. }
  unfold tok_exact. simpl. rewrite Hl. rewrite pos_at_add. repeat split; auto.
Qed.

Lemma next_raw_locs : forall s0 off s p t es n p',
  off <= length s0 -> s = skipn off s0 -> p = pos_at s0 off ->
  next_raw s p off = Ok (Some (t, es, n, p')) ->
  tok_exact s0 t /\ off <= t_off t /\ t_off t + length (t_raw t) = off + n /\
  p' = pos_at s0 (off + n) /\ 1 <= n /\ n <= length s.
Proof.
  intros s0 off s p t es n p' Hoff Hs Hp H. unfold next_raw in H.
  destruct (skip_ws s p) as [w p1] eqn:W.
  replace (w + off) with (off + w) in H by lia.
  pose proof (skip_ws_le _ _ _ _ W) as Hw.
  pose proof (skip_ws_advance _ _ _ _ W) as Hp1.
  pose proof (skip_ws_spec _ _ _ _ W) as [_ Hnext].
  assert (Hlen : length s = length s0 - off) by (subst s; apply skipn_length).
  assert (Hr : skipn w s = skipn (off + w) s0) by (subst s; apply skipn_add).
  assert (Hp1' : p1 = pos_at s0 (off + w)) by (rewrite pos_at_add, <- Hs, <- Hp; exact Hp1).
  rewrite Hr in *. set (r := skipn (off + w) s0) in *.
  assert (Hrl : length r = length s0 - (off + w)) by (unfold r; apply skipn_length).
  (* the common conclusion for a token of m bytes without line feeds, or with a known advance *)
  assert (Hfin : forall k m,
            1 <= m -> m <= length r -> 
            tok_exact s0 (mkTok k p1 (advance p1 (firstn m r)) (off + w) (firstn m r)) /\
            off <= off + w /\ (off + w) + length (firstn m r) = off + (w + m) /\
            advance p1 (firstn m r) = pos_at s0 (off + (w + m)) /\ 1 <= w + m /\ w + m <= length s).
  { intros k m Hm1 Hm2. rewrite Hp1'.
    destruct (tok_exact_intro s0 (off + w) m k Hm1) as [T A]; [lia|].
    fold r in T, A. split; [exact T|]. split; [lia|].
    split; [rewrite firstn_length; lia|].
    split; [rewrite A; f_equal; lia|]. lia. }
  destruct (lex_str r) as [[m|]| |] eqn:L1; try discriminate.
  { pose proof (lex_str_progress _ _ L1) as [M1 M2]. pose proof (str_no_nl _ _ L1) as NN.
    inversion H; subst t es n p'; clear H.
    assert (EQ : next_n_column p1 m = advance p1 (firstn m r))
      by (rewrite advance_no_nl by exact NN; rewrite firstn_length_le by exact M2; reflexivity).
    rewrite EQ. cbn [t_off t_raw]. apply (Hfin KString m); lia. }
  destruct (lex_line_comment r) as [[m|]| |] eqn:L2; try discriminate.
  { pose proof (lex_line_comment_progress _ _ L2) as [M1 M2]. pose proof (line_no_nl _ _ L2) as NN.
    inversion H; subst t es n p'; clear H.
    assert (EQ : next_n_column p1 m = advance p1 (firstn m r))
      by (rewrite advance_no_nl by exact NN; rewrite firstn_length_le by exact M2; reflexivity).
    rewrite EQ. cbn [t_off t_raw]. apply (Hfin KLineComment m); lia. }
  destruct (lex_block_comment r p1) as [[[[d m] p2]|]| |] eqn:L3; try discriminate.
  { pose proof (lex_block_comment_progress _ _ _ _ _ L3) as [M1 M2].
    pose proof (lex_block_comment_advance _ _ _ _ _ L3) as A.
    inversion H; subst t es n p'; clear H. rewrite A. cbn [t_off t_raw].
    apply (Hfin (if d then KDocComment else KBlockComment) m); lia. }
  destruct r as [|c r'] eqn:Er; [discriminate|].
  destruct (lex_simple (c :: r')) as [[k m]|] eqn:L4.
  - pose proof (lex_simple_progress _ _ _ L4) as [M1 M2]. pose proof (simple_no_nl _ _ _ L4) as NN.
    inversion H; subst t es n p'; clear H.
    assert (EQ : next_n_column p1 m = advance p1 (firstn m (c :: r')))
      by (rewrite advance_no_nl by exact NN; rewrite firstn_length_le by exact M2; reflexivity).
    rewrite EQ. cbn [t_off t_raw]. apply (Hfin k m); lia.
  - destruct (err_len_progress (c :: r')) as [M1 M2]; [discriminate|].
    pose proof (err_no_nl c r' Hnext) as NN.
    remember (err_len (c :: r')) as m eqn:Em.
    inversion H; subst t es n p'; clear H.
    assert (EQ : next_n_column p1 m = advance p1 (firstn m (c :: r')))
      by (rewrite advance_no_nl by exact NN; rewrite firstn_length_le by exact M2; reflexivity).
    rewrite EQ. cbn [t_off t_raw]. apply (Hfin KError m); lia.
Qed.

(* consecutive tokens: each starts at or after the end of the previous one *)
Fixpoint chain (off : nat) (ts : list tok) : Prop :=
  match ts with
  | [] => True
  | t :: ts' => off <= t_off t /\ chain (t_off t + length (t_raw t)) ts'
  end.

Lemma raw_loop_locs : forall f s0 off s p ts es,
  off <= length s0 -> s = skipn off s0 -> p = pos_at s0 off ->
  raw_loop f s p off = Ok (ts, es) -> Forall (tok_exact s0) ts /\ chain off ts.
Proof.
  induction f as [|f IH]; intros s0 off s p ts es Hoff Hs Hp H; [discriminate|].
  simpl in H. destruct (next_raw s p off) as [[[[[t e1] n] p']|]| |] eqn:R; try discriminate.
  - replace (n + off) with (off + n) in H by lia.
    destruct (raw_loop f (skipn n s) p' (off + n)) as [[ts' es']| |] eqn:R'; try discriminate.
    inversion H; subst ts es; clear H.
    destruct (next_raw_locs s0 off s p t e1 n p' Hoff Hs Hp R) as [T [O1 [O2 [P' [N1 N2]]]]].
    assert (Hlen : length s = length s0 - off) by (subst s; apply skipn_length).
    destruct (IH s0 (off + n) (skipn n s) p' ts' es') as [F C]; auto.
    + lia.
    + subst s. apply skipn_add.
    + split; [constructor; assumption|]. simpl. split; [exact O1|]. rewrite O2. exact C.
  - inversion H; subst. split; constructor.
Qed.

Lemma tok_exact_text : forall s t, tok_exact s t ->
  text_between s (t_start t) (t_end t) = Some (t_raw t) /\
  pos_lt (t_start t) (t_end t) /\
  in_document s (t_start t) /\ in_document s (t_end t).
Proof.
  intros s t [H1 [H2 [H3 [H4 H5]]]].
  assert (O1 : offset_of_pos s (t_start t) = Some (t_off t)) by (rewrite H4; apply offset_pos_at; lia).
  assert (O2 : offset_of_pos s (t_end t) = Some (t_off t + length (t_raw t)))
    by (rewrite H5; apply offset_pos_at; lia).
  split; [|split; [|split]].
  - unfold text_between. rewrite O1, O2. rewrite slice_some by lia.
    replace (t_off t + length (t_raw t) - t_off t) with (length (t_raw t)) by lia.
    rewrite <- H3. reflexivity.
  - rewrite H4, H5, pos_at_add. rewrite <- H3. apply advance_lt.
    destruct (t_raw t); [simpl in H1; lia | discriminate].
  - unfold in_document. rewrite O1. discriminate.
  - unfold in_document. rewrite O2. discriminate.
Qed.

Fixpoint toks_ordered (ts : list tok) : Prop :=
  match ts with
  | [] => True
  | a :: rest => match rest with
                 | [] => True
                 | b :: _ => pos_le (t_end a) (t_start b) /\ toks_ordered rest
                 end
  end.

Lemma chain_ordered : forall s ts off, Forall (tok_exact s) ts -> chain off ts -> toks_ordered ts.
Proof.
  intros s. induction ts as [|a ts IH]; intros off F C; [exact I|].
  destruct ts as [|b ts]; [exact I|].
  inversion F as [|? ? Ta F']; subst. inversion F' as [|? ? Tb _]; subst.
  destruct C as [_ C]. pose proof C as C'. destruct C' as [Cb _].
  split; [|exact (IH _ F' C)].
  destruct Ta as [_ [_ [_ [_ Ea]]]]. destruct Tb as [_ [_ [_ [Sb _]]]].
  rewrite Ea, Sb. apply pos_at_mono. exact Cb.
Qed.

(* the theorems about the whole raw token stream *)
Lemma token_loc_exact : forall s ts es, lex_raw s = Ok (ts, es) ->
  Forall (fun t =>
    text_between s (t_start t) (t_end t) = Some (t_raw t) /\
    pos_lt (t_start t) (t_end t) /\
    in_document s (t_start t) /\ in_document s (t_end t)) ts.
Proof.
  intros s ts es H. unfold lex_raw in H.
  destruct (raw_loop_locs (S (length s)) s 0 s (0, 0) ts es) as [F _]; auto; try lia.
  eapply Forall_impl; [|exact F]. intros t. apply tok_exact_text.
Qed.

Lemma tokens_do_not_overlap : forall s ts es, lex_raw s = Ok (ts, es) -> toks_ordered ts.
Proof.
  intros s ts es H. unfold lex_raw in H.
  destruct (raw_loop_locs (S (length s)) s 0 s (0, 0) ts es) as [F C]; auto; try lia.
  exact (chain_ordered s ts 0 F C).
Qed.

(* after TokenProducer: both ends of every token (including the merged `-2147483648`, whose
   location is the union of the two) are positions of byte offsets of the text *)
Definition ends_in_text (s : list N) (t : tok) : Prop :=
  (exists a, a <= length s /\ t_start t = pos_at s a) /\
  (exists b, b <= length s /\ t_end t = pos_at s b).

Lemma tok_exact_ends : forall s t, tok_exact s t -> ends_in_text s t.
Proof.
  intros s t [H1 [H2 [H3 [H4 H5]]]]. split.
  - exists (t_off t). split; [lia | exact H4].
  - exists (t_off t + length (t_raw t)). split; [lia | exact H5].
Qed.

Lemma produce_ends : forall s ts pending out errs,
  Forall (ends_in_text s) ts ->
  (forall q, pending = Some q -> ends_in_text s q) ->
  Forall (ends_in_text s) out ->
  Forall (ends_in_text s) (fst (produce ts pending out errs)).
Proof.
  intros s. induction ts as [|t ts IH]; intros pending out errs F P O.
  - simpl. apply Forall_rev. destruct pending as [q|]; [constructor; auto | exact O].
  - inversion F as [|? ? Ht F']; subst.
    assert (Hout' : Forall (ends_in_text s) (match pending with Some q => q :: out | None => out end)).
    { destruct pending as [q|]; [constructor; auto | exact O]. }
    assert (Hyield : forall e, Forall (ends_in_text s)
              (fst (produce ts (Some t) (match pending with Some q => q :: out | None => out end) e))).
    { intros e. apply IH; auto. intros q Hq. inversion Hq; subst. exact Ht. }
    simpl. destruct (t_kind t); try apply Hyield.
    destruct ((MAXI32_PLUS1 <? dec_value (t_raw t) 0)%N
              || (dec_value (t_raw t) 0 =? MAXI32_PLUS1)%N && negb (pending_is_minus pending));
      [apply Hyield|].
    destruct (dec_value (t_raw t) 0 =? MAXI32_PLUS1)%N; [|apply Hyield].
    destruct pending as [q|]; [|apply Hyield].
    apply IH; auto.
    intros q' Hq'. inversion Hq'; subst; clear Hq'.
    destruct (P q eq_refl) as [Qs Qe]. destruct Ht as [Ts Te].
    split; simpl.
    + unfold union_start. destruct (pos_ltb (t_start q) (t_start t)); assumption.
    + unfold union_end. destruct (pos_ltb (t_end t) (t_end q)); assumption.
Qed.

Lemma lex_ends_in_text : forall s ts es, lex s = Ok (ts, es) -> Forall (ends_in_text s) ts.
Proof.
  intros s ts es H. unfold lex in H.
  destruct (lex_raw s) as [[rts res]| |] eqn:R; try discriminate.
  inversion H as [H1]. 
  assert (F : Forall (ends_in_text s) rts).
  { unfold lex_raw in R.
    destruct (raw_loop_locs (S (length s)) s 0 s (0, 0) rts res) as [F _]; auto; try lia.
    eapply Forall_impl; [|exact F]. intros t. apply tok_exact_ends. }
  pose proof (produce_ends s rts None [] res F) as P.
  rewrite H1 in P. simpl in P. apply P; [intros q Hq; discriminate | constructor].
Qed.
