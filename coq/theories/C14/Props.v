(* C14 — the property theorems: the location algebra of loc.rs and the exactness of the
   positions the (modelled) lexer attaches to tokens.  Nothing but statements closed by `exact`,
   non-vacuity examples and Print Assumptions.  Parsed by /verif/check.

   Columns are BYTE columns (UTF-8 bytes since the last line feed), as the Rust lexer counts them.
   The ~60 `union` call sites of the parser are NOT modelled: they are monitored (checks/c14.py). *)
From Coq Require Import List NArith Arith Bool Lia.
Import ListNotations.
From SV Require Import C05.Model C14.Model C14.Proofs.

(* 1. `contains` is a partial order on well-formed locations (start <= end) *)
Theorem C14_contains_reflexive : forall l, wf l -> contains l l = true.
Proof. exact contains_refl. Qed.

Theorem C14_contains_transitive : forall a b c,
  contains a b = true -> contains b c = true -> contains a c = true.
Proof. exact contains_trans. Qed.

Theorem C14_contains_antisymmetric : forall a b, l_mod a = l_mod b ->
  contains a b = true -> contains b a = true -> a = b.
Proof. exact contains_antisym_eq. Qed.

(* reflexivity really needs well-formedness: an inverted location does not contain itself *)
Theorem C14_contains_reflexive_needs_wf :
  exists l, ~ wf l /\ contains l l = false.
Proof.
  exists (mkLoc 0 (1, 0) (0, 0)). split; [|exact contains_refl_needs_wf].
  unfold wf, pos_le. simpl. lia.
Qed.

(* 2. `union` is the least upper bound for `contains` (on well-formed locations of one module;
      on different modules the Rust code panics and the model returns None) *)
Theorem C14_union_defined_iff_same_module : forall a b,
  (l_mod a = l_mod b -> exists u, union a b = Some u) /\
  (l_mod a <> l_mod b -> union a b = None).
Proof. intros a b. exact (conj (union_some a b) (union_none a b)). Qed.

Theorem C14_union_upper_bound : forall a b u, wf a -> wf b -> union a b = Some u ->
  wf u /\ contains u a = true /\ contains u b = true.
Proof.
  intros a b u Wa Wb H.
  exact (conj (union_wf a b u Wa Wb H) (union_upper a b u Wa Wb H)).
Qed.

Theorem C14_union_least : forall a b u c, union a b = Some u ->
  contains c a = true -> contains c b = true -> contains c u = true.
Proof. exact union_least. Qed.

Theorem C14_union_commutative : forall a b, union a b = union b a.
Proof. exact union_comm. Qed.

(* 3. what the parser relies on at every `first.union(&last)`: for an ordered, pairwise
      non-overlapping list of well-formed children of one module, the union of the first and
      the last encloses all of them *)
Theorem C14_union_encloses_children : forall a rest,
  ordered (a :: rest) -> Forall wf (a :: rest) ->
  Forall (fun c => l_mod c = l_mod a) (a :: rest) ->
  exists u, union a (last rest a) = Some u /\
            Forall (fun c => contains u c = true) (a :: rest).
Proof. exact union_encloses_children. Qed.

(* 4. Position -> byte offset inverts byte offset -> Position, for every text and offset *)
Theorem C14_offset_roundtrip : forall s k, k <= length s ->
  offset_of_pos s (pos_at s k) = Some k.
Proof. exact offset_pos_at. Qed.

(* 5. token_loc_exact: for every token of the modelled lexer, on every input: slicing the text
      at offset(start) .. offset(end) gives exactly the token's bytes; start is strictly before
      end; both lie inside the document *)
Theorem C14_token_loc_exact : forall s ts es, lex_raw s = Ok (ts, es) ->
  Forall (fun t =>
    text_between s (t_start t) (t_end t) = Some (t_raw t) /\
    pos_lt (t_start t) (t_end t) /\
    in_document s (t_start t) /\ in_document s (t_end t)) ts.
Proof. exact token_loc_exact. Qed.

(* 6. sibling tokens never overlap and are in source order *)
Theorem C14_tokens_do_not_overlap : forall s ts es, lex_raw s = Ok (ts, es) -> toks_ordered ts.
Proof. exact tokens_do_not_overlap. Qed.

(* 7. after TokenProducer (the merged `-2147483648` token carries the union of two locations):
      both ends of every token are positions of byte offsets of the text.
      The full statement [slice = token text] is FALSE for the merged token when white space
      separates `-` and the digits: its text is `-2147483648`, its location covers the gap too
      (see the Example below); proved for the raw stream in 5. *)
Theorem C14_produced_tokens_in_document_partial : forall s ts es, lex s = Ok (ts, es) ->
  Forall (ends_in_text s) ts.
Proof. exact lex_ends_in_text. Qed.

(* ---------------------------------------------------------------- non-vacuity *)

(* two lines, a two-byte character and a CR: positions are byte columns *)
Example C14_example_positions :
  (* "é" x CR LF y  =  34 195 169 34 32 120 13 10 121 *)
  let s := [34; 195; 169; 34; 32; 120; 13; 10; 121]%N in
  option_map (fun r => map (fun t => (t_start t, t_end t, t_off t)) (fst r))
    (match lex_raw s with Ok r => Some r | _ => None end)
  = Some [((0, 0), (0, 4), 0); ((0, 5), (0, 6), 5); ((1, 0), (1, 1), 8)]
  /\ offset_of_pos s (1, 0) = Some 8 /\ offset_of_pos s (0, 8) = None /\ offset_of_pos s (2, 0) = None.
Proof. vm_compute. repeat split; reflexivity. Qed.

(* the merged token: `-  2147483648` has text -2147483648 (11 bytes) and a 13-column location *)
Example C14_example_merged_token :
  match lex [45; 32; 32; 50; 49; 52; 55; 52; 56; 51; 54; 52; 56]%N with
  | Ok ([t], []) => (t_start t, t_end t, length (t_raw t))
  | _ => ((9, 9), (9, 9), 0)
  end = ((0, 0), (0, 13), 11).
Proof. vm_compute. reflexivity. Qed.

Example C14_example_union :
  union (mkLoc 0 (1, 3) (2, 3)) (mkLoc 0 (3, 1) (4, 1)) = Some (mkLoc 0 (1, 3) (4, 1)) /\
  contains (mkLoc 0 (1, 3) (3, 1)) (mkLoc 0 (1, 4) (3, 0)) = true /\
  contains (mkLoc 0 (1, 3) (3, 1)) (mkLoc 0 (1, 3) (3, 2)) = false /\
  ordered [mkLoc 0 (0, 0) (0, 3); mkLoc 0 (0, 3) (1, 2); mkLoc 0 (2, 0) (2, 1)].
Proof. vm_compute. repeat split; auto; lia. Qed.

Print Assumptions C14_contains_reflexive.
Print Assumptions C14_contains_transitive.
Print Assumptions C14_contains_antisymmetric.
Print Assumptions C14_contains_reflexive_needs_wf.
Print Assumptions C14_union_defined_iff_same_module.
Print Assumptions C14_union_upper_bound.
Print Assumptions C14_union_least.
Print Assumptions C14_union_commutative.
Print Assumptions C14_union_encloses_children.
Print Assumptions C14_offset_roundtrip.
Print Assumptions C14_token_loc_exact.
Print Assumptions C14_tokens_do_not_overlap.
Print Assumptions C14_produced_tokens_in_document_partial.
