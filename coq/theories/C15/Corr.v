(* C15 — glue for the correspondence check: the model run on the event trace logged by the
   hook must reproduce the maps of SsaAnalysisResult dumped by the harness, and rename_trace
   must reproduce the trace logged after `rewrite::rename` + re-analysis.  Definitions only. *)
From Coq Require Import List NArith Bool.
Import ListNotations.
From SV Require Import C15.Model.

Section Lists.
  Context {A : Type} (eqb : A -> A -> bool).
  Fixpoint mem (x : A) (l : list A) : bool :=
    match l with [] => false | y :: l' => eqb x y || mem x l' end.
  Fixpoint remove1 (x : A) (l : list A) : list A :=
    match l with [] => [] | y :: l' => if eqb x y then l' else y :: remove1 x l' end.
  (* equal as multisets *)
  Fixpoint perm_b (a b : list A) : bool :=
    match a with
    | [] => match b with [] => true | _ => false end
    | x :: a' => mem x b && perm_b a' (remove1 x b)
    end.
  Definition incl_b (a b : list A) : bool := forallb (fun x => mem x b) a.
  (* equal as sets *)
  Definition set_b (a b : list A) : bool := incl_b a b && incl_b b a.
  Fixpoint list_eqb (a b : list A) : bool :=
    match a, b with
    | [], [] => true
    | x :: a', y :: b' => eqb x y && list_eqb a' b'
    | _, _ => false
    end.
  Fixpoint dedup (l : list A) : list A :=
    match l with [] => [] | x :: l' => if mem x l' then dedup l' else x :: dedup l' end.
End Lists.

Definition pair_eqb (a b : N * N) : bool := N.eqb (fst a) (fst b) && N.eqb (snd a) (snd b).

Definition err_eqb (a b : err) : bool :=
  match a, b with
  | Unbound x l, Unbound y k => N.eqb x y && N.eqb l k
  | AlreadyBound x l p, AlreadyBound y k q => N.eqb x y && N.eqb l k && N.eqb p q
  | _, _ => false
  end.

Definition event_eqb (a b : event) : bool :=
  match a, b with
  | Push, Push | Pop, Pop => true
  | PopLam l, PopLam k => N.eqb l k
  | Def x l, Def y k => N.eqb x y && N.eqb l k
  | Use x l f, Use y k g => N.eqb x y && N.eqb l k && Bool.eqb f g
  | _, _ => false
  end.

(* what the harness dumped for one module *)
Record dump := mkDump {
  k_ud : list (N * N);                 (* use_define_map *)
  k_d2u : list (N * list N);           (* def_to_use_map *)
  k_lams : list (N * list (N * N));    (* lambda_captures *)
  k_unb : list N;                      (* unbound_names *)
  k_inv : list N;                      (* invalid_defines *)
  k_errs : list err;                   (* the two kinds of diagnostics the analysis reports *)
  k_pats : list pat }.                 (* every let / if-let / match-arm pattern of the module *)

(* one observed rename: binder d named x renamed to x'; the trace logged afterwards has the shape
   of the original one (checked by the harness) and these names at the listed event indices
   (all other events carry their old names) *)
Definition rename_obs := (N * N * N * list (N * N))%type.

Definition d2u_ok (s : st) (impl : list (N * list N)) : bool :=
  set_b N.eqb (map fst impl) (defs s) &&
  perm_b N.eqb (map fst impl) (dedup N.eqb (map fst impl)) &&
  forallb (fun du => perm_b N.eqb (snd du) (refs_of s (fst du))) impl.

Definition lam_eqb (a b : N * list (N * N)) : bool :=
  N.eqb (fst a) (fst b) && perm_b pair_eqb (snd a) (snd b).

Definition lams_ok (c : cst) (impl : list (N * list (N * N))) : bool :=
  perm_b lam_eqb (map (fun e => (fst (fst e), snd e)) (c_lams c)) impl.

(* the events the pattern model predicts occur contiguously in the trace *)
Fixpoint prefix_b (a t : list event) : bool :=
  match a, t with
  | [], _ => true
  | x :: a', y :: t' => event_eqb x y && prefix_b a' t'
  | _, [] => false
  end.
Fixpoint infix_b (a t : list event) : bool :=
  prefix_b a t || match t with [] => false | _ :: t' => infix_b a t' end.

(* the identifiers of a pattern that produce no event (model) *)
Definition silent_ids (p : pat) : list N :=
  filter (fun l => negb (mem N.eqb l (flat_map ev_loc (emit p)))) (ids p).

Fixpoint patch (i : N) (t : list event) (diffs : list (N * N)) : list event :=
  match t with
  | [] => []
  | e :: t' => (match assoc i diffs with Some n => set_name n e | None => e end) :: patch (i + 1) t' diffs
  end.

Fixpoint count_def (d : N) (t : list event) : N :=
  match t with
  | [] => 0
  | Def _ l :: t' => (if N.eqb l d then 1 else 0) + count_def d t'
  | _ :: t' => count_def d t'
  end%N.

(* the hypotheses of C15_rename_preserves_resolution, as a boolean *)
Definition hyps_b (d x x' : N) (t : list event) : bool :=
  match errs (run t) with [] => true | _ => false end &&
  negb (mem N.eqb x' (trace_names t)) &&
  mem event_eqb (Def x d) t &&
  N.eqb (count_def d t) 1.

(* codes of the comparisons that fail for one case:
   1 use_define_map, 2 def_to_use_map, 3 lambda_captures, 4 unbound_names, 5 invalid_defines,
   6 diagnostics, 7 the events of some pattern are not the ones `emit` predicts, 100+j rename j differs from rename_trace, 1000+j rename j: hypotheses of the theorem not met *)
Fixpoint rename_codes (j : N) (t : list event) (rs : list rename_obs) : list N :=
  match rs with
  | [] => []
  | (d, x, x', diffs) :: rs' =>
      (if list_eqb event_eqb (rename_trace d x' [[]] t) (patch 0 t diffs) then [] else [100 + j]%N) ++
      (if hyps_b d x x' t then [] else [1000 + j]%N) ++
      rename_codes (j + 1) t rs'
  end.

Definition check_case (c : list event * dump * list rename_obs) : list N :=
  let '(t, dm, rs) := c in
  let s := run t in
  (if perm_b pair_eqb (use_define_map s) (k_ud dm) then [] else [1]%N) ++
  (if d2u_ok s (k_d2u dm) then [] else [2]%N) ++
  (if lams_ok (crun t) (k_lams dm) then [] else [3]%N) ++
  (if set_b N.eqb (unbound_names s) (k_unb dm) then [] else [4]%N) ++
  (if set_b N.eqb (invalid_defines s) (k_inv dm) then [] else [5]%N) ++
  (if set_b err_eqb (errs s) (k_errs dm) then [] else [6]%N) ++
  (if forallb (fun p => infix_b (emit p) t) (k_pats dm) then [] else [7]%N) ++
  rename_codes 0 t rs.

Fixpoint fails (i : N) (cs : list (list event * dump * list rename_obs)) : list (N * list N) :=
  match cs with
  | [] => []
  | c :: cs' => match check_case c with
                | [] => fails (i + 1) cs'
                | codes => (i, codes) :: fails (i + 1) cs'
                end
  end.

(* the model's own answer, for the report *)
Definition model_dump (t : list event) :=
  let s := run t in
  (use_define_map s, map (fun d => (d, refs_of s d)) (dedup N.eqb (defs s)),
   map (fun e => (fst (fst e), snd e)) (c_lams (crun t)), unbound_names s, invalid_defines s, errs s).
