(* C15 — model of the scoping analysis of crates/samlang-checker/src/ssa_analysis.rs.
   Definitions only.

   The analysis is a scope-stack machine (`SsaLocalStackedContext::{get, insert, push_scope,
   pop_scope}`) driven by an AST visitor.  Which construct makes which calls is the visitor's
   business and is OBSERVED (hook `samlang_checker::verif`: every call is logged), not
   re-implemented: the model is the machine run on the logged event trace.

     Push          push_scope
     Pop           pop_scope
     PopLam l      pop_scope of the frame of the lambda at l (its captured map is recorded under l)
     Def x l       define_id x l  ->  insert x l
     Use x l ft    use_id x l ft  ->  get x ft          (ft = for_type)

   Names and locations are numbers (N): the check interns identifier strings and
   [start line, start column, end line, end column] quadruples. *)
From Coq Require Import List NArith Bool.
Import ListNotations.

Notation name := N (only parsing).
Notation loc := N (only parsing).

Inductive event :=
| Push | Pop | PopLam (l : loc)
| Def (x : name) (l : loc)
| Use (x : name) (l : loc) (ft : bool).

(* one HashMap<PStr, Location> of local_values_stack: association list, newest binding first
   (HashMap::insert overwrites: only the newest binding of a key is ever found) *)
Notation frame := (list (N * N)) (only parsing).
(* local_values_stack; head = innermost frame = Rust's `last()` *)
Notation stack := (list (list (N * N))) (only parsing).

Fixpoint find_frame (x : name) (f : frame) : option loc :=
  match f with [] => None | (y, l) :: f' => if N.eqb x y then Some l else find_frame x f' end.

(* `get`: the closest frame first, then outwards *)
Fixpoint lookup (x : name) (s : stack) : option loc :=
  match s with [] => None | f :: s' => match find_frame x f with Some l => Some l | None => lookup x s' end end.

(* the same search, also returning how many frames were crossed before the binding was found *)
Fixpoint lookup_depth (x : name) (s : stack) : option (nat * loc) :=
  match s with
  | [] => None
  | f :: s' => match find_frame x f with
               | Some l => Some (O, l)
               | None => match lookup_depth x s' with Some (k, l) => Some (S k, l) | None => None end
               end
  end.

(* `insert` reports `local_values_stack.iter().find_map(..)`: the OUTERMOST binding of the name in ANY
   enclosing frame — the language has no shadowing *)
Fixpoint lookup_outer (x : name) (s : stack) : option loc :=
  match s with
  | [] => None
  | f :: s' => match lookup_outer x s' with Some l => Some l | None => find_frame x f end
  end.

Inductive err :=
| Unbound (x : name) (l : loc)                (* report_cannot_resolve_name_error *)
| AlreadyBound (x : name) (l prev : loc).     (* report_name_already_bound_error *)

Definition push_def (x : name) (l : loc) (s : stack) : stack :=
  match s with [] => [[(x, l)]] | f :: r => ((x, l) :: f) :: r end.

(* the scope stack alone *)
Definition sstep (s : stack) (e : event) : stack :=
  match e with
  | Push => [] :: s
  | Pop | PopLam _ => tl s
  | Def x l => push_def x l s
  | Use _ _ _ => s
  end.

(* `invalid_defines.contains(&loc)`: a collision at this location was reported already *)
Definition reported (l : loc) (es : list err) : bool :=
  existsb (fun e => match e with AlreadyBound _ l' _ => N.eqb l l' | Unbound _ _ => false end) es.

Record st := {
  stk : stack;
  uses : list (N * N);      (* use_define_map: (use, definition), newest first *)
  defs : list N;            (* def_locs *)
  errs : list err }.

Definition step (s : st) (e : event) : st :=
  match e with
  | Push | Pop | PopLam _ => {| stk := sstep (stk s) e; uses := uses s; defs := defs s; errs := errs s |}
  | Def x l =>
      let es := match lookup_outer x (stk s) with
                | Some p => if reported l (errs s) then errs s else AlreadyBound x l p :: errs s
                | None => errs s
                end in
      {| stk := sstep (stk s) e; uses := uses s; defs := l :: defs s; errs := es |}
  | Use x l _ =>
      match lookup x (stk s) with
      | Some d => {| stk := stk s; uses := (l, d) :: uses s; defs := defs s; errs := errs s |}
      | None => {| stk := stk s; uses := uses s; defs := defs s; errs := Unbound x l :: errs s |}
      end
  end.

Definition init : st := {| stk := [[]]; uses := []; defs := []; errs := [] |}.
Definition run (t : list event) : st := fold_left step t init.

(* ---- the results SsaAnalysisResult is built from ---- *)

(* HashMap::insert on use_define_map: the newest entry of a use location wins *)
Fixpoint assoc (k : N) (m : list (N * N)) : option N :=
  match m with [] => None | (a, b) :: m' => if N.eqb k a then Some b else assoc k m' end.
Fixpoint dedup_keys (m : list (N * N)) (seen : list N) : list (N * N) :=
  match m with
  | [] => []
  | (a, b) :: m' => if existsb (N.eqb a) seen then dedup_keys m' seen else (a, b) :: dedup_keys m' (a :: seen)
  end.
Definition use_define_map (s : st) : list (N * N) := dedup_keys (uses s) [].

(* def_to_use_map d = [d] ++ every use whose entry in use_define_map is d, for d in def_locs *)
Definition refs_of (s : st) (d : loc) : list N :=
  d :: map fst (filter (fun ud => N.eqb (snd ud) d) (use_define_map s)).

Definition unbound_names (s : st) : list N :=
  flat_map (fun e => match e with Unbound x _ => [x] | _ => [] end) (errs s).
Definition invalid_defines (s : st) : list N :=
  flat_map (fun e => match e with AlreadyBound _ l _ => [l] | _ => [] end) (errs s).

(* ---- consistent renaming of one binder ---- *)

Definition set_name (x' : name) (e : event) : event :=
  match e with Def _ l => Def x' l | Use _ l ft => Use x' l ft | _ => e end.

(* is this event the definition at d, or a use that (at this point of the run) resolves to d ? *)
Definition touches (d : loc) (s : stack) (e : event) : bool :=
  match e with
  | Def _ l => N.eqb l d
  | Use y _ _ => match lookup y s with Some d0 => N.eqb d0 d | None => false end
  | _ => false
  end.

(* rename the definition event(s) at d and every use event that resolves to d *)
Fixpoint rename_trace (d : loc) (x' : name) (s : stack) (t : list event) : list event :=
  match t with
  | [] => []
  | e :: t' => (if touches d s e then set_name x' e else e) :: rename_trace d x' (sstep s e) t'
  end.

(* the locations of the events rename_trace changes *)
Definition ev_loc (e : event) : list N :=
  match e with Def _ l => [l] | Use _ l _ => [l] | _ => [] end.
Fixpoint touched (d : loc) (s : stack) (t : list event) : list N :=
  match t with
  | [] => []
  | e :: t' => (if touches d s e then ev_loc e else []) ++ touched d (sstep s e) t'
  end.

Definition ev_names (e : event) : list N :=
  match e with Def x _ => [x] | Use x _ _ => [x] | _ => [] end.
Definition trace_names (t : list event) : list N := flat_map ev_names t.

(* ---- captured variables: captured_values_stack ---- *)

(* HashMap::insert on a captured map *)
Definition cap_insert (x : name) (d : loc) (c : frame) : frame :=
  (x, d) :: filter (fun b => negb (N.eqb (fst b) x)) c.

(* `for captured_level in (level + 1)..len`: the k frames above the frame the binding was found in.
   Frames carry a ghost identifier (the number of the push_scope that created them). *)
Fixpoint mark_caps (k : nat) (x : name) (d : loc) (cs : list (nat * list (N * N))) : list (nat * list (N * N)) :=
  match k, cs with
  | S k', (i, c) :: cs' => (i, cap_insert x d c) :: mark_caps k' x d cs'
  | _, _ => cs
  end.

Record cst := {
  c_stk : stack;
  c_cap : list (nat * list (N * N));            (* captured_values_stack, with ghost frame ids *)
  c_next : nat;                                  (* ghost: next frame id *)
  c_lams : list (N * nat * list (N * N));        (* lambda_captures: (lambda location, ghost id, captured map) *)
  c_popped : list (nat * list (N * N));          (* ghost: captured map of every popped frame *)
  c_xlog : list (N * N * list nat) }.            (* ghost: (x, d, frames crossed) for every capturing lookup *)

Definition cstep (s : cst) (e : event) : cst :=
  match e with
  | Push => {| c_stk := [] :: c_stk s; c_cap := (c_next s, []) :: c_cap s; c_next := S (c_next s);
               c_lams := c_lams s; c_popped := c_popped s; c_xlog := c_xlog s |}
  | Pop => {| c_stk := tl (c_stk s); c_cap := tl (c_cap s); c_next := c_next s; c_lams := c_lams s;
              c_popped := match c_cap s with [] => c_popped s | fc :: _ => fc :: c_popped s end; c_xlog := c_xlog s |}
  | PopLam l => {| c_stk := tl (c_stk s); c_cap := tl (c_cap s); c_next := c_next s;
                   c_lams := match c_cap s with [] => c_lams s | (i, c) :: _ => (l, i, c) :: c_lams s end;
                   c_popped := match c_cap s with [] => c_popped s | fc :: _ => fc :: c_popped s end; c_xlog := c_xlog s |}
  | Def x l => {| c_stk := push_def x l (c_stk s); c_cap := c_cap s; c_next := c_next s; c_lams := c_lams s;
                  c_popped := c_popped s; c_xlog := c_xlog s |}
  | Use x l ft =>
      match lookup_depth x (c_stk s) with
      | Some (S k, d) =>
          if ft then s     (* a lookup for a type never captures *)
          else {| c_stk := c_stk s; c_cap := mark_caps (S k) x d (c_cap s); c_next := c_next s; c_lams := c_lams s;
                  c_popped := c_popped s; c_xlog := (x, d, map fst (firstn (S k) (c_cap s))) :: c_xlog s |}
      | _ => s             (* found in the closest frame, or not at all *)
      end
  end.

Definition cinit : cst :=
  {| c_stk := [[]]; c_cap := [(O, [])]; c_next := 1; c_lams := []; c_popped := []; c_xlog := [] |}.
Definition crun (t : list event) : cst := fold_left cstep t cinit.

(* frame fid was crossed by a (non-type) lookup of x that resolved to d *)
Definition crossed (fid : nat) (x : name) (d : loc) (log : list (N * N * list nat)) : Prop :=
  exists fs, In (x, d, fs) log /\ In fid fs.

(* ---- the visitor's treatment of patterns (visit_matching_pattern /
        visit_matching_pattern_bindings_as_uses), for the known finding ---- *)

Inductive pat :=
| PId (x : name) (l : loc)
| PWild
| PNode (ps : list pat)          (* tuple / object / variant payload: children in order *)
| POr (p : pat) (ps : list pat). (* first alternative, later alternatives *)

(* later alternatives: identifiers are uses, also those of an or-pattern nested in them *)
Fixpoint emit_uses (p : pat) : list event :=
  match p with
  | PId x l => [Use x l false]
  | PWild => []
  | PNode ps => flat_map emit_uses ps
  | POr p ps => emit_uses p ++ flat_map emit_uses ps
  end.

Fixpoint emit (p : pat) : list event :=
  match p with
  | PId x l => [Def x l]
  | PWild => []
  | PNode ps => flat_map emit ps
  | POr p ps => emit p ++ flat_map emit_uses ps
  end.

(* every identifier occurrence of a pattern *)
Fixpoint ids (p : pat) : list N :=
  match p with
  | PId _ l => [l]
  | PWild => []
  | PNode ps => flat_map ids ps
  | POr p ps => ids p ++ flat_map ids ps
  end.

