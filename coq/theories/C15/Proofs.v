(* C15 — lemmas about the scope-stack machine: lookup, consistent renaming, references. *)
From Coq Require Import List NArith Bool Lia.
Import ListNotations.
From SV Require Import C15.Model.

Lemma NoDup_app_l {A} (l1 l2 : list A) : NoDup (l1 ++ l2) -> NoDup l1.
Proof. induction l1 as [|a l1 IH]; cbn; intros H; [constructor|]. inversion H; subst. constructor; [rewrite in_app_iff in *; tauto|auto]. Qed.
Lemma NoDup_app_r {A} (l1 l2 : list A) : NoDup (l1 ++ l2) -> NoDup l2.
Proof. induction l1 as [|a l1 IH]; cbn; intros H; auto. inversion H; auto. Qed.
Lemma NoDup_app_disj {A} (l1 l2 : list A) a : NoDup (l1 ++ l2) -> In a l1 -> In a l2 -> False.
Proof. induction l1 as [|b l1 IH]; cbn; intros H H1 H2; [tauto|]. inversion H; subst. destruct H1 as [->|H1]; [apply H4; apply in_or_app; auto|auto]. Qed.

(* names and definition sites on the stack *)
Definition names (s : list (list (N * N))) : list N := map fst (concat s).
Definition sites (s : list (list (N * N))) : list N := map snd (concat s).

(* ------------------------------------------------------------------ lookup *)

Lemma find_frame_in y f l : find_frame y f = Some l -> In (y, l) f.
Proof. induction f as [|[z k] f IH]; cbn; [discriminate|]. destruct (N.eqb_spec y z); [intros [= <-]; subst; auto|auto]. Qed.
Lemma lookup_in y s l : lookup y s = Some l -> In (y, l) (concat s).
Proof.
  induction s as [|f s IH]; cbn; [discriminate|]. destruct (find_frame y f) eqn:E.
  - intros [= <-]. apply in_or_app. left. now apply find_frame_in.
  - intros H. apply in_or_app. right. auto.
Qed.
Lemma in_find_frame y l f : NoDup (map fst f) -> In (y, l) f -> find_frame y f = Some l.
Proof.
  induction f as [|[z k] f IH]; cbn; [tauto|]. intros Hnd [E|H]; inversion Hnd as [|? ? Hn Hd]; subst.
  - inversion E; subst. now rewrite N.eqb_refl.
  - destruct (N.eqb_spec y z); [subst; exfalso; apply Hn; apply in_map_iff; exists (z, l); auto|auto].
Qed.
Lemma find_frame_none y f : find_frame y f = None <-> ~ In y (map fst f).
Proof.
  induction f as [|[z k] f IH]; cbn; [tauto|]. destruct (N.eqb_spec y z); [subst; split; [discriminate|tauto]|].
  rewrite IH. intuition congruence.
Qed.
Lemma lookup_none y s : lookup y s = None <-> ~ In y (names s).
Proof.
  unfold names. induction s as [|f s IH]; cbn; [tauto|]. rewrite map_app, in_app_iff.
  destruct (find_frame y f) as [l|] eqn:E.
  - split; [discriminate|]. intros H. exfalso. apply H. left. apply find_frame_in in E. apply in_map_iff. exists (y, l); auto.
  - rewrite IH. apply find_frame_none in E. tauto.
Qed.
Lemma lookup_outer_none y s : lookup_outer y s = None <-> lookup y s = None.
Proof.
  induction s as [|f s IH]; cbn; [tauto|].
  destruct (lookup_outer y s) eqn:E1; destruct (find_frame y f) eqn:E2; destruct (lookup y s) eqn:E3;
    try tauto; try (split; congruence); destruct IH as [I1 I2]; try (specialize (I1 eq_refl)); try (specialize (I2 eq_refl)); congruence.
Qed.
Lemma in_lookup y l s : NoDup (names s) -> In (y, l) (concat s) -> lookup y s = Some l.
Proof.
  unfold names. induction s as [|f s IH]; cbn; [tauto|]. rewrite map_app. intros Hnd Hin.
  apply in_app_or in Hin. pose proof (NoDup_app_l _ _ Hnd) as Hf. pose proof (NoDup_app_r _ _ Hnd) as Hs.
  destruct Hin as [Hin|Hin].
  - now rewrite (in_find_frame y l f Hf Hin).
  - destruct (find_frame y f) as [l0|] eqn:E; [|auto].
    exfalso. apply find_frame_in in E.
    apply (NoDup_app_disj _ _ y Hnd); apply in_map_iff; [exists (y, l0)|exists (y, l)]; auto.
Qed.

(* `get` returns the binding of the innermost frame that has one; inside a frame, the newest *)
Lemma lookup_depth_spec x s k d :
  lookup_depth x s = Some (k, d) <->
  exists s1 f s2, s = s1 ++ f :: s2 /\ length s1 = k /\
                  Forall (fun g => find_frame x g = None) s1 /\ find_frame x f = Some d.
Proof.
  revert k. induction s as [|f s IH]; intros k; cbn.
  - split; [discriminate|]. intros (s1 & g & s2 & E & _). destruct s1; discriminate.
  - destruct (find_frame x f) as [l|] eqn:E.
    + split.
      * intros [= <- <-]. exists [], f, s. cbn. auto.
      * intros (s1 & g & s2 & Es & Hl & Hall & Hf). destruct s1 as [|g1 s1]; cbn in *.
        -- inversion Es; subst. congruence.
        -- inversion Es; subst. inversion Hall; subst. congruence.
    + destruct (lookup_depth x s) as [[k0 l0]|] eqn:E2.
      * split.
        -- intros [= <- <-]. destruct (proj1 (IH k0) eq_refl) as (s1 & g & s2 & Es & Hl & Hall & Hf).
           exists (f :: s1), g, s2. cbn. subst. repeat split; auto.
        -- intros (s1 & g & s2 & Es & Hl & Hall & Hf). destruct s1 as [|g1 s1]; cbn in *.
           ++ inversion Es; subst. congruence.
           ++ inversion Es; subst. inversion Hall; subst.
              assert (H : Some (k0, l0) = Some (length s1, d)) by (apply IH; exists s1, g, s2; auto).
              inversion H; subst. reflexivity.
      * split; [discriminate|]. intros (s1 & g & s2 & Es & Hl & Hall & Hf). destruct s1 as [|g1 s1]; cbn in *.
        -- inversion Es; subst. congruence.
        -- inversion Es; subst. inversion Hall; subst.
           assert (H : None = Some (length s1, d)) by (apply IH; exists s1, g, s2; auto). discriminate.
Qed.

Lemma lookup_of_depth x s : lookup x s = option_map snd (lookup_depth x s).
Proof.
  induction s as [|f s IH]; cbn; auto. destruct (find_frame x f); cbn; auto.
  rewrite IH. destruct (lookup_depth x s) as [[k l]|]; reflexivity.
Qed.

Lemma lookup_innermost x s d :
  lookup x s = Some d <->
  exists s1 f s2, s = s1 ++ f :: s2 /\ Forall (fun g => ~ In x (map fst g)) s1 /\ find_frame x f = Some d.
Proof.
  rewrite lookup_of_depth. split.
  - destruct (lookup_depth x s) as [[k l]|] eqn:E; cbn; [|discriminate]. intros [= <-].
    apply lookup_depth_spec in E. destruct E as (s1 & f & s2 & Es & _ & Hall & Hf).
    exists s1, f, s2. repeat split; auto. eapply Forall_impl; [|exact Hall]. intros g. apply find_frame_none.
  - intros (s1 & f & s2 & Es & Hall & Hf).
    assert (E : lookup_depth x s = Some (length s1, d)).
    { apply lookup_depth_spec. exists s1, f, s2. repeat split; auto.
      eapply Forall_impl; [|exact Hall]. intros g. apply find_frame_none. }
    rewrite E. reflexivity.
Qed.

Lemma find_frame_newest x l f : find_frame x ((x, l) :: f) = Some l.
Proof. cbn. now rewrite N.eqb_refl. Qed.

Lemma stk_step s e : stk (step s e) = sstep (stk s) e.
Proof. destruct e; cbn; auto. destruct (lookup x (stk s)); reflexivity. Qed.

(* ------------------------------------------------------------------ renaming one binder *)
Section Rename.
  Variables (d : N) (x x' : N).

  Definition ren_binding (b : N * N) : N * N := if N.eqb (snd b) d then (x', snd b) else b.
  Definition ren_stack (s : list (list (N * N))) : list (list (N * N)) := map (map ren_binding) s.

  (* invariant of an error-free run: every name is bound at most once on the whole stack,
     the binder d (if present) is bound to x, and x' is nowhere *)
  Definition good (s : list (list (N * N))) : Prop :=
    NoDup (names s) /\ ~ In x' (names s) /\ (forall y, In (y, d) (concat s) -> y = x).

  Lemma concat_ren s : concat (ren_stack s) = map ren_binding (concat s).
  Proof. unfold ren_stack. induction s as [|f s IH]; cbn; auto. now rewrite map_app, IH. Qed.

  Lemma ren_binding_id b : snd b <> d -> ren_binding b = b.
  Proof. unfold ren_binding. destruct (N.eqb_spec (snd b) d); tauto. Qed.

  Lemma ren_frame_id f : ~ In d (map snd f) -> map ren_binding f = f.
  Proof.
    induction f as [|b f IH]; cbn; auto. intros H. rewrite ren_binding_id by tauto. f_equal. apply IH. tauto.
  Qed.

  Lemma ren_id s : ~ In d (sites s) -> ren_stack s = s.
  Proof.
    unfold sites, ren_stack. induction s as [|f s IH]; cbn; auto. rewrite map_app, in_app_iff.
    intros H. rewrite ren_frame_id by tauto. f_equal. apply IH. tauto.
  Qed.

  Definition fgood (f : list (N * N)) : Prop := ~ In x' (map fst f) /\ (forall y, In (y, d) f -> y = x).

  Lemma find_ren_other f y : fgood f -> y <> x -> y <> x' -> find_frame y (map ren_binding f) = find_frame y f.
  Proof.
    intros [Hx' Hd] Hy Hy'. induction f as [|[z l] f IH]; cbn; auto.
    assert (fgood_tl : ~ In x' (map fst f) /\ (forall y0, In (y0, d) f -> y0 = x)).
    { split; [cbn in Hx'; tauto|intros; apply Hd; cbn; auto]. }
    unfold ren_binding at 1. cbn [snd]. destruct (N.eqb_spec l d) as [->|Hl]; cbn.
    - assert (z = x) by (apply Hd; cbn; auto). subst z.
      destruct (N.eqb_spec y x'); [tauto|]. destruct (N.eqb_spec y x); [tauto|]. apply IH; tauto.
    - destruct (N.eqb_spec y z); auto. apply IH; tauto.
  Qed.

  Lemma find_ren_x' f : fgood f -> find_frame x' (map ren_binding f) = if existsb (N.eqb d) (map snd f) then Some d else None.
  Proof.
    intros [Hx' Hd]. induction f as [|[z l] f IH]; cbn; auto.
    assert (Hx'2 : ~ In x' (map fst f)) by (cbn in Hx'; tauto).
    assert (Hd2 : forall y0, In (y0, d) f -> y0 = x) by (intros; apply Hd; cbn; auto).
    unfold ren_binding at 1. cbn [snd]. destruct (N.eqb_spec l d) as [->|Hl]; cbn.
    - rewrite !N.eqb_refl. reflexivity.
    - destruct (N.eqb_spec x' z); [subst; exfalso; apply Hx'; cbn; auto|].
      destruct (N.eqb_spec d l); [congruence|]. cbn. apply IH; auto.
  Qed.

  Lemma good_frames s : good s -> Forall fgood s.
  Proof.
    intros [Hnd [Hx' Hd]]. apply Forall_forall. intros f Hf. split.
    - intros H. apply Hx'. unfold names. apply in_map_iff in H. destruct H as [b [E Hb]].
      apply in_map_iff. exists b; split; auto. apply in_concat. eauto.
    - intros y Hy. apply Hd. apply in_concat. eauto.
  Qed.

  Lemma lookup_ren_other s y : good s -> y <> x -> y <> x' -> lookup y (ren_stack s) = lookup y s.
  Proof.
    intros Hg Hy Hy'. pose proof (good_frames s Hg) as Hf. clear Hg.
    induction s as [|f s IH]; cbn; auto. inversion Hf; subst.
    rewrite find_ren_other by auto. destruct (find_frame y f); auto.
  Qed.

  Lemma lookup_ren_x' s : good s -> lookup x' (ren_stack s) = if existsb (N.eqb d) (sites s) then Some d else None.
  Proof.
    intros Hg. pose proof (good_frames s Hg) as Hf. clear Hg. unfold sites.
    induction s as [|f s IH]; cbn; auto. inversion Hf; subst.
    rewrite find_ren_x' by auto. rewrite map_app, existsb_app.
    destruct (existsb (N.eqb d) (map snd f)) eqn:E; cbn; rewrite ?E; cbn; [reflexivity|apply IH; assumption].
  Qed.

  Lemma existsb_sites s : existsb (N.eqb d) (sites s) = true <-> In d (sites s).
  Proof.
    rewrite existsb_exists. split; [intros [l [H1 H2]]; apply N.eqb_eq in H2; congruence|].
    intros H; exists d; split; auto. apply N.eqb_refl.
  Qed.

  (* d is not on the stack when x is unbound, or bound elsewhere *)
  Lemma d_absent_if_x_elsewhere s : good s -> lookup x s <> Some d -> ~ In d (sites s).
  Proof.
    intros [Hnd [_ Hd]] Hl Hin. unfold sites in Hin. apply in_map_iff in Hin. destruct Hin as [[z k] [E Hin]]. cbn in E; subst k.
    assert (z = x) by (apply Hd; auto). subst z. apply Hl. apply in_lookup; auto.
  Qed.

  (* the per-event hypotheses: x' does not occur, the definition event at d binds x and d is not on
     the stack already, and the event raises no diagnostic *)
  Definition ev_ok (s : list (list (N * N))) (e : event) : Prop :=
    match e with
    | Def y l => y <> x' /\ (l = d -> y = x /\ ~ In d (sites s)) /\ lookup y s = None
    | Use y l _ => y <> x' /\ lookup y s <> None
    | _ => True
    end.

  Fixpoint trace_ok (s : list (list (N * N))) (t : list event) : Prop :=
    match t with
    | [] => True
    | e :: t' => ev_ok s e /\ trace_ok (sstep s e) t'
    end.

  Definition ren_ev (s : list (list (N * N))) (e : event) : event := if touches d s e then set_name x' e else e.

  Lemma good_pop s : good s -> good (tl s).
  Proof.
    destruct s as [|f s]; auto. intros [Hnd [Hx' Hd]]. unfold good, names in *. cbn in *.
    rewrite map_app in *. split; [eapply NoDup_app_r; eauto|]. split.
    - intros H. apply Hx'. apply in_or_app; auto.
    - intros y H. apply Hd. apply in_or_app; auto.
  Qed.
  Lemma good_def s y l : good s -> y <> x' -> (l = d -> y = x) -> lookup y s = None -> good (push_def y l s).
  Proof.
    intros [Hnd [Hx' Hd]] Hy Hl Hnone. apply lookup_none in Hnone.
    destruct s as [|f r]; unfold good, names in *; cbn in *.
    - repeat split; [constructor; [tauto|constructor]|tauto|]. intros y0 [E|[]]. inversion E; subst. auto.
    - repeat split; [constructor; auto|tauto|]. intros y0 [E|H]; [inversion E; subst; auto|auto].
  Qed.

  Lemma good_step s e : good s -> ev_ok s e -> good (sstep s e).
  Proof.
    intros Hg He. destruct e as [| | l|y l|y l ft]; cbn [sstep]; auto using good_pop.
    destruct He as (Hy & Hl & Hn). apply good_def; auto. intros E. apply Hl in E. tauto.
  Qed.

  (* lookups in the renamed stack *)
  Lemma lookup_ren_use s y l ft : good s -> ev_ok s (Use y l ft) ->
    lookup (match ren_ev s (Use y l ft) with Use z _ _ => z | _ => y end) (ren_stack s) = lookup y s.
  Proof.
    intros Hg [Hy Hsome]. unfold ren_ev. cbn [touches].
    destruct (lookup y s) as [d0|] eqn:El; [|congruence].
    pose proof (lookup_in _ _ _ El) as Hin.
    destruct (N.eqb_spec d0 d) as [->|Hd0]; cbn [set_name].
    - rewrite lookup_ren_x' by auto.
      assert (E : existsb (N.eqb d) (sites s) = true).
      { apply existsb_sites. unfold sites. apply in_map_iff. exists (y, d); auto. }
      now rewrite E.
    - destruct (N.eq_dec y x) as [->|Hyx].
      + rewrite ren_id; auto. apply d_absent_if_x_elsewhere; auto. congruence.
      + rewrite lookup_ren_other; auto.
  Qed.

  Lemma lookup_ren_def s y l : good s -> ev_ok s (Def y l) ->
    lookup (match ren_ev s (Def y l) with Def z _ => z | _ => y end) (ren_stack s) = None.
  Proof.
    intros Hg (Hy & Hl & Hnone). unfold ren_ev. cbn [touches].
    destruct (N.eqb_spec l d) as [->|Hld]; cbn [set_name].
    - destruct (Hl eq_refl) as [-> Hsite]. rewrite lookup_ren_x' by auto.
      destruct (existsb (N.eqb d) (sites s)) eqn:E; auto. apply existsb_sites in E. tauto.
    - destruct (N.eq_dec y x) as [->|Hyx].
      + rewrite ren_id; auto. apply d_absent_if_x_elsewhere; auto. congruence.
      + rewrite lookup_ren_other; auto.
  Qed.

  Lemma sstep_ren s e : good s -> ev_ok s e -> sstep (ren_stack s) (ren_ev s e) = ren_stack (sstep s e).
  Proof.
    intros Hg He. unfold ren_ev. destruct e as [| | l|y l|y l ft]; cbn [touches sstep set_name]; auto.
    - destruct s; reflexivity.
    - destruct s; reflexivity.
    - destruct (N.eqb_spec l d) as [->|Hld]; cbn [sstep].
      + destruct s as [|f r]; cbn; unfold ren_binding; cbn; rewrite N.eqb_refl; reflexivity.
      + destruct s as [|f r]; cbn; rewrite (ren_binding_id (y, l)) by (cbn; auto); reflexivity.
    - destruct (lookup y s) as [d0|]; [destruct (N.eqb d0 d)|]; reflexivity.
  Qed.

  Lemma touches_ren s e : good s -> ev_ok s e -> touches d (ren_stack s) (ren_ev s e) = touches d s e.
  Proof.
    intros Hg He. destruct e as [| | l|y l|y l ft]; try reflexivity.
    - unfold ren_ev. cbn [touches]. destruct (N.eqb l d) eqn:E; cbn; rewrite ?E; reflexivity.
    - pose proof (lookup_ren_use s y l ft Hg He) as H. unfold ren_ev in *. cbn [touches] in *.
      destruct (lookup y s) as [d0|] eqn:El.
      + destruct (N.eqb d0 d) eqn:E; cbn [set_name touches] in *; rewrite H, E; reflexivity.
      + cbn in H |- *. rewrite H. reflexivity.
  Qed.

  (* a touched event carries the name x *)
  Lemma touched_name s e : good s -> ev_ok s e -> touches d s e = true -> set_name x e = e.
  Proof.
    intros Hg He Ht. destruct e as [| | l|y l|y l ft]; cbn in *; try discriminate.
    - apply N.eqb_eq in Ht. destruct He as (_ & Hl & _). destruct (Hl Ht) as [-> _]. reflexivity.
    - destruct (lookup y s) as [d0|] eqn:El; [|discriminate]. apply N.eqb_eq in Ht. subst d0.
      destruct Hg as (_ & _ & Hd). rewrite (Hd y (lookup_in _ _ _ El)). reflexivity.
  Qed.

  Definition st_ren (s : st) : st := {| stk := ren_stack (stk s); uses := uses s; defs := defs s; errs := errs s |}.

  Lemma step_ren s e : good (stk s) -> ev_ok (stk s) e ->
    step (st_ren s) (ren_ev (stk s) e) = st_ren (step s e) /\ errs (step s e) = errs s.
  Proof.
    intros Hg He. pose proof (sstep_ren (stk s) e Hg He) as Hs.
    destruct e as [| | l|y l|y l ft].
    - split; reflexivity.
    - unfold st_ren, ren_ev in *. cbn in *. rewrite Hs. split; reflexivity.
    - unfold st_ren, ren_ev in *. cbn in *. rewrite Hs. split; reflexivity.
    - pose proof (lookup_ren_def (stk s) y l Hg He) as Hl. destruct He as (Hy & Hld & Hnone).
      unfold st_ren, ren_ev in *. cbn [touches] in *.
      destruct (N.eqb l d); cbn [set_name step stk uses defs errs] in *;
        apply lookup_outer_none in Hl; apply lookup_outer_none in Hnone; rewrite Hl, Hnone, Hs; split; reflexivity.
    - pose proof (lookup_ren_use (stk s) y l ft Hg He) as Hl. destruct He as (Hy & Hsome).
      unfold st_ren, ren_ev in *. cbn [touches] in *.
      destruct (lookup y (stk s)) as [d0|] eqn:El; [|congruence].
      destruct (N.eqb d0 d); cbn [set_name step stk uses defs errs] in *; rewrite Hl, ?El; split; reflexivity.
  Qed.

  Theorem rename_simulates : forall t s,
    good (stk s) -> trace_ok (stk s) t ->
    fold_left step (rename_trace d x' (stk s) t) (st_ren s) = st_ren (fold_left step t s)
    /\ errs (fold_left step t s) = errs s.
  Proof.
    induction t as [|e t IH]; intros s Hg Hok; cbn [fold_left rename_trace]; [split; reflexivity|].
    destruct Hok as [He Hok].
    destruct (step_ren s e Hg He) as [H1 H2]. fold (ren_ev (stk s) e).
    pose proof (stk_step s e) as Es.
    rewrite H1. rewrite <- Es in *.
    destruct (IH (step s e)) as [I1 I2]; [rewrite Es; apply good_step; auto|auto|].
    cbn [st_ren stk] in I1. split; [exact I1|congruence].
  Qed.

  Theorem rename_back_gen : forall t s, good s -> trace_ok s t ->
    rename_trace d x (ren_stack s) (rename_trace d x' s t) = t.
  Proof.
    induction t as [|e t IH]; intros s Hg Hok; cbn [rename_trace]; auto.
    destruct Hok as [He Hok]. fold (ren_ev s e). rewrite touches_ren, sstep_ren by auto. f_equal; [|apply IH; auto using good_step].
    unfold ren_ev. destruct (touches d s e) eqn:Et; auto.
    pose proof (touched_name s e Hg He Et) as Hn. destruct e; cbn in *; auto; congruence.
  Qed.

  Lemma good_init : good [[]].
  Proof. unfold good, names; cbn. repeat split; [constructor|tauto|tauto]. Qed.
End Rename.

(* ------------------------------------------------------------------ from natural hypotheses to trace_ok *)

(* number of definition events at d *)
Fixpoint def_count (d : N) (t : list event) : nat :=
  match t with
  | [] => O
  | Def _ l :: t' => (if N.eqb l d then 1 else 0) + def_count d t'
  | _ :: t' => def_count d t'
  end.

Lemma errs_grow : forall t s, errs (fold_left step t s) = [] -> errs s = [].
Proof.
  induction t as [|e t IH]; cbn; auto. intros s H. apply IH in H.
  destruct e as [| | l|y l|y l ft]; cbn in H; auto.
  - destruct (lookup_outer y (stk s)); auto. destruct (reported l (errs s)); [auto|discriminate].
  - destruct (lookup y (stk s)); cbn in H; [auto|discriminate].
Qed.

Lemma sites_tl s l : In l (sites (tl s)) -> In l (sites s).
Proof. destruct s as [|f s]; auto. unfold sites. cbn. rewrite map_app, in_app_iff. auto. Qed.

Lemma sites_push_def y l s k : In k (sites (push_def y l s)) -> k = l \/ In k (sites s).
Proof. destruct s as [|f s]; unfold sites; cbn; intuition. Qed.

Lemma trace_ok_of_hyps d x x' : forall t s,
  errs (fold_left step t s) = [] ->
  ~ In x' (trace_names t) ->
  (forall y, In (Def y d) t -> y = x) ->
  (def_count d t <= 1)%nat -> (In d (sites (stk s)) -> def_count d t = O) ->
  trace_ok d x x' (stk s) t.
Proof.
  induction t as [|e t IH]; intros s Herr Hfresh Hname Hcnt Hsite; cbn [trace_ok]; auto.
  cbn [fold_left] in Herr. pose proof (errs_grow _ _ Herr) as He1. pose proof (errs_grow [e] s He1) as He0. cbn in He1.
  assert (Hfresh' : ~ In x' (trace_names t)).
  { intros H. apply Hfresh. unfold trace_names. cbn. apply in_or_app. auto. }
  assert (Hname' : forall y, In (Def y d) t -> y = x) by (intros; apply Hname; cbn; auto).
  split.
  - destruct e as [| | l|y l|y l ft]; cbn; auto.
    + assert (y <> x') by (intros ->; apply Hfresh; unfold trace_names; cbn; auto).
      split; [auto|]. split.
      * intros ->. split; [apply Hname; cbn; auto|]. intros Hin. apply Hsite in Hin. cbn in Hin. rewrite N.eqb_refl in Hin. discriminate.
      * cbn in He1. apply lookup_outer_none. destruct (lookup_outer y (stk s)); auto. rewrite He0 in He1. cbn in He1. discriminate.
    + assert (y <> x') by (intros ->; apply Hfresh; unfold trace_names; cbn; auto).
      split; [auto|]. cbn in He1. destruct (lookup y (stk s)); [discriminate|]. cbn in He1. discriminate.
  - rewrite <- stk_step. apply IH; auto.
    + destruct e; cbn in Hcnt |- *; auto. lia.
    + rewrite stk_step. destruct e as [| | l|y l|y l ft]; cbn [sstep def_count] in *; auto.
      * intros H. apply sites_tl in H. auto.
      * intros H. apply sites_tl in H. auto.
      * intros H. apply sites_push_def in H. destruct (N.eqb_spec l d) as [->|Hld]; [lia|]. destruct H; [congruence|]. cbn in Hsite. auto.
Qed.

Lemma def_count_pos d y t : In (Def y d) t -> (1 <= def_count d t)%nat.
Proof.
  induction t as [|e t IH]; cbn; [tauto|]. intros [->|H]; [rewrite N.eqb_refl; lia|].
  specialize (IH H). destruct e; auto. lia.
Qed.

Lemma def_once_name d x t : In (Def x d) t -> def_count d t = 1%nat -> forall y, In (Def y d) t -> y = x.
Proof.
  induction t as [|e t IH]; cbn; [tauto|]. intros Hx Hc y Hy.
  destruct Hx as [->|Hx]; destruct Hy as [Hy|Hy].
  - congruence.
  - rewrite N.eqb_refl in Hc. apply def_count_pos in Hy. lia.
  - subst e. rewrite N.eqb_refl in Hc. apply def_count_pos in Hx. lia.
  - destruct e as [| | l|z l|z l ft]; auto. destruct (N.eqb l d); cbn in Hc; auto.
    apply def_count_pos in Hx. lia.
Qed.

Lemma in_def_names x d t : In (Def x d) t -> In x (trace_names t).
Proof. intros H. unfold trace_names. apply in_flat_map. exists (Def x d). cbn; auto. Qed.

(* the hypotheses of the property: x is the local binder at d, the program has no scoping diagnostic,
   x' is a fresh name *)
Definition rename_hyps (d x x' : N) (t : list event) : Prop :=
  errs (run t) = [] /\ ~ In x' (trace_names t) /\ In (Def x d) t /\ def_count d t = 1%nat.

Lemma hyps_trace_ok d x x' t : rename_hyps d x x' t -> x <> x' /\ trace_ok d x x' [[]] t.
Proof.
  intros (He & Hf & Hd & Hc). split.
  - intros ->. apply Hf. eapply in_def_names; eauto.
  - apply (trace_ok_of_hyps d x x' t init); auto.
    + apply def_once_name; auto.
    + lia.
    + cbn. tauto.
Qed.

Theorem rename_preserves_resolution d x x' t :
  rename_hyps d x x' t ->
  uses (run (rename_trace d x' [[]] t)) = uses (run t) /\
  defs (run (rename_trace d x' [[]] t)) = defs (run t) /\
  errs (run (rename_trace d x' [[]] t)) = [].
Proof.
  intros H. destruct (hyps_trace_ok _ _ _ _ H) as [Hx Hok].
  destruct (rename_simulates d x x' t init (good_init d x x') Hok) as [H1 H2].
  unfold run. change init with (st_ren d x' init) at 1 3 5. cbn [stk init] in H1. rewrite H1. cbn. auto.
Qed.

Theorem rename_back d x x' t :
  rename_hyps d x x' t -> rename_trace d x [[]] (rename_trace d x' [[]] t) = t.
Proof.
  intros H. destruct (hyps_trace_ok _ _ _ _ H) as [Hx Hok].
  exact (rename_back_gen d x x' t [[]] (good_init d x x') Hok).
Qed.

(* after renaming, the hypotheses hold again with the roles of x and x' exchanged, provided x
   itself is used for nothing else (so renaming back is again a legal rename) *)

(* ------------------------------------------------------------------ references *)

Lemma uses_defs_acc d : forall t s l,
  (In l (touched d (stk s) t) \/ (l = d /\ In d (defs s)) \/ In (l, d) (uses s)) <->
  ((l = d /\ In d (defs (fold_left step t s))) \/ In (l, d) (uses (fold_left step t s))).
Proof.
  induction t as [|e t IH]; intros s l; cbn [touched fold_left]; [cbn; tauto|].
  rewrite <- IH, stk_step. rewrite in_app_iff.
  destruct e as [| | k|y k|y k ft]; cbn [touches ev_loc step stk uses defs sstep]; try (cbn; tauto).
  - destruct (N.eqb_spec k d) as [->|Hk]; cbn; [|intuition congruence]. intuition.
  - destruct (lookup y (stk s)) as [d0|] eqn:El; cbn [stk uses defs]; [|cbn; tauto].
    destruct (N.eqb_spec d0 d) as [->|Hd0]; cbn.
    + split; intros H; repeat (destruct H as [H|H]); subst; auto 6; try contradiction;
        try (injection H as Hk; left; left; left; exact Hk).
    + split; intros H; repeat (destruct H as [H|H]); subst; auto 6; try contradiction; try tauto;
        try (injection H as Hk Hd; congruence).
Qed.

(* the locations rename touches are exactly the binder and the uses that resolve to it *)
Theorem refs_exact d t l :
  In l (touched d [[]] t) <-> (l = d /\ In d (defs (run t))) \/ In (l, d) (uses (run t)).
Proof. unfold run. rewrite <- (uses_defs_acc d t init l). cbn. tauto. Qed.

(* rename_trace changes exactly the touched events, and only their name *)
Theorem rename_trace_spec d x' : forall t s i e,
  nth_error t i = Some e ->
  exists s', nth_error (rename_trace d x' s t) i = Some (if touches d s' e then set_name x' e else e)
             /\ s' = fold_left sstep (firstn i t) s.
Proof.
  induction t as [|e0 t IH]; intros s i e H; [destruct i; discriminate|].
  destruct i as [|i]; cbn in *.
  - inversion H; subst. eexists; split; reflexivity.
  - apply IH. exact H.
Qed.

Lemma rename_trace_length d x' : forall t s, length (rename_trace d x' s t) = length t.
Proof. induction t; cbn; auto. Qed.

(* ------------------------------------------------------------------ no shadowing *)

Lemma def_collision s x l : In x (names (stk s)) -> reported l (errs s) = false ->
  exists p, errs (step s (Def x l)) = AlreadyBound x l p :: errs s.
Proof.
  intros Hin Hr. cbn. destruct (lookup_outer x (stk s)) as [p|] eqn:E.
  - rewrite Hr. eauto.
  - apply lookup_outer_none, lookup_none in E. tauto.
Qed.

Lemma def_no_collision s x l : ~ In x (names (stk s)) -> errs (step s (Def x l)) = errs s.
Proof.
  intros Hin. cbn. destruct (lookup_outer x (stk s)) as [p|] eqn:E; auto.
  assert (lookup_outer x (stk s) <> None) by congruence.
  exfalso. apply H. apply lookup_outer_none, lookup_none. exact Hin.
Qed.

Lemma use_resolves s x l ft d : lookup x (stk s) = Some d -> uses (step s (Use x l ft)) = (l, d) :: uses s /\ errs (step s (Use x l ft)) = errs s.
Proof. intros H. cbn. rewrite H. auto. Qed.

Lemma use_unbound s x l ft : lookup x (stk s) = None -> uses (step s (Use x l ft)) = uses s /\ errs (step s (Use x l ft)) = Unbound x l :: errs s.
Proof. intros H. cbn. rewrite H. auto. Qed.
