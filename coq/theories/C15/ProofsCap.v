(* C15 — captured variables: what `get` records in captured_values_stack, and the
   visitor's coverage of pattern identifiers. *)
From Coq Require Import List NArith Bool Lia.
Import ListNotations.
From SV Require Import C15.Model C15.Proofs.

Lemma crossed_cons fid x d x0 d0 fs log :
  crossed fid x d ((x0, d0, fs) :: log) <-> (x = x0 /\ d = d0 /\ In fid fs) \/ crossed fid x d log.
Proof.
  unfold crossed. split.
  - intros (gs & [E|H] & Hi); [inversion E; subst; auto|right; eauto].
  - intros [(-> & -> & Hi)|(gs & H & Hi)]; [exists fs; cbn; auto|exists gs; cbn; auto].
Qed.

Lemma in_cap_insert x d c y e :
  In (y, e) (cap_insert x d c) <-> (y = x /\ e = d) \/ (In (y, e) c /\ y <> x).
Proof.
  unfold cap_insert. cbn. rewrite filter_In. cbn. split.
  - intros [E|[H1 H2]]; [inversion E; auto|]. right. split; auto. intros ->. rewrite N.eqb_refl in H2. discriminate.
  - intros [[-> ->]|[H1 H2]]; auto. right. split; auto. destruct (N.eqb_spec y x); [tauto|reflexivity].
Qed.

(* invariant tying each live frame's captured map to the lookups that crossed it; `stk'` below a
   frame never changes while the frame is live, which makes the captured map functional *)
Fixpoint cap_inv (stk : list (list (N * N))) (cap : list (nat * list (N * N))) (log : list (N * N * list nat)) : Prop :=
  match stk, cap with
  | f :: stk', (i, c) :: cap' =>
      (forall x d, In (x, d) c <-> crossed i x d log) /\
      (forall x d, In (x, d) c -> lookup x stk' = Some d) /\
      cap_inv stk' cap' log
  | _, _ => True
  end.

Lemma cap_inv_log_ext x d fs : forall stk cap log,
  cap_inv stk cap log -> (forall i, In i (map fst cap) -> ~ In i fs) -> cap_inv stk cap ((x, d, fs) :: log).
Proof.
  induction stk as [|f stk IH]; intros [|[i c] cap] log H Hfs; cbn in *; auto.
  destruct H as (H1 & H2 & H3). split; [|split; auto].
  intros y e. rewrite crossed_cons, H1. split; auto. intros [(_ & _ & Hi)|H]; auto. exfalso. apply (Hfs i); auto.
Qed.

Lemma mark_caps_inv x d fs log : forall n stk cap,
  lookup_depth x stk = Some (n, d) ->
  cap_inv stk cap log ->
  (forall i, In i (map fst (firstn n cap)) -> In i fs) ->
  (forall i, In i (map fst (skipn n cap)) -> ~ In i fs) ->
  cap_inv stk (mark_caps n x d cap) ((x, d, fs) :: log).
Proof.
  induction n as [|n IH]; intros stk cap Hl Hinv Hin Hout.
  - replace (mark_caps 0 x d cap) with cap by (destruct cap; reflexivity).
    apply cap_inv_log_ext; auto.
  - destruct stk as [|f stk]; [discriminate|]. cbn in Hl.
    destruct (find_frame x f) eqn:Ef; [discriminate|].
    destruct (lookup_depth x stk) as [[k l]|] eqn:El; [|discriminate]. inversion Hl; subst k l. clear Hl.
    destruct cap as [|[i c] cap]; [cbn; auto|].
    cbn [mark_caps cap_inv]. cbn [cap_inv] in Hinv. destruct Hinv as (H1 & H2 & H3).
    assert (Hlk : lookup x stk = Some d) by (rewrite lookup_of_depth, El; reflexivity).
    split; [|split].
    + intros y e. rewrite crossed_cons, in_cap_insert, <- H1. split.
      * intros [[-> ->]|[Hc _]]; auto. left. repeat split; auto. apply Hin. cbn. auto.
      * intros [(-> & -> & _)|Hc]; auto.
        destruct (N.eq_dec y x) as [->|Hyx]; [|auto].
        left. split; auto. apply H2 in Hc. congruence.
    + intros y e Hc. apply in_cap_insert in Hc. destruct Hc as [[-> ->]|[Hc _]]; auto.
    + apply IH; auto.
      * intros j Hj. apply Hin. cbn. auto.
Qed.

Definition Inv (s : cst) : Prop :=
  length (c_cap s) <= length (c_stk s) /\
  cap_inv (c_stk s) (c_cap s) (c_xlog s) /\
  NoDup (map fst (c_cap s)) /\
  (forall i, In i (map fst (c_cap s)) -> i < c_next s) /\
  (forall i c, In (i, c) (c_popped s) ->
     i < c_next s /\ ~ In i (map fst (c_cap s)) /\ forall x d, In (x, d) c <-> crossed i x d (c_xlog s)) /\
  (forall x d fs i, In (x, d, fs) (c_xlog s) -> In i fs -> i < c_next s) /\
  (forall l i c, In (l, i, c) (c_lams s) -> In (i, c) (c_popped s)).

Lemma firstn_skipn_nodup {A} (l : list A) n a : NoDup l -> In a (firstn n l) -> In a (skipn n l) -> False.
Proof. intros H. rewrite <- (firstn_skipn n l) in H. intros H1 H2. eapply NoDup_app_disj; eauto. Qed.

Lemma in_firstn {A} (a : A) : forall n l, In a (firstn n l) -> In a l.
Proof. induction n; intros [|b l]; cbn; try tauto. intros [->|H]; auto. Qed.

Lemma cap_inv_def y l stk cap log : length cap <= length stk -> cap_inv stk cap log -> cap_inv (push_def y l stk) cap log.
Proof. destruct stk as [|f stk]; destruct cap as [|[i c] cap]; cbn; auto. lia. Qed.

Lemma push_def_length y l stk : length stk <= length (push_def y l stk).
Proof. destruct stk; cbn; lia. Qed.

Lemma Inv_init : Inv cinit.
Proof.
  unfold Inv, cinit; cbn. split; [lia|]. split; [|split; [|split; [|split; [|split]]]]; try tauto.
  - split; [|tauto]. intros x d. split; [tauto|]. intros (fs & F & _). exact F.
  - constructor; [tauto|constructor].
  - intros i [<-|F]; [lia|tauto].
Qed.

(* Pop and PopLam *)
Lemma Inv_pop s (l0 : option N) :
  Inv s ->
  Inv {| c_stk := tl (c_stk s); c_cap := tl (c_cap s); c_next := c_next s;
         c_lams := match l0, c_cap s with Some l, (i, c) :: _ => (l, i, c) :: c_lams s | _, _ => c_lams s end;
         c_popped := match c_cap s with [] => c_popped s | fc :: _ => fc :: c_popped s end;
         c_xlog := c_xlog s |}.
Proof.
  intros (H0 & H1 & H2 & H3 & H4 & H5 & H6). unfold Inv. cbn.
  destruct (c_cap s) as [|[i c] cap] eqn:Ec; cbn [tl map fst] in *.
  - split; [cbn; lia|]. split; [destruct (tl (c_stk s)); exact I|]. split; [constructor|]. split; [intros i []|].
    split; [exact H4|]. split; [exact H5|]. destruct l0; exact H6.
  - destruct (c_stk s) as [|f stk] eqn:Es; [cbn in H0; lia|]. cbn [tl] in *. cbn in H0.
    cbn [cap_inv] in H1. destruct H1 as (Ha & Hb & Hc).
    inversion H2 as [|? ? Hn Hd]; subst.
    split; [lia|]. split; [exact Hc|]. split; [exact Hd|]. split; [intros j Hj; apply H3; cbn; auto|].
    split; [|split; [exact H5|]].
    + intros j cj [E|Hj].
      * inversion E; subst. split; [apply H3; cbn; auto|]. split; [exact Hn|]. exact Ha.
      * destruct (H4 j cj Hj) as (A & B & C). split; [exact A|]. split; [|exact C]. intros Hin. apply B. cbn. auto.
    + intros l i0 c0 Hl. destruct l0 as [l1|].
      * destruct Hl as [E|Hl]; [inversion E; subst; left; reflexivity|right; eapply H6; eauto].
      * right. eapply H6; eauto.
Qed.

Lemma Inv_step s e : Inv s -> Inv (cstep s e).
Proof.
  intros HI. destruct e as [| |l|y l|y l ft].
  - (* Push *)
    destruct HI as (H0 & H1 & H2 & H3 & H4 & H5 & H6). unfold Inv. cbn.
    split; [lia|]. split; [|split; [|split; [|split; [|split]]]].
    + split; [|split; [intros x d []|exact H1]].
      intros x d. split; [intros []|]. intros (fs & Hf & Hi). apply (H5 _ _ _ _ Hf) in Hi. lia.
    + constructor; auto. intros Hin. apply H3 in Hin. lia.
    + intros i [<-|Hi]; [lia|]. apply H3 in Hi. lia.
    + intros i c Hp. destruct (H4 i c Hp) as (A & B & C). split; [lia|]. split; [|exact C].
      intros [E|Hin]; [lia|tauto].
    + intros x d fs i Hf Hi. apply (H5 _ _ _ _ Hf) in Hi. lia.
    + exact H6.
  - exact (Inv_pop s None HI).
  - pose proof (Inv_pop s (Some l) HI) as H. cbn [cstep].
    destruct (c_cap s) as [|[i c] cap]; exact H.
  - (* Def *)
    destruct HI as (H0 & H1 & H2 & H3 & H4 & H5 & H6). unfold Inv. cbn.
    split; [pose proof (push_def_length y l (c_stk s)); lia|]. split; [apply cap_inv_def; auto|]. auto.
  - (* Use *)
    cbn [cstep]. destruct (lookup_depth y (c_stk s)) as [[[|k] d]|] eqn:El; auto.
    destruct ft; auto.
    destruct HI as (H0 & H1 & H2 & H3 & H4 & H5 & H6). unfold Inv. cbn [c_stk c_cap c_next c_lams c_popped c_xlog].
    set (fs := map fst (firstn (S k) (c_cap s))).
    assert (Hids : forall n cs, map fst (mark_caps n y d cs) = map fst cs).
    { induction n; intros [|[i c] cs]; cbn; auto. now rewrite IHn. }
    assert (Hlen : forall n cs, length (mark_caps n y d cs) = length cs).
    { induction n; intros [|[i c] cs]; cbn; auto. }
    rewrite Hids, Hlen.
    split; [exact H0|]. split; [|split; [exact H2|split; [exact H3|split; [|split; [|exact H6]]]]].
    + apply mark_caps_inv; auto.
      * intros i Hi Hf. unfold fs in Hf. rewrite <- firstn_map in Hf. rewrite <- skipn_map in Hi.
        eapply firstn_skipn_nodup; eauto.
    + intros i c Hp. destruct (H4 i c Hp) as (A & B & C). split; [exact A|]. split; [exact B|].
      intros x d0. rewrite crossed_cons, C. split; auto. intros [(_ & _ & Hi)|H]; auto.
      exfalso. apply B. unfold fs in Hi. rewrite <- firstn_map in Hi. eapply in_firstn; eauto.
    + intros x d0 gs i [E|Hf] Hi.
      * inversion E; subst. apply H3. unfold fs in Hi. rewrite <- firstn_map in Hi. eapply in_firstn; eauto.
      * eapply H5; eauto.
Qed.

Lemma Inv_run t : Inv (crun t).
Proof.
  unfold crun. assert (H : forall s, Inv s -> Inv (fold_left cstep t s)).
  { induction t as [|e t IH]; cbn; auto using Inv_step. }
  apply H, Inv_init.
Qed.

(* the captured map of every popped frame is exactly the set of bindings that lookups made while
   the frame was live found BELOW it (i.e. looked up across its boundary) *)
Theorem captures_exact t fid caps :
  In (fid, caps) (c_popped (crun t)) ->
  forall x d, In (x, d) caps <-> crossed fid x d (c_xlog (crun t)).
Proof. intros H. destruct (Inv_run t) as (_ & _ & _ & _ & H4 & _). apply (H4 fid caps H). Qed.

(* ... in particular what lambda_captures records *)
Theorem lambda_captures_exact t l fid caps :
  In (l, fid, caps) (c_lams (crun t)) ->
  In (fid, caps) (c_popped (crun t)) /\ forall x d, In (x, d) caps <-> crossed fid x d (c_xlog (crun t)).
Proof.
  intros H. destruct (Inv_run t) as (_ & _ & _ & _ & H4 & _ & H6).
  split; [eauto|]. apply (H4 fid caps). eauto.
Qed.

(* the meaning of the ghost log: an entry is added exactly by a non-type lookup that finds its
   binding k >= 1 frames out, and names the k frames crossed *)
Lemma xlog_step s e :
  c_xlog (cstep s e) =
  match e with
  | Use x _ false => match lookup_depth x (c_stk s) with
                     | Some (S k, d) => (x, d, map fst (firstn (S k) (c_cap s))) :: c_xlog s
                     | _ => c_xlog s
                     end
  | _ => c_xlog s
  end.
Proof.
  destruct e as [| |l|y l|y l ft]; cbn; auto.
  destruct ft; destruct (lookup_depth y (c_stk s)) as [[[|k] d]|]; reflexivity.
Qed.

(* ------------------------------------------------------------------ pattern identifiers *)

Section PatInd.
  Variable P : pat -> Prop.
  Hypothesis HId : forall x l, P (PId x l).
  Hypothesis HW : P PWild.
  Hypothesis HN : forall ps, Forall P ps -> P (PNode ps).
  Hypothesis HO : forall p ps, P p -> Forall P ps -> P (POr p ps).
  Fixpoint pat_rect' (p : pat) : P p :=
    match p with
    | PId x l => HId x l
    | PWild => HW
    | PNode ps => HN ps ((fix go (qs : list pat) : Forall P qs :=
                            match qs with [] => Forall_nil P | q :: qs' => Forall_cons q (pat_rect' q) (go qs') end) ps)
    | POr p ps => HO p ps (pat_rect' p)
                    ((fix go (qs : list pat) : Forall P qs :=
                        match qs with [] => Forall_nil P | q :: qs' => Forall_cons q (pat_rect' q) (go qs') end) ps)
    end.
End PatInd.

Definition locs (t : list event) : list N := flat_map ev_loc t.

Lemma locs_app a b : locs (a ++ b) = locs a ++ locs b.
Proof. apply flat_map_app. Qed.

Lemma uses_cover : forall p, locs (emit_uses p) = ids p.
Proof.
  apply (pat_rect' (fun p => locs (emit_uses p) = ids p)); cbn; auto.
  - intros ps Hall. induction Hall as [|q qs Hq Hqs IH]; cbn; auto.
    unfold locs in *. rewrite flat_map_app, Hq, IH; auto.
  - intros p ps Hp Hall. unfold locs in *. rewrite flat_map_app, Hp. f_equal.
    induction Hall as [|q qs Hq Hqs IH]; cbn; auto. rewrite flat_map_app, Hq, IH; auto.
Qed.

Lemma uses_cover_list ps : locs (flat_map emit_uses ps) = flat_map ids ps.
Proof.
  induction ps as [|q qs IH]; cbn; auto.
  unfold locs in *. rewrite flat_map_app, IH. f_equal. apply uses_cover.
Qed.

(* every identifier of a pattern produces exactly one event, in order *)
Theorem pattern_cover : forall p, locs (emit p) = ids p.
Proof.
  apply (pat_rect' (fun p => locs (emit p) = ids p)); cbn; auto.
  - intros ps Hall. induction Hall as [|q qs Hq Hqs IH]; cbn; auto.
    unfold locs in *. rewrite flat_map_app, Hq, IH; auto.
  - intros p ps Hp _. unfold locs in *. rewrite flat_map_app, Hp. f_equal. apply uses_cover_list.
Qed.

(* X(A(x)) | Y(B(x) | C(x)) : the identifiers of the nested or-pattern are uses *)
Definition nested_or_witness : pat :=
  POr (PNode [PNode [PId 1 10]]) [PNode [POr (PNode [PId 1 11]) [PNode [PId 1 12]]]].
