(* C15 — navigation and rename agree with the language's scoping rules: the property theorems.
   Nothing but statements closed by `exact`, non-vacuity examples and Print Assumptions.

   The object is the scope-stack machine of ssa_analysis.rs (Model.v) run on the trace of
   push_scope / pop_scope / insert / get calls the visitor makes (the trace is logged from the real
   code, see checks/c15.py).  `uses (run t)` is use_define_map, `defs` is def_locs, `errs` the
   scoping diagnostics, `c_lams (crun t)` is lambda_captures. *)
From Coq Require Import List NArith Bool Lia.
Import ListNotations.
From SV Require Import C15.Model C15.Proofs C15.ProofsCap.

(* `get` returns the binding of the innermost frame that binds the name *)
Theorem C15_lookup_innermost : forall x s d,
  lookup x s = Some d <->
  exists s1 f s2, s = s1 ++ f :: s2 /\ Forall (fun g => ~ In x (map fst g)) s1 /\ find_frame x f = Some d.
Proof. exact lookup_innermost. Qed.

(* ... and is undefined exactly when no frame binds it; the depth it reports is the number of frames crossed *)
Theorem C15_lookup_unbound : forall x s, lookup x s = None <-> ~ In x (names s).
Proof. exact lookup_none. Qed.

Theorem C15_lookup_depth : forall x s k d,
  lookup_depth x s = Some (k, d) <->
  exists s1 f s2, s = s1 ++ f :: s2 /\ length s1 = k /\
                  Forall (fun g => find_frame x g = None) s1 /\ find_frame x f = Some d.
Proof. exact lookup_depth_spec. Qed.

(* the language has no shadowing: a definition collides with a binding of the name in ANY enclosing
   frame (reported once per location), and with nothing else *)
Theorem C15_no_shadowing : forall s x l,
  (In x (names (stk s)) -> reported l (errs s) = false -> exists p, errs (step s (Def x l)) = AlreadyBound x l p :: errs s) /\
  (~ In x (names (stk s)) -> errs (step s (Def x l)) = errs s).
Proof. intros s x l. exact (conj (def_collision s x l) (def_no_collision s x l)). Qed.

(* rename_hyps d x x' t: the run of t raises no scoping diagnostic, x' does not occur in t, and d is
   the (only) definition event of a binder named x.
   Renaming that binder and exactly the uses that resolve to it leaves the use->definition graph
   and the set of definitions unchanged and raises no diagnostic. *)
Theorem C15_rename_preserves_resolution : forall d x x' t,
  rename_hyps d x x' t ->
  uses (run (rename_trace d x' [[]] t)) = uses (run t) /\
  defs (run (rename_trace d x' [[]] t)) = defs (run t) /\
  errs (run (rename_trace d x' [[]] t)) = [].
Proof. exact rename_preserves_resolution. Qed.

(* renaming back restores the trace (hence the graph and the absence of diagnostics) *)
Theorem C15_rename_back : forall d x x' t,
  rename_hyps d x x' t -> rename_trace d x [[]] (rename_trace d x' [[]] t) = t.
Proof. exact rename_back. Qed.

(* the locations rename touches are exactly: the binder, and the uses whose entry in
   use_define_map is the binder — i.e. def_to_use_map[d], what find-references returns *)
Theorem C15_refs_exact : forall d t l,
  In l (touched d [[]] t) <-> (l = d /\ In d (defs (run t))) \/ In (l, d) (uses (run t)).
Proof. exact refs_exact. Qed.

(* rename changes the touched events and nothing else, and only their name *)
Theorem C15_rename_touches_only : forall d x' t s i e,
  nth_error t i = Some e ->
  exists s', nth_error (rename_trace d x' s t) i = Some (if touches d s' e then set_name x' e else e)
             /\ s' = fold_left sstep (firstn i t) s.
Proof. exact rename_trace_spec. Qed.

(* what is recorded as captured for a frame is exactly the set of bindings that non-type lookups,
   made while the frame was live, found below it (crossed fid x d: some lookup of x resolved to d
   k >= 1 frames out and frame fid was among the k frames crossed; see xlog_step) *)
Theorem C15_captures_exact : forall t fid caps,
  In (fid, caps) (c_popped (crun t)) ->
  forall x d, In (x, d) caps <-> crossed fid x d (c_xlog (crun t)).
Proof. exact captures_exact. Qed.

Theorem C15_lambda_captures_exact : forall t l fid caps,
  In (l, fid, caps) (c_lams (crun t)) ->
  In (fid, caps) (c_popped (crun t)) /\ forall x d, In (x, d) caps <-> crossed fid x d (c_xlog (crun t)).
Proof. exact lambda_captures_exact. Qed.

Theorem C15_crossing_log : forall s e,
  c_xlog (cstep s e) =
  match e with
  | Use x _ false => match lookup_depth x (c_stk s) with
                     | Some (S k, d) => (x, d, map fst (firstn (S k) (c_cap s))) :: c_xlog s
                     | _ => c_xlog s
                     end
  | _ => c_xlog s
  end.
Proof. exact xlog_step. Qed.

(* every identifier of a pattern produces exactly one event, in source order (binders of the first
   alternative are definitions, identifiers of later alternatives - nested or-patterns included - are uses) *)
Theorem C15_pattern_cover : forall p, locs (emit p) = ids p.
Proof. exact pattern_cover. Qed.

Example C15_nonvacuous_nested_or :
  emit nested_or_witness = [Def 1 10; Use 1 11 false; Use 1 12 false].
Proof. vm_compute. reflexivity. Qed.

(* ---- non-vacuity ----
   function f(a) = { let b = a; (c) -> a + b + c }   with names a=1 b=2 c=3, fresh name 9:
   locations: a@10, use a@11, b@12, lambda@20, c@21, uses a@22 b@23 c@24 *)
Definition demo : list event :=
  [Push; Def 1 10; Push; Use 1 11 false; Def 2 12;
   Push; Def 3 21; Use 1 22 false; Use 2 23 false; Use 3 24 false; PopLam 20; Pop; Pop]%N.

Example C15_nonvacuous_rename :
  rename_hyps 10 1 9 demo /\
  rename_trace 10 9 [[]] demo =
    [Push; Def 9 10; Push; Use 9 11 false; Def 2 12;
     Push; Def 3 21; Use 9 22 false; Use 2 23 false; Use 3 24 false; PopLam 20; Pop; Pop]%N /\
  touched 10 [[]] demo = [10; 11; 22]%N /\
  uses (run demo) = [(24, 21); (23, 12); (22, 10); (11, 10)]%N.
Proof.
  split; [|vm_compute; auto]. unfold rename_hyps. split; [reflexivity|]. split; [|split; [cbn; auto 10|reflexivity]].
  vm_compute. intuition discriminate.
Qed.

Example C15_nonvacuous_captures :
  map (fun e => (fst (fst e), snd e)) (c_lams (crun demo)) = [(20, [(2, 12); (1, 10)])]%N /\
  crossed 3 1 10 (c_xlog (crun demo)).
Proof. split; [reflexivity|]. exists [3; 2]%nat. split; vm_compute; auto. Qed.

Example C15_nonvacuous_collision :
  errs (run [Push; Def 1 10; Push; Push; Def 1 11; Use 5 12 false]%N) = [Unbound 5 12; AlreadyBound 1 11 10]%N.
Proof. reflexivity. Qed.

Print Assumptions C15_lookup_innermost.
Print Assumptions C15_lookup_unbound.
Print Assumptions C15_lookup_depth.
Print Assumptions C15_no_shadowing.
Print Assumptions C15_rename_preserves_resolution.
Print Assumptions C15_rename_back.
Print Assumptions C15_refs_exact.
Print Assumptions C15_rename_touches_only.
Print Assumptions C15_captures_exact.
Print Assumptions C15_lambda_captures_exact.
Print Assumptions C15_crossing_log.
Print Assumptions C15_pattern_cover.
