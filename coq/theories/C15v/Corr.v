(* C15v — glue for the correspondence check (checks/c15_visitor.py): the trace `visit_module` predicts for a
   module parsed by the real parser must be the trace the hooked real analysis logged, event for event;
   the same per member (`visit_member` against the member's segment of the logged trace).  Definitions only. *)
From Coq Require Import List NArith Bool.
Import ListNotations.
From SV Require Import C15.Model C15.Corr C15v.Syntax C15v.Visitor C15v.Rules.

Definition event_list_eqb (a b : list event) : bool := list_eqb event_eqb a b.

(* an event as numbers, for the report: (kind, a, b, c); kind 0 = no event (one trace is shorter) *)
Definition ev_code (e : option event) : N * N * N * N :=
  match e with
  | None => (0, 0, 0, 0)
  | Some Push => (1, 0, 0, 0)
  | Some Pop => (2, 0, 0, 0)
  | Some (PopLam l) => (3, l, 0, 0)
  | Some (Def x l) => (4, x, l, 0)
  | Some (Use x l ft) => (5, x, l, if ft then 1 else 0)
  end%N.

(* the first index at which the model's trace and the logged trace differ, with the two events *)
Fixpoint first_diff (i : N) (a b : list event) : option (N * (N * N * N * N) * (N * N * N * N)) :=
  match a, b with
  | [], [] => None
  | x :: a', y :: b' => if event_eqb x y then first_diff (i + 1) a' b' else Some (i, ev_code (Some x), ev_code (Some y))
  | x :: _, [] => Some (i, ev_code (Some x), ev_code None)
  | [], y :: _ => Some (i, ev_code None, ev_code (Some y))
  end.

Definition all_members (m : module) : list member := flat_map tl_members (md_tops m).

(* one case: the interned name "this", the module, the whole logged trace, the logged segment of every member
   (in the order of all_members), and use_define_map of the SsaAnalysisResult *)
Definition vcase := (N * module * list event * list (list event) * list (N * N))%type.

(* failures of one case: (0, diff) for the whole module, (k + 1, diff) for the k-th member *)
Fixpoint member_fails (k : N) (ms : list member) (segs : list (list event)) :
    list (N * (N * (N * N * N * N) * (N * N * N * N))) :=
  match ms, segs with
  | [], [] => []
  | m :: ms', t :: segs' =>
      match first_diff 0 (visit_member m) t with
      | Some d => [(k + 1, d)%N]
      | None => []
      end ++ member_fails (k + 1) ms' segs'
  | _, _ => [(k + 1, (0, (0, 0, 0, 0), (0, 0, 0, 0)))%N]      (* not as many segments as members *)
  end.

(* use_define_map according to the declarative rules alone (Rules.v; no trace, no stack machine):
   HashMap::insert keeps the newest entry of a use location *)
Definition lex_use_define (this : N) (m : module) : list (N * N) :=
  dedup_keys (rev (res_uses (lex_module this m))) [].

Definition SPEC_CODE : N := 999999.

Definition check_vcase (c : vcase) : list (N * (N * (N * N * N * N) * (N * N * N * N))) :=
  let '(this, m, real, segs, ud) := c in
  match first_diff 0 (visit_module this m) real with Some d => [(0%N, d)] | None => [] end ++
  member_fails 0 (all_members m) segs ++
  (if perm_b pair_eqb (lex_use_define this m) ud then [] else [(SPEC_CODE, (0, (0, 0, 0, 0), (0, 0, 0, 0)))%N]).

Fixpoint vfails (i : N) (cs : list vcase) : list (N * list (N * (N * (N * N * N * N) * (N * N * N * N)))) :=
  match cs with
  | [] => []
  | c :: cs' => match check_vcase c with
                | [] => vfails (i + 1) cs'
                | fs => (i, fs) :: vfails (i + 1) cs'
                end
  end.

(* the boolean form used in the evidence text *)
Definition vcase_ok (c : vcase) : bool :=
  let '(this, m, real, segs, ud) := c in
  event_list_eqb (visit_module this m) real &&
  list_eqb event_list_eqb (map visit_member (all_members m)) segs &&
  perm_b pair_eqb (lex_use_define this m) ud.

(* ---- builders used by the generated case files: Rust Vec -> the cons-list types of Syntax.v ---- *)
Definition annots_of (l : list annot) : annots := fold_right TCons TNil l.
Definition pats_of (l : list pat) : pats := fold_right PCons PNil l.
Definition exprs_of (l : list expr) : exprs := fold_right ECons ENil l.
Definition arms_of (l : list (pat * expr)) : arms := fold_right (fun a r => ACons (fst a) (snd a) r) ANil l.
(* a statement: inl (pattern, annotation, initialiser) = `let`, inr e = expression statement *)
Definition stmts_of (l : list (pat * option annot * expr + expr)) (final : option expr) : stmts :=
  fold_right (fun st r => match st with
                          | inl (p, a, e) => SLet p a e r
                          | inr e => SExpr e r
                          end)
             (match final with Some e => SFinal e | None => SEnd end) l.
