(* C15v — lemmas: (1) generic facts about traces (composition of the visitor's output with the
   scope-stack machine of C15/Model.v), (2) structural inductions over the syntax: the visitor's trace is
   well bracketed, computes lexical scoping (Rules.v), and crosses exactly the frames the free variables
   say, (3) the individual scoping rules. *)
From Coq Require Import List NArith Bool Lia PeanoNat.
Import ListNotations.
From SV Require Import C15.Model C15.Proofs C15.ProofsCap C15v.Syntax C15v.Visitor C15v.Rules.

(* ================================================================== 1. traces *)

Lemma trace_res_app : forall t1 t2 s,
  trace_res s (t1 ++ t2) = trace_res s t1 ++ trace_res (fold_left sstep t1 s) t2.
Proof. induction t1 as [|e t1 IH]; intros t2 s; cbn; auto. now rewrite IH, app_assoc. Qed.

Lemma trace_cross_app : forall t1 t2 h s,
  trace_cross h s (t1 ++ t2) = trace_cross h s t1 ++ trace_cross (fold_left dstep t1 h) (fold_left sstep t1 s) t2.
Proof. induction t1 as [|e t1 IH]; intros t2 h s; cbn [app trace_cross fold_left]; auto. now rewrite IH, app_assoc. Qed.

Lemma find_frame_app x a b :
  find_frame x (a ++ b) = match find_frame x a with Some l => Some l | None => find_frame x b end.
Proof. induction a as [|[y l] a IH]; cbn; auto. destruct (N.eqb x y); auto. Qed.

(* `get` on the stack is the newest binding in the flattened environment *)
Lemma lookup_concat x s : lookup x s = find_frame x (concat s).
Proof. induction s as [|f s IH]; cbn; auto. rewrite find_frame_app, IH. reflexivity. Qed.

(* ---- link with the machine state of C15/Model.v ---- *)
Definition unb (es : list err) : list (N * N) :=
  flat_map (fun e => match e with Unbound x l => [(x, l)] | _ => [] end) es.

Lemma uses_trace_res : forall t st,
  uses (fold_left step t st) = rev (res_uses (trace_res (stk st) t)) ++ uses st.
Proof.
  induction t as [|e t IH]; intros st; cbn [fold_left trace_res]; auto.
  rewrite IH, stk_step. destruct e as [| |l|y l|y l ft]; cbn [app]; auto.
  cbn [step]. unfold res_uses. cbn [flat_map]. fold (res_uses (trace_res (sstep (stk st) (Use y l ft)) t)).
  destruct (lookup y (stk st)) as [d|]; cbn [uses app]; auto.
  cbn [rev]. now rewrite <- app_assoc.
Qed.

Lemma unbound_trace_res : forall t st,
  unb (errs (fold_left step t st)) = rev (res_unbound (trace_res (stk st) t)) ++ unb (errs st).
Proof.
  induction t as [|e t IH]; intros st; cbn [fold_left trace_res]; auto.
  rewrite IH, stk_step. destruct e as [| |l|y l|y l ft]; cbn [app]; auto.
  - (* Def *) f_equal. cbn [step errs]. destruct (lookup_outer y (stk st)); auto. destruct (reported l (errs st)); auto.
  - cbn [step]. unfold res_unbound. cbn [flat_map]. fold (res_unbound (trace_res (sstep (stk st) (Use y l ft)) t)).
    destruct (lookup y (stk st)) as [d|]; cbn [errs app]; auto.
    cbn [rev]. now rewrite <- app_assoc.
Qed.

Lemma assoc_dedup : forall m seen k,
  assoc k (dedup_keys m seen) = if existsb (N.eqb k) seen then None else assoc k m.
Proof.
  induction m as [|[a b] m IH]; intros seen k; cbn; [destruct (existsb _ seen); auto|].
  destruct (existsb (N.eqb a) seen) eqn:Ea.
  - rewrite IH. destruct (existsb (N.eqb k) seen) eqn:Ek; auto.
    destruct (N.eqb_spec k a); auto. subst. congruence.
  - cbn. destruct (N.eqb_spec k a).
    + subst. now rewrite Ea.
    + rewrite IH. cbn. destruct (N.eqb_spec k a); [contradiction|]. reflexivity.
Qed.

(* `resolve` (read from use_define_map of the C15 machine) is the newest record of the trace semantics *)
Lemma resolve_trace_res this m u :
  resolve this m u = assoc u (rev (res_uses (trace_res [[]] (visit_module this m)))).
Proof.
  unfold resolve, use_define_map, run. rewrite assoc_dedup. cbn [existsb].
  rewrite uses_trace_res. cbn. now rewrite app_nil_r.
Qed.

(* a resolution comes from the stack the trace started on or from a definition made by the trace *)
Definition def_events (t : list event) : list (N * N) :=
  flat_map (fun e => match e with Def x l => [(x, l)] | _ => [] end) t.

Lemma def_events_app a b : def_events (a ++ b) = def_events a ++ def_events b.
Proof. apply flat_map_app. Qed.

Lemma sites_sstep s e d : In d (sites (sstep s e)) -> In d (sites s) \/ In d (map snd (def_events [e])).
Proof.
  unfold sites. destruct e as [| |l|y l|y l ft]; cbn; auto.
  - destruct s as [|f s]; cbn; auto. rewrite !map_app, !in_app_iff. auto.
  - destruct s as [|f s]; cbn; auto. rewrite !map_app, !in_app_iff. auto.
  - destruct s as [|f s]; cbn; [tauto|]. tauto.
Qed.

Lemma trace_res_sites : forall t s x u ft d,
  In (x, u, ft, Some d) (trace_res s t) -> In d (sites s) \/ In d (map snd (def_events t)).
Proof.
  induction t as [|e t IH]; intros s x u ft d; cbn [trace_res]; [intros []|].
  rewrite in_app_iff. intros [H|H].
  - destruct e as [| |l|y l|y l f]; try (destruct H; fail). destruct H as [E|[]]. inversion E; subst.
    left. apply lookup_in in H3. unfold sites. apply in_map_iff. exists (x, d). auto.
  - apply IH in H. change (e :: t) with ([e] ++ t). rewrite def_events_app, map_app, in_app_iff.
    destruct H as [H|H]; auto. apply sites_sstep in H. tauto.
Qed.

(* ---- well-bracketed traces ---- *)
Lemma wb_true b t : wb b t -> wb true t.
Proof. induction 1; try (constructor; auto; fail). Qed.

Lemma wb_app b t1 t2 : wb b t1 -> wb b t2 -> wb b (t1 ++ t2).
Proof.
  induction 1; intros H2; cbn; auto; try (constructor; auto; fail).
  rewrite <- app_assoc. cbn. constructor; auto.
Qed.

Lemma wb_block b t : wb true t -> wb b (Push :: t ++ [Pop]).
Proof. intros H. apply wb_scope; auto. constructor. Qed.

Lemma wb_lam b t l : wb true t -> wb b (Push :: t ++ [PopLam l]).
Proof. intros H. apply wb_scope; eauto. constructor. Qed.

(* every Push has its Pop: the stack after the trace is the stack before it, with the top-level Defs added to the
   top frame; none for wb false *)
Lemma wb_stack b t : wb b t ->
  forall f s, exists f', fold_left sstep t (f :: s) = (f' ++ f) :: s /\ (b = false -> f' = []).
Proof.
  induction 1 as [b|b x l ft t H IH|x l t H IH|b t1 c t2 H1 IH1 Hc H2 IH2]; intros f s.
  - exists []. auto.
  - cbn. apply IH.
  - cbn. destruct (IH ((x, l) :: f) s) as (f' & E & _). exists (f' ++ [(x, l)]). split; [|discriminate].
    rewrite E, <- app_assoc. reflexivity.
  - cbn [fold_left sstep]. rewrite fold_left_app. destruct (IH1 [] (f :: s)) as (f1 & E1 & _). rewrite E1.
    assert (Et : fold_left sstep (c :: t2) ((f1 ++ []) :: f :: s) = fold_left sstep t2 (f :: s)).
    { destruct Hc as [->|[l ->]]; reflexivity. }
    rewrite Et. apply IH2.
Qed.

Lemma wb_stack_any t : wb false t -> forall s, fold_left sstep t s = s.
Proof.
  intros H. remember false as b eqn:Eb. induction H as [b|b x l ft t H IH|x l t H IH|b t1 c t2 H1 IH1 Hc H2 IH2]; intros s; auto.
  - cbn. auto.
  - discriminate.
  - cbn [fold_left sstep]. rewrite fold_left_app. destruct (wb_stack _ _ H1 [] s) as (f1 & E1 & _). rewrite E1.
    destruct Hc as [->|[l ->]]; cbn; auto.
Qed.

Lemma wb_depth b t : wb b t -> forall h, fold_left dstep t h = h.
Proof.
  induction 1 as [b|b x l ft t H IH|x l t H IH|b t1 c t2 H1 IH1 Hc H2 IH2]; intros h; cbn; auto.
  rewrite fold_left_app, IH1. destruct Hc as [->|[l ->]]; cbn; auto.
Qed.

(* ---- the captured maps of the C15 machine along a well-bracketed trace ---- *)
Lemma cstep_stk c e : c_stk (cstep c e) = sstep (c_stk c) e.
Proof.
  destruct e as [| |l|y l|y l ft]; cbn; auto.
  destruct (lookup_depth y (c_stk c)) as [[[|k] d]|]; auto. destruct ft; auto.
Qed.

Lemma cfold_stk : forall t c, c_stk (fold_left cstep t c) = fold_left sstep t (c_stk c).
Proof. induction t as [|e t IH]; intros c; cbn; auto. now rewrite IH, cstep_stk. Qed.

Lemma nth_mark_caps x d : forall n cs h,
  nth_error (mark_caps n x d cs) h =
  if Nat.ltb h n then option_map (fun ic : nat * list (N * N) => (fst ic, cap_insert x d (snd ic))) (nth_error cs h)
  else nth_error cs h.
Proof.
  induction n as [|n IH]; intros cs h.
  - destruct cs; reflexivity.
  - destruct cs as [|[i c] cs]; cbn [mark_caps].
    + destruct (Nat.ltb h (S n)); destruct h; reflexivity.
    + destruct h as [|h]; cbn [nth_error]; auto. rewrite IH. reflexivity.
Qed.

Lemma cap_fold_app l1 l2 c : cap_fold (l1 ++ l2) c = cap_fold l2 (cap_fold l1 c).
Proof. apply fold_left_app. Qed.

Lemma nth_error_tl {A} (l : list A) h : nth_error (tl l) h = nth_error l (S h).
Proof. destruct l; cbn; auto. destruct h; reflexivity. Qed.

Lemma cstep_closer_cap c e : e = Pop \/ (exists l, e = PopLam l) -> c_cap (cstep c e) = tl (c_cap c).
Proof. intros [->|[l ->]]; reflexivity. Qed.

Lemma wb_caps b t : wb b t ->
  forall c h i caps,
    nth_error (c_cap c) h = Some (i, caps) ->
    nth_error (c_cap (fold_left cstep t c)) h = Some (i, cap_fold (trace_cross h (c_stk c) t) caps).
Proof.
  induction 1 as [b|b x l ft t H IH|x l t H IH|b t1 e t2 H1 IH1 He H2 IH2]; intros c h i caps Hn.
  - exact Hn.
  - cbn [fold_left trace_cross]. rewrite cap_fold_app.
    assert (Hc : nth_error (c_cap (cstep c (Use x l ft))) h =
                 Some (i, cap_fold (match ft with
                                    | false => match lookup_depth x (c_stk c) with
                                               | Some (k, d) => if Nat.ltb h k then [(x, d)] else []
                                               | None => []
                                               end
                                    | true => []
                                    end) caps)).
    { cbn [cstep]. destruct (lookup_depth x (c_stk c)) as [[[|k] d]|] eqn:El.
      - destruct ft; cbn; auto.
      - destruct ft; [exact Hn|]. cbn [c_cap]. rewrite nth_mark_caps, Hn.
        destruct (Nat.ltb h (S k)); reflexivity.
      - destruct ft; exact Hn. }
    rewrite (IH _ _ _ _ Hc), cstep_stk. destruct ft; reflexivity.
  - cbn [fold_left trace_cross app]. rewrite (IH (cstep c (Def x l)) h i caps); [now rewrite cstep_stk|exact Hn].
  - cbn [fold_left trace_cross app]. rewrite fold_left_app. cbn [fold_left].
    rewrite trace_cross_app. cbn [trace_cross app]. rewrite cap_fold_app.
    set (c1 := cstep c Push). set (c2 := fold_left cstep t1 c1). set (c3 := cstep c2 e).
    assert (Hn1 : nth_error (c_cap c1) (S h) = Some (i, caps)) by exact Hn.
    pose proof (IH1 c1 (S h) i caps Hn1) as Hn2. fold c2 in Hn2.
    assert (Hn3 : nth_error (c_cap c3) h = Some (i, cap_fold (trace_cross (S h) (c_stk c1) t1) caps)).
    { unfold c3. rewrite cstep_closer_cap by exact He. rewrite nth_error_tl. exact Hn2. }
    rewrite (IH2 c3 h _ _ Hn3). f_equal. f_equal.
    replace (c_stk c3) with (sstep (fold_left sstep t1 (sstep (c_stk c) Push)) e).
    2:{ unfold c3, c2, c1. now rewrite cstep_stk, cfold_stk, cstep_stk. }
    rewrite (wb_depth _ _ H1). unfold c1. rewrite cstep_stk.
    replace (match e with Use _ _ false => _ | _ => [] end) with (@nil (N * N)) by (destruct He as [->|[l ->]]; reflexivity).
    cbn [app]. f_equal. destruct He as [->|[l ->]]; reflexivity.
Qed.

(* HashMap::insert of pairs that agree on every key they share: membership *)
Lemma cap_fold_in : forall l c y e,
  (forall x d d', In (x, d) (l ++ c) -> In (x, d') (l ++ c) -> d = d') ->
  (In (y, e) (cap_fold l c) <-> In (y, e) l \/ In (y, e) c).
Proof.
  induction l as [|[x d] l IH]; intros c y e Hf; cbn [cap_fold fold_left]; [cbn; tauto|].
  change (fold_left _ l (cap_insert (fst (x, d)) (snd (x, d)) c)) with (cap_fold l (cap_insert x d c)).
  rewrite IH.
  - rewrite in_cap_insert. cbn [In]. split.
    + intros [H|[[-> ->]|[H _]]]; auto.
    + intros [[E|H]|H]; auto.
      * inversion E; auto.
      * destruct (N.eq_dec y x) as [->|Hn]; [|auto]. right. left. split; auto.
        apply (Hf x e d); cbn; [right; apply in_or_app; right; exact H|left; reflexivity].
  - intros x0 d0 d0' H1 H2. apply (Hf x0 d0 d0').
    + apply in_app_or in H1. destruct H1 as [H1|H1]; [right; apply in_or_app; auto|].
      apply in_cap_insert in H1. destruct H1 as [[-> ->]|[H1 _]]; [left; auto|right; apply in_or_app; auto].
    + apply in_app_or in H2. destruct H2 as [H2|H2]; [right; apply in_or_app; auto|].
      apply in_cap_insert in H2. destruct H2 as [[-> ->]|[H2 _]]; [left; auto|right; apply in_or_app; auto].
Qed.

(* ================================================================== 2. structural inductions *)

(* ---- 2.1 the visitor's trace is well bracketed (property e) ---- *)
Lemma wb_annot_mut :
  (forall a b, wb b (visit_annot a)) /\ (forall l b, wb b (visit_annots l)).
Proof.
  apply annot_mutind; intros; cbn; try constructor; auto using wb_app.
  - apply wb_app; auto. destruct same; repeat constructor.
  - constructor.
Qed.
Definition wb_annot := proj1 wb_annot_mut.
Definition wb_annots := proj2 wb_annot_mut.

Lemma wb_oannot a b : wb b (visit_oannot a).
Proof. destruct a; cbn; [apply wb_annot|constructor]. Qed.

Lemma wb_pat_uses_mut :
  (forall p b, wb b (visit_pat_uses p)) /\ (forall ps b, wb b (visit_pats_uses ps)).
Proof. apply pat_mutind; intros; cbn; auto using wb_app; repeat constructor. Qed.
Definition wb_pat_uses := proj1 wb_pat_uses_mut.
Definition wb_pats_uses := proj2 wb_pat_uses_mut.

Lemma wb_pat_mut :
  (forall p, wb true (visit_pat p)) /\ (forall ps, wb true (visit_pats ps)).
Proof. apply pat_mutind; intros; cbn; auto using wb_app, wb_pats_uses; repeat constructor. Qed.
Definition wb_pat := proj1 wb_pat_mut.
Definition wb_pats := proj2 wb_pat_mut.

Lemma wb_lparams ps : wb true (visit_lparams ps).
Proof.
  induction ps as [|[[x l] a] ps IH]; cbn; [constructor|].
  constructor. apply wb_app; auto. apply wb_oannot.
Qed.

Lemma wb_expr_mut :
  (forall e, wb false (visit_expr e)) /\
  (forall es, wb false (visit_exprs es)) /\
  (forall i, wb false (visit_ifelse i)) /\
  (forall e, wb false (visit_else e)) /\
  (forall a, wb false (visit_arms a)) /\
  (forall s, wb true (visit_stmts s)).
Proof.
  apply expr_mutind; intros; cbn [visit_expr visit_exprs visit_ifelse visit_else visit_arms visit_stmts];
    try (constructor; fail); auto using wb_app, wb_annots, wb_block.
  - repeat constructor.
  - (* lambda *)
    rewrite app_assoc. apply wb_lam. apply wb_app; [apply wb_lparams|eapply wb_true; eauto].
  - (* if let *)
    apply wb_app; auto. rewrite app_assoc. apply wb_scope; auto.
    apply wb_app; [apply wb_pat|apply wb_block; auto].
  - (* arm *)
    rewrite app_assoc. apply wb_scope; auto. apply wb_app; [apply wb_pat|eapply wb_true; eauto].
  - (* final expression *) eapply wb_true; eauto.
  - (* let *)
    apply wb_app; [eapply wb_true; eauto|]. apply wb_app; [apply wb_oannot|]. apply wb_app; [apply wb_pat|auto].
  - (* expression statement *) apply wb_app; [eapply wb_true; eauto|auto].
Qed.
Definition wb_expr := proj1 wb_expr_mut.
Definition wb_exprs := proj1 (proj2 wb_expr_mut).
Definition wb_ifelse := proj1 (proj2 (proj2 wb_expr_mut)).
Definition wb_else := proj1 (proj2 (proj2 (proj2 wb_expr_mut))).
Definition wb_arms := proj1 (proj2 (proj2 (proj2 (proj2 wb_expr_mut)))).
Definition wb_stmts := proj2 (proj2 (proj2 (proj2 (proj2 wb_expr_mut)))).

Lemma wb_visit_block b s : wb b (visit_block s).
Proof. apply wb_block, wb_stmts. Qed.

(* the stack after an expression / a block / an else branch is the stack before it *)
Lemma stack_expr e s : fold_left sstep (visit_expr e) s = s.
Proof. apply wb_stack_any, wb_expr. Qed.
Lemma stack_exprs e s : fold_left sstep (visit_exprs e) s = s.
Proof. apply wb_stack_any, wb_exprs. Qed.
Lemma stack_block b s : fold_left sstep (visit_block b) s = s.
Proof. apply wb_stack_any, wb_visit_block. Qed.
Lemma stack_else e s : fold_left sstep (visit_else e) s = s.
Proof. apply wb_stack_any, wb_else. Qed.
Lemma stack_ifelse e s : fold_left sstep (visit_ifelse e) s = s.
Proof. apply wb_stack_any, wb_ifelse. Qed.
Lemma stack_arms e s : fold_left sstep (visit_arms e) s = s.
Proof. apply wb_stack_any, wb_arms. Qed.
Lemma stack_annot a s : fold_left sstep (visit_annot a) s = s.
Proof. apply wb_stack_any, wb_annot. Qed.
Lemma stack_annots a s : fold_left sstep (visit_annots a) s = s.
Proof. apply wb_stack_any, wb_annots. Qed.
Lemma stack_oannot a s : fold_left sstep (visit_oannot a) s = s.
Proof. apply wb_stack_any, wb_oannot. Qed.
Lemma stack_pat_uses p s : fold_left sstep (visit_pat_uses p) s = s.
Proof. apply wb_stack_any, wb_pat_uses. Qed.
Lemma stack_pats_uses p s : fold_left sstep (visit_pats_uses p) s = s.
Proof. apply wb_stack_any, wb_pats_uses. Qed.

(* a pattern adds its binders (those of the first alternatives) to the top frame, newest first *)
Lemma stack_pat_mut :
  (forall p f s, fold_left sstep (visit_pat p) (f :: s) = (rev (binders p) ++ f) :: s) /\
  (forall ps f s, fold_left sstep (visit_pats ps) (f :: s) = (rev (binders_l ps) ++ f) :: s).
Proof.
  apply pat_mutind; intros; cbn [visit_pat visit_pats binders binders_l]; auto.
  - rewrite fold_left_app, H, stack_pats_uses. reflexivity.
  - rewrite fold_left_app, H, H0, rev_app_distr, app_assoc. reflexivity.
Qed.
Definition stack_pat := proj1 stack_pat_mut.
Definition stack_pats := proj2 stack_pat_mut.

Lemma stack_lparams : forall ps f s,
  fold_left sstep (visit_lparams ps) (f :: s) = (rev (lparam_binders ps) ++ f) :: s.
Proof.
  induction ps as [|[[x l] a] ps IH]; intros f s; cbn; auto.
  rewrite fold_left_app, stack_oannot, IH. cbn. now rewrite <- app_assoc.
Qed.

(* only the first alternative defines *)
Lemma defs_pat_uses_mut :
  (forall p, def_events (visit_pat_uses p) = []) /\ (forall ps, def_events (visit_pats_uses ps) = []).
Proof. apply pat_mutind; intros; cbn; auto; rewrite def_events_app, H, H0; reflexivity. Qed.

Lemma defs_pat_mut :
  (forall p, def_events (visit_pat p) = binders p) /\ (forall ps, def_events (visit_pats ps) = binders_l ps).
Proof.
  apply pat_mutind; intros; cbn [visit_pat visit_pats binders binders_l]; auto.
  - rewrite def_events_app, H, (proj2 defs_pat_uses_mut). apply app_nil_r.
  - rewrite def_events_app, H, H0. reflexivity.
Qed.

(* the identifiers of the later alternatives are uses, one per identifier, in order *)
Lemma uses_pat_mut :
  (forall p, visit_pat_uses p = map (fun xl : N * N => Use (fst xl) (snd xl) false) (pat_ids p)) /\
  (forall ps, visit_pats_uses ps = map (fun xl : N * N => Use (fst xl) (snd xl) false) (pats_ids ps)).
Proof. apply pat_mutind; intros; cbn; auto; rewrite map_app, H, H0; reflexivity. Qed.

(* ---- 2.2 the machine run on the visitor's trace computes lexical scoping (Rules.v) ---- *)
Lemma lex_annot_mut :
  (forall a s, trace_res s (visit_annot a) = lex_annot (concat s) a) /\
  (forall l s, trace_res s (visit_annots l) = lex_annots (concat s) l).
Proof.
  apply annot_mutind; intros; cbn [visit_annot visit_annots lex_annot lex_annots]; auto.
  - rewrite trace_res_app, H. destruct same; cbn; [rewrite lookup_concat|]; reflexivity.
  - cbn. now rewrite lookup_concat.
  - rewrite trace_res_app, stack_annots, H, H0. reflexivity.
  - rewrite trace_res_app, stack_annot, H, H0. reflexivity.
Qed.
Definition lex_annot_ok := proj1 lex_annot_mut.
Definition lex_annots_ok := proj2 lex_annot_mut.

Lemma lex_oannot_ok a s : trace_res s (visit_oannot a) = lex_oannot (concat s) a.
Proof. destruct a; cbn; auto using lex_annot_ok. Qed.

Lemma lex_ids_app g a b : lex_ids g (a ++ b) = lex_ids g a ++ lex_ids g b.
Proof. apply map_app. Qed.

Lemma lex_pat_uses_mut :
  (forall p s, trace_res s (visit_pat_uses p) = lex_ids (concat s) (pat_ids p)) /\
  (forall ps s, trace_res s (visit_pats_uses ps) = lex_ids (concat s) (pats_ids ps)).
Proof.
  apply pat_mutind; intros; cbn [visit_pat_uses visit_pats_uses pat_ids pats_ids]; auto.
  - cbn. now rewrite lookup_concat.
  - rewrite trace_res_app, stack_pat_uses, H, H0, lex_ids_app. reflexivity.
  - rewrite trace_res_app, stack_pat_uses, H, H0, lex_ids_app. reflexivity.
Qed.

Lemma lex_pat_mut :
  (forall p f s, trace_res (f :: s) (visit_pat p) = lex_pat (f ++ concat s) p) /\
  (forall ps f s, trace_res (f :: s) (visit_pats ps) = lex_pats (f ++ concat s) ps).
Proof.
  apply pat_mutind; intros; cbn [visit_pat visit_pats lex_pat lex_pats]; auto.
  - rewrite trace_res_app, stack_pat, H, (proj2 lex_pat_uses_mut). unfold bind. cbn [concat]. now rewrite app_assoc.
  - rewrite trace_res_app, stack_pat, H, H0. unfold bind. now rewrite app_assoc.
Qed.
Definition lex_pat_ok := proj1 lex_pat_mut.

Lemma lex_lparams_ok : forall ps f s,
  trace_res (f :: s) (visit_lparams ps) = lex_lparams (f ++ concat s) ps.
Proof.
  induction ps as [|[[x l] a] ps IH]; intros f s; cbn [visit_lparams flat_map lex_lparams]; auto.
  cbn [app trace_res sstep push_def]. fold (visit_lparams ps).
  rewrite trace_res_app, stack_oannot, lex_oannot_ok, IH. reflexivity.
Qed.

(* unfoldings with visit_block folded *)
Lemma visit_if_bool g b1 e2 :
  visit_ifelse (IfBool g b1 e2) = visit_expr g ++ visit_block b1 ++ visit_else e2.
Proof. reflexivity. Qed.
Lemma visit_if_let p g b1 e2 :
  visit_ifelse (IfLet p g b1 e2) = visit_expr g ++ Push :: visit_pat p ++ visit_block b1 ++ Pop :: visit_else e2.
Proof. reflexivity. Qed.
Lemma visit_eblock b : visit_expr (EBlock b) = visit_block b.
Proof. reflexivity. Qed.
Lemma visit_else_block b : visit_else (ElseBlock b) = visit_block b.
Proof. reflexivity. Qed.

Lemma trace_res_push s t : trace_res s (Push :: t) = trace_res ([] :: s) t.
Proof. reflexivity. Qed.
Lemma trace_res_pop s t : trace_res s (Pop :: t) = trace_res (tl s) t.
Proof. reflexivity. Qed.
Lemma trace_res_block s b : trace_res s (visit_block b) = trace_res ([] :: s) (visit_stmts b).
Proof. unfold visit_block, scope. rewrite trace_res_push, trace_res_app. cbn. apply app_nil_r. Qed.

Lemma lex_expr_mut :
  (forall e s, trace_res s (visit_expr e) = lex_expr (concat s) e) /\
  (forall es s, trace_res s (visit_exprs es) = lex_exprs (concat s) es) /\
  (forall i s, trace_res s (visit_ifelse i) = lex_ifelse (concat s) i) /\
  (forall e s, trace_res s (visit_else e) = lex_else (concat s) e) /\
  (forall a s, trace_res s (visit_arms a) = lex_arms (concat s) a) /\
  (forall b f s, trace_res (f :: s) (visit_stmts b) = lex_stmts (f ++ concat s) b).
Proof.
  apply expr_mutind; intros;
    rewrite ?visit_if_bool, ?visit_if_let, ?visit_eblock, ?visit_else_block;
    cbn [visit_expr visit_exprs visit_else visit_arms visit_stmts
         lex_expr lex_exprs lex_ifelse lex_else lex_arms lex_stmts]; auto.
  - cbn. now rewrite lookup_concat.
  - rewrite trace_res_app, stack_expr, H, lex_annots_ok. reflexivity.
  - rewrite trace_res_app, stack_expr, H, lex_annots_ok. reflexivity.
  - rewrite trace_res_app, stack_expr, H, H0. reflexivity.
  - rewrite trace_res_app, stack_expr, H, H0. reflexivity.
  - rewrite trace_res_app, stack_expr, H, H0. reflexivity.
  - (* lambda *)
    rewrite trace_res_push, trace_res_app, stack_lparams, lex_lparams_ok.
    rewrite trace_res_app, H. cbn. rewrite !app_nil_r. reflexivity.
  - (* block *)
    rewrite trace_res_block, H. reflexivity.
  - rewrite trace_res_app, stack_expr, H, H0. reflexivity.
  - (* if *)
    rewrite trace_res_app, stack_expr, H. f_equal.
    rewrite trace_res_app, stack_block, H1, trace_res_block, H0. reflexivity.
  - (* if let *)
    rewrite trace_res_app, stack_expr, H. f_equal.
    rewrite trace_res_push, trace_res_app, stack_pat, lex_pat_ok. cbn [app]. f_equal.
    rewrite trace_res_app, stack_block, trace_res_pop, trace_res_block, H0, H1. cbn [tl concat app].
    unfold bind. rewrite !app_nil_r. reflexivity.
  - (* else block *)
    rewrite trace_res_block, H. reflexivity.
  - (* arm *)
    rewrite trace_res_push, trace_res_app, stack_pat, lex_pat_ok. cbn [app]. f_equal.
    rewrite trace_res_app, stack_expr, H, trace_res_pop, H0. cbn [tl concat]. unfold bind. rewrite app_nil_r. reflexivity.
  - apply (H (f :: s)).
  - (* let *)
    rewrite trace_res_app, stack_expr, (H (f :: s)). cbn [concat]. f_equal.
    rewrite trace_res_app, stack_oannot, lex_oannot_ok. cbn [concat]. f_equal.
    rewrite trace_res_app, stack_pat, lex_pat_ok, H0. unfold bind. now rewrite app_assoc.
  - rewrite trace_res_app, stack_expr, (H (f :: s)), H0. reflexivity.
Qed.
Definition lex_expr_ok := proj1 lex_expr_mut.
Definition lex_stmts_ok := proj2 (proj2 (proj2 (proj2 (proj2 lex_expr_mut)))).

(* ---- 2.3 the frames crossed are those the free variables say ---- *)
Lemma cross_of_app h s a b : cross_of h s (a ++ b) = cross_of h s a ++ cross_of h s b.
Proof. apply flat_map_app. Qed.

Lemma drop_app bs a b : drop bs (a ++ b) = drop bs a ++ drop bs b.
Proof. apply filter_app. Qed.

Lemma cross_of_push h s xs : cross_of (S h) ([] :: s) xs = cross_of h s xs.
Proof.
  unfold cross_of. induction xs as [|x xs IH]; cbn [flat_map]; auto. rewrite IH. f_equal.
  cbn [lookup_depth find_frame]. destruct (lookup_depth x s) as [[k d]|]; reflexivity.
Qed.

Lemma existsb_names x (bs : list (N * N)) :
  existsb (N.eqb x) (map fst bs) = match find_frame x (rev bs) with Some _ => true | None => false end.
Proof.
  destruct (find_frame x (rev bs)) as [l|] eqn:E.
  - apply existsb_exists. exists x. split; [|apply N.eqb_refl].
    apply find_frame_in in E. apply in_rev in E. apply in_map_iff. exists (x, l). auto.
  - apply find_frame_none in E. destruct (existsb (N.eqb x) (map fst bs)) eqn:Ex; auto.
    exfalso. apply E. apply existsb_exists in Ex. destruct Ex as (y & Hy & Eq). apply N.eqb_eq in Eq. subst y.
    rewrite map_rev. now apply in_rev in Hy.
Qed.

(* binders added to the top frame hide the names from what lies below, and never cross anything themselves *)
Lemma cross_of_bind h bs f s xs :
  cross_of h ((rev bs ++ f) :: s) xs = cross_of h (f :: s) (drop bs xs).
Proof.
  unfold cross_of, drop. induction xs as [|x xs IH]; cbn [flat_map filter]; auto.
  rewrite IH, existsb_names. cbn [lookup_depth]. rewrite find_frame_app.
  destruct (find_frame x (rev bs)) as [l|]; cbn [negb flat_map]; auto.
Qed.

Lemma cross_of_bind0 h bs s xs : cross_of h (rev bs :: s) xs = cross_of h ([] :: s) (drop bs xs).
Proof. rewrite <- (app_nil_r (rev bs)). apply cross_of_bind. Qed.

Lemma cross_annot_mut :
  (forall a h s, trace_cross h s (visit_annot a) = []) /\ (forall l h s, trace_cross h s (visit_annots l) = []).
Proof.
  apply annot_mutind; intros; cbn [visit_annot visit_annots]; auto.
  - rewrite trace_cross_app, H, app_nil_r. destruct same; reflexivity.
  - rewrite trace_cross_app, H, H0. reflexivity.
  - rewrite trace_cross_app, H, H0. reflexivity.
Qed.
Lemma cross_oannot a h s : trace_cross h s (visit_oannot a) = [].
Proof. destruct a; cbn; auto. apply cross_annot_mut. Qed.

Lemma depth_expr e h : fold_left dstep (visit_expr e) h = h. Proof. exact (wb_depth _ _ (wb_expr e) h). Qed.
Lemma depth_block e h : fold_left dstep (visit_block e) h = h. Proof. exact (wb_depth _ _ (wb_visit_block false e) h). Qed.
Lemma depth_annots e h : fold_left dstep (visit_annots e) h = h. Proof. exact (wb_depth _ _ (wb_annots e false) h). Qed.
Lemma depth_oannot e h : fold_left dstep (visit_oannot e) h = h. Proof. exact (wb_depth _ _ (wb_oannot e false) h). Qed.
Lemma depth_pat e h : fold_left dstep (visit_pat e) h = h. Proof. exact (wb_depth _ _ (wb_pat e) h). Qed.
Lemma depth_pat_uses e h : fold_left dstep (visit_pat_uses e) h = h. Proof. exact (wb_depth _ _ (wb_pat_uses e false) h). Qed.
Lemma depth_lparams e h : fold_left dstep (visit_lparams e) h = h. Proof. exact (wb_depth _ _ (wb_lparams e) h). Qed.

Lemma cross_pat_uses_mut :
  (forall p h s, trace_cross h s (visit_pat_uses p) = cross_of h s (map fst (pat_ids p))) /\
  (forall ps h s, trace_cross h s (visit_pats_uses ps) = cross_of h s (map fst (pats_ids ps))).
Proof.
  apply pat_mutind; intros; cbn [visit_pat_uses visit_pats_uses pat_ids pats_ids]; auto.
  - rewrite trace_cross_app, stack_pat_uses, depth_pat_uses, H, H0, map_app, cross_of_app. reflexivity.
  - rewrite trace_cross_app, stack_pat_uses, depth_pat_uses, H, H0, map_app, cross_of_app. reflexivity.
Qed.

Lemma cross_pat_mut :
  (forall p h f s, trace_cross h (f :: s) (visit_pat p) = cross_of h (f :: s) (fv_pat p)) /\
  (forall ps h f s, trace_cross h (f :: s) (visit_pats ps) = cross_of h (f :: s) (fv_pats ps)).
Proof.
  apply pat_mutind; intros; cbn [visit_pat visit_pats fv_pat fv_pats]; auto.
  - rewrite trace_cross_app, stack_pat, depth_pat, H, (proj2 cross_pat_uses_mut), cross_of_bind, cross_of_app. reflexivity.
  - rewrite trace_cross_app, stack_pat, depth_pat, H, H0, cross_of_bind, cross_of_app. reflexivity.
Qed.
Definition cross_pat := proj1 cross_pat_mut.

Lemma cross_lparams : forall ps h s, trace_cross h s (visit_lparams ps) = [].
Proof.
  induction ps as [|[[x l] a] ps IH]; intros h s; cbn [visit_lparams flat_map]; auto.
  cbn [app trace_cross]. fold (visit_lparams ps). rewrite trace_cross_app, cross_oannot, IH. reflexivity.
Qed.

Lemma trace_cross_push h s t : trace_cross h s (Push :: t) = trace_cross (S h) ([] :: s) t.
Proof. reflexivity. Qed.
Lemma trace_cross_pop h s t : trace_cross h s (Pop :: t) = trace_cross (pred h) (tl s) t.
Proof. reflexivity. Qed.
Lemma trace_cross_block h s b : trace_cross h s (visit_block b) = trace_cross (S h) ([] :: s) (visit_stmts b).
Proof. unfold visit_block, scope. rewrite trace_cross_push, trace_cross_app. cbn. apply app_nil_r. Qed.

Lemma cross_expr_mut :
  (forall e h s, trace_cross h s (visit_expr e) = cross_of h s (fv_expr e)) /\
  (forall es h s, trace_cross h s (visit_exprs es) = cross_of h s (fv_exprs es)) /\
  (forall i h s, trace_cross h s (visit_ifelse i) = cross_of h s (fv_ifelse i)) /\
  (forall e h s, trace_cross h s (visit_else e) = cross_of h s (fv_else e)) /\
  (forall a h s, trace_cross h s (visit_arms a) = cross_of h s (fv_arms a)) /\
  (forall b h f s, trace_cross h (f :: s) (visit_stmts b) = cross_of h (f :: s) (fv_stmts b)).
Proof.
  apply expr_mutind; intros;
    rewrite ?visit_if_bool, ?visit_if_let, ?visit_eblock, ?visit_else_block;
    cbn [visit_expr visit_exprs visit_else visit_arms visit_stmts
         fv_expr fv_exprs fv_ifelse fv_else fv_arms fv_stmts]; auto.
  - rewrite trace_cross_app, H, (proj2 cross_annot_mut), app_nil_r. reflexivity.
  - rewrite trace_cross_app, H, (proj2 cross_annot_mut), app_nil_r. reflexivity.
  - rewrite trace_cross_app, stack_expr, depth_expr, H, H0, cross_of_app. reflexivity.
  - rewrite trace_cross_app, stack_expr, depth_expr, H, H0, cross_of_app. reflexivity.
  - rewrite trace_cross_app, stack_expr, depth_expr, H, H0, cross_of_app. reflexivity.
  - (* lambda *)
    rewrite trace_cross_push, trace_cross_app, cross_lparams, stack_lparams, depth_lparams.
    rewrite trace_cross_app, H. cbn [app]. rewrite stack_expr, depth_expr. cbn. rewrite !app_nil_r.
    rewrite cross_of_bind0, cross_of_push. reflexivity.
  - (* block *)
    rewrite trace_cross_block, H, cross_of_push. reflexivity.
  - rewrite trace_cross_app, stack_expr, depth_expr, H, H0, cross_of_app. reflexivity.
  - (* if *)
    rewrite trace_cross_app, stack_expr, depth_expr, H, !cross_of_app. f_equal.
    rewrite trace_cross_app, stack_block, depth_block, H1, trace_cross_block, H0, cross_of_push. reflexivity.
  - (* if let *)
    rewrite trace_cross_app, stack_expr, depth_expr, H, !cross_of_app. f_equal.
    rewrite trace_cross_push, trace_cross_app, stack_pat, depth_pat, cross_pat, cross_of_push. f_equal.
    rewrite trace_cross_app, stack_block, depth_block, trace_cross_pop, trace_cross_block, H0, H1. cbn [tl pred].
    rewrite cross_of_push, cross_of_bind, cross_of_push. reflexivity.
  - (* else block *)
    rewrite trace_cross_block, H, cross_of_push. reflexivity.
  - (* arm *)
    rewrite trace_cross_push, trace_cross_app, stack_pat, depth_pat, cross_pat, cross_of_push, !cross_of_app. f_equal.
    rewrite trace_cross_app, stack_expr, depth_expr, H, trace_cross_pop, H0. cbn [tl pred].
    rewrite cross_of_bind, cross_of_push. reflexivity.
  - (* let *)
    rewrite trace_cross_app, stack_expr, depth_expr, H, !cross_of_app. f_equal.
    rewrite trace_cross_app, stack_oannot, depth_oannot, cross_oannot. cbn [app].
    rewrite trace_cross_app, stack_pat, depth_pat, cross_pat, H0, cross_of_bind. reflexivity.
  - rewrite trace_cross_app, stack_expr, depth_expr, H, H0, cross_of_app. reflexivity.
Qed.
Definition cross_expr := proj1 cross_expr_mut.

(* ================================================================== 3. the scoping rules *)

(* binders on top of a frame are found, the newest of a name first *)
Lemma binders_visible bs x f s :
  In x (map fst bs) -> exists d, In (x, d) bs /\ lookup x ((rev bs ++ f) :: s) = Some d.
Proof.
  intros Hin. cbn [lookup]. rewrite find_frame_app.
  destruct (find_frame x (rev bs)) as [d|] eqn:E.
  - exists d. split; auto. apply find_frame_in in E. now apply in_rev in E.
  - exfalso. apply find_frame_none in E. apply E. rewrite map_rev. now apply in_rev in Hin.
Qed.

(* names that are not among the binders are looked up as if the binders were not there *)
Lemma binders_transparent bs x f s :
  ~ In x (map fst bs) -> lookup x ((rev bs ++ f) :: s) = lookup x (f :: s).
Proof.
  intros Hn. cbn [lookup]. rewrite find_frame_app.
  replace (find_frame x (rev bs)) with (@None N); auto.
  symmetry. apply find_frame_none. rewrite map_rev. intros H. now apply in_rev in H.
Qed.

(* (a) if let *)
Lemma if_let_scope s p g b1 e2 :
  trace_res s (visit_ifelse (IfLet p g b1 e2)) =
    trace_res s (visit_expr g) ++
    trace_res ([] :: s) (visit_pat p) ++
    trace_res (rev (binders p) :: s) (visit_block b1) ++
    trace_res s (visit_else e2).
Proof.
  rewrite visit_if_let, trace_res_app, stack_expr. f_equal.
  rewrite trace_res_push, trace_res_app, stack_pat, app_nil_r. f_equal.
  rewrite trace_res_app, stack_block. reflexivity.
Qed.

Lemma if_bool_scope s g b1 e2 :
  trace_res s (visit_ifelse (IfBool g b1 e2)) =
    trace_res s (visit_expr g) ++ trace_res s (visit_block b1) ++ trace_res s (visit_else e2).
Proof. rewrite visit_if_bool, trace_res_app, stack_expr, trace_res_app, stack_block. reflexivity. Qed.

(* no occurrence resolves to a location that is neither on the stack nor defined by the trace *)
Lemma not_visible t s d :
  ~ In d (sites s) -> ~ In d (map snd (def_events t)) -> forall x u ft, ~ In (x, u, ft, Some d) (trace_res s t).
Proof. intros H1 H2 x u ft H. apply trace_res_sites in H. tauto. Qed.

Lemma if_let_not_visible s p g b1 e2 d :
  ~ In d (sites s) ->
  ~ In d (map snd (def_events (visit_expr g))) ->
  ~ In d (map snd (def_events (visit_else e2))) ->
  forall x u ft,
    In (x, u, ft, Some d) (trace_res s (visit_ifelse (IfLet p g b1 e2))) ->
    In (x, u, ft, Some d) (trace_res ([] :: s) (visit_pat p) ++ trace_res (rev (binders p) :: s) (visit_block b1)).
Proof.
  intros Hs Hg He x u ft. rewrite if_let_scope, !in_app_iff. intros [H|[H|[H|H]]]; auto.
  - exfalso. exact (not_visible _ _ _ Hs Hg _ _ _ H).
  - exfalso. exact (not_visible _ _ _ Hs He _ _ _ H).
Qed.

(* (b) match arms *)
Lemma match_scope s m a :
  trace_res s (visit_expr (EMatch m a)) = trace_res s (visit_expr m) ++ trace_res s (visit_arms a).
Proof. cbn [visit_expr]. rewrite trace_res_app, stack_expr. reflexivity. Qed.

Lemma arm_scope s p body rest :
  trace_res s (visit_arms (ACons p body rest)) =
    trace_res ([] :: s) (visit_pat p) ++
    trace_res (rev (binders p) :: s) (visit_expr body) ++
    trace_res s (visit_arms rest).
Proof.
  cbn [visit_arms]. rewrite trace_res_push, trace_res_app, stack_pat, app_nil_r. f_equal.
  rewrite trace_res_app, stack_expr. reflexivity.
Qed.

Lemma arm_not_visible s p body rest d :
  ~ In d (sites s) ->
  ~ In d (map snd (def_events (visit_arms rest))) ->
  forall x u ft,
    In (x, u, ft, Some d) (trace_res s (visit_arms (ACons p body rest))) ->
    In (x, u, ft, Some d) (trace_res ([] :: s) (visit_pat p) ++ trace_res (rev (binders p) :: s) (visit_expr body)).
Proof.
  intros Hs Hr x u ft. rewrite arm_scope, !in_app_iff. intros [H|[H|H]]; auto.
  exfalso. exact (not_visible _ _ _ Hs Hr _ _ _ H).
Qed.

(* (c) let *)
Lemma defs_annot_mut :
  (forall a, def_events (visit_annot a) = []) /\ (forall l, def_events (visit_annots l) = []).
Proof.
  apply annot_mutind; intros; cbn [visit_annot visit_annots]; auto; rewrite def_events_app; try rewrite H; try rewrite H0; auto.
  destruct same; reflexivity.
Qed.
Lemma defs_oannot a : def_events (visit_oannot a) = [].
Proof. destruct a; cbn [visit_oannot]; auto. apply defs_annot_mut. Qed.

Lemma let_scope f s p a e rest :
  trace_res (f :: s) (visit_stmts (SLet p a e rest)) =
    trace_res (f :: s) (visit_expr e) ++
    trace_res (f :: s) (visit_oannot a) ++
    trace_res (f :: s) (visit_pat p) ++
    trace_res ((rev (binders p) ++ f) :: s) (visit_stmts rest).
Proof.
  cbn [visit_stmts]. rewrite trace_res_app, stack_expr. f_equal.
  rewrite trace_res_app, stack_oannot. f_equal.
  rewrite trace_res_app, stack_pat. reflexivity.
Qed.

Lemma let_not_visible f s p a e rest d :
  ~ In d (sites (f :: s)) ->
  ~ In d (map snd (def_events (visit_expr e))) ->
  forall x u ft,
    In (x, u, ft, Some d) (trace_res (f :: s) (visit_stmts (SLet p a e rest))) ->
    In (x, u, ft, Some d) (trace_res (f :: s) (visit_pat p) ++ trace_res ((rev (binders p) ++ f) :: s) (visit_stmts rest)).
Proof.
  intros Hs He x u ft. rewrite let_scope, !in_app_iff. intros [H|[H|[H|H]]]; auto.
  - exfalso. exact (not_visible _ _ _ Hs He _ _ _ H).
  - exfalso. apply trace_res_sites in H. destruct H as [H|H]; [auto|].
    rewrite defs_oannot in H. exact H.
Qed.

(* (d) lambda *)
Lemma lambda_scope s l ps body :
  trace_res s (visit_expr (ELambda l ps body)) =
    trace_res ([] :: s) (visit_lparams ps) ++
    trace_res (rev (lparam_binders ps) :: s) (visit_expr body).
Proof.
  cbn [visit_expr]. rewrite trace_res_push, trace_res_app, stack_lparams, app_nil_r. f_equal.
  rewrite trace_res_app. cbn. apply app_nil_r.
Qed.

(* every live frame records exactly the bindings found beyond it by the value occurrences of the
   free variables of the expression *)
Lemma frames_crossed e c h i caps :
  nth_error (c_cap c) h = Some (i, caps) ->
  nth_error (c_cap (fold_left cstep (visit_expr e) c)) h =
    Some (i, cap_fold (cross_of h (c_stk c) (fv_expr e)) caps).
Proof. intros H. rewrite (wb_caps _ _ (wb_expr e) c h i caps H), cross_expr. reflexivity. Qed.

Lemma cross_of_in h s xs x d :
  In (x, d) (cross_of h s xs) <-> In x xs /\ exists k, lookup_depth x s = Some (k, d) /\ h < k.
Proof.
  unfold cross_of. rewrite in_flat_map. split.
  - intros (y & Hy & H). destruct (lookup_depth y s) as [[k e]|] eqn:El; [|destruct H].
    destruct (Nat.ltb_spec h k); [|destruct H]. destruct H as [E|[]]. inversion E; subst. eauto.
  - intros (Hx & k & El & Hk). exists x. split; auto. rewrite El.
    destruct (Nat.ltb_spec h k); [left; reflexivity|lia].
Qed.

Lemma cross_of_functional h s xs x d d' : In (x, d) (cross_of h s xs) -> In (x, d') (cross_of h s xs) -> d = d'.
Proof. rewrite !cross_of_in. intros (_ & k & E & _) (_ & k' & E' & _). congruence. Qed.

Lemma cross_of_top s xs x d :
  In (x, d) (cross_of 0 ([] :: s) xs) <-> In x xs /\ lookup x s = Some d.
Proof.
  rewrite cross_of_in, lookup_of_depth. cbn [lookup_depth find_frame].
  destruct (lookup_depth x s) as [[k e]|]; cbn [option_map snd]; split.
  - intros (Hx & k' & E & _). inversion E; subst. auto.
  - intros (Hx & E). inversion E; subst. split; auto. exists (S k). split; auto. lia.
  - intros (_ & k' & E & _). discriminate.
  - intros (_ & E). discriminate.
Qed.

Lemma lambda_captures c l ps body :
  exists caps,
    c_lams (fold_left cstep (visit_expr (ELambda l ps body)) c) =
      (l, c_next c, caps) :: c_lams (fold_left cstep (visit_lparams ps ++ visit_expr body) (cstep c Push)) /\
    forall x d, In (x, d) caps <-> In x (fv_expr (ELambda l ps body)) /\ lookup x (c_stk c) = Some d.
Proof.
  cbn [visit_expr fold_left]. rewrite app_assoc, fold_left_app.
  set (c1 := cstep c Push). set (t := visit_lparams ps ++ visit_expr body). set (c2 := fold_left cstep t c1).
  assert (Hw : wb true t) by (apply wb_app; [apply wb_lparams|apply (wb_true false), wb_expr]).
  assert (H0 : nth_error (c_cap c1) 0 = Some (c_next c, [])) by reflexivity.
  pose proof (wb_caps _ _ Hw c1 0 _ _ H0) as H2. fold c2 in H2.
  destruct (c_cap c2) as [|[i caps] cap2] eqn:Ec; [discriminate|]. cbn [nth_error] in H2. inversion H2 as [[Ei Ecaps]]. clear H2.
  exists caps. split.
  - cbn [fold_left cstep]. rewrite Ec. cbn [c_lams]. now rewrite Ei.
  - rewrite Ecaps. unfold t. rewrite trace_cross_app, cross_lparams, stack_lparams, depth_lparams. cbn [app c_stk c1 cstep].
    rewrite cross_expr, app_nil_r, cross_of_bind0.
    intros x d. rewrite cap_fold_in.
    + cbn [fv_expr In]. rewrite cross_of_top. tauto.
    + intros x0 d0 d0'. rewrite app_nil_r. apply cross_of_functional.
Qed.

(* (f) or-patterns *)
Lemma or_pattern_scope f s p ps :
  visit_pat (POr p ps) = visit_pat p ++ map (fun xl : N * N => Use (fst xl) (snd xl) false) (pats_ids ps) /\
  def_events (visit_pat (POr p ps)) = binders p /\
  trace_res (f :: s) (visit_pat (POr p ps)) =
    trace_res (f :: s) (visit_pat p) ++ lex_ids (bind (binders p) (f ++ concat s)) (pats_ids ps) /\
  forall x u, In (x, u) (pats_ids ps) -> In x (map fst (binders p)) ->
    exists d, In (x, d) (binders p) /\ In (x, u, false, Some d) (trace_res (f :: s) (visit_pat (POr p ps))).
Proof.
  assert (E3 : trace_res (f :: s) (visit_pat (POr p ps)) =
               trace_res (f :: s) (visit_pat p) ++ lex_ids (bind (binders p) (f ++ concat s)) (pats_ids ps)).
  { cbn [visit_pat]. rewrite trace_res_app, stack_pat, (proj2 lex_pat_uses_mut). unfold bind. cbn [concat].
    now rewrite app_assoc. }
  split; [cbn [visit_pat]; now rewrite (proj2 uses_pat_mut)|]. split; [exact (proj1 defs_pat_mut (POr p ps))|]. split; [exact E3|].
  intros x u Hin Hx. destruct (binders_visible (binders p) x f s Hx) as (d & Hd & Hl).
  exists d. split; auto. rewrite E3. apply in_or_app. right. unfold lex_ids. apply in_map_iff. exists (x, u). split; auto.
  cbn [fst snd]. f_equal. rewrite lookup_concat in Hl. cbn [concat] in Hl. unfold bind. rewrite <- app_assoc in Hl. exact Hl.
Qed.

(* ---- the scopes above a member body ---- *)
Lemma trace_res_scope s t : trace_res s (scope t) = trace_res ([] :: s) t.
Proof. unfold scope. rewrite trace_res_push, trace_res_app. cbn. apply app_nil_r. Qed.

Lemma wb_scope_of b t : wb true t -> wb b (scope t).
Proof. apply wb_block. Qed.

Lemma stack_scope t s : wb true t -> fold_left sstep (scope t) s = s.
Proof. intros H. apply wb_stack_any, wb_scope_of, H. Qed.

Lemma wb_flat_map {A} b (F : A -> list event) l : (forall x, wb b (F x)) -> wb b (flat_map F l).
Proof. intros H. induction l; cbn; [constructor|apply wb_app; auto]. Qed.

Lemma wb_map_def {A} (a b : A -> N) l : wb true (map (fun x => Def (a x) (b x)) l).
Proof. induction l; cbn; constructor; auto. Qed.

Lemma trace_res_flat_map {A} (F : A -> list event) (G : A -> list res) s :
  (forall x, fold_left sstep (F x) s = s) -> (forall x, trace_res s (F x) = G x) ->
  forall l, trace_res s (flat_map F l) = flat_map G l /\ fold_left sstep (flat_map F l) s = s.
Proof.
  intros HS HG. induction l as [|x l [IH1 IH2]]; cbn; auto.
  rewrite trace_res_app, fold_left_app, HS, HG, IH1, IH2. auto.
Qed.

Lemma trace_res_map_def {A} (a b : A -> N) : forall l f s,
  trace_res (f :: s) (map (fun x => Def (a x) (b x)) l) = [] /\
  fold_left sstep (map (fun x => Def (a x) (b x)) l) (f :: s) = (rev (map (fun x => (a x, b x)) l) ++ f) :: s.
Proof.
  induction l as [|x l IH]; intros f s; cbn; auto.
  destruct (IH ((a x, b x) :: f) s) as [E1 E2]. rewrite E1, E2, <- app_assoc. auto.
Qed.

Lemma wb_tparams tps : wb true (visit_tparams tps).
Proof.
  unfold visit_tparams. apply wb_app; [|apply wb_app].
  - apply wb_flat_map. intros tp. destruct (tp_bound tp) as [[[x l] a]|]; repeat constructor.
  - apply wb_map_def.
  - apply wb_flat_map. intros tp. destruct (tp_bound tp) as [[[x l] a]|]; [apply wb_annots|constructor].
Qed.

Lemma tparams_ok tps f s :
  trace_res (f :: s) (visit_tparams tps) = lex_tparams (f ++ concat s) tps /\
  fold_left sstep (visit_tparams tps) (f :: s) = (rev (tparam_binders tps) ++ f) :: s.
Proof.
  unfold visit_tparams, lex_tparams.
  set (F1 := fun tp => match tp_bound tp with Some (x, l, _) => [Use x l true] | None => [] end).
  set (G1 := fun tp => match tp_bound tp with Some (x, l, _) => [(x, l, true, find_frame x (f ++ concat s))] | None => [] end).
  set (F3 := fun tp => match tp_bound tp with Some (_, _, args) => visit_annots args | None => [] end).
  set (G3 := fun tp => match tp_bound tp with Some (_, _, args) => lex_annots (bind (tparam_binders tps) (f ++ concat s)) args | None => [] end).
  assert (HS1 : forall tp, fold_left sstep (F1 tp) (f :: s) = f :: s).
  { intros tp. unfold F1. destruct (tp_bound tp) as [[[x l] a]|]; reflexivity. }
  assert (HG1 : forall tp, trace_res (f :: s) (F1 tp) = G1 tp).
  { intros tp. unfold F1, G1. destruct (tp_bound tp) as [[[x l] a]|]; cbn; [rewrite find_frame_app, lookup_concat|]; reflexivity. }
  destruct (trace_res_flat_map F1 G1 (f :: s) HS1 HG1 tps) as [E1 S1].
  destruct (trace_res_map_def tp_x tp_l tps f s) as [E2 S2].
  set (s2 := (rev (tparam_binders tps) ++ f) :: s).
  assert (HS3 : forall tp, fold_left sstep (F3 tp) s2 = s2).
  { intros tp. unfold F3. destruct (tp_bound tp) as [[[x l] a]|]; [apply stack_annots|reflexivity]. }
  assert (HG3 : forall tp, trace_res s2 (F3 tp) = G3 tp).
  { intros tp. unfold F3, G3. destruct (tp_bound tp) as [[[x l] a]|]; [|reflexivity].
    rewrite lex_annots_ok. unfold s2, bind. cbn [concat]. now rewrite app_assoc. }
  destruct (trace_res_flat_map F3 G3 s2 HS3 HG3 tps) as [E3 S3].
  rewrite !trace_res_app, !fold_left_app, E1, S1, E2, S2. fold (tparam_binders tps). fold s2. rewrite E3, S3. auto.
Qed.

Lemma wb_member b m : wb b (visit_member m).
Proof.
  unfold visit_member. apply wb_scope_of. apply wb_app; [apply wb_tparams|]. apply wb_app; [|apply wb_app].
  - apply wb_flat_map. intros p. apply wb_annot.
  - apply wb_annot.
  - apply wb_scope_of. apply wb_app; [apply wb_map_def|]. destruct (mb_body m); [apply (wb_true false), wb_expr|constructor].
Qed.

(* the signature is resolved under the member's type parameters, the body under the parameters on top of them *)
Lemma member_ok m f s :
  trace_res (f :: s) (visit_member m) = lex_member (f ++ concat s) m.
Proof.
  unfold visit_member, lex_member. rewrite trace_res_scope.
  destruct (tparams_ok (mb_tparams m) [] (f :: s)) as [E1 S1]. cbn [concat app] in E1.
  rewrite trace_res_app, E1, S1. f_equal.
  set (s1 := (rev (tparam_binders (mb_tparams m)) ++ []) :: f :: s).
  assert (Ec : concat s1 = bind (tparam_binders (mb_tparams m)) (f ++ concat s)).
  { unfold s1, bind. cbn [concat]. now rewrite app_nil_r. }
  destruct (trace_res_flat_map (fun p : N * N * annot => visit_annot (snd p))
              (fun p : N * N * annot => lex_annot (concat s1) (snd p)) s1
              (fun p => stack_annot (snd p) s1) (fun p => lex_annot_ok (snd p) s1) (mb_params m)) as [E2 S2].
  rewrite trace_res_app, E2, S2, Ec. f_equal.
  rewrite trace_res_app, stack_annot, lex_annot_ok, Ec. f_equal.
  rewrite trace_res_scope.
  destruct (trace_res_map_def (fun p : N * N * annot => fst (fst p)) (fun p : N * N * annot => snd (fst p)) (mb_params m) [] s1) as [E3 S3].
  rewrite trace_res_app, E3, S3. cbn [app].
  destruct (mb_body m) as [body|]; auto.
  rewrite lex_expr_ok. cbn [concat]. rewrite Ec, app_nil_r. unfold bind, param_binders. f_equal. f_equal. f_equal.
  apply map_ext. intros [[x l] a]. reflexivity.
Qed.

(* ... i.e. the body is visited on the stack  parameters :: member type parameters :: enclosing scopes *)
Lemma member_body_context m body f s :
  mb_body m = Some body ->
  exists pre post,
    visit_member m = pre ++ visit_expr body ++ post /\
    fold_left sstep pre (f :: s) =
      rev (param_binders (mb_params m)) :: rev (tparam_binders (mb_tparams m)) :: f :: s.
Proof.
  intros Hb. unfold visit_member, scope. rewrite Hb.
  exists (Push :: visit_tparams (mb_tparams m) ++ flat_map (fun p : N * N * annot => visit_annot (snd p)) (mb_params m) ++
          visit_annot (mb_ret m) ++ Push :: map (fun p : N * N * annot => Def (fst (fst p)) (snd (fst p))) (mb_params m)),
         [Pop; Pop].
  split.
  - cbn [app]. f_equal. rewrite <- !app_assoc. f_equal. f_equal. f_equal. cbn [app]. f_equal. rewrite <- !app_assoc. reflexivity.
  - cbn [fold_left sstep]. rewrite fold_left_app. destruct (tparams_ok (mb_tparams m) [] (f :: s)) as [_ S1]. rewrite S1.
    set (s1 := (rev (tparam_binders (mb_tparams m)) ++ []) :: f :: s).
    destruct (trace_res_flat_map (fun p : N * N * annot => visit_annot (snd p)) (fun p => trace_res s1 (visit_annot (snd p))) s1
                (fun p => stack_annot (snd p) s1) (fun p => eq_refl) (mb_params m)) as [_ S2].
    rewrite fold_left_app, S2, fold_left_app, stack_annot. cbn [fold_left sstep].
    destruct (trace_res_map_def (fun p : N * N * annot => fst (fst p)) (fun p : N * N * annot => snd (fst p)) (mb_params m) [] s1) as [_ S3].
    rewrite S3. unfold s1. rewrite !app_nil_r. unfold param_binders. f_equal. f_equal. apply map_ext. intros [[x l] a]. reflexivity.
Qed.

(* ---- toplevels and the module ---- *)
Lemma wb_members b ms k : wb b (visit_members ms k).
Proof. unfold visit_members. apply wb_flat_map. intros m. destruct (Bool.eqb _ _); [apply wb_member|constructor]. Qed.

Lemma wb_typedef d : wb true (visit_typedef d).
Proof.
  destruct d; cbn; apply wb_app; try apply wb_map_def; apply wb_flat_map; intros x; [apply wb_annot|apply wb_annots].
Qed.

Lemma wb_toplevel b this t : wb b (visit_toplevel this t).
Proof.
  unfold visit_toplevel. apply wb_app.
  - induction (tl_ext t); cbn; constructor; auto.
  - apply wb_scope_of. apply wb_app; [|apply wb_app; [|apply wb_app]]; apply wb_scope_of.
    + apply wb_app; [apply wb_tparams|]. apply wb_app.
      * apply wb_flat_map. intros x. apply wb_annots.
      * destruct (tl_def t); [apply wb_typedef|constructor].
    + apply wb_map_def.
    + apply wb_app; [destruct (tl_class t); repeat constructor|]. apply wb_app; [apply wb_map_def|apply wb_members].
    + apply wb_members.
Qed.

Lemma wb_module this m : wb true (visit_module this m).
Proof.
  unfold visit_module. apply wb_app; [apply wb_map_def|]. apply wb_app; [apply wb_map_def|].
  apply wb_flat_map. intros t. apply wb_toplevel.
Qed.

(* after the module only the frame of imported and toplevel names is left *)
Lemma stack_module this m :
  fold_left sstep (visit_module this m) [[]] =
    [rev (map (fun t => (tl_x t, tl_l t)) (md_tops m)) ++ rev (md_imports m)].
Proof.
  unfold visit_module. rewrite !fold_left_app.
  destruct (trace_res_map_def (fun i : N * N => fst i) (fun i : N * N => snd i) (md_imports m) [] []) as [_ S1]. rewrite S1.
  destruct (trace_res_map_def tl_x tl_l (md_tops m) (rev (map (fun x : N * N => (fst x, snd x)) (md_imports m)) ++ []) []) as [_ S2].
  rewrite S2. rewrite wb_stack_any by (apply wb_flat_map; intros t; apply wb_toplevel).
  rewrite app_nil_r. f_equal. f_equal. f_equal. rewrite <- (map_id (md_imports m)) at 2. apply map_ext. intros [x l]. reflexivity.
Qed.

(* methods are visited under a frame holding `this` and the class's type parameters, functions under an empty one *)
Definition instance_frame (this : N) (t : toplevel) : list (N * N) := rev (instance_binders this t).

Lemma members_context ms k F s :
  trace_res (F :: s) (visit_members ms k) =
  flat_map (fun m => if Bool.eqb (mb_method m) k then lex_member (F ++ concat s) m else []) ms /\
  fold_left sstep (visit_members ms k) (F :: s) = F :: s.
Proof.
  unfold visit_members. apply trace_res_flat_map.
  - intros m. destruct (Bool.eqb _ _); [apply wb_stack_any, wb_member|reflexivity].
  - intros m. destruct (Bool.eqb _ _); [apply member_ok|reflexivity].
Qed.

Lemma trace_res_map_use {A} (a b : A -> N) s : forall l,
  trace_res s (map (fun n => Use (a n) (b n) true) l) = map (fun n => (a n, b n, true, lookup (a n) s)) l /\
  fold_left sstep (map (fun n => Use (a n) (b n) true) l) s = s.
Proof. induction l as [|x l [IH1 IH2]]; cbn; auto. rewrite IH1, IH2. auto. Qed.

Lemma typedef_ok d f s : trace_res (f :: s) (visit_typedef d) = lex_typedef (f ++ concat s) d.
Proof.
  destruct d as [fs|vs]; cbn [visit_typedef lex_typedef]; rewrite trace_res_app.
  - destruct (trace_res_flat_map (fun x : N * N * annot => visit_annot (snd x)) (fun x : N * N * annot => lex_annot (f ++ concat s) (snd x)) (f :: s)
                (fun x => stack_annot (snd x) _) (fun x => lex_annot_ok (snd x) (f :: s)) fs) as [E S].
    rewrite E, S.
    destruct (trace_res_map_def (fun x : N * N * annot => fst (fst x)) (fun x : N * N * annot => snd (fst x)) fs f s) as [E2 _].
    rewrite E2. apply app_nil_r.
  - destruct (trace_res_flat_map (fun x : N * N * annots => visit_annots (snd x)) (fun x : N * N * annots => lex_annots (f ++ concat s) (snd x)) (f :: s)
                (fun x => stack_annots (snd x) _) (fun x => lex_annots_ok (snd x) (f :: s)) vs) as [E S].
    rewrite E, S.
    destruct (trace_res_map_def (fun x : N * N * annots => fst (fst x)) (fun x : N * N * annots => snd (fst x)) vs f s) as [E2 _].
    rewrite E2. apply app_nil_r.
Qed.

Lemma wb_header t : wb true (visit_tparams (tl_tparams t) ++
                             flat_map (fun n : N * N * annots => visit_annots (snd n)) (tl_ext t) ++
                             match tl_def t with Some d => visit_typedef d | None => [] end).
Proof.
  apply wb_app; [apply wb_tparams|]. apply wb_app; [apply wb_flat_map; intros x; apply wb_annots|].
  destruct (tl_def t); [apply wb_typedef|constructor].
Qed.

Lemma wb_instance this t : wb true ((if tl_class t then [Def this (tl_loc t)] else []) ++
                                    map (fun tp => Def (tp_x tp) (tp_l tp)) (tl_tparams t) ++ visit_members (tl_members t) true).
Proof. apply wb_app; [destruct (tl_class t); repeat constructor|]. apply wb_app; [apply wb_map_def|apply wb_members]. Qed.

Lemma toplevel_ok this t f s :
  trace_res (f :: s) (visit_toplevel this t) = lex_toplevel this (f ++ concat s) t.
Proof.
  unfold visit_toplevel, lex_toplevel.
  destruct (trace_res_map_use (fun n : N * N * annots => fst (fst n)) (fun n : N * N * annots => snd (fst n)) (f :: s) (tl_ext t)) as [E0 S0].
  rewrite trace_res_app, E0, S0. f_equal.
  { apply map_ext. intros n. now rewrite lookup_concat. }
  rewrite trace_res_scope, trace_res_app, trace_res_scope, (stack_scope _ _ (wb_header t)). f_equal.
  { (* header *)
    destruct (tparams_ok (tl_tparams t) [] ([] :: f :: s)) as [E1 S1]. cbn [concat app] in E1.
    rewrite trace_res_app, E1, S1. f_equal.
    set (s1 := (rev (tparam_binders (tl_tparams t)) ++ []) :: [] :: f :: s).
    assert (Ec : concat s1 = bind (tparam_binders (tl_tparams t)) (f ++ concat s)).
    { unfold s1, bind. cbn [concat app]. now rewrite app_nil_r. }
    destruct (trace_res_flat_map (fun n : N * N * annots => visit_annots (snd n)) (fun n : N * N * annots => lex_annots (concat s1) (snd n)) s1
                (fun n => stack_annots (snd n) s1) (fun n => lex_annots_ok (snd n) s1) (tl_ext t)) as [E2 S2].
    rewrite trace_res_app, E2, S2, Ec. f_equal.
    destruct (tl_def t) as [d|]; [|reflexivity]. unfold s1. rewrite typedef_ok. cbn [concat app]. unfold bind. now rewrite app_nil_r. }
  rewrite trace_res_app, trace_res_scope, (stack_scope _ _ (wb_map_def mb_x mb_l (tl_members t))).
  destruct (trace_res_map_def mb_x mb_l (tl_members t) [] ([] :: f :: s)) as [E3 _]. rewrite E3. cbn [app].
  rewrite trace_res_app, trace_res_scope, (stack_scope _ _ (wb_instance this t)), trace_res_scope.
  destruct (members_context (tl_members t) false [] ([] :: f :: s)) as [E4 _]. rewrite E4. cbn [concat app]. f_equal.
  set (pre := (if tl_class t then [Def this (tl_loc t)] else []) ++ map (fun tp => Def (tp_x tp) (tp_l tp)) (tl_tparams t)).
  assert (Sp : fold_left sstep pre ([] :: [] :: f :: s) = instance_frame this t :: [] :: f :: s /\
               trace_res ([] :: [] :: f :: s) pre = []).
  { unfold pre, instance_frame, instance_binders. rewrite fold_left_app, trace_res_app.
    destruct (tl_class t); cbn [fold_left sstep push_def trace_res app].
    - destruct (trace_res_map_def tp_x tp_l (tl_tparams t) [(this, tl_loc t)] ([] :: f :: s)) as [E S].
      rewrite E, S. split; reflexivity.
    - destruct (trace_res_map_def tp_x tp_l (tl_tparams t) [] ([] :: f :: s)) as [E S].
      rewrite E, S, app_nil_r. split; reflexivity. }
  destruct Sp as [Sp Ep].
  change ((if tl_class t then [Def this (tl_loc t)] else []) ++
          map (fun tp => Def (tp_x tp) (tp_l tp)) (tl_tparams t) ++ visit_members (tl_members t) true)
    with ((if tl_class t then [Def this (tl_loc t)] else []) ++
          (map (fun tp => Def (tp_x tp) (tp_l tp)) (tl_tparams t) ++ visit_members (tl_members t) true)).
  rewrite app_assoc. fold pre. rewrite trace_res_app, Sp, Ep.
  destruct (members_context (tl_members t) true (instance_frame this t) ([] :: f :: s)) as [E5 _]. rewrite E5.
  cbn [concat app]. reflexivity.
Qed.

Lemma toplevel_context this t f s :
  exists header,
    trace_res (f :: s) (visit_toplevel this t) =
      header ++
      flat_map (fun m => if Bool.eqb (mb_method m) true then lex_member (instance_frame this t ++ f ++ concat s) m else [])
               (tl_members t) ++
      flat_map (fun m => if Bool.eqb (mb_method m) false then lex_member (f ++ concat s) m else []) (tl_members t).
Proof. eexists. rewrite toplevel_ok. unfold lex_toplevel. rewrite app_assoc. reflexivity. Qed.

(* the whole module *)
Lemma module_ok this m : trace_res [[]] (visit_module this m) = lex_module this m.
Proof.
  unfold visit_module, lex_module, module_binders.
  destruct (trace_res_map_def (fun i : N * N => fst i) (fun i : N * N => snd i) (md_imports m) [] []) as [E1 S1].
  rewrite trace_res_app, E1, S1.
  destruct (trace_res_map_def tl_x tl_l (md_tops m) (rev (map (fun x : N * N => (fst x, snd x)) (md_imports m)) ++ []) []) as [E2 S2].
  rewrite trace_res_app, E2, S2. cbn [app].
  set (F := rev (map (fun x => (tl_x x, tl_l x)) (md_tops m)) ++ rev (map (fun x : N * N => (fst x, snd x)) (md_imports m)) ++ []).
  assert (EF : F = bind (md_imports m ++ map (fun t => (tl_x t, tl_l t)) (md_tops m)) []).
  { unfold F, bind. rewrite !app_nil_r, rev_app_distr. f_equal. f_equal.
    rewrite <- (map_id (md_imports m)) at 2. apply map_ext. intros [x l]. reflexivity. }
  destruct (trace_res_flat_map (visit_toplevel this) (lex_toplevel this F) [F]
              (fun t => wb_stack_any _ (wb_toplevel false this t) _)
              (fun t => eq_trans (toplevel_ok this t F []) (f_equal (fun g => lex_toplevel this g t) (app_nil_r F))) (md_tops m)) as [E3 _].
  rewrite E3, EF. reflexivity.
Qed.

Lemma resolve_lexical this m u :
  resolve this m u = assoc u (rev (res_uses (lex_module this m))).
Proof. rewrite resolve_trace_res, module_ok. reflexivity. Qed.

(* ---- forms used by Props.v ---- *)
Lemma match_arm_scope s m p body rest :
  trace_res s (visit_expr (EMatch m (ACons p body rest))) =
    trace_res s (visit_expr m) ++
    trace_res ([] :: s) (visit_pat p) ++
    trace_res (rev (binders p) :: s) (visit_expr body) ++
    trace_res s (visit_arms rest).
Proof. rewrite match_scope, arm_scope. reflexivity. Qed.

Lemma after_block b s t :
  trace_res s (visit_block b ++ t) = trace_res ([] :: s) (visit_stmts b) ++ trace_res s t.
Proof. rewrite trace_res_app, stack_block, trace_res_block. reflexivity. Qed.

Lemma lambda_scope_seq s l ps body t :
  trace_res s (visit_expr (ELambda l ps body) ++ t) =
    trace_res ([] :: s) (visit_lparams ps) ++
    trace_res (rev (lparam_binders ps) :: s) (visit_expr body) ++
    trace_res s t.
Proof. rewrite trace_res_app, stack_expr, lambda_scope, <- app_assoc. reflexivity. Qed.

Lemma or_pattern_unbound_alternative :
  exists f s p ps x u d,
    In (x, u) (pats_ids ps) /\
    In (x, u, false, Some d) (trace_res (f :: s) (visit_pat (POr p ps))) /\
    ~ In d (map snd (binders p)).
Proof.
  exists [(2, 5)]%N, [], (PVariant (PCons (PId 1 10) PNil)), (PCons (PVariant (PCons (PId 2 11) PNil)) PNil), 2%N, 11%N, 5%N.
  split; [cbn; auto|]. split; [cbn; auto|]. cbn. intros [H|[]]. discriminate.
Qed.
