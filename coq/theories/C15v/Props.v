(* C15v — the VISITOR of ssa_analysis.rs agrees with the language's scoping rules: the property theorems.
   Nothing but statements closed by `exact`, non-vacuity examples and Print Assumptions.

   Objects: the syntax (Syntax.v), the visitor `visit_* : syntax -> list event` mirroring the Rust visit_*
   functions (Visitor.v; tied to the code by checks/c15_visitor.py: `visit_module ast` must be, event for event,
   the trace the hooked real analysis logs on the module the real parser produced), the scope-stack machine of
   C15/Model.v (`sstep`, `step`, `cstep`), and their composition
     trace_res s t : one record (name, occurrence, for_type, what `get` answers) per use_id call of t run from stack s
     resolve this m u = the entry of use_define_map (C15 machine run on visit_module) for the occurrence u.
   `rev (binders p) :: s` is the stack s with one more frame holding the binders of p (newest first). *)
From Coq Require Import List NArith Bool Lia.
Import ListNotations.
From SV Require Import C15.Model C15.Proofs C15.Corr C15v.Syntax C15v.Visitor C15v.Rules C15v.Proofs C15v.Corr.

(* ------------------------------------------------------------------ composition with the C15 machine *)

(* use_define_map of the C15 machine run on ANY trace is the list of resolved records of trace_res, newest first;
   its unresolved records are the cannot-resolve diagnostics *)
Theorem C15v_machine_is_trace_res : forall t st,
  uses (fold_left step t st) = rev (res_uses (trace_res (stk st) t)) ++ uses st /\
  unb (errs (fold_left step t st)) = rev (res_unbound (trace_res (stk st) t)) ++ unb (errs st).
Proof. intros t st. exact (conj (uses_trace_res t st) (unbound_trace_res t st)). Qed.

Theorem C15v_resolve_is_trace_res : forall this m u,
  resolve this m u = assoc u (rev (res_uses (trace_res [[]] (visit_module this m)))).
Proof. exact resolve_trace_res. Qed.

(* ------------------------------------------------------------------ (e) balance *)

(* the trace of every expression is well bracketed and defines nothing outside the scopes it opens itself;
   statements / patterns / parameters may define into the frame they are visited in, and nothing else *)
Theorem C15v_balance :
  (forall e, wb false (visit_expr e)) /\ (forall i, wb false (visit_ifelse i)) /\ (forall a, wb false (visit_arms a)) /\
  (forall b, wb false (visit_block b)) /\ (forall b, wb true (visit_stmts b)) /\ (forall p, wb true (visit_pat p)) /\
  (forall m, wb false (visit_member m)) /\ (forall this t, wb false (visit_toplevel this t)) /\
  (forall this m, wb true (visit_module this m)).
Proof.
  exact (conj wb_expr (conj wb_ifelse (conj wb_arms (conj (wb_visit_block false) (conj wb_stmts (conj wb_pat
        (conj (wb_member false) (conj (wb_toplevel false) wb_module)))))))).
Qed.

(* what well-bracketedness means for the machine: the stack after the trace is the stack before it *)
Theorem C15v_balanced_trace_restores_stack : forall t, wb false t -> forall s, fold_left sstep t s = s.
Proof. exact wb_stack_any. Qed.

Theorem C15v_stack_restored : forall s,
  (forall e, fold_left sstep (visit_expr e) s = s) /\
  (forall b, fold_left sstep (visit_block b) s = s) /\
  (forall i, fold_left sstep (visit_ifelse i) s = s) /\
  (forall a, fold_left sstep (visit_arms a) s = s).
Proof.
  intros s. exact (conj (fun e => stack_expr e s) (conj (fun b => stack_block b s) (conj (fun i => stack_ifelse i s) (fun a => stack_arms a s)))).
Qed.

(* a pattern adds exactly its binders - those of the first alternative of every or-pattern - to the frame it is visited in *)
Theorem C15v_pattern_defines_binders : forall p f s,
  fold_left sstep (visit_pat p) (f :: s) = (rev (binders p) ++ f) :: s /\ def_events (visit_pat p) = binders p.
Proof. intros p f s. exact (conj (stack_pat p f s) (proj1 defs_pat_mut p)). Qed.

(* after a whole module only the frame of imported and toplevel names is left *)
Theorem C15v_module_stack : forall this m,
  fold_left sstep (visit_module this m) [[]] = [rev (map (fun t => (tl_x t, tl_l t)) (md_tops m)) ++ rev (md_imports m)].
Proof. exact stack_module. Qed.

(* ------------------------------------------------------------------ the visitor computes lexical scoping *)

(* for every expression and every stack: the answers of the stack machine on the visitor's trace are the answers
   of environment-passing lexical scoping (Rules.v: lex_expr), in the flattened stack *)
Theorem C15v_visitor_is_lexical_scoping :
  (forall e s, trace_res s (visit_expr e) = lex_expr (concat s) e) /\
  (forall es s, trace_res s (visit_exprs es) = lex_exprs (concat s) es) /\
  (forall i s, trace_res s (visit_ifelse i) = lex_ifelse (concat s) i) /\
  (forall e s, trace_res s (visit_else e) = lex_else (concat s) e) /\
  (forall a s, trace_res s (visit_arms a) = lex_arms (concat s) a) /\
  (forall b f s, trace_res (f :: s) (visit_stmts b) = lex_stmts (f ++ concat s) b).
Proof. exact lex_expr_mut. Qed.

Theorem C15v_pattern_is_lexical_scoping : forall p f s,
  trace_res (f :: s) (visit_pat p) = lex_pat (f ++ concat s) p.
Proof. exact lex_pat_ok. Qed.

(* a member: signature under the member's type parameters, body under the parameters on top of them *)
Theorem C15v_member_is_lexical_scoping : forall m f s,
  trace_res (f :: s) (visit_member m) = lex_member (f ++ concat s) m.
Proof. exact member_ok. Qed.

Theorem C15v_member_body_context : forall m body f s,
  mb_body m = Some body ->
  exists pre post,
    visit_member m = pre ++ visit_expr body ++ post /\
    fold_left sstep pre (f :: s) = rev (param_binders (mb_params m)) :: rev (tparam_binders (mb_tparams m)) :: f :: s.
Proof. exact member_body_context. Qed.

(* methods see `this` and the class's type parameters, functions do not *)
Theorem C15v_toplevel_context : forall this t f s,
  exists header,
    trace_res (f :: s) (visit_toplevel this t) =
      header ++
      flat_map (fun m => if Bool.eqb (mb_method m) true then lex_member (instance_frame this t ++ f ++ concat s) m else [])
               (tl_members t) ++
      flat_map (fun m => if Bool.eqb (mb_method m) false then lex_member (f ++ concat s) m else []) (tl_members t).
Proof. exact toplevel_context. Qed.

(* a toplevel and the whole module; hence `resolve` (use_define_map of the C15 machine run on the visitor's trace)
   IS lexical scoping: for every module and every occurrence *)
Theorem C15v_toplevel_is_lexical_scoping : forall this t f s,
  trace_res (f :: s) (visit_toplevel this t) = lex_toplevel this (f ++ concat s) t.
Proof. exact toplevel_ok. Qed.

Theorem C15v_module_is_lexical_scoping : forall this m,
  trace_res [[]] (visit_module this m) = lex_module this m.
Proof. exact module_ok. Qed.

Theorem C15v_resolve_is_lexical_scoping : forall this m u,
  resolve this m u = assoc u (rev (res_uses (lex_module this m))).
Proof. exact resolve_lexical. Qed.

(* binders put on top of a frame are what a lookup of their names finds; other names are unaffected *)
Theorem C15v_binders_visible : forall bs x f s,
  (In x (map fst bs) -> exists d, In (x, d) bs /\ lookup x ((rev bs ++ f) :: s) = Some d) /\
  (~ In x (map fst bs) -> lookup x ((rev bs ++ f) :: s) = lookup x (f :: s)).
Proof. intros bs x f s. exact (conj (binders_visible bs x f s) (binders_transparent bs x f s)). Qed.

(* ------------------------------------------------------------------ (a) if let *)

(* the matched expression is resolved in s (before the binders exist), the then-branch in s with a frame holding the
   binders, the else branch in s again *)
Theorem C15v_if_let_scope : forall s p g b1 e2,
  trace_res s (visit_ifelse (IfLet p g b1 e2)) =
    trace_res s (visit_expr g) ++
    trace_res ([] :: s) (visit_pat p) ++
    trace_res (rev (binders p) :: s) (visit_block b1) ++
    trace_res s (visit_else e2).
Proof. exact if_let_scope. Qed.

(* hence no occurrence in the matched expression or in the else branch resolves to a binder of the pattern: an
   occurrence of the whole conditional that resolves to a location d that is neither on the stack nor defined inside
   the matched expression / the else branch lies in the pattern or in the then-branch *)
Theorem C15v_if_let_not_visible : forall s p g b1 e2 d,
  ~ In d (sites s) ->
  ~ In d (map snd (def_events (visit_expr g))) ->
  ~ In d (map snd (def_events (visit_else e2))) ->
  forall x u ft,
    In (x, u, ft, Some d) (trace_res s (visit_ifelse (IfLet p g b1 e2))) ->
    In (x, u, ft, Some d) (trace_res ([] :: s) (visit_pat p) ++ trace_res (rev (binders p) :: s) (visit_block b1)).
Proof. exact if_let_not_visible. Qed.

(* ------------------------------------------------------------------ (b) match *)

Theorem C15v_match_arm_scope : forall s m p body rest,
  trace_res s (visit_expr (EMatch m (ACons p body rest))) =
    trace_res s (visit_expr m) ++
    trace_res ([] :: s) (visit_pat p) ++
    trace_res (rev (binders p) :: s) (visit_expr body) ++
    trace_res s (visit_arms rest).
Proof. exact match_arm_scope. Qed.

Theorem C15v_match_arm_not_visible : forall s p body rest d,
  ~ In d (sites s) ->
  ~ In d (map snd (def_events (visit_arms rest))) ->
  forall x u ft,
    In (x, u, ft, Some d) (trace_res s (visit_arms (ACons p body rest))) ->
    In (x, u, ft, Some d) (trace_res ([] :: s) (visit_pat p) ++ trace_res (rev (binders p) :: s) (visit_expr body)).
Proof. exact arm_not_visible. Qed.

(* ------------------------------------------------------------------ (c) let *)

Theorem C15v_let_scope : forall f s p a e rest,
  trace_res (f :: s) (visit_stmts (SLet p a e rest)) =
    trace_res (f :: s) (visit_expr e) ++
    trace_res (f :: s) (visit_oannot a) ++
    trace_res (f :: s) (visit_pat p) ++
    trace_res ((rev (binders p) ++ f) :: s) (visit_stmts rest).
Proof. exact let_scope. Qed.

Theorem C15v_let_not_visible_in_initialiser : forall f s p a e rest d,
  ~ In d (sites (f :: s)) ->
  ~ In d (map snd (def_events (visit_expr e))) ->
  forall x u ft,
    In (x, u, ft, Some d) (trace_res (f :: s) (visit_stmts (SLet p a e rest))) ->
    In (x, u, ft, Some d) (trace_res (f :: s) (visit_pat p) ++ trace_res ((rev (binders p) ++ f) :: s) (visit_stmts rest)).
Proof. exact let_not_visible. Qed.

(* not after the block: whatever follows a block is resolved in the stack the block was entered with *)
Theorem C15v_let_not_visible_after_block : forall b s t,
  trace_res s (visit_block b ++ t) = trace_res ([] :: s) (visit_stmts b) ++ trace_res s t.
Proof. exact after_block. Qed.

(* ------------------------------------------------------------------ (d) lambda *)

Theorem C15v_lambda_scope : forall s l ps body t,
  trace_res s (visit_expr (ELambda l ps body) ++ t) =
    trace_res ([] :: s) (visit_lparams ps) ++
    trace_res (rev (lparam_binders ps) :: s) (visit_expr body) ++
    trace_res s t.
Proof. exact lambda_scope_seq. Qed.

(* what lambda_captures records for the lambda at l: exactly its free variables (value occurrences no binder of the
   lambda itself has in scope) that are bound in the stack the lambda is visited on, with that binding *)
Theorem C15v_lambda_captures : forall c l ps body,
  exists caps,
    c_lams (fold_left cstep (visit_expr (ELambda l ps body)) c) =
      (l, c_next c, caps) :: c_lams (fold_left cstep (visit_lparams ps ++ visit_expr body) (cstep c Push)) /\
    forall x d, In (x, d) caps <-> In x (fv_expr (ELambda l ps body)) /\ lookup x (c_stk c) = Some d.
Proof. exact lambda_captures. Qed.

(* ... and every frame that is live while an expression is visited records exactly the bindings that the free
   variables of the expression have MORE than h frames out (h = the frame's distance from the top): a use is recorded
   in exactly the frames it crosses *)
Theorem C15v_frames_crossed : forall e c h i caps,
  nth_error (c_cap c) h = Some (i, caps) ->
  nth_error (c_cap (fold_left cstep (visit_expr e) c)) h = Some (i, cap_fold (cross_of h (c_stk c) (fv_expr e)) caps).
Proof. exact frames_crossed. Qed.

Theorem C15v_crossing_is_free_variables :
  (forall e h s, trace_cross h s (visit_expr e) = cross_of h s (fv_expr e)) /\
  (forall x d h s xs, In (x, d) (cross_of h s xs) <-> In x xs /\ exists k, lookup_depth x s = Some (k, d) /\ h < k).
Proof. exact (conj cross_expr (fun x d h s xs => cross_of_in h s xs x d)). Qed.

(* ------------------------------------------------------------------ (f) or-patterns *)

(* the first alternative defines, the identifiers of the later alternatives are uses (one per identifier, in order),
   resolved with the first alternative's binders in scope; those whose name the first alternative binds resolve to
   that binder *)
Theorem C15v_or_pattern : forall f s p ps,
  visit_pat (POr p ps) = visit_pat p ++ map (fun xl : N * N => Use (fst xl) (snd xl) false) (pats_ids ps) /\
  def_events (visit_pat (POr p ps)) = binders p /\
  trace_res (f :: s) (visit_pat (POr p ps)) =
    trace_res (f :: s) (visit_pat p) ++ lex_ids (bind (binders p) (f ++ concat s)) (pats_ids ps) /\
  forall x u, In (x, u) (pats_ids ps) -> In x (map fst (binders p)) ->
    exists d, In (x, d) (binders p) /\ In (x, u, false, Some d) (trace_res (f :: s) (visit_pat (POr p ps))).
Proof. exact or_pattern_scope. Qed.

(* Full statement without the hypothesis `In x (map fst (binders p))`:
     forall f s p ps x u d, In (x, u) (pats_ids ps) ->
       In (x, u, false, Some d) (trace_res (f :: s) (visit_pat (POr p ps))) -> In d (map snd (binders p))
   is false of the faithful model: an identifier of a later alternative that the first alternative does not bind
   silently resolves to an enclosing binding of that name (A(x) | B(y) with an outer y).  Replayed on the real
   checker by checks/c15_visitor.py: the program is rejected by the type checker (the alternatives do not bind the
   same names), so this is not a defect of the compiler; the scoping analysis alone does not notice. *)
Theorem C15v_or_pattern_later_alternative_resolves_refuted :
  exists f s p ps x u d,
    In (x, u) (pats_ids ps) /\
    In (x, u, false, Some d) (trace_res (f :: s) (visit_pat (POr p ps))) /\
    ~ In d (map snd (binders p)).
Proof. exact or_pattern_unbound_alternative. Qed.

(* ------------------------------------------------------------------ non-vacuity *)
Local Open Scope N_scope.

(* function f(a) = if let Some(v) = a { v } else { v }      names a=1 v=2;  a@10, use a@11, v@12, uses v@13 (then) v@14 (else) *)
Definition demo_if : expr :=
  EIf (IfLet (PVariant (PCons (PId 2 12) PNil)) (EId 1 11) (SFinal (EId 2 13)) (ElseBlock (SFinal (EId 2 14))))%N.

Example C15v_nonvacuous_if_let :
  visit_expr demo_if = [Use 1 11 false; Push; Def 2 12; Push; Use 2 13 false; Pop; Pop; Push; Use 2 14 false; Pop]%N /\
  trace_res [[(1, 10)]]%N (visit_expr demo_if) =
    [(1, 11, false, Some 10); (2, 13, false, Some 12); (2, 14, false, None)]%N.
Proof. split; reflexivity. Qed.

(* the seeded change C13-2 (pop_scope of the guard moved after the else branch) emits this trace for demo_if: it is
   still balanced (the stack is restored) but the else branch sees the binder, and it is not the trace of the model *)
Definition moved_pop_trace : list event :=
  [Use 1 11 false; Push; Def 2 12; Push; Use 2 13 false; Pop; Push; Use 2 14 false; Pop; Pop]%N.

Example C15v_nonvacuous_moved_pop :
  (forall s, fold_left sstep moved_pop_trace s = s) /\
  trace_res [[(1, 10)]]%N moved_pop_trace = [(1, 11, false, Some 10); (2, 13, false, Some 12); (2, 14, false, Some 12)]%N /\
  event_list_eqb (visit_expr demo_if) moved_pop_trace = false /\
  first_diff 0 (visit_expr demo_if) moved_pop_trace = Some (6, (2, 0, 0, 0), (1, 0, 0, 0))%N.
Proof. repeat split; reflexivity. Qed.

(* { let b = a; (c) -> a + b + c }   a=1 b=2 c=3, lambda@20:  captured = the free variables a, b with their bindings *)
Definition demo_lam : expr :=
  EBlock (SLet (PId 2 12) None (EId 1 11)
           (SFinal (ELambda 20 [(3, 21, None)] (EBinary (EBinary (EId 1 22) (EId 2 23)) (EId 3 24)))))%N.

Example C15v_nonvacuous_lambda :
  fv_expr demo_lam = [1; 1]%N /\
  trace_res [[(1, 10)]]%N (visit_expr demo_lam) =
    [(1, 11, false, Some 10); (1, 22, false, Some 10); (2, 23, false, Some 12); (3, 24, false, Some 21)]%N /\
  map (fun e => (fst (fst e), snd e))
      (c_lams (fold_left cstep (visit_expr demo_lam)
                 {| c_stk := [[(1, 10)]]; c_cap := [(O, [])]; c_next := 1%nat; c_lams := []; c_popped := []; c_xlog := [] |}))
    = [(20, [(2, 12); (1, 10)])]%N.
Proof. repeat split; reflexivity. Qed.

(* match e { A(x) | B(x) -> x, C(y) -> y }  the later alternative's x is a use of the first one's *)
Example C15v_nonvacuous_or_pattern :
  trace_res [[(9, 1)]]%N
    (visit_expr (EMatch (EId 9 2) (ACons (POr (PVariant (PCons (PId 5 3) PNil)) (PCons (PVariant (PCons (PId 5 4) PNil)) PNil)) (EId 5 6)
                                   (ACons (PVariant (PCons (PId 7 8) PNil)) (EId 5 10) ANil))))%N =
    [(9, 2, false, Some 1); (5, 4, false, Some 3); (5, 6, false, Some 3); (5, 10, false, None)]%N.
Proof. reflexivity. Qed.

(* class C<T>(val a: T) { method m(x: T): int = { let y = x; this }   function f(x: int): int = this }
   names C=1 T=2 a=3 m=4 x=5 y=6 this=7 f=8: `this` and T resolve inside the method; `this` does not resolve in the function *)
Definition demo_module : module :=
  mkModule [] [mkTop true 1 100 101 [mkTParam 2 102 None] [] (Some (TDStruct [(3, 103, TGeneric 2 104)]))
     [mkMember true 4 105 [] [(5, 106, TGeneric 2 107)] TPrim (Some (EBlock (SLet (PId 6 108) None (EId 5 109) (SFinal (EId 7 110)))));
      mkMember false 8 111 [] [(5, 112, TPrim)] TPrim (Some (EId 7 113))]].

Example C15v_nonvacuous_module :
  trace_res [[]] (visit_module 7 demo_module) =
    [(2, 104, true, Some 102); (2, 107, true, Some 102); (5, 109, false, Some 106); (7, 110, false, Some 101); (7, 113, false, None)] /\
  lex_module 7 demo_module = trace_res [[]] (visit_module 7 demo_module) /\
  map (resolve 7 demo_module) [104; 107; 109; 110; 113] = [Some 102; Some 102; Some 106; Some 101; None].
Proof. repeat split; reflexivity. Qed.

Print Assumptions C15v_machine_is_trace_res.
Print Assumptions C15v_resolve_is_trace_res.
Print Assumptions C15v_balance.
Print Assumptions C15v_balanced_trace_restores_stack.
Print Assumptions C15v_stack_restored.
Print Assumptions C15v_pattern_defines_binders.
Print Assumptions C15v_module_stack.
Print Assumptions C15v_visitor_is_lexical_scoping.
Print Assumptions C15v_pattern_is_lexical_scoping.
Print Assumptions C15v_member_is_lexical_scoping.
Print Assumptions C15v_member_body_context.
Print Assumptions C15v_toplevel_context.
Print Assumptions C15v_toplevel_is_lexical_scoping.
Print Assumptions C15v_module_is_lexical_scoping.
Print Assumptions C15v_resolve_is_lexical_scoping.
Print Assumptions C15v_binders_visible.
Print Assumptions C15v_if_let_scope.
Print Assumptions C15v_if_let_not_visible.
Print Assumptions C15v_match_arm_scope.
Print Assumptions C15v_match_arm_not_visible.
Print Assumptions C15v_let_scope.
Print Assumptions C15v_let_not_visible_in_initialiser.
Print Assumptions C15v_let_not_visible_after_block.
Print Assumptions C15v_lambda_scope.
Print Assumptions C15v_lambda_captures.
Print Assumptions C15v_frames_crossed.
Print Assumptions C15v_crossing_is_free_variables.
Print Assumptions C15v_or_pattern.
Print Assumptions C15v_or_pattern_later_alternative_resolves_refuted.
