(* C15v — the language's scoping rules stated WITHOUT traces and without a stack machine: resolution by
   passing an environment down the syntax tree (lexical scoping as a textbook states it), the binders of
   a pattern, and the free variables of an expression.  Definitions only.  Proofs.v shows that the stack
   machine of C15/Model.v run on the visitor's trace (Visitor.v) computes exactly these. *)
From Coq Require Import List NArith Bool.
Import ListNotations.
From SV Require Import C15.Model C15v.Syntax C15v.Visitor.

(* an environment: the bindings in scope, innermost (newest) first *)
Notation env := (list (N * N)) (only parsing).

(* ---- binders of a pattern, in the order they are introduced: those of the FIRST alternative of an or-pattern ---- *)
Fixpoint binders (p : pat) : list (N * N) :=
  match p with
  | PTuple ps | PObject ps | PVariant ps => binders_l ps
  | PId x l => [(x, l)]
  | PWild => []
  | POr p _ => binders p
  end
with binders_l (ps : pats) : list (N * N) :=
  match ps with PNil => [] | PCons p r => binders p ++ binders_l r end.

(* every identifier of a pattern, in source order *)
Fixpoint pat_ids (p : pat) : list (N * N) :=
  match p with
  | PTuple ps | PObject ps | PVariant ps => pats_ids ps
  | PId x l => [(x, l)]
  | PWild => []
  | POr p ps => pat_ids p ++ pats_ids ps
  end
with pats_ids (ps : pats) : list (N * N) :=
  match ps with PNil => [] | PCons p r => pat_ids p ++ pats_ids r end.

Definition lparam_binders (ps : list lparam) : list (N * N) := map (fun p : lparam => fst p) ps.

(* extend an environment with binders introduced left to right *)
Definition bind (bs : list (N * N)) (g : list (N * N)) : list (N * N) := rev bs ++ g.

(* ---- resolution: one record per identifier occurrence that is looked up ---- *)
Fixpoint lex_annot (g : list (N * N)) (a : annot) : list res :=
  match a with
  | TPrim => []
  | TId same x l args => (if same then [(x, l, true, find_frame x g)] else []) ++ lex_annots g args
  | TGeneric x l => [(x, l, true, find_frame x g)]
  | TFn ps r => lex_annots g ps ++ lex_annot g r
  end
with lex_annots (g : list (N * N)) (l : annots) : list res :=
  match l with TNil => [] | TCons a r => lex_annot g a ++ lex_annots g r end.

Definition lex_oannot (g : list (N * N)) (a : option annot) : list res :=
  match a with Some t => lex_annot g t | None => [] end.

Definition lex_ids (g : list (N * N)) (ids : list (N * N)) : list res :=
  map (fun xl : N * N => (fst xl, snd xl, false, find_frame (fst xl) g)) ids.

(* the identifiers of the later alternatives of an or-pattern are occurrences that are looked up, in the
   environment extended by the binders introduced so far *)
Fixpoint lex_pat (g : list (N * N)) (p : pat) : list res :=
  match p with
  | PTuple ps | PObject ps | PVariant ps => lex_pats g ps
  | PId _ _ | PWild => []
  | POr p ps => lex_pat g p ++ lex_ids (bind (binders p) g) (pats_ids ps)
  end
with lex_pats (g : list (N * N)) (ps : pats) : list res :=
  match ps with
  | PNil => []
  | PCons p r => lex_pat g p ++ lex_pats (bind (binders p) g) r
  end.

Fixpoint lex_lparams (g : list (N * N)) (ps : list lparam) : list res :=
  match ps with
  | [] => []
  | (x, l, a) :: r => lex_oannot ((x, l) :: g) a ++ lex_lparams ((x, l) :: g) r
  end.

Fixpoint lex_expr (g : list (N * N)) (e : expr) : list res :=
  match e with
  | ELit | EClassId => []
  | EId x l => [(x, l, false, find_frame x g)]
  | ETuple es => lex_exprs g es
  | EField o targs | EMethod o targs => lex_expr g o ++ lex_annots g targs
  | EUnary e1 => lex_expr g e1
  | ECall f args => lex_expr g f ++ lex_exprs g args
  | EBinary e1 e2 => lex_expr g e1 ++ lex_expr g e2
  | EIf i => lex_ifelse g i
  | EMatch m arms => lex_expr g m ++ lex_arms g arms
  | ELambda _ ps body => lex_lparams g ps ++ lex_expr (bind (lparam_binders ps) g) body
  | EBlock b => lex_stmts g b
  end
with lex_exprs (g : list (N * N)) (es : exprs) : list res :=
  match es with ENil => [] | ECons e r => lex_expr g e ++ lex_exprs g r end
with lex_ifelse (g : list (N * N)) (i : ifelse) : list res :=
  match i with
  | IfBool c b1 e2 => lex_expr g c ++ lex_stmts g b1 ++ lex_else g e2
  | IfLet p c b1 e2 =>
      lex_expr g c ++                        (* the matched expression: WITHOUT the pattern's binders *)
      lex_pat g p ++
      lex_stmts (bind (binders p) g) b1 ++   (* the then-branch: WITH them *)
      lex_else g e2                          (* the else branch: WITHOUT them *)
  end
with lex_else (g : list (N * N)) (e : elsebr) : list res :=
  match e with ElseIf i => lex_ifelse g i | ElseBlock b => lex_stmts g b end
with lex_arms (g : list (N * N)) (a : arms) : list res :=
  match a with
  | ANil => []
  | ACons p body rest =>
      lex_pat g p ++ lex_expr (bind (binders p) g) body ++   (* this arm's body only *)
      lex_arms g rest
  end
with lex_stmts (g : list (N * N)) (s : stmts) : list res :=
  match s with
  | SEnd => []
  | SFinal e => lex_expr g e
  | SLet p a e rest =>
      lex_expr g e ++ lex_oannot g a ++      (* the initialiser: WITHOUT the let's binders *)
      lex_pat g p ++
      lex_stmts (bind (binders p) g) rest    (* the rest of the block: WITH them *)
  | SExpr e rest => lex_expr g e ++ lex_stmts g rest
  end.

(* ---- free variables: names with a VALUE occurrence (not a type occurrence) that no binder of the term
        itself has in scope, in source order, with repetitions ---- *)
Definition drop (bs : list (N * N)) (xs : list N) : list N :=
  filter (fun x => negb (existsb (N.eqb x) (map fst bs))) xs.

Fixpoint fv_pat (p : pat) : list N :=
  match p with
  | PTuple ps | PObject ps | PVariant ps => fv_pats ps
  | PId _ _ | PWild => []
  | POr p ps => fv_pat p ++ drop (binders p) (map fst (pats_ids ps))
  end
with fv_pats (ps : pats) : list N :=
  match ps with PNil => [] | PCons p r => fv_pat p ++ drop (binders p) (fv_pats r) end.

Fixpoint fv_expr (e : expr) : list N :=
  match e with
  | ELit | EClassId => []
  | EId x _ => [x]
  | ETuple es => fv_exprs es
  | EField o _ | EMethod o _ => fv_expr o
  | EUnary e1 => fv_expr e1
  | ECall f args => fv_expr f ++ fv_exprs args
  | EBinary e1 e2 => fv_expr e1 ++ fv_expr e2
  | EIf i => fv_ifelse i
  | EMatch m arms => fv_expr m ++ fv_arms arms
  | ELambda _ ps body => drop (lparam_binders ps) (fv_expr body)
  | EBlock b => fv_stmts b
  end
with fv_exprs (es : exprs) : list N :=
  match es with ENil => [] | ECons e r => fv_expr e ++ fv_exprs r end
with fv_ifelse (i : ifelse) : list N :=
  match i with
  | IfBool c b1 e2 => fv_expr c ++ fv_stmts b1 ++ fv_else e2
  | IfLet p c b1 e2 => fv_expr c ++ fv_pat p ++ drop (binders p) (fv_stmts b1) ++ fv_else e2
  end
with fv_else (e : elsebr) : list N :=
  match e with ElseIf i => fv_ifelse i | ElseBlock b => fv_stmts b end
with fv_arms (a : arms) : list N :=
  match a with
  | ANil => []
  | ACons p body rest => fv_pat p ++ drop (binders p) (fv_expr body) ++ fv_arms rest
  end
with fv_stmts (s : stmts) : list N :=
  match s with
  | SEnd => []
  | SFinal e => fv_expr e
  | SLet p _ e rest => fv_expr e ++ fv_pat p ++ drop (binders p) (fv_stmts rest)
  | SExpr e rest => fv_expr e ++ fv_stmts rest
  end.

(* the names of xs whose binding in the stack s lies MORE than h frames out, with that binding *)
Definition cross_of (h : nat) (s : list (list (N * N))) (xs : list N) : list (N * N) :=
  flat_map (fun x => match lookup_depth x s with
                     | Some (k, d) => if Nat.ltb h k then [(x, d)] else []
                     | None => []
                     end) xs.

(* ---- the scopes above a member body ---- *)
Definition tparam_binders (tps : list tparam) : list (N * N) := map (fun tp => (tp_x tp, tp_l tp)) tps.
Definition param_binders (ps : list (N * N * annot)) : list (N * N) := map (fun p : N * N * annot => fst p) ps.

Definition lex_tparams (g : list (N * N)) (tps : list tparam) : list res :=
  flat_map (fun tp => match tp_bound tp with Some (x, l, _) => [(x, l, true, find_frame x g)] | None => [] end) tps ++
  flat_map (fun tp => match tp_bound tp with Some (_, _, args) => lex_annots (bind (tparam_binders tps) g) args | None => [] end) tps.

(* a member: the bounds' names see the enclosing scope; everything else of the signature sees the member's type
   parameters; the body sees the parameters on top of that *)
Definition lex_member (g : list (N * N)) (m : member) : list res :=
  let g1 := bind (tparam_binders (mb_tparams m)) g in
  lex_tparams g (mb_tparams m) ++
  flat_map (fun p : N * N * annot => lex_annot g1 (snd p)) (mb_params m) ++
  lex_annot g1 (mb_ret m) ++
  match mb_body m with Some b => lex_expr (bind (param_binders (mb_params m)) g1) b | None => [] end.

(* ---- toplevels and the module ---- *)
Definition lex_typedef (g : list (N * N)) (d : typedef) : list res :=
  match d with
  | TDStruct fs => flat_map (fun f : N * N * annot => lex_annot g (snd f)) fs
  | TDEnum vs => flat_map (fun v : N * N * annots => lex_annots g (snd v)) vs
  end.

(* what a method is visited under, on top of the module's names: `this` (classes only) and the class's type parameters *)
Definition instance_binders (this : N) (t : toplevel) : list (N * N) :=
  (if tl_class t then [(this, tl_loc t)] else []) ++ tparam_binders (tl_tparams t).

(* a toplevel in the environment g of the module's imported and toplevel names:
   - the names it extends / implements, and the names bounding its type parameters, see g only;
   - the rest of its header (type arguments of the bounds and of the extended types, field / variant types) sees its type parameters;
   - methods see `this` and the type parameters, functions see neither *)
Definition lex_toplevel (this : N) (g : list (N * N)) (t : toplevel) : list res :=
  let g1 := bind (tparam_binders (tl_tparams t)) g in
  map (fun n : N * N * annots => (fst (fst n), snd (fst n), true, find_frame (fst (fst n)) g)) (tl_ext t) ++
  (lex_tparams g (tl_tparams t) ++
   flat_map (fun n : N * N * annots => lex_annots g1 (snd n)) (tl_ext t) ++
   match tl_def t with Some d => lex_typedef g1 d | None => [] end) ++
  flat_map (fun m => if Bool.eqb (mb_method m) true then lex_member (bind (instance_binders this t) g) m else []) (tl_members t) ++
  flat_map (fun m => if Bool.eqb (mb_method m) false then lex_member g m else []) (tl_members t).

Definition module_binders (m : module) : list (N * N) :=
  md_imports m ++ map (fun t => (tl_x t, tl_l t)) (md_tops m).

Definition lex_module (this : N) (m : module) : list res :=
  flat_map (lex_toplevel this (bind (module_binders m) [])) (md_tops m).
