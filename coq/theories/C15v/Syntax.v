(* C15v — the binding-relevant structure of samlang source (crates/samlang-ast/src/source.rs).
   Definitions only.

   Names are interned identifier strings and locations interned [start line, start column, end line,
   end column] quadruples (both N), exactly as in C15/Model.v.  Everything the scoping analysis
   (crates/samlang-checker/src/ssa_analysis.rs) does not look at is dropped: literal values, operators,
   field / method / tag names, comments, inferred types.  Every identifier occurrence the analysis does
   look at carries its name and its location.

   Rust `Vec<T>` of a type that is mutually recursive with T is an explicit cons-list type of the
   mutual block (annots, pats, exprs, arms, stmts) so that Coq generates the mutual induction principles.

     source.rs                                   here
     ---------------------------------------------------------------------------------------
     annotation::T::Primitive                    TPrim
     annotation::T::Id(Id{location,module_reference,id,type_arguments})
                                                 TId same x l args   same = (module_reference == the module
                                                                      under analysis), x = id.name, l = location
     annotation::T::Generic(_, id)               TGeneric x l        x = id.name, l = id.loc
     annotation::T::Fn(Function{parameters,return_type})
                                                 TFn ps r
     pattern::MatchingPattern::Tuple             PTuple ps
     pattern::MatchingPattern::Object            PObject ps          (the patterns of the elements, in written order)
     pattern::MatchingPattern::Variant           PVariant ps         (data_variables: None is the empty list)
     pattern::MatchingPattern::Id                PId x l
     pattern::MatchingPattern::Wildcard          PWild
     pattern::MatchingPattern::Or{patterns}      POr p ps            (patterns = p :: ps; the parser never builds an
                                                                      empty one, the analysis unwraps the first)
     expr::E::Literal / ClassId                  ELit / EClassId
     expr::E::LocalId(_, id)                     EId x l             (`this` is a LocalId named "this")
     expr::E::Tuple                              ETuple es
     expr::E::FieldAccess / MethodAccess         EField o targs / EMethod o targs  (explicit_type_arguments)
     expr::E::Unary / Binary / Call              EUnary e / EBinary e1 e2 / ECall f args
     expr::E::IfElse{condition: Expression(g), e1, e2}      EIf (IfBool g e1 e2)
     expr::E::IfElse{condition: Guard(p, g), e1, e2}        EIf (IfLet p g e1 e2)
     expr::IfElseOrBlock::IfElse / Block         ElseIf i / ElseBlock b
     expr::E::Match{matched, cases}              EMatch m arms       (arm = pattern, body)
     expr::E::Lambda{common.loc, parameters, body}          ELambda l ps body  (parameter = name, loc, optional annotation)
     expr::E::Block{statements, expression}      EBlock b
     expr::Statement::Declaration{pattern, annotation, assigned_expression}   SLet p a e rest
     expr::Statement::Expression(e)              SExpr e rest
     Block.expression: Some(e) / None            SFinal e / SEnd *)
From Coq Require Import List NArith Bool.
Import ListNotations.

Notation name := N (only parsing).
Notation loc := N (only parsing).

Inductive annot :=
| TPrim
| TId (same : bool) (x : name) (l : loc) (args : annots)
| TGeneric (x : name) (l : loc)
| TFn (ps : annots) (r : annot)
with annots :=
| TNil
| TCons (a : annot) (r : annots).

Inductive pat :=
| PTuple (ps : pats)
| PObject (ps : pats)
| PVariant (ps : pats)
| PId (x : name) (l : loc)
| PWild
| POr (p : pat) (ps : pats)
with pats :=
| PNil
| PCons (p : pat) (ps : pats).

(* a lambda parameter: OptionallyAnnotatedId *)
Definition lparam := (N * N * option annot)%type.

Inductive expr :=
| ELit
| EClassId
| EId (x : name) (l : loc)
| ETuple (es : exprs)
| EField (o : expr) (targs : annots)
| EMethod (o : expr) (targs : annots)
| EUnary (e : expr)
| ECall (f : expr) (args : exprs)
| EBinary (e1 e2 : expr)
| EIf (i : ifelse)
| EMatch (m : expr) (arms : arms)
| ELambda (l : loc) (ps : list lparam) (body : expr)
| EBlock (b : stmts)
with exprs :=
| ENil
| ECons (e : expr) (es : exprs)
with ifelse :=
| IfBool (g : expr) (b1 : stmts) (e2 : elsebr)
| IfLet (p : pat) (g : expr) (b1 : stmts) (e2 : elsebr)
with elsebr :=
| ElseIf (i : ifelse)
| ElseBlock (b : stmts)
with arms :=
| ANil
| ACons (p : pat) (body : expr) (rest : arms)
(* the statements and the final expression of ONE block *)
with stmts :=
| SEnd
| SFinal (e : expr)
| SLet (p : pat) (a : option annot) (e : expr) (rest : stmts)
| SExpr (e : expr) (rest : stmts).

Notation block := stmts (only parsing).

Scheme annot_mind := Induction for annot Sort Prop
  with annots_mind := Induction for annots Sort Prop.
Combined Scheme annot_mutind from annot_mind, annots_mind.

Scheme pat_mind := Induction for pat Sort Prop
  with pats_mind := Induction for pats Sort Prop.
Combined Scheme pat_mutind from pat_mind, pats_mind.

Scheme expr_mind := Induction for expr Sort Prop
  with exprs_mind := Induction for exprs Sort Prop
  with ifelse_mind := Induction for ifelse Sort Prop
  with elsebr_mind := Induction for elsebr Sort Prop
  with arms_mind := Induction for arms Sort Prop
  with stmts_mind := Induction for stmts Sort Prop.
Combined Scheme expr_mutind from expr_mind, exprs_mind, ifelse_mind, elsebr_mind, arms_mind, stmts_mind.

(* ---- what introduces scopes above a member body ---- *)

(* annotation::TypeParameter: name, and the bound `annotation::Id` (id.name, id.loc, type arguments) *)
Record tparam := mkTParam {
  tp_x : name; tp_l : loc;
  tp_bound : option (N * N * annots) }.

(* ClassMemberDeclaration (+ the body of a ClassMemberDefinition; interfaces have none) *)
Record member := mkMember {
  mb_method : bool;
  mb_x : name; mb_l : loc;
  mb_tparams : list tparam;
  mb_params : list (N * N * annot);
  mb_ret : annot;
  mb_body : option expr }.

Inductive typedef :=
| TDStruct (fields : list (N * N * annot))           (* field name, its loc, annotation *)
| TDEnum (variants : list (N * N * annots)).         (* variant name, its loc, associated data types *)

(* Toplevel::Class / Toplevel::Interface *)
Record toplevel := mkTop {
  tl_class : bool;
  tl_x : name; tl_l : loc;                 (* name().name, name().loc *)
  tl_loc : loc;                            (* loc(): what `this` is bound to *)
  tl_tparams : list tparam;
  tl_ext : list (N * N * annots);          (* extends_or_implements_nodes: id.name, id.loc, type arguments *)
  tl_def : option typedef;
  tl_members : list member }.

Record module := mkModule {
  md_imports : list (N * N);               (* imported_members of every import, flattened: name, loc *)
  md_tops : list toplevel }.
