(* C15v — the VISITOR of crates/samlang-checker/src/ssa_analysis.rs as a Gallina function from the
   syntax (Syntax.v) to the trace of scope-stack calls (the event type of C15/Model.v), and its
   composition with the scope-stack machine of C15/Model.v.  Definitions only.

   Each function mirrors the Rust function named in its comment, statement by statement:
   `self.context.push_scope()` = Push, `self.context.pop_scope()` = Pop (PopLam l where the popped frame is
   recorded as the capture set of the lambda at l), `self.define_id(x, l)` = Def x l,
   `self.use_id(x, l, for_type)` = Use x l for_type. *)
From Coq Require Import List NArith Bool.
Import ListNotations.
From SV Require Import C15.Model C15v.Syntax.

(* ---- visit_annot / visit_id_annot ---- *)
Fixpoint visit_annot (a : annot) : list event :=
  match a with
  | TPrim => []                                                   (* T::Primitive => {} *)
  | TId same x l args =>                                          (* visit_id_annot *)
      (if same then [Use x l true] else []) ++                    (*   if self.module_reference.eq(module_reference) { use_id(id.name, location, true) } *)
      visit_annots args                                           (*   for targ in type_arguments { visit_annot(targ) } *)
  | TGeneric x l => [Use x l true]                                (* T::Generic(_, id) => use_id(id.name, id.loc, true) *)
  | TFn ps r => visit_annots ps ++ visit_annot r                  (* T::Fn: parameters, then return_type *)
  end
with visit_annots (l : annots) : list event :=
  match l with
  | TNil => []
  | TCons a r => visit_annot a ++ visit_annots r
  end.

Definition visit_oannot (a : option annot) : list event :=
  match a with Some t => visit_annot t | None => [] end.

(* ---- visit_matching_pattern_bindings_as_uses ---- *)
Fixpoint visit_pat_uses (p : pat) : list event :=
  match p with
  | PTuple ps | PObject ps | PVariant ps => visit_pats_uses ps
  | PId x l => [Use x l false]                                    (* Id(id) => use_id(id.name, id.loc, false) *)
  | PWild => []
  | POr p ps => visit_pat_uses p ++ visit_pats_uses ps            (* for p in patterns { ...bindings_as_uses(p) } *)
  end
with visit_pats_uses (ps : pats) : list event :=
  match ps with
  | PNil => []
  | PCons p r => visit_pat_uses p ++ visit_pats_uses r
  end.

(* ---- visit_matching_pattern / visit_tuple_pattern ---- *)
Fixpoint visit_pat (p : pat) : list event :=
  match p with
  | PTuple ps | PObject ps | PVariant ps => visit_pats ps
  | PId x l => [Def x l]                                          (* Id(id) => define_id(id.name, id.loc) *)
  | PWild => []
  | POr p ps => visit_pat p ++ visit_pats_uses ps                 (* first alternative; the others as uses *)
  end
with visit_pats (ps : pats) : list event :=
  match ps with
  | PNil => []
  | PCons p r => visit_pat p ++ visit_pats r
  end.

(* E::Lambda: `for OptionallyAnnotatedId{name, annotation} in parameters { define_id(name); if let Some(a) = annotation { visit_annot(a) } }` *)
Definition visit_lparams (ps : list lparam) : list event :=
  flat_map (fun p : lparam => let '(x, l, a) := p in Def x l :: visit_oannot a) ps.

(* ---- visit_expression, visit_if_else, visit_if_else_or_block, visit_block ---- *)
Fixpoint visit_expr (e : expr) : list event :=
  match e with
  | ELit | EClassId => []
  | EId x l => [Use x l false]                                    (* LocalId(_, id) => use_id(id.name, id.loc, false) *)
  | ETuple es => visit_exprs es
  | EField o targs => visit_expr o ++ visit_annots targs
  | EMethod o targs => visit_expr o ++ visit_annots targs
  | EUnary e1 => visit_expr e1
  | ECall f args => visit_expr f ++ visit_exprs args
  | EBinary e1 e2 => visit_expr e1 ++ visit_expr e2
  | EIf i => visit_ifelse i
  | EMatch m arms => visit_expr m ++ visit_arms arms
  | ELambda l ps body =>
      Push :: visit_lparams ps ++ visit_expr body ++ [PopLam l]
  | EBlock b => Push :: visit_stmts b ++ [Pop]                    (* visit_block *)
  end
with visit_exprs (es : exprs) : list event :=
  match es with
  | ENil => []
  | ECons e r => visit_expr e ++ visit_exprs r
  end
with visit_ifelse (i : ifelse) : list event :=
  match i with
  | IfBool g b1 e2 =>                                             (* IfElseCondition::Expression(guard) *)
      visit_expr g ++ (Push :: visit_stmts b1 ++ [Pop]) ++ visit_else e2
  | IfLet p g b1 e2 =>                                            (* IfElseCondition::Guard(p, guard) *)
      visit_expr g ++                                             (*   visit_expression(guard)   -- BEFORE the pattern *)
      Push ::                                                     (*   push_scope() *)
      visit_pat p ++                                              (*   visit_matching_pattern(p) *)
      (Push :: visit_stmts b1 ++ [Pop]) ++                        (*   visit_block(e1) *)
      Pop ::                                                      (*   pop_scope()               -- BEFORE the else branch *)
      visit_else e2                                               (*   visit_if_else_or_block(e2) *)
  end
with visit_else (e : elsebr) : list event :=
  match e with
  | ElseIf i => visit_ifelse i
  | ElseBlock b => Push :: visit_stmts b ++ [Pop]
  end
with visit_arms (a : arms) : list event :=                        (* for case in cases *)
  match a with
  | ANil => []
  | ACons p body rest =>
      Push :: visit_pat p ++ visit_expr body ++ Pop :: visit_arms rest
  end
with visit_stmts (s : stmts) : list event :=                      (* the inside of visit_block *)
  match s with
  | SEnd => []
  | SFinal e => visit_expr e
  | SLet p a e rest =>
      visit_expr e ++ visit_oannot a ++ visit_pat p ++            (* initialiser, annotation, THEN the binders *)
      visit_stmts rest
  | SExpr e rest => visit_expr e ++ visit_stmts rest
  end.

(* push_scope(); ...; pop_scope() *)
Definition scope (t : list event) : list event := Push :: t ++ [Pop].

Definition visit_block (b : block) : list event := scope (visit_stmts b).

(* ---- visit_type_parameters_with_bounds ---- *)
Definition visit_tparams (tps : list tparam) : list event :=
  flat_map (fun tp => match tp_bound tp with Some (x, l, _) => [Use x l true] | None => [] end) tps ++
  map (fun tp => Def (tp_x tp) (tp_l tp)) tps ++
  flat_map (fun tp => match tp_bound tp with Some (_, _, args) => visit_annots args | None => [] end) tps.

(* ---- visit_member_declaration ---- *)
Definition visit_member (m : member) : list event :=
  scope (                                                                           (* push_scope() *)
    visit_tparams (mb_tparams m) ++                                                 (* visit_type_parameters_with_bounds *)
    flat_map (fun p : N * N * annot => visit_annot (snd p)) (mb_params m) ++        (* for param { visit_annot(param.annotation) } *)
    visit_annot (mb_ret m) ++                                                       (* visit_annot(return_type) *)
    scope (                                                                         (* push_scope() *)
      map (fun p : N * N * annot => Def (fst (fst p)) (snd (fst p))) (mb_params m) ++   (* for param { define_id(param.name) } *)
      match mb_body m with Some b => visit_expr b | None => [] end)).               (* visit_expression(body); pop; pop *)

(* visit_members(toplevel, is_method) *)
Definition visit_members (ms : list member) (is_method : bool) : list event :=
  flat_map (fun m => if Bool.eqb (mb_method m) is_method then visit_member m else []) ms.

(* `if let Some(type_def) = type_definition`: all annotations first, then all names *)
Definition visit_typedef (d : typedef) : list event :=
  match d with
  | TDStruct fs =>
      flat_map (fun f : N * N * annot => visit_annot (snd f)) fs ++
      map (fun f : N * N * annot => Def (fst (fst f)) (snd (fst f))) fs
  | TDEnum vs =>
      flat_map (fun v : N * N * annots => visit_annots (snd v)) vs ++
      map (fun v : N * N * annots => Def (fst (fst v)) (snd (fst v))) vs
  end.

(* the body of the second loop of visit_module; `this` is the interned name "this" (PStr::THIS) *)
Definition visit_toplevel (this : name) (t : toplevel) : list event :=
  map (fun n : N * N * annots => Use (fst (fst n)) (snd (fst n)) true) (tl_ext t) ++
  scope (
    scope (
      visit_tparams (tl_tparams t) ++
      flat_map (fun n : N * N * annots => visit_annots (snd n)) (tl_ext t) ++
      match tl_def t with Some d => visit_typedef d | None => [] end) ++
    scope (                                                       (* member names, for the conflict test *)
      map (fun m => Def (mb_x m) (mb_l m)) (tl_members t)) ++
    scope (                                                       (* instance methods *)
      (if tl_class t then [Def this (tl_loc t)] else []) ++
      map (fun tp => Def (tp_x tp) (tp_l tp)) (tl_tparams t) ++
      visit_members (tl_members t) true) ++
    scope (                                                       (* static methods *)
      visit_members (tl_members t) false)).

(* ---- visit_module ---- *)
Definition visit_module (this : name) (m : module) : list event :=
  map (fun i : N * N => Def (fst i) (snd i)) (md_imports m) ++
  map (fun t => Def (tl_x t) (tl_l t)) (md_tops m) ++             (* hoist toplevel names *)
  flat_map (visit_toplevel this) (md_tops m).

(* ==== composition with the scope-stack machine of C15/Model.v ==== *)

(* one record per `use_id` call of a trace run from stack s: (name, occurrence, for_type, what `get` answers there) *)
Definition res := (N * N * bool * option N)%type.

Fixpoint trace_res (s : list (list (N * N))) (t : list event) : list res :=
  match t with
  | [] => []
  | e :: t' =>
      match e with Use x l ft => [(x, l, ft, lookup x s)] | _ => [] end ++ trace_res (sstep s e) t'
  end.

(* the (use, definition) pairs, oldest first: what goes into use_define_map *)
Definition res_uses (rs : list res) : list (N * N) :=
  flat_map (fun r : res => match r with (_, u, _, Some d) => [(u, d)] | _ => [] end) rs.
(* the unresolved ones: report_cannot_resolve_name_error *)
Definition res_unbound (rs : list res) : list (N * N) :=
  flat_map (fun r : res => match r with (x, u, _, None) => [(x, u)] | _ => [] end) rs.

Fixpoint res_find (u : N) (rs : list res) : option (option N) :=
  match rs with
  | [] => None
  | (_, u', _, r) :: rs' => if N.eqb u u' then Some r else res_find u rs'
  end.

(* `resolve`: the binding the analysis resolves the occurrence at u to.
   resolve_in s t u: in a trace t run from the scope stack s (None: no use_id call for u; Some None: unbound) *)
Definition resolve_in (s : list (list (N * N))) (t : list event) (u : N) : option (option N) :=
  res_find u (trace_res s t).
(* for a whole module: the C15 machine run on the visitor's trace, read through use_define_map *)
Definition resolve (this : name) (m : module) (u : N) : option N :=
  assoc u (use_define_map (run (visit_module this m))).

(* ---- captures: which lookups cross the frame that is h frames below the top of the stack ---- *)
Definition dstep (h : nat) (e : event) : nat :=
  match e with Push => S h | Pop | PopLam _ => pred h | _ => h end.

(* (x, d) for every non-type `get` of the trace that finds x bound to d MORE than h frames out,
   h being the current distance of the watched frame from the top *)
Fixpoint trace_cross (h : nat) (s : list (list (N * N))) (t : list event) : list (N * N) :=
  match t with
  | [] => []
  | e :: t' =>
      match e with
      | Use x _ false => match lookup_depth x s with
                         | Some (k, d) => if Nat.ltb h k then [(x, d)] else []
                         | None => []
                         end
      | _ => []
      end ++ trace_cross (dstep h e) (sstep s e) t'
  end.

(* HashMap::insert of each pair, in order *)
Definition cap_fold (l : list (N * N)) (c : list (N * N)) : list (N * N) :=
  fold_left (fun c xd => cap_insert (fst xd) (snd xd) c) l c.

(* ---- well-bracketed traces ----
   wb false t : every Push of t has its Pop / PopLam, and no Def happens outside a scope opened by t itself
                (the shape of what an EXPRESSION emits: the stack after it is the stack before it)
   wb true t  : the same, but Defs are also allowed at the top level of t (patterns, statements, parameters) *)
Inductive wb : bool -> list event -> Prop :=
| wb_nil b : wb b []
| wb_use b x l ft t : wb b t -> wb b (Use x l ft :: t)
| wb_def x l t : wb true t -> wb true (Def x l :: t)
| wb_scope b t1 c t2 :
    wb true t1 -> (c = Pop \/ exists l, c = PopLam l) -> wb b t2 -> wb b (Push :: t1 ++ c :: t2).
