(* C16 — glue for the correspondence check (definitions only, evaluated with vm_compute).

   The harness cannot see the trace `longest_trace` computed, only the script of `compute`.
   So the trace is RECONSTRUCTED from the implementation's script: old positions that are neither
   deleted nor replaced are the matched x's, and their position in the output (counting replaced and
   inserted elements) the matched y's.  A case passes iff
     1. the reconstructed trace is a valid trace of (old, new)                       [valid_trace]
     2. the model, given that trace, builds exactly the implementation's script       [script_of_trace]
     3. the model's interpreter applied to the implementation's script yields new     [apply_script]
     4. the elements recorded in Delete / Replace are the old elements at those positions.
   1 + 2 put the case under theorem C16_script_correct; 3 re-checks its conclusion by computation.
   The hook does not expose `leading_separator`; scripts are compared with that flag erased. *)
From Coq Require Import List ZArith Bool Arith.
Import ListNotations.
From SV Require Import C16.Model.

Definition zchange := change Z.
Definition zscript := script Z.

Fixpoint list_eqb {X} (f : X -> X -> bool) (a b : list X) : bool :=
  match a, b with
  | [], [] => true
  | x :: a', y :: b' => f x y && list_eqb f a' b'
  | _, _ => false
  end.

(* equality of script entries, `leading` ignored *)
Definition change_eqb (a b : zchange) : bool :=
  match a, b with
  | Replace o n, Replace o' n' => Z.eqb o o' && Z.eqb n n'
  | Delete o, Delete o' => Z.eqb o o'
  | Insert it _, Insert it' _ => list_eqb Z.eqb it it'
  | _, _ => false
  end.
Definition ichange_eqb (a b : Z * zchange) : bool := Z.eqb (fst a) (fst b) && change_eqb (snd a) (snd b).
Definition script_eqb (a b : zscript) : bool := list_eqb ichange_eqb a b.

(* ---- trace reconstruction (by look-up, independent of the interpreter `run`) *)
Fixpoint ins_len_at (s : zscript) (k : Z) : nat :=
  match s with
  | [] => 0
  | (i, Insert items _) :: s' => (if Z.eqb i k then length items else 0) + ins_len_at s' k
  | _ :: s' => ins_len_at s' k
  end.
(* Some true: deleted, Some false: replaced, None: kept *)
Fixpoint edited_at (s : zscript) (k : Z) : option bool :=
  match s with
  | [] => None
  | (i, Delete _) :: s' => if Z.eqb i k then Some true else edited_at s' k
  | (i, Replace _ _) :: s' => if Z.eqb i k then Some false else edited_at s' k
  | _ :: s' => edited_at s' k
  end.
Fixpoint trace_walk (s : zscript) (i j : nat) (old : list Z) : trace :=
  match old with
  | [] => []
  | _ :: r =>
    let k := Z.of_nat i in
    match edited_at s k with
    | Some true => trace_walk s (S i) (j + ins_len_at s k) r
    | Some false => trace_walk s (S i) (S j + ins_len_at s k) r
    | None => (i, j) :: trace_walk s (S i) (S j + ins_len_at s k) r
    end
  end.
Definition trace_of_script (s : zscript) (old : list Z) : trace :=
  trace_walk s 0 (ins_len_at s (-1)%Z) old.

(* recorded old elements *)
Definition old_ok (old : list Z) (c : Z * zchange) : bool :=
  match snd c with
  | Delete o | Replace o _ =>
    (0 <=? fst c)%Z && match nth_error old (Z.to_nat (fst c)) with Some a => Z.eqb a o | None => false end
  | Insert items _ => negb (match items with [] => true | _ => false end)
  end.

Definition oeqb (a : option (list Z)) (b : list Z) : bool :=
  match a with Some x => list_eqb Z.eqb x b | None => false end.

(* 0 = pass; otherwise the number of the first failing check above *)
Definition check_case (c : list Z * list Z * zscript) : nat :=
  let '(old, new, s) := c in
  let t := trace_of_script s old in
  if negb (valid_trace Z.eqb t old new) then 1
  else if negb (script_eqb (script_of_trace t old new) s) then 2
  else if negb (oeqb (apply_script s old) new) then 3
  else if negb (forallb (old_ok old) s) then 4
  else 0.

Fixpoint fails (i : nat) (cs : list (list Z * list Z * zscript)) : list (nat * nat) :=
  match cs with
  | [] => []
  | c :: cs' => match check_case c with
                | 0 => fails (S i) cs'
                | k => (i, k) :: fails (S i) cs'
                end
  end.

(* what the model says for the report: reconstructed trace, the model's script for it, the application *)
Definition explain (c : list Z * list Z * zscript) :=
  let '(old, new, s) := c in
  let t := trace_of_script s old in
  (t, valid_trace Z.eqb t old new, script_of_trace t old new, apply_script s old).

(* length of the reconstructed trace (compared by the check with an independently computed LCS length) *)
Definition trace_lengths (cs : list (list Z * list Z * zscript)) : list nat :=
  map (fun c => let '(old, _, s) := c in length (trace_of_script s old)) cs.
