(* C16 — text edits proposed by the language server.  Definitions only.

   Part 1 mirrors crates/samlang-services/src/ast_differ.rs, `list_differ::compute`:
   given a trace (matched index pairs, as `longest_trace` returns them) it builds
     - the delete script (old positions not in the trace, ascending),
     - the insert script (for k = -1 .. len-1 the new elements strictly between y_k and y_(k+1),
       inserted after old position x_k, -1 = before everything),
     - sorts (stable, by position then Insert < Delete < Replace),
     - fuses an Insert at i followed by a Delete at i+1 into a Replace at i+1 plus the
       remaining Insert at i+1 with `leading_separator = true` (the VecDeque loop).
   `separator` is always `None` inside `compute` and is not modelled.
   `longest_trace` (the BFS) is NOT modelled: validity of a trace is the decidable
   predicate `valid_trace`, evaluated on every case of the correspondence check.

   Part 2: text edits (range, replacement) on a document `list A`, applied back to front. *)
From Coq Require Import List ZArith Bool Arith Lia.
Import ListNotations.

(* ------------------------------------------------------------------ stable sort on a key *)
Section Sorting.
  Context {X : Type} (key : X -> Z * Z).

  Definition key_leb (a b : Z * Z) : bool :=
    (fst a <? fst b)%Z || ((fst a =? fst b)%Z && (snd a <=? snd b)%Z).
  Definition key_ltb (a b : Z * Z) : bool :=
    (fst a <? fst b)%Z || ((fst a =? fst b)%Z && (snd a <? snd b)%Z).

  (* x goes in front of the first element that is not smaller: equal keys keep their order (stable,
     like Rust's `sort_by`) *)
  Fixpoint insert_by (x : X) (l : list X) : list X :=
    match l with
    | [] => [x]
    | y :: l' => if key_leb (key x) (key y) then x :: l else y :: insert_by x l'
    end.
  Definition sort_by (l : list X) : list X := fold_right insert_by [] l.
End Sorting.

(* ------------------------------------------------------------------ part 1: edit scripts *)
Section Script.
  Context {A : Type}.

  Inductive change : Type :=
  | Replace (o n : A)
  | Delete (o : A)
  | Insert (items : list A) (leading : bool).

  (* (position, change): position of a Delete / Replace is the old index it acts on; an Insert goes
     after old index `position` (-1: in front of old index 0) *)
  Definition ichange : Type := (Z * change)%type.
  Definition script : Type := list ichange.
  Definition trace : Type := list (nat * nat).

  (* cmp_change_type_to_int / cmp_indexed_change_without_loc *)
  Definition ty (c : change) : Z :=
    match c with Insert _ _ => 1 | Delete _ => 2 | Replace _ _ => 3 end%Z.
  Definition ckey (c : ichange) : Z * Z := (fst c, ty (snd c)).

  Definition in_xs (t : trace) (p : nat) : bool := existsb (fun xy => fst xy =? p) t.

  (* (0..n) \ {x | (x,_) in trace}, sorted, each as Delete(old[pos]) *)
  Fixpoint deletes_from (t : trace) (p : nat) (old : list A) : script :=
    match old with
    | [] => []
    | a :: r => (if in_xs t p then [] else [(Z.of_nat p, Delete a)]) ++ deletes_from t (S p) r
    end.

  Definition slice (l : list A) (first last : nat) : list A := firstn (last - first) (skipn first l).

  Definition emit (new : list A) (first last : nat) (start : Z) : script :=
    if first <? last then [(start, Insert (slice new first last) false)] else [].

  (* the `while k < trace_len` loop: `first`/`start` come from trace[k], `last` from trace[k+1] *)
  Fixpoint inserts_from (new : list A) (first : nat) (start : Z) (t : trace) : script :=
    match t with
    | [] => emit new first (length new) start
    | (x, y) :: t' => emit new first y start ++ inserts_from new (S y) (Z.of_nat x) t'
    end.
  Definition inserts (t : trace) (new : list A) : script := inserts_from new 0 (-1)%Z t.

  (* the VecDeque loop; every iteration shortens the queue, fuel = its length.
     `items[0]` of an empty Insert would be an index panic in Rust: the model stops ([]); Inserts
     built by `emit` are never empty (Proofs.v, sorted_inserts_nonempty). *)
  Fixpoint fuse (fuel : nat) (q : script) : script :=
    match fuel with
    | O => []
    | S f =>
      match q with
      | [] => []
      | curr :: q1 =>
        match q1 with
        | [] => [curr]
        | next :: q2 =>
          match curr, next with
          | (i1, Insert items ld), (i2, Delete y) =>
            if (i1 =? i2 - 1)%Z then
              match items with
              | [] => []
              | a :: rest =>
                (i2, Replace y a) ::
                  (if 1 <? length items then fuse f ((i2, Insert rest true) :: q2) else fuse f q2)
              end
            else curr :: fuse f q1
          | _, _ => curr :: fuse f q1
          end
        end
      end
    end.

  Definition presort (t : trace) (old new : list A) : script := deletes_from t 0 old ++ inserts t new.

  Definition script_of_trace (t : trace) (old new : list A) : script :=
    let s := sort_by ckey (presort t old new) in fuse (length s) s.

  (* ---- what a script means: a patch interpreter that walks the old list with a cursor `i`
     (`rest` = old[i..]).  None: the script is not applicable (positions not ascending / out of range). *)
  Fixpoint run (s : script) (i : nat) (rest : list A) : option (list A) :=
    match s with
    | [] => Some rest
    | (k, c) :: s' =>
      match c with
      | Insert items _ =>
        let target := Z.to_nat (k + 1) in
        if (k <? -1)%Z || (target <? i) || (length rest <? target - i) then None
        else option_map (fun r => firstn (target - i) rest ++ items ++ r)
                        (run s' target (skipn (target - i) rest))
      | Delete _ =>
        if (k <? 0)%Z || (Z.to_nat k <? i) then None
        else match skipn (Z.to_nat k - i) rest with
             | [] => None
             | _ :: rest' => option_map (fun r => firstn (Z.to_nat k - i) rest ++ r)
                                        (run s' (S (Z.to_nat k)) rest')
             end
      | Replace _ n =>
        if (k <? 0)%Z || (Z.to_nat k <? i) then None
        else match skipn (Z.to_nat k - i) rest with
             | [] => None
             | _ :: rest' => option_map (fun r => firstn (Z.to_nat k - i) rest ++ n :: r)
                                        (run s' (S (Z.to_nat k)) rest')
             end
      end
    end.
  Definition apply_script (s : script) (old : list A) : option (list A) := run s 0 old.

  (* ---- valid traces: strictly increasing in both components, in range, equal elements *)
  Variable eqb : A -> A -> bool.
  Fixpoint valid_from (i j : nat) (t : trace) (old new : list A) : bool :=
    match t with
    | [] => true
    | (x, y) :: t' =>
      (i <=? x) && (j <=? y) &&
      match nth_error old x, nth_error new y with
      | Some a, Some b => eqb a b
      | _, _ => false
      end && valid_from (S x) (S y) t' old new
    end.
  Definition valid_trace (t : trace) (old new : list A) : bool := valid_from 0 0 t old new.
End Script.

Arguments change : clear implicits.
Arguments ichange : clear implicits.
Arguments script : clear implicits.

(* ------------------------------------------------------------------ part 2: text edits *)
Section Edits.
  Context {A : Type}.

  (* replace doc[e_start, e_end) by e_text; offsets into the ORIGINAL document *)
  Record edit : Type := mkEdit { e_start : nat; e_end : nat; e_text : list A }.

  Definition splice (d : list A) (e : edit) : list A :=
    firstn (e_start e) d ++ e_text e ++ skipn (e_end e) d.

  Definition in_doc (d : list A) (e : edit) : Prop := e_start e <= e_end e /\ e_end e <= length d.

  (* a lies strictly in front of b: ranges do not overlap (they may touch) and the start points differ,
     so two insertions at one point — whose relative order a range cannot express — are excluded *)
  Definition edit_before (a b : edit) : Prop := e_end a <= e_start b /\ e_start a < e_start b.
  Definition disjoint2 (a b : edit) : Prop := edit_before a b \/ edit_before b a.
  Definition pairwise_disjoint (es : list edit) : Prop := ForallOrdPairs disjoint2 es.

  (* application back to front: later ranges first, so earlier offsets stay valid *)
  Definition ekey (e : edit) : Z * Z := ((- Z.of_nat (e_start e))%Z, 0%Z).
  Definition apply_edits (es : list edit) (d : list A) : list A :=
    fold_left splice (sort_by ekey es) d.

  (* the same edits applied front to back in one pass over the document:
     `pos` = offset already consumed, `rest` = doc[pos..] *)
  Fixpoint subst_asc (es : list edit) (pos : nat) (rest : list A) : list A :=
    match es with
    | [] => rest
    | e :: es' =>
      firstn (e_start e - pos) rest ++ e_text e ++ subst_asc es' (e_end e) (skipn (e_end e - pos) rest)
    end.
  Definition apply_front_to_back (es : list edit) (d : list A) : list A := subst_asc es 0 d.

  (* ascending and disjoint *)
  Fixpoint ascending (es : list edit) : Prop :=
    match es with
    | [] => True
    | a :: es' => Forall (edit_before a) es' /\ ascending es'
    end.
End Edits.

Arguments edit : clear implicits.
