(* C16 — lemmas.  Part 0: the stable insertion sort returns THE strictly sorted permutation.
   Part 1: script_of_trace on a valid trace, closed form, and its application.
   Part 2: text edits. *)
From Coq Require Import List ZArith Bool Arith Lia Permutation Sorting.Sorted.
Import ListNotations.
From SV Require Import C16.Model.

(* ------------------------------------------------------------------ part 0: sorting *)
Lemma key_leb_false_ltb : forall a b, key_leb a b = false -> key_ltb b a = true.
Proof.
  intros [a1 a2] [b1 b2]; unfold key_leb, key_ltb; cbn.
  rewrite orb_false_iff, andb_false_iff, !Z.ltb_ge, Z.eqb_neq, Z.leb_gt.
  intros [H1 H2]. apply orb_true_iff.
  destruct (Z.eq_dec a1 b1) as [->|Hn].
  - right. rewrite Z.eqb_refl. cbn. apply Z.ltb_lt. destruct H2; [congruence|lia].
  - left. apply Z.ltb_lt. lia.
Qed.

Lemma key_ltb_leb : forall a b, key_ltb a b = true -> key_leb a b = true.
Proof.
  intros [a1 a2] [b1 b2]; unfold key_leb, key_ltb; cbn.
  rewrite !orb_true_iff, !andb_true_iff, !Z.ltb_lt, Z.leb_le. intuition lia.
Qed.

Lemma key_ltb_not_leb : forall a b, key_ltb a b = true -> key_leb b a = true -> False.
Proof.
  intros [a1 a2] [b1 b2]; unfold key_leb, key_ltb; cbn.
  rewrite !orb_true_iff, !andb_true_iff, !Z.ltb_lt, !Z.eqb_eq, Z.leb_le. intuition lia.
Qed.

Lemma key_leb_neq_ltb : forall a b, key_leb a b = true -> a <> b -> key_ltb a b = true.
Proof.
  intros [a1 a2] [b1 b2]; unfold key_leb, key_ltb; cbn.
  rewrite !orb_true_iff, !andb_true_iff, !Z.ltb_lt, !Z.eqb_eq, Z.leb_le.
  intros H Hn. destruct H as [H|[H1 H2]]; [now left|]. right. split; [assumption|].
  destruct (Z.eq_dec a2 b2); [subst; congruence|lia].
Qed.

Lemma key_leb_trans : forall a b c, key_leb a b = true -> key_leb b c = true -> key_leb a c = true.
Proof.
  intros [a1 a2] [b1 b2] [c1 c2]; unfold key_leb; cbn.
  rewrite !orb_true_iff, !andb_true_iff, !Z.ltb_lt, !Z.eqb_eq, !Z.leb_le. intuition lia.
Qed.

Section SortingFacts.
  Context {X : Type} (key : X -> Z * Z).

  Definition sorted_le : list X -> Prop := StronglySorted (fun x y => key_leb (key x) (key y) = true).
  Definition sorted_lt : list X -> Prop := StronglySorted (fun x y => key_ltb (key x) (key y) = true).

  Lemma insert_by_perm : forall x l, Permutation (insert_by key x l) (x :: l).
  Proof.
    induction l as [|y l IH]; cbn; [reflexivity|].
    destruct (key_leb (key x) (key y)); [reflexivity|].
    rewrite IH. apply perm_swap.
  Qed.

  Lemma sort_by_perm : forall l, Permutation (sort_by key l) l.
  Proof.
    induction l as [|x l IH]; cbn; [reflexivity|].
    rewrite insert_by_perm. now constructor.
  Qed.

  Lemma insert_by_sorted : forall x l, sorted_le l -> sorted_le (insert_by key x l).
  Proof.
    induction l as [|y l IH]; cbn; intros Hs.
    - constructor; constructor.
    - destruct (key_leb (key x) (key y)) eqn:E.
      + constructor; [assumption|]. constructor; [assumption|].
        inversion Hs; subst. eapply Forall_impl; [|eassumption].
        cbn. intros z Hz. eapply key_leb_trans; eassumption.
      + inversion Hs as [|? ? Hs' Hall]; subst. constructor; [now apply IH|].
        eapply Permutation_Forall; [symmetry; apply insert_by_perm|].
        constructor; [|assumption]. apply key_ltb_leb, key_leb_false_ltb, E.
  Qed.

  Lemma sort_by_sorted : forall l, sorted_le (sort_by key l).
  Proof.
    induction l as [|x l IH]; cbn; [constructor|]. now apply insert_by_sorted.
  Qed.

  (* a weakly sorted list and a strictly sorted list with the same elements are the same list *)
  Lemma sorted_unique : forall l1 l2, sorted_le l1 -> sorted_lt l2 -> Permutation l1 l2 -> l1 = l2.
  Proof.
    induction l1 as [|a l1 IH]; intros l2 H1 H2 HP.
    - apply Permutation_nil in HP. now subst.
    - destruct l2 as [|b l2]; [symmetry in HP; apply Permutation_nil in HP; discriminate|].
      inversion H1 as [|? ? H1' Ha]; subst. inversion H2 as [|? ? H2' Hb]; subst.
      assert (Hab : a = b).
      { assert (Ia : In a (b :: l2)) by (eapply Permutation_in; [exact HP|now left]).
        destruct Ia as [->|Ia]; [reflexivity|].
        assert (Ib : In b (a :: l1)) by (eapply Permutation_in; [symmetry; exact HP|now left]).
        destruct Ib as [->|Ib]; [reflexivity|].
        rewrite Forall_forall in Ha, Hb. exfalso.
        eapply key_ltb_not_leb; [apply Hb, Ia|apply Ha, Ib]. }
      subst b. f_equal. apply IH; try assumption. eapply Permutation_cons_inv; eassumption.
  Qed.

  Lemma sort_by_unique : forall l l', sorted_lt l' -> Permutation l l' -> sort_by key l = l'.
  Proof.
    intros l l' Hs HP. apply sorted_unique; [apply sort_by_sorted|assumption|].
    rewrite sort_by_perm. assumption.
  Qed.

  Lemma sorted_le_nodup_lt : forall l, sorted_le l -> NoDup (map key l) -> sorted_lt l.
  Proof.
    induction l as [|a l IH]; intros Hs Hn; [constructor|].
    inversion Hs as [|? ? Hs' Ha]; subst. inversion Hn as [|? ? Hni Hn']; subst.
    constructor; [now apply IH|].
    rewrite Forall_forall in *. intros y Hy. apply key_leb_neq_ltb; [now apply Ha|].
    intros E. apply Hni. rewrite E. now apply in_map.
  Qed.

  Lemma sort_by_perm_eq : forall l l', NoDup (map key l) -> Permutation l l' ->
    sort_by key l = sort_by key l'.
  Proof.
    intros l l' Hn HP. symmetry. apply sort_by_unique.
    - apply sorted_le_nodup_lt; [apply sort_by_sorted|].
      eapply Permutation_NoDup; [|exact Hn]. apply Permutation_map. symmetry. apply sort_by_perm.
    - rewrite <- HP. symmetry. rewrite sort_by_perm. reflexivity.
  Qed.
End SortingFacts.

(* ------------------------------------------------------------------ part 1: scripts *)
Section ListFacts.
  Context {A : Type}.

  Lemma skipn_nth_error : forall (l : list A) x a, nth_error l x = Some a -> skipn x l = a :: skipn (S x) l.
  Proof.
    induction l as [|b l IH]; intros [|x] a H; cbn in *; try discriminate.
    - now inversion H.
    - now apply IH.
  Qed.

  Lemma skipn_skipn' : forall (l : list A) a b, skipn a (skipn b l) = skipn (b + a) l.
  Proof.
    intros l a b. revert l. induction b as [|b IH]; intros l; cbn; [reflexivity|].
    destruct l; [now rewrite !skipn_nil|]. apply IH.
  Qed.

  Lemma slice_split : forall (l : list A) i x a, i <= x -> nth_error l x = Some a ->
    skipn i l = slice l i x ++ a :: skipn (S x) l.
  Proof.
    intros l i x a Hi Hx. unfold slice.
    rewrite <- (firstn_skipn (x - i) (skipn i l)) at 1. f_equal.
    rewrite skipn_skipn'. replace (i + (x - i)) with x by lia. now apply skipn_nth_error.
  Qed.

  Lemma slice_length : forall (l : list A) i x, x <= length l -> length (slice l i x) = x - i.
  Proof. intros. unfold slice. rewrite firstn_length, skipn_length. lia. Qed.

  Lemma slice_to_end : forall (l : list A) i, slice l i (length l) = skipn i l.
  Proof. intros. unfold slice. apply firstn_all2. rewrite skipn_length. lia. Qed.

  Lemma nth_error_lt : forall (l : list A) x a, nth_error l x = Some a -> x < length l.
  Proof. intros l x a H. apply nth_error_Some. congruence. Qed.
End ListFacts.

Section ScriptFacts.
  Context {A : Type}.

  Fixpoint dels (i : nat) (ds : list A) : script A :=
    match ds with [] => [] | o :: ds' => (Z.of_nat i, Delete o) :: dels (S i) ds' end.

  (* one segment between two matched pairs, before fusion: the Insert after old index i-1, then the
     Deletes of old[i..i+|ds|) *)
  Definition useg (i : nat) (ds g : list A) (ld : bool) : script A :=
    match g with [] => [] | _ :: _ => [((Z.of_nat i - 1)%Z, Insert g ld)] end ++ dels i ds.

  (* ... and after fusion *)
  Fixpoint seg (i : nat) (ds g : list A) (ld : bool) : script A :=
    match ds, g with
    | [], [] => []
    | [], _ :: _ => [((Z.of_nat i - 1)%Z, Insert g ld)]
    | o :: ds', [] => (Z.of_nat i, Delete o) :: seg (S i) ds' [] true
    | o :: ds', a :: g' => (Z.of_nat i, Replace o a) :: seg (S i) ds' g' true
    end.

  Lemma seg_nil_dels : forall ds i ld, seg i ds [] ld = dels i ds.
  Proof. induction ds as [|o ds IH]; intros; cbn; [reflexivity|]. now rewrite IH. Qed.

  (* ---- the queue loop *)
  Lemma fuse_fuel : forall f1 f2 (q : script A), length q <= f1 -> length q <= f2 -> fuse f1 q = fuse f2 q.
  Proof.
    induction f1 as [|f1 IH]; intros f2 q H1 H2.
    - destruct q; [|cbn in H1; lia]. destruct f2; reflexivity.
    - destruct f2 as [|f2]. { destruct q; [reflexivity|cbn in H2; lia]. }
      destruct q as [|curr q1]; [reflexivity|]. destruct q1 as [|next q2]; [reflexivity|].
      cbn in H1, H2. cbn [fuse].
      destruct curr as [i1 c1], next as [i2 c2].
      destruct c1, c2; try (f_equal; apply IH; cbn; lia).
      destruct (i1 =? i2 - 1)%Z; [|f_equal; apply IH; cbn; lia].
      destruct items as [|a rest]; [reflexivity|]. f_equal.
      destruct (1 <? length (a :: rest)); apply IH; cbn; lia.
  Qed.

  Definition fuseN (q : script A) : script A := fuse (length q) q.

  Lemma fuseN_cons_other : forall c n q2,
    (forall items ld y, snd c = Insert items ld -> snd n = Delete y -> fst c <> (fst n - 1)%Z) ->
    fuseN (c :: n :: q2) = c :: fuseN (n :: q2).
  Proof.
    intros [i1 c1] [i2 c2] q2 H. unfold fuseN. cbn [length fuse].
    destruct c1, c2; try reflexivity.
    destruct (i1 =? i2 - 1)%Z eqn:E; [|reflexivity].
    apply Z.eqb_eq in E. exfalso. eapply H; cbn; eauto.
  Qed.

  Lemma fuse_S_ins_del : forall f i2 a rest ld y (q2 : script A),
    fuse (S f) (((i2 - 1)%Z, Insert (a :: rest) ld) :: (i2, Delete y) :: q2) =
    (i2, Replace y a) ::
      (if 1 <? length (a :: rest) then fuse f ((i2, Insert rest true) :: q2) else fuse f q2).
  Proof. intros. cbn [fuse]. rewrite Z.eqb_refl. reflexivity. Qed.

  Lemma fuseN_fuse : forall i2 a rest ld y q2,
    fuseN (((i2 - 1)%Z, Insert (a :: rest) ld) :: (i2, Delete y) :: q2) =
    (i2, Replace y a) :: match rest with
                         | [] => fuseN q2
                         | _ :: _ => fuseN ((i2, Insert rest true) :: q2)
                         end.
  Proof.
    intros. unfold fuseN. cbn [length]. rewrite fuse_S_ins_del. f_equal.
    destruct rest as [|b r]; cbn [length Nat.ltb Nat.leb].
    - apply fuse_fuel; lia.
    - reflexivity.
  Qed.

  Definition no_fuse_head (p : Z) (rest : script A) : Prop :=
    match rest with (i2, Delete _) :: _ => i2 <> (p + 1)%Z | _ => True end.

  Lemma fuseN_dels : forall ds i rest, fuseN (dels i ds ++ rest) = dels i ds ++ fuseN rest.
  Proof.
    induction ds as [|o ds IH]; intros i rest; [reflexivity|].
    cbn [dels app]. rewrite <- IH.
    destruct (dels (S i) ds ++ rest) as [|n q2]; [reflexivity|].
    apply fuseN_cons_other. intros; cbn in *; discriminate.
  Qed.

  Lemma fuseN_useg : forall ds i g ld rest,
    no_fuse_head (Z.of_nat (i + length ds) - 1) rest ->
    fuseN (useg i ds g ld ++ rest) = seg i ds g ld ++ fuseN rest.
  Proof.
    induction ds as [|o ds IH]; intros i g ld rest Hh.
    - destruct g as [|a g']; [reflexivity|].
      unfold useg. cbn [dels app seg].
      destruct rest as [|[i2 c2] q2]; [reflexivity|].
      apply fuseN_cons_other. intros items ld' y _ Hc. cbn in Hc. subst c2. cbn in *.
      rewrite Nat.add_0_r in Hh. lia.
    - destruct g as [|a g'].
      + unfold useg. cbn [app]. rewrite fuseN_dels. now rewrite seg_nil_dels.
      + unfold useg. cbn [app dels seg]. rewrite fuseN_fuse. f_equal.
        assert (Hh' : no_fuse_head (Z.of_nat (S i + length ds) - 1) rest).
        { replace (S i + length ds) with (i + length (o :: ds)) by (cbn; lia). exact Hh. }
        specialize (IH (S i) g' true rest Hh'). unfold useg in IH.
        destruct g' as [|b g'']; cbn [app] in IH |- *.
        * exact IH.
        * replace (Z.of_nat (S i) - 1)%Z with (Z.of_nat i) in IH by lia. exact IH.
  Qed.

  (* ---- the application of a fused segment *)
  Ltac finish_run s' rest :=
    cbn [length];
    match goal with
    | |- _ = option_map _ (run s' ?n2 rest) =>
      repeat match goal with
             | |- context [run s' ?n1 rest] =>
               lazymatch n1 with n2 => fail | _ => replace n1 with n2 by lia end
             end
    end;
    destruct (run s' _ rest); reflexivity.

  Lemma run_seg : forall ds g i ld pre rest (s' : script A),
    length pre <= i -> (ds <> [] \/ g <> []) ->
    run (seg i ds g ld ++ s') (i - length pre) (pre ++ ds ++ rest) =
    option_map (fun r => pre ++ g ++ r) (run s' (i + length ds) rest).
  Proof.
    induction ds as [|o ds IH]; intros g i ld pre rest s' Hp Hne.
    - destruct g as [|a g']; [destruct Hne; congruence|].
      cbn [seg app run length].
      replace (Z.of_nat i - 1 + 1)%Z with (Z.of_nat i) by lia. rewrite Nat2Z.id.
      replace (Z.of_nat i - 1 <? -1)%Z with false by (symmetry; apply Z.ltb_ge; lia).
      replace (i <? i - length pre) with false by (symmetry; apply Nat.ltb_ge; lia).
      replace (i - (i - length pre)) with (length pre) by lia.
      replace (length (pre ++ rest) <? length pre) with false
        by (symmetry; apply Nat.ltb_ge; rewrite app_length; lia).
      cbn [orb]. rewrite firstn_app, Nat.sub_diag, firstn_all, firstn_O, app_nil_r.
      rewrite skipn_app, Nat.sub_diag, skipn_all, skipn_O. cbn [app].
      rewrite Nat.add_0_r. reflexivity.
    - assert (Hk : (Z.of_nat i <? 0)%Z = false) by (apply Z.ltb_ge; lia).
      assert (Hc : (i <? i - length pre) = false) by (apply Nat.ltb_ge; lia).
      assert (Hsk : skipn (i - (i - length pre)) (pre ++ (o :: ds) ++ rest) = o :: ds ++ rest).
      { replace (i - (i - length pre)) with (length pre) by lia.
        rewrite skipn_app, Nat.sub_diag, skipn_all, skipn_O. reflexivity. }
      assert (Hfi : firstn (i - (i - length pre)) (pre ++ (o :: ds) ++ rest) = pre).
      { replace (i - (i - length pre)) with (length pre) by lia.
        rewrite firstn_app, Nat.sub_diag, firstn_all, firstn_O, app_nil_r. reflexivity. }
      cbn [app] in Hsk, Hfi.
      destruct g as [|a g'].
      + cbn [seg app run]. rewrite Nat2Z.id, Hk, Hc, Hsk, Hfi. cbn [orb].
        destruct ds as [|o' ds'].
        * cbn [seg app length]. replace (i + 1) with (S i) by lia.
          destruct (run s' (S i) rest); reflexivity.
        * assert (Hne' : o' :: ds' <> [] \/ @nil A <> []) by (left; discriminate).
          specialize (IH [] (S i) true [] rest s' (Nat.le_0_l _) Hne').
          cbn [length app] in IH |- *. rewrite Nat.sub_0_r in IH. rewrite IH. clear IH.
          finish_run s' rest.
      + cbn [seg app run]. rewrite Nat2Z.id, Hk, Hc, Hsk, Hfi. cbn [orb].
        destruct ds as [|o' ds'].
        * destruct g' as [|b g''].
          -- cbn [seg app length]. replace (i + 1) with (S i) by lia.
             destruct (run s' (S i) rest); reflexivity.
          -- assert (Hne' : @nil A <> [] \/ b :: g'' <> []) by (right; discriminate).
             specialize (IH (b :: g'') (S i) true [] rest s' (Nat.le_0_l _) Hne').
             cbn [length app] in IH |- *. rewrite Nat.sub_0_r in IH. rewrite IH. clear IH.
             finish_run s' rest.
        * assert (Hne' : o' :: ds' <> [] \/ g' <> []) by (left; discriminate).
          specialize (IH g' (S i) true [] rest s' (Nat.le_0_l _) Hne').
          cbn [length app] in IH |- *. rewrite Nat.sub_0_r in IH. rewrite IH. clear IH.
          finish_run s' rest.
  Qed.
End ScriptFacts.


Lemma perm4 : forall {X} (a b c d : list X), Permutation ((a ++ b) ++ (c ++ d)) ((c ++ a) ++ (b ++ d)).
Proof.
  intros. rewrite <- (app_assoc c a). rewrite (app_assoc a b d). apply Permutation_app_swap_app.
Qed.

Lemma nil_or_not : forall {X} (l : list X), l = [] \/ l <> [].
Proof. destruct l; [left|right]; congruence. Qed.

Section Correct.
  Context {A : Type} (eqb : A -> A -> bool).
  Hypothesis eqb_eq : forall a b, eqb a b = true -> a = b.
  Variables old new : list A.

  (* closed form of the sorted script (ugen) and of the fused script (gen) of a trace:
     i = next old index, j = next new index not yet covered *)
  Fixpoint ugen (i j : nat) (t : trace) : script A :=
    match t with
    | [] => useg i (skipn i old) (skipn j new) false
    | (x, y) :: t' => useg i (slice old i x) (slice new j y) false ++ ugen (S x) (S y) t'
    end.
  Fixpoint gen (i j : nat) (t : trace) : script A :=
    match t with
    | [] => seg i (skipn i old) (skipn j new) false
    | (x, y) :: t' => seg i (slice old i x) (slice new j y) false ++ gen (S x) (S y) t'
    end.

  Lemma valid_from_cons : forall i j x y t, valid_from eqb i j ((x, y) :: t) old new = true ->
    i <= x /\ j <= y /\ (exists a, nth_error old x = Some a /\ nth_error new y = Some a) /\
    valid_from eqb (S x) (S y) t old new = true.
  Proof.
    intros i j x y t H. cbn in H. rewrite !andb_true_iff in H. destruct H as [[[H1 H2] H3] H4].
    apply Nat.leb_le in H1, H2.
    destruct (nth_error old x) eqn:E1; destruct (nth_error new y) eqn:E2; try discriminate.
    apply eqb_eq in H3. subst. eauto 10.
  Qed.

  (* ---- positions *)
  Definition lb (lo : Z) (s : script A) : Prop := Forall (fun c => (lo <= fst c)%Z) s.
  Definition ub (hi : Z) (s : script A) : Prop := Forall (fun c => (fst c < hi)%Z) s.

  Lemma dels_lb : forall (ds : list A) i, lb (Z.of_nat i) (dels i ds).
  Proof.
    induction ds as [|o ds IH]; intros i; cbn; constructor; [cbn; lia|].
    eapply Forall_impl; [|apply IH]. cbn; intros; lia.
  Qed.
  Lemma dels_ub : forall (ds : list A) i, ub (Z.of_nat (i + length ds)) (dels i ds).
  Proof.
    induction ds as [|o ds IH]; intros i; cbn; constructor; [cbn; lia|].
    replace (i + S (length ds)) with (S i + length ds) by lia. apply IH.
  Qed.
  Lemma ckey_lt : forall (a b : ichange A), (fst a < fst b)%Z -> key_ltb (ckey a) (ckey b) = true.
  Proof. unfold key_ltb, ckey; cbn. intros. apply orb_true_iff; left. now apply Z.ltb_lt. Qed.
  Lemma dels_sorted : forall (ds : list A) i, sorted_lt ckey (dels i ds).
  Proof.
    induction ds as [|o ds IH]; intros i; cbn; constructor; [apply IH|].
    eapply Forall_impl; [|apply (dels_lb ds (S i))]. cbn. intros c Hc. apply ckey_lt. cbn. lia.
  Qed.
  Lemma useg_sorted : forall i (ds g : list A) ld, sorted_lt ckey (useg i ds g ld).
  Proof.
    intros. unfold useg. destruct g; cbn [app]; [apply dels_sorted|].
    constructor; [apply dels_sorted|].
    eapply Forall_impl; [|apply (dels_lb ds i)]. intros c Hc. apply ckey_lt. cbn in *. lia.
  Qed.
  Lemma useg_lb : forall i (ds g : list A) ld, lb (Z.of_nat i - 1) (useg i ds g ld).
  Proof.
    intros. unfold useg, lb. apply Forall_app; split.
    - destruct g; constructor; [cbn; lia|constructor].
    - eapply Forall_impl; [|apply dels_lb]. cbn; intros; lia.
  Qed.
  Lemma useg_ub : forall i (ds g : list A) ld, ub (Z.of_nat (i + length ds)) (useg i ds g ld).
  Proof.
    intros. unfold useg, ub. apply Forall_app; split.
    - destruct g; constructor; [cbn; lia|constructor].
    - apply dels_ub.
  Qed.
  Lemma sorted_lt_app : forall (l1 l2 : script A) m,
    sorted_lt ckey l1 -> sorted_lt ckey l2 -> ub m l1 -> lb m l2 -> sorted_lt ckey (l1 ++ l2).
  Proof.
    induction l1 as [|c l1 IH]; cbn; intros l2 m H1 H2 Hu Hl; [assumption|].
    inversion H1; subst. inversion Hu; subst. constructor; [eapply IH; eauto|].
    apply Forall_app; split; [assumption|].
    eapply Forall_impl; [|exact Hl]. intros d Hd. apply ckey_lt. cbn in *. lia.
  Qed.

  Lemma ugen_lb : forall t i j, valid_from eqb i j t old new = true -> lb (Z.of_nat i - 1) (ugen i j t).
  Proof.
    induction t as [|[x y] t IH]; intros i j Hv; cbn [ugen]; [apply useg_lb|].
    apply valid_from_cons in Hv as (Hi & Hj & _ & Hv').
    apply Forall_app; split; [apply useg_lb|].
    eapply Forall_impl; [|apply (IH _ _ Hv')]. intros c Hc; cbv beta in Hc |- *; lia.
  Qed.

  Lemma ugen_sorted : forall t i j, valid_from eqb i j t old new = true -> sorted_lt ckey (ugen i j t).
  Proof.
    induction t as [|[x y] t IH]; intros i j Hv; cbn [ugen]; [apply useg_sorted|].
    pose proof Hv as Hv0. apply valid_from_cons in Hv as (Hi & Hj & (a & Ho & Hn) & Hv').
    apply (sorted_lt_app _ _ (Z.of_nat x)).
    - apply useg_sorted.
    - now apply IH.
    - pose proof (useg_ub i (slice old i x) (slice new j y) false) as U.
      rewrite slice_length in U by (apply nth_error_lt in Ho; lia).
      replace (i + (x - i)) with x in U by lia. exact U.
    - pose proof (ugen_lb t (S x) (S y) Hv') as L.
      replace (Z.of_nat (S x) - 1)%Z with (Z.of_nat x) in L by lia. exact L.
  Qed.

  (* ---- the unsorted script is a permutation of the closed form *)
  Lemma in_xs_false_lt : forall t i j, valid_from eqb i j t old new = true ->
    forall q, q < i -> in_xs t q = false.
  Proof.
    induction t as [|[x y] t IH]; intros i j Hv q Hq; [reflexivity|].
    apply valid_from_cons in Hv as (Hi & Hj & _ & Hv'). cbn.
    replace (x =? q) with false by (symmetry; apply Nat.eqb_neq; lia). cbn.
    eapply IH; [exact Hv'|lia].
  Qed.

  Lemma deletes_from_app : forall t (l1 l2 : list A) p,
    deletes_from t p (l1 ++ l2) = deletes_from t p l1 ++ deletes_from t (p + length l1) l2.
  Proof.
    induction l1 as [|a l1 IH]; cbn; intros l2 p; [now rewrite Nat.add_0_r|].
    rewrite IH, <- app_assoc. replace (S p + length l1) with (p + S (length l1)) by lia. reflexivity.
  Qed.
  Lemma deletes_from_none : forall t (l : list A) p,
    (forall q, p <= q < p + length l -> in_xs t q = false) -> deletes_from t p l = dels p l.
  Proof.
    induction l as [|a l IH]; cbn; intros p H; [reflexivity|].
    rewrite (H p) by lia. cbn. f_equal. apply IH. intros; apply H; lia.
  Qed.
  Lemma deletes_from_ext : forall t t' (l : list A) p,
    (forall q, p <= q -> in_xs t q = in_xs t' q) -> deletes_from t p l = deletes_from t' p l.
  Proof.
    induction l as [|a l IH]; cbn; intros p H; [reflexivity|].
    rewrite (H p) by lia. f_equal. apply IH. intros; apply H; lia.
  Qed.

  Lemma emit_slice : forall j y start, y <= length new ->
    emit new j y start =
    match slice new j y with [] => [] | _ :: _ => [(start, Insert (slice new j y) false)] end.
  Proof.
    intros j y start H. unfold emit. pose proof (slice_length new j y H) as L.
    destruct (j <? y) eqn:E.
    - apply Nat.ltb_lt in E. destruct (slice new j y); [cbn in *; lia|reflexivity].
    - apply Nat.ltb_ge in E. destruct (slice new j y); [reflexivity|cbn in *; lia].
  Qed.

  Lemma presort_perm : forall t i j, valid_from eqb i j t old new = true ->
    Permutation (deletes_from t i (skipn i old) ++ inserts_from new j (Z.of_nat i - 1) t) (ugen i j t).
  Proof.
    induction t as [|[x y] t IH]; intros i j Hv.
    - cbn [inserts_from ugen]. rewrite deletes_from_none by (intros; reflexivity).
      rewrite emit_slice by lia. rewrite slice_to_end. unfold useg. apply Permutation_app_comm.
    - apply valid_from_cons in Hv as (Hi & Hj & (a & Ho & Hn) & Hv').
      cbn [inserts_from ugen].
      assert (Lo : length (slice old i x) = x - i) by (apply slice_length; apply nth_error_lt in Ho; lia).
      rewrite (slice_split old i x a Hi Ho).
      rewrite deletes_from_app, Lo. replace (i + (x - i)) with x by lia.
      rewrite (deletes_from_none ((x, y) :: t) (slice old i x) i).
      2:{ intros q Hq. rewrite Lo in Hq. cbn.
          replace (x =? q) with false by (symmetry; apply Nat.eqb_neq; lia). cbn.
          eapply in_xs_false_lt; [exact Hv'|lia]. }
      cbn [deletes_from]. replace (in_xs ((x, y) :: t) x) with true by (cbn; now rewrite Nat.eqb_refl).
      cbn [app].
      rewrite (deletes_from_ext ((x, y) :: t) t _ (S x))
        by (intros q Hq; cbn; replace (x =? q) with false by (symmetry; apply Nat.eqb_neq; lia); reflexivity).
      rewrite emit_slice by (apply nth_error_lt in Hn; lia).
      specialize (IH (S x) (S y) Hv'). replace (Z.of_nat (S x) - 1)%Z with (Z.of_nat x) in IH by lia.
      rewrite <- IH. unfold useg. apply perm4.
  Qed.

  (* ---- fusing the sorted script gives the closed form *)
  Lemma ugen_head : forall t i j p, valid_from eqb i j t old new = true -> (p + 1 < Z.of_nat i)%Z ->
    no_fuse_head p (ugen i j t).
  Proof.
    induction t as [|[x y] t IH]; intros i j p Hv Hp; cbn [ugen]; unfold useg.
    - destruct (skipn j new); cbn [app]; [|exact I]. destruct (skipn i old); cbn; [exact I|lia].
    - apply valid_from_cons in Hv as (Hi & Hj & _ & Hv').
      destruct (slice new j y); cbn [app]; [|exact I].
      destruct (slice old i x); cbn [dels app]; [|cbn; lia].
      apply IH; [assumption|lia].
  Qed.

  Lemma fuse_ugen : forall t i j, valid_from eqb i j t old new = true -> fuseN (ugen i j t) = gen i j t.
  Proof.
    induction t as [|[x y] t IH]; intros i j Hv; cbn [ugen gen].
    - rewrite <- (app_nil_r (useg _ _ _ _)). rewrite fuseN_useg by exact I. cbn. apply app_nil_r.
    - apply valid_from_cons in Hv as (Hi & Hj & (a & Ho & Hn) & Hv').
      rewrite fuseN_useg; [now rewrite IH|].
      apply ugen_head; [assumption|].
      rewrite slice_length by (apply nth_error_lt in Ho; lia). lia.
  Qed.

  (* ---- and applying the closed form to old gives new *)
  Lemma run_gen : forall t i j pre, valid_from eqb i j t old new = true -> length pre <= i ->
    run (gen i j t) (i - length pre) (pre ++ skipn i old) = Some (pre ++ skipn j new).
  Proof.
    induction t as [|[x y] t IH]; intros i j pre Hv Hp; cbn [gen].
    - destruct (nil_or_not (skipn i old)) as [Eo|Eo]; [destruct (nil_or_not (skipn j new)) as [En|En]|].
      + rewrite Eo, En. reflexivity.
      + rewrite <- (app_nil_r (seg _ _ _ _)).
        replace (pre ++ skipn i old) with (pre ++ skipn i old ++ []) by (now rewrite app_nil_r).
        rewrite run_seg by tauto. cbn [run option_map]. now rewrite app_nil_r.
      + rewrite <- (app_nil_r (seg _ _ _ _)).
        replace (pre ++ skipn i old) with (pre ++ skipn i old ++ []) by (now rewrite app_nil_r).
        rewrite run_seg by tauto. cbn [run option_map]. now rewrite app_nil_r.
    - apply valid_from_cons in Hv as (Hi & Hj & (a & Ho & Hn) & Hv').
      assert (Lo : length (slice old i x) = x - i) by (apply slice_length; apply nth_error_lt in Ho; lia).
      rewrite (slice_split old i x a Hi Ho), (slice_split new j y a Hj Hn).
      destruct (nil_or_not (slice old i x)) as [Eo|Eo];
        [destruct (nil_or_not (slice new j y)) as [En|En]|].
      + rewrite Eo in Lo. cbn in Lo. rewrite Eo, En. cbn [seg app].
        specialize (IH (S x) (S y) (pre ++ [a]) Hv').
        rewrite app_length in IH. cbn [length] in IH.
        replace (S x - (length pre + 1)) with (i - length pre) in IH by lia.
        rewrite <- !app_assoc in IH. cbn [app] in IH. apply IH. lia.
      + rewrite run_seg by tauto. rewrite Lo. replace (i + (x - i)) with x by lia.
        specialize (IH (S x) (S y) [a] Hv'). cbn [length app] in IH.
        replace (S x - 1) with x in IH by lia. rewrite IH by lia. reflexivity.
      + rewrite run_seg by tauto. rewrite Lo. replace (i + (x - i)) with x by lia.
        specialize (IH (S x) (S y) [a] Hv'). cbn [length app] in IH.
        replace (S x - 1) with x in IH by lia. rewrite IH by lia. reflexivity.
  Qed.

  Lemma sorted_presort : forall t, valid_trace eqb t old new = true ->
    sort_by ckey (presort t old new) = ugen 0 0 t.
  Proof.
    intros t Hv. apply sort_by_unique; [now apply ugen_sorted|].
    pose proof (presort_perm t 0 0 Hv) as P. exact P.
  Qed.

  Lemma script_closed_form : forall t, valid_trace eqb t old new = true ->
    script_of_trace t old new = gen 0 0 t.
  Proof.
    intros t Hv. unfold script_of_trace. cbv zeta. rewrite sorted_presort by assumption.
    apply (fuse_ugen t 0 0 Hv).
  Qed.

  Theorem script_correct : forall t, valid_trace eqb t old new = true ->
    apply_script (script_of_trace t old new) old = Some new.
  Proof.
    intros t Hv. rewrite script_closed_form by assumption.
    exact (run_gen t 0 0 [] Hv (Nat.le_refl _)).
  Qed.

  (* the `items[0]` of the queue loop is never taken on an empty Insert: every Insert of the sorted
     script carries at least one element *)
  Definition insert_nonempty (c : ichange A) : Prop :=
    match snd c with Insert items _ => items <> [] | _ => True end.

  Lemma useg_inserts_nonempty : forall (ds g : list A) i ld, Forall insert_nonempty (useg i ds g ld).
  Proof.
    intros. unfold useg. apply Forall_app; split.
    - destruct g; constructor; [cbn; discriminate|constructor].
    - revert i. induction ds as [|o ds IH]; intros i; cbn; constructor; [exact I|apply IH].
  Qed.

  Lemma sorted_inserts_nonempty : forall t, valid_trace eqb t old new = true ->
    Forall insert_nonempty (sort_by ckey (presort t old new)).
  Proof.
    intros t Hv. rewrite sorted_presort by assumption. clear Hv.
    assert (H : forall i j, Forall insert_nonempty (ugen i j t)).
    { induction t as [|[x y] t IH]; intros i j; cbn [ugen]; [apply useg_inserts_nonempty|].
      apply Forall_app; split; [apply useg_inserts_nonempty|apply IH]. }
    apply H.
  Qed.
End Correct.

(* ------------------------------------------------------------------ part 2: text edits *)
From Coq Require Import FinFun.

Section EditFacts.
  Context {A : Type}.

  Lemma disjoint_nodup_start : forall (es : list (edit A)), pairwise_disjoint es -> NoDup (map e_start es).
  Proof.
    induction 1 as [|a l Ha Hl IH]; cbn; constructor; [|assumption].
    intros Hin. apply in_map_iff in Hin as (b & Eb & Hb).
    rewrite Forall_forall in Ha. specialize (Ha b Hb). unfold disjoint2, edit_before in Ha. lia.
  Qed.

  Lemma nodup_ekey : forall (es : list (edit A)), NoDup (map e_start es) -> NoDup (map ekey es).
  Proof.
    intros es H.
    replace (map ekey es) with (map (fun s => ((- Z.of_nat s)%Z, 0%Z)) (map e_start es))
      by (rewrite map_map; reflexivity).
    apply Injective_map_NoDup; [|assumption].
    intros x y E. inversion E. lia.
  Qed.

  (* back-to-front application does not depend on the order in which the edits are listed *)
  Theorem edits_commute : forall (es es' : list (edit A)) d,
    Permutation es es' -> pairwise_disjoint es -> apply_edits es d = apply_edits es' d.
  Proof.
    intros es es' d HP Hd. unfold apply_edits.
    rewrite (sort_by_perm_eq ekey es es'); [reflexivity| |assumption].
    apply nodup_ekey, disjoint_nodup_start, Hd.
  Qed.

  Lemma ascending_disjoint : forall (es : list (edit A)), ascending es -> pairwise_disjoint es.
  Proof.
    induction es as [|a es IH]; cbn; intros H; [constructor|].
    destruct H as [Hb Ha]. constructor; [|now apply IH].
    eapply Forall_impl; [|exact Hb]. intros b Hab. now left.
  Qed.

  Lemma ss_snoc : forall {X} (R : X -> X -> Prop) l a,
    StronglySorted R l -> Forall (fun x => R x a) l -> StronglySorted R (l ++ [a]).
  Proof.
    induction l as [|b l IH]; cbn; intros a Hs Hf; [repeat constructor|].
    inversion Hs; subst. inversion Hf; subst. constructor; [now apply IH|].
    apply Forall_app; split; [assumption|]. now constructor.
  Qed.

  Lemma ascending_rev_sorted : forall (es : list (edit A)), ascending es -> sorted_lt ekey (rev es).
  Proof.
    induction es as [|a es IH]; cbn; intros H; [constructor|].
    destruct H as [Hb Ha]. apply ss_snoc; [now apply IH|].
    apply Forall_rev. eapply Forall_impl; [|exact Hb].
    intros b [_ Hlt]. unfold key_ltb, ekey; cbn. apply orb_true_iff; left. apply Z.ltb_lt. lia.
  Qed.

  Lemma firstn_split : forall (d : list A) p s, p <= s ->
    firstn s d = firstn p d ++ firstn (s - p) (skipn p d).
  Proof.
    intros d p s H. rewrite <- (firstn_skipn p d) at 1.
    rewrite firstn_app, firstn_firstn. replace (Init.Nat.min s p) with p by lia.
    f_equal. rewrite firstn_length.
    destruct (Nat.le_gt_cases p (length d)).
    - replace (Init.Nat.min p (length d)) with p by lia. reflexivity.
    - rewrite skipn_all2 by lia. now rewrite !firstn_nil.
  Qed.

  Lemma fold_rev_subst : forall (es : list (edit A)) pos d,
    ascending es -> Forall (in_doc d) es -> Forall (fun e => pos <= e_start e) es ->
    fold_left splice (rev es) d = firstn pos d ++ subst_asc es pos (skipn pos d).
  Proof.
    induction es as [|a es IH]; intros pos d Hasc Hin Hpos.
    - cbn. symmetry. apply firstn_skipn.
    - cbn [rev]. rewrite fold_left_app. cbn [fold_left].
      destruct Hasc as [Hb Hasc]. inversion Hin as [|? ? [Hse Hed] Hin']; subst.
      inversion Hpos as [|? ? Hp Hpos']; subst.
      rewrite (IH (e_end a) d Hasc Hin').
      2:{ eapply Forall_impl; [|exact Hb]. intros b [Hab _]. exact Hab. }
      unfold splice at 1. cbn [subst_asc].
      assert (L : length (firstn (e_end a) d) = e_end a) by (rewrite firstn_length; lia).
      rewrite firstn_app, L. replace (e_start a - e_end a) with 0 by lia.
      rewrite firstn_O, app_nil_r, firstn_firstn.
      replace (Init.Nat.min (e_start a) (e_end a)) with (e_start a) by lia.
      rewrite skipn_app, L, Nat.sub_diag, skipn_O.
      rewrite (skipn_all2 (firstn (e_end a) d)) by lia. cbn [app].
      rewrite skipn_skipn'. replace (pos + (e_end a - pos)) with (e_end a) by lia.
      rewrite (firstn_split d pos (e_start a) Hp). now rewrite <- app_assoc.
  Qed.

  (* ... and equals one pass from the front, in which every later range is read relative to what has
     already been consumed *)
  Theorem apply_edits_front_to_back : forall (es : list (edit A)) d,
    ascending es -> Forall (in_doc d) es -> apply_edits es d = apply_front_to_back es d.
  Proof.
    intros es d Hasc Hin. unfold apply_edits, apply_front_to_back.
    rewrite (sort_by_unique ekey es (rev es)).
    - rewrite (fold_rev_subst es 0 d Hasc Hin); [reflexivity|].
      apply Forall_forall. intros; lia.
    - now apply ascending_rev_sorted.
    - apply Permutation_rev.
  Qed.

  Theorem edits_any_order : forall (es es' : list (edit A)) d,
    Permutation es es' -> ascending es -> Forall (in_doc d) es ->
    apply_edits es' d = apply_front_to_back es d.
  Proof.
    intros es es' d HP Hasc Hin.
    rewrite <- (edits_commute es es' d HP (ascending_disjoint es Hasc)).
    now apply apply_edits_front_to_back.
  Qed.
End EditFacts.
