(* C16 — lemmas.  Part 0: the stable insertion sort returns THE strictly sorted permutation.
   Part 1: script_of_trace on a valid trace, closed form, and its application.
   Part 2: text edits. *)
From Coq Require Import List ZArith Bool Arith Lia Permutation Sorting.Sorted.
Import ListNotations.
From SV Require Import C16.Model.

(* ------------------------------------------------------------------ part 0: sorting *)
Lemma key_leb_false_ltb : forall a b, key_leb a b = false -> key_ltb b a = true.
Proof.
  intros [a1 a2] [b1 b2]; unfold key_leb, key_ltb; cbn.
  rewrite orb_false_iff, andb_false_iff, !Z.ltb_ge, Z.eqb_neq, Z.leb_gt.
  intros [H1 H2]. apply orb_true_iff.
  destruct (Z.eq_dec a1 b1) as [->|Hn].
  - right. rewrite Z.eqb_refl. cbn. apply Z.ltb_lt. destruct H2; [congruence|lia].
  - left. apply Z.ltb_lt. lia.
Qed.

Lemma key_ltb_leb : forall a b, key_ltb a b = true -> key_leb a b = true.
Proof.
  intros [a1 a2] [b1 b2]; unfold key_leb, key_ltb; cbn.
  rewrite !orb_true_iff, !andb_true_iff, !Z.ltb_lt, Z.leb_le. intuition lia.
Qed.

Lemma key_ltb_not_leb : forall a b, key_ltb a b = true -> key_leb b a = true -> False.
Proof.
  intros [a1 a2] [b1 b2]; unfold key_leb, key_ltb; cbn.
  rewrite !orb_true_iff, !andb_true_iff, !Z.ltb_lt, !Z.eqb_eq, Z.leb_le. intuition lia.
Qed.

Lemma key_leb_neq_ltb : forall a b, key_leb a b = true -> a <> b -> key_ltb a b = true.
Proof.
  intros [a1 a2] [b1 b2]; unfold key_leb, key_ltb; cbn.
  rewrite !orb_true_iff, !andb_true_iff, !Z.ltb_lt, !Z.eqb_eq, Z.leb_le.
  intros H Hn. destruct H as [H|[H1 H2]]; [now left|]. right. split; [assumption|].
  destruct (Z.eq_dec a2 b2); [subst; congruence|lia].
Qed.

Lemma key_leb_trans : forall a b c, key_leb a b = true -> key_leb b c = true -> key_leb a c = true.
Proof.
  intros [a1 a2] [b1 b2] [c1 c2]; unfold key_leb; cbn.
  rewrite !orb_true_iff, !andb_true_iff, !Z.ltb_lt, !Z.eqb_eq, !Z.leb_le. intuition lia.
Qed.

Section SortingFacts.
  Context {X : Type} (key : X -> Z * Z).

  Definition sorted_le : list X -> Prop := StronglySorted (fun x y => key_leb (key x) (key y) = true).
  Definition sorted_lt : list X -> Prop := StronglySorted (fun x y => key_ltb (key x) (key y) = true).

  Lemma insert_by_perm : forall x l, Permutation (insert_by key x l) (x :: l).
  Proof.
    induction l as [|y l IH]; cbn; [reflexivity|].
    destruct (key_leb (key x) (key y)); [reflexivity|].
    rewrite IH. apply perm_swap.
  Qed.

  Lemma sort_by_perm : forall l, Permutation (sort_by key l) l.
  Proof.
    induction l as [|x l IH]; cbn; [reflexivity|].
    rewrite insert_by_perm. now constructor.
  Qed.

  Lemma insert_by_sorted : forall x l, sorted_le l -> sorted_le (insert_by key x l).
  Proof.
    induction l as [|y l IH]; cbn; intros Hs.
    - constructor; constructor.
    - destruct (key_leb (key x) (key y)) eqn:E.
      + constructor; [assumption|]. constructor; [assumption|].
        inversion Hs; subst. eapply Forall_impl; [|eassumption].
        cbn. intros z Hz. eapply key_leb_trans; eassumption.
      + inversion Hs as [|? ? Hs' Hall]; subst. constructor; [now apply IH|].
        eapply Permutation_Forall; [symmetry; apply insert_by_perm|].
        constructor; [|assumption]. apply key_ltb_leb, key_leb_false_ltb, E.
  Qed.

  Lemma sort_by_sorted : forall l, sorted_le (sort_by key l).
  Proof.
    induction l as [|x l IH]; cbn; [constructor|]. now apply insert_by_sorted.
  Qed.

  (* a weakly sorted list and a strictly sorted list with the same elements are the same list *)
  Lemma sorted_unique : forall l1 l2, sorted_le l1 -> sorted_lt l2 -> Permutation l1 l2 -> l1 = l2.
  Proof.
    induction l1 as [|a l1 IH]; intros l2 H1 H2 HP.
    - apply Permutation_nil in HP. now subst.
    - destruct l2 as [|b l2]; [symmetry in HP; apply Permutation_nil in HP; discriminate|].
      inversion H1 as [|? ? H1' Ha]; subst. inversion H2 as [|? ? H2' Hb]; subst.
      assert (Hab : a = b).
      { assert (Ia : In a (b :: l2)) by (eapply Permutation_in; [exact HP|now left]).
        destruct Ia as [->|Ia]; [reflexivity|].
        assert (Ib : In b (a :: l1)) by (eapply Permutation_in; [symmetry; exact HP|now left]).
        destruct Ib as [->|Ib]; [reflexivity|].
        rewrite Forall_forall in Ha, Hb. exfalso.
        eapply key_ltb_not_leb; [apply Hb, Ia|apply Ha, Ib]. }
      subst b. f_equal. apply IH; try assumption. eapply Permutation_cons_inv; eassumption.
  Qed.

  Lemma sort_by_unique : forall l l', sorted_lt l' -> Permutation l l' -> sort_by key l = l'.
  Proof.
    intros l l' Hs HP. apply sorted_unique; [apply sort_by_sorted|assumption|].
    rewrite sort_by_perm. assumption.
  Qed.

  Lemma sorted_le_nodup_lt : forall l, sorted_le l -> NoDup (map key l) -> sorted_lt l.
  Proof.
    induction l as [|a l IH]; intros Hs Hn; [constructor|].
    inversion Hs as [|? ? Hs' Ha]; subst. inversion Hn as [|? ? Hni Hn']; subst.
    constructor; [now apply IH|].
    rewrite Forall_forall in *. intros y Hy. apply key_leb_neq_ltb; [now apply Ha|].
    intros E. apply Hni. rewrite E. now apply in_map.
  Qed.

  Lemma sort_by_perm_eq : forall l l', NoDup (map key l) -> Permutation l l' ->
    sort_by key l = sort_by key l'.
  Proof.
    intros l l' Hn HP. symmetry. apply sort_by_unique.
    - apply sorted_le_nodup_lt; [apply sort_by_sorted|].
      eapply Permutation_NoDup; [|exact Hn]. apply Permutation_map. symmetry. apply sort_by_perm.
    - rewrite <- HP. symmetry. rewrite sort_by_perm. reflexivity.
  Qed.
End SortingFacts.
