(* C16 — the property theorems.  Nothing but statements closed by `exact`, their
   Print Assumptions, and non-vacuity examples.  Parsed by /verif/check. *)
From Coq Require Import List ZArith Bool Arith Permutation.
Import ListNotations.
From SV Require Import C16.Model C16.Proofs.

(* For EVERY valid trace (strictly increasing matched index pairs with equal elements, whether or not
   it is a longest one) the script `list_differ::compute` builds from it — deletes, inserts, the
   stable sort, the insert+delete -> replace fusion with the remaining insert — turns old into new. *)
Theorem C16_script_correct : forall (A : Type) (eqb : A -> A -> bool),
  (forall a b, eqb a b = true -> a = b) ->
  forall (old new : list A) (t : trace),
  valid_trace eqb t old new = true ->
  apply_script (script_of_trace t old new) old = Some new.
Proof. exact (@script_correct). Qed.

(* On a valid trace the `items[0]` of the fusion loop never meets an empty Insert. *)
Theorem C16_inserts_nonempty : forall (A : Type) (eqb : A -> A -> bool),
  (forall a b, eqb a b = true -> a = b) ->
  forall (old new : list A) (t : trace),
  valid_trace eqb t old new = true ->
  Forall (fun c => match snd c with Insert items _ => items <> [] | _ => True end)
         (sort_by ckey (presort t old new)).
Proof. exact (@sorted_inserts_nonempty). Qed.

(* Text edits with pairwise disjoint ranges (they may touch; two insertions at one point are excluded)
   give the same text whatever the order in which they are listed ... *)
Theorem C16_edits_commute : forall (A : Type) (es es' : list (edit A)) (d : list A),
  Permutation es es' -> pairwise_disjoint es -> apply_edits es d = apply_edits es' d.
Proof. exact (@edits_commute). Qed.

(* ... and applying them back to front (offsets into the original text stay valid) is the same as one
   pass front to back that re-bases every later range: the result is the original text with exactly
   the ranges replaced. *)
Theorem C16_edits_any_order : forall (A : Type) (es es' : list (edit A)) (d : list A),
  Permutation es es' -> ascending es -> Forall (in_doc d) es ->
  apply_edits es' d = apply_front_to_back es d.
Proof. exact (@edits_any_order). Qed.

(* ---- non-vacuity *)
(* ast_differ.rs integration_tests: [1,22,3,4,5] -> [1,2,33,3,4,5] is "M 22 -> 2, + 33" *)
Example C16_script_nonvacuous :
  valid_trace Z.eqb [(0, 0); (2, 3); (3, 4); (4, 5)] [1; 22; 3; 4; 5]%Z [1; 2; 33; 3; 4; 5]%Z = true /\
  script_of_trace [(0, 0); (2, 3); (3, 4); (4, 5)] [1; 22; 3; 4; 5]%Z [1; 2; 33; 3; 4; 5]%Z
    = [(1%Z, Replace 22%Z 2%Z); (1%Z, Insert [33%Z] true)] /\
  (* a valid trace that is not a longest one: everything replaced *)
  valid_trace Z.eqb [] [1; 2]%Z [1; 2; 3]%Z = true /\
  script_of_trace [] [1; 2]%Z [1; 2; 3]%Z
    = [(0%Z, Replace 1%Z 1%Z); (1%Z, Replace 2%Z 2%Z); (1%Z, Insert [3%Z] true)] /\
  (* an invalid trace (elements differ) is rejected *)
  valid_trace Z.eqb [(0, 0)] [1]%Z [2]%Z = false.
Proof. vm_compute. repeat split. Qed.

Definition demo_doc : list nat := [0; 1; 2; 3; 4; 5; 6; 7].
Definition demo_edits : list (edit nat) :=
  [mkEdit 1 3 [10]; mkEdit 3 3 [11; 12]; mkEdit 5 8 []].
Example C16_edits_nonvacuous :
  ascending demo_edits /\ Forall (in_doc demo_doc) demo_edits /\
  apply_edits (rev demo_edits) demo_doc = [0; 10; 11; 12; 3; 4] /\
  apply_front_to_back demo_edits demo_doc = [0; 10; 11; 12; 3; 4].
Proof.
  unfold demo_edits, demo_doc, in_doc, edit_before; cbn.
  repeat (split || constructor || cbn || auto with arith).
Qed.

Print Assumptions C16_script_correct.
Print Assumptions C16_inserts_nonempty.
Print Assumptions C16_edits_commute.
Print Assumptions C16_edits_any_order.
