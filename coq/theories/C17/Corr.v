(* C17 — glue for the correspondence check: compares the model's trace with the
   observations the harness recorded from samlang_heap::Heap.  Definitions only. *)
From Coq Require Import List Arith Bool NArith.
Import ListNotations.
From SV Require Import C17.Model.

Definition ostr_eqb (a b : option str) : bool :=
  match a, b with Some x, Some y => str_eqb x y | None, None => true | _, _ => false end.
Fixpoint list_eqb {A} (f : A -> A -> bool) (a b : list A) : bool :=
  match a, b with
  | [], [] => true
  | x :: a', y :: b' => f x y && list_eqb f a' b'
  | _, _ => false
  end.
Definition obs_eqb (a b : obs) : bool :=
  match a, b with
  | ObsH x, ObsH y => handle_eqb x y
  | ObsM x, ObsM y => Nat.eqb x y
  | ObsB x, ObsB y => Bool.eqb x y
  | ObsU, ObsU => true
  | _, _ => false
  end.
Definition snap_eqb (a b : snapshot) : bool :=
  obs_eqb (sn_obs a) (sn_obs b) && list_eqb ostr_eqb (sn_reads a) (sn_reads b)
  && Nat.eqb (sn_slots a) (sn_slots b) && Nat.eqb (sn_dead a) (sn_dead b)
  && list_eqb str_eqb (sn_unmarked a) (sn_unmarked b).

(* index of the first step at which model and implementation differ *)
Fixpoint first_diff (i : N) (a b : list snapshot) : option N :=
  match a, b with
  | [], [] => None
  | x :: a', y :: b' => if snap_eqb x y then first_diff (i + 1) a' b' else Some i
  | _, _ => Some i
  end.

Definition check_case (c : list op * list snapshot) : option N :=
  first_diff 0 (trace init [] (fst c)) (snd c).

Fixpoint fails (i : N) (cs : list (list op * list snapshot)) : list (N * N) :=
  match cs with
  | [] => []
  | c :: cs' => match check_case c with
                | Some k => (i, k) :: fails (i + 1) cs'
                | None => fails (i + 1) cs'
                end
  end.

(* the model's own snapshot at step k, for the report *)
Definition model_snap (c : list op) (k : N) : option snapshot :=
  nth_error (trace init [] c) (N.to_nat k).
