(* C17 — model of samlang_heap::Heap (crates/samlang-heap/src/lib.rs).
   Definitions only: this file must keep running (vm_compute) even when a proof breaks.
   Strings are byte lists; `len` is the byte length the Rust code tests against 15. *)
From Coq Require Import List Arith Bool NArith Lia.
Import ListNotations.

Definition str := list N.

Fixpoint str_eqb (a b : str) : bool :=
  match a, b with
  | [], [] => true
  | x :: a', y :: b' => N.eqb x y && str_eqb a' b'
  | _, _ => false
  end.

Definition len (s : str) : nat := length s.
Definition empty : str := [].

Definition is_inline (s : str) : bool := len s <=? 15.

Inductive slot := Perm (s : str) | Temp (s : str) (marked : bool) | Dead.
Inductive handle := HInline (s : str) | HId (id : nat).

Definition handle_eqb (a b : handle) : bool :=
  match a, b with
  | HInline s, HInline t => str_eqb s t
  | HId i, HId j => Nat.eqb i j
  | _, _ => false
  end.

Fixpoint handles_eqb (a b : list handle) : bool :=
  match a, b with
  | [], [] => true
  | x :: a', y :: b' => handle_eqb x y && handles_eqb a' b'
  | _, _ => false
  end.

Record heap := mk {
  table : list slot;             (* str_pointer_table *)
  istr : list (str * nat);       (* interned_string *)
  istatic : list (str * nat);    (* interned_static_str *)
  mods : list (list handle);     (* module_reference_pointer_table (= interned_module_reference) *)
  unmarked : list nat;           (* unmarked_module_references *)
  sweep_index : nat
}.

Fixpoint lookup (s : str) (l : list (str * nat)) : option nat :=
  match l with
  | [] => None
  | (s', id) :: l' => if str_eqb s s' then Some id else lookup s l'
  end.

Fixpoint remove (s : str) (l : list (str * nat)) : list (str * nat) :=
  match l with
  | [] => []
  | (s', id) :: l' => if str_eqb s s' then remove s l' else (s', id) :: remove s l'
  end.

Fixpoint upd {A} (l : list A) (i : nat) (x : A) : list A :=
  match l, i with
  | [], _ => []
  | _ :: l', O => x :: l'
  | y :: l', S i' => y :: upd l' i' x
  end.

Definition slot_str (sl : slot) : option str :=
  match sl with Perm s => Some s | Temp s _ => Some s | Dead => None end.

Definition get (h : heap) (i : nat) : slot := nth i (table h) Dead.

(* PStr::as_str: None models the panic on a deallocated slot *)
Definition read (h : heap) (hd : handle) : option str :=
  match hd with
  | HInline s => Some s
  | HId i => slot_str (get h i)
  end.

(* Heap::alloc_string *)
Definition alloc_string (h : heap) (s : str) : handle * heap :=
  if is_inline s then (HInline s, h)
  else match lookup s (istatic h) with
       | Some id => (HId id, h)
       | None =>
           match lookup s (istr h) with
           | Some id => (HId id, h)
           | None =>
               let id := length (table h) in
               (HId id, mk (table h ++ [Temp s false]) ((s, id) :: istr h) (istatic h)
                           (mods h) (unmarked h) (sweep_index h))
           end
       end.

(* Heap::alloc_str_internal (alloc_str_for_test, module-reference parts from strings) *)
Definition alloc_static (h : heap) (s : str) : handle * heap :=
  if is_inline s then (HInline s, h)
  else match lookup s (istatic h) with
       | Some id => (HId id, h)
       | None =>
           match lookup s (istr h) with
           | Some id =>
               (HId id, mk (upd (table h) id (Perm s)) (remove s (istr h)) ((s, id) :: istatic h)
                           (mods h) (unmarked h) (sweep_index h))
           | None =>
               let id := length (table h) in
               (HId id, mk (table h ++ [Perm s]) (istr h) ((s, id) :: istatic h)
                           (mods h) (unmarked h) (sweep_index h))
           end
       end.

(* decimal rendering of a table index, for the "_t<id>" names *)
Fixpoint dec_digits (fuel : nat) (n : N) (acc : list N) : list N :=
  match fuel with
  | O => acc
  | S f => let acc' := (48 + N.modulo n 10)%N :: acc in
           if (n <? 10)%N then acc' else dec_digits f (N.div n 10) acc'
  end.
Definition dec (n : N) : list N := dec_digits 40 n [].
Definition temp_name (id : nat) : str := 95%N :: 116%N :: dec (N.of_nat id).

(* Heap::alloc_temp_str: the name is inline, a placeholder slot is pushed *)
Definition alloc_temp (h : heap) : handle * heap :=
  (HInline (temp_name (length (table h))),
   mk (table h ++ [Perm empty]) (istr h) (istatic h) (mods h) (unmarked h) (sweep_index h)).

(* Heap::sync_temp_counter: pad with placeholders up to the counter's value *)
Definition sync_temp (h : heap) (target : nat) : heap :=
  mk (table h ++ repeat (Perm empty) (target - length (table h))) (istr h) (istatic h)
     (mods h) (unmarked h) (sweep_index h).

(* create_temp_counter; k names taken from the counter while `extra` other temporaries are
   allocated on the heap itself; sync_temp_counter *)
Definition sync_temp_op (h : heap) (extra k : nat) : heap :=
  sync_temp (sync_temp h (length (table h) + extra)) (length (table h) + k).

(* Heap::make_string_permanent *)
Definition make_permanent (h : heap) (hd : handle) : heap :=
  match hd with
  | HInline _ => h
  | HId id =>
      match get h id with
      | Temp s _ => mk (upd (table h) id (Perm s)) (remove s (istr h)) ((s, id) :: istatic h)
                       (mods h) (unmarked h) (sweep_index h)
      | _ => h
      end
  end.

Fixpoint find_mod (parts : list handle) (ms : list (list handle)) (i : nat) : option nat :=
  match ms with
  | [] => None
  | m :: ms' => if handles_eqb parts m then Some i else find_mod parts ms' (S i)
  end.

(* Heap::alloc_module_reference *)
Definition alloc_modref (h : heap) (parts : list handle) : nat * heap :=
  match find_mod parts (mods h) 0 with
  | Some i => (i, h)
  | None =>
      let h1 := fold_left make_permanent parts h in
      (length (mods h),
       mk (table h1) (istr h1) (istatic h1) (mods h1 ++ [parts]) (unmarked h1) (sweep_index h1))
  end.

(* Heap::alloc_module_reference_from_string_vec *)
Fixpoint alloc_statics (h : heap) (ss : list str) : list handle * heap :=
  match ss with
  | [] => ([], h)
  | s :: ss' => let '(hd, h1) := alloc_static h s in
                let '(hds, h2) := alloc_statics h1 ss' in (hd :: hds, h2)
  end.
Definition alloc_modref_str (h : heap) (ss : list str) : nat * heap :=
  let '(parts, h1) := alloc_statics h ss in alloc_modref h1 parts.

(* Heap::mark *)
Definition mark (h : heap) (hd : handle) : heap :=
  match hd with
  | HInline _ => h
  | HId id =>
      match get h id with
      | Temp s _ => mk (upd (table h) id (Temp s true)) (istr h) (istatic h)
                       (mods h) (unmarked h) (sweep_index h)
      | _ => h
      end
  end.

Definition add_unmarked (h : heap) (m : nat) : heap :=
  mk (table h) (istr h) (istatic h) (mods h)
     (if existsb (Nat.eqb m) (unmarked h) then unmarked h else m :: unmarked h) (sweep_index h).

(* Heap::pop_unmarked_module_reference.  The HashSet iterator's choice is an argument,
   so every choice is covered.  `None` = the implementation answered None. *)
Definition pop_unmarked (h : heap) (m : option nat) : bool * heap :=
  match m, unmarked h with
  | None, [] => (true, h)
  | Some x, _ :: _ =>
      if existsb (Nat.eqb x) (unmarked h)
      then (true, mk (table h) (istr h) (istatic h) (mods h)
                     (filter (fun y => negb (Nat.eqb x y)) (unmarked h)) (sweep_index h))
      else (false, h)
  | _, _ => (false, h)
  end.

(* Heap::sweep: slots in [start, stop) are visited *)
Definition in_range (a b i : nat) : bool := (a <=? i) && (i <? b).
Definition sweep1 (sl : slot) : slot :=
  match sl with Temp s true => Temp s false | Temp s false => Dead | o => o end.
Fixpoint mapi_from {A} (f : nat -> A -> A) (i : nat) (l : list A) : list A :=
  match l with [] => [] | x :: l' => f i x :: mapi_from f (S i) l' end.
Fixpoint dead_strings (a b i : nat) (l : list slot) : list str :=
  match l with
  | [] => []
  | sl :: l' =>
      (if in_range a b i then match sl with Temp s false => [s] | _ => [] end else [])
      ++ dead_strings a b (S i) l'
  end.
Definition removes (ss : list str) (is : list (str * nat)) : list (str * nat) :=
  fold_left (fun is s => remove s is) ss is.

Definition sweep (h : heap) (n : nat) : heap :=
  match unmarked h with
  | _ :: _ => h
  | [] =>
      let start := sweep_index h in
      let max := length (table h) in
      let (stop, next) := if max <=? start + n then (max, 0) else (start + n, start + n) in
      mk (mapi_from (fun i sl => if in_range start stop i then sweep1 sl else sl) 0 (table h))
         (removes (dead_strings start stop 0 (table h)) (istr h))
         (istatic h) (mods h) [] next
  end.

(* ---------- operations and runs ---------- *)
Inductive op :=
| OAllocString (s : str)
| OAllocStatic (s : str)
| OAllocTemp
| OSyncTemp (extra k : nat)
| OMkModRef (parts : list handle)
| OMkModRefStr (parts : list str)
| OAddUnmarked (m : nat)
| OPop (m : option nat)
| OMark (hd : handle)
| OSweep (n : nat).

Inductive obs := ObsH (hd : handle) | ObsM (m : nat) | ObsB (b : bool) | ObsU.

Definition step (h : heap) (o : op) : obs * heap :=
  match o with
  | OAllocString s => let '(hd, h') := alloc_string h s in (ObsH hd, h')
  | OAllocStatic s => let '(hd, h') := alloc_static h s in (ObsH hd, h')
  | OAllocTemp => let '(hd, h') := alloc_temp h in (ObsH hd, h')
  | OSyncTemp extra k => (ObsU, sync_temp_op h extra k)
  | OMkModRef ps => let '(m, h') := alloc_modref h ps in (ObsM m, h')
  | OMkModRefStr ss => let '(m, h') := alloc_modref_str h ss in (ObsM m, h')
  | OAddUnmarked m => (ObsU, add_unmarked h m)
  | OPop m => let '(b, h') := pop_unmarked h m in (ObsB b, h')
  | OMark hd => (ObsU, mark h hd)
  | OSweep n => (ObsU, sweep h n)
  end.

Definition b (l : list N) : str := l.
(* Heap::new: ROOT = [], DUMMY = ["DUMMY"], STD_TUPLES = ["std"; "tuples"], all inline *)
Definition init : heap :=
  mk [] [] []
     [ []; [HInline [68;85;77;77;89]%N]; [HInline [115;116;100]%N; HInline [116;117;112;108;101;115]%N] ]
     [] 0.

Definition exec (h : heap) (ops : list op) : heap := fold_left (fun h o => snd (step h o)) ops h.
Definition run (ops : list op) : heap := exec init ops.

(* ---------- what the harness observes after every operation ---------- *)
Fixpoint str_ltb (a b : str) : bool :=
  match a, b with
  | [], [] => false
  | [], _ :: _ => true
  | _ :: _, [] => false
  | x :: a', y :: b' => if (x <? y)%N then true else if (y <? x)%N then false else str_ltb a' b'
  end.
Fixpoint insert_sorted (s : str) (l : list str) : list str :=
  match l with
  | [] => [s]
  | t :: l' => if str_ltb t s then t :: insert_sorted s l' else s :: l
  end.
Definition sort_strs (l : list str) : list str := fold_right insert_sorted [] l.

Definition unmarked_strings (h : heap) : list str :=
  sort_strs (flat_map (fun sl => match sl with Temp s false => [s] | _ => [] end) (table h)).
Definition count_dead (h : heap) : nat :=
  length (filter (fun sl => match sl with Dead => true | _ => false end) (table h)).

Record snapshot := mkSnap {
  sn_obs : obs;
  sn_reads : list (option str);       (* as_str of every handle handed out so far *)
  sn_slots : nat; sn_dead : nat;      (* stat() *)
  sn_unmarked : list str;             (* debug_unmarked_strings() *)
}.

Definition handles_of (o : obs) : list handle := match o with ObsH hd => [hd] | _ => [] end.

Fixpoint trace (h : heap) (hs : list handle) (ops : list op) : list snapshot :=
  match ops with
  | [] => []
  | o :: ops' =>
      let '(ob, h') := step h o in
      let hs' := hs ++ handles_of ob in
      mkSnap ob (map (read h') hs') (length (table h')) (count_dead h') (unmarked_strings h')
        :: trace h' hs' ops'
  end.

(* ---------- the 16-byte representation (PStrPrivateRepr) ---------- *)
(* little-endian: byte 0 = size, bytes 1..15 = storage; heap id: low 4 bytes = id, byte 15 = 255 *)
Definition repr128 (hd : handle) : list N :=
  match hd with
  | HInline s => N.of_nat (len s) :: s ++ repeat 0%N (15 - len s)
  | HId id =>
      let n := N.of_nat id in
      [N.modulo n 256; N.modulo (N.div n 256) 256; N.modulo (N.div n 65536) 256;
       N.modulo (N.div n 16777216) 256; 0;0;0;0; 0;0;0;0; 0;0;0; 255]%N
  end.
(* the discriminator the Rust code uses: (heap_id >> 120) == 255 *)
Definition tag_is_heap (r : list N) : bool := N.eqb (nth 15 r 0%N) 255.
